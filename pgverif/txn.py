"""E5 - transaction discipline of parsing/sqlite.py decided on abstract SQL traces.

Every public store operation is abstractly interpreted *through the real with_connection decorator* with
sqlite3 summarised: connect/cursor/execute/commit/rollback/close append events to a trace, SELECT results
fork (row found / absent), and every execute may raise one injected fault (IntegrityError, InterfaceError,
OperationalError) - the statement-position x fault-kind quantifier of C09 enumerated symbolically.
DDL (sqlite_db_pragmas.py) is parsed for columns, UNIQUE/NOT NULL and the foreign-key graph.
"""
from __future__ import annotations

import re

from . import libsum
from .absint import (ExcVal, FuncRef, Interp, NeedChoice, Obj, Opaque, Outcome, Raised, UnknownBool, _BUILTIN_EXC)
from .core import AnalysisError
from .num import Num
from .srcmodel import FuncInfo, SrcModel

SQLITE = "pygaps.parsing.sqlite"
FAULTS = ["IntegrityError", "InterfaceError", "OperationalError"]


# ---- DDL -------------------------------------------------------------------------------------------

class Table:
    def __init__(self, name):
        self.name = name
        self.columns = {}       # name -> {"type":..., "notnull":bool, "unique":bool, "pk":bool}
        self.fks = []           # (column, ref table, ref column)


def parse_ddl(I: Interp, model: SrcModel):
    mod = model.module("pygaps.utilities.sqlite_db_pragmas")
    pragmas = I.global_value(mod.name, "PRAGMAS")
    if not isinstance(pragmas, list) or not all(isinstance(x, str) for x in pragmas):
        raise AnalysisError("PRAGMAS is not a list of string literals")
    tables = {}
    for script in pragmas:
        for m in re.finditer(r"CREATE\s+TABLE\s+[`\"']?(\w+)[`\"']?\s*\((.*?)\)\s*;", script, re.S | re.I):
            t = Table(m.group(1))
            body = m.group(2)
            for part in _split_top(body):
                part = part.strip()
                if not part:
                    continue
                fk = re.match(r"FOREIGN\s+KEY\s*\(\s*[`\"']?(\w+)[`\"']?\s*\)\s*REFERENCES\s+[`\"']?(\w+)[`\"']?\s*\(\s*[`\"']?(\w+)[`\"']?\s*\)", part, re.I)
                if fk:
                    t.fks.append((fk.group(1), fk.group(2), fk.group(3)))
                    continue
                col = re.match(r"[`\"']?(\w+)[`\"']?\s+(\w+)(.*)", part, re.S)
                if not col:
                    raise AnalysisError(f"DDL of {t.name}: cannot parse column definition '{part}'")
                rest = col.group(3).upper()
                t.columns[col.group(1)] = {"type": col.group(2).upper(), "notnull": "NOT NULL" in rest,
                                           "unique": "UNIQUE" in rest or "PRIMARY KEY" in rest,
                                           "pk": "PRIMARY KEY" in rest,
                                           "collate": (re.search(r"COLLATE\s+(\w+)", rest) or [None, None])[1]}
            tables[t.name] = t
    if len(tables) < 10:
        raise AnalysisError(f"DDL: only {len(tables)} CREATE TABLE statements understood, expected 10")
    return tables


def _split_top(body):
    out, depth, cur = [], 0, ""
    for ch in body:
        if ch == "(":
            depth += 1
        elif ch == ")":
            depth -= 1
        if ch == "," and depth == 0:
            out.append(cur)
            cur = ""
        else:
            cur += ch
    out.append(cur)
    return out


# ---- SQL classification --------------------------------------------------------------------------------

def classify(sql):
    if not isinstance(sql, str):
        return ("UNKNOWN", None)
    s = sql.strip()
    kw = s.split(None, 1)[0].upper() if s else "?"
    table = None
    m = None
    if kw == "INSERT":
        m = re.match(r"INSERT\s+INTO\s+[`\"']?(\w+)", s, re.I)
    elif kw == "UPDATE":
        m = re.match(r"UPDATE\s+[`\"']?(\w+)", s, re.I)
    elif kw == "DELETE":
        m = re.match(r"DELETE\s+FROM\s+[`\"']?(\w+)", s, re.I)
    elif kw == "SELECT":
        m = re.search(r"\bFROM\s+[`\"']?(\w+)", s, re.I)
    elif kw == "PRAGMA":
        return ("PRAGMA", re.sub(r"\s+", " ", s[6:].strip()))
    if m:
        table = m.group(1)
    return (kw, table)


WRITE_KINDS = ("INSERT", "UPDATE", "DELETE")


# ---- abstract sqlite3 -----------------------------------------------------------------------------------

class SqlMachine:
    """Interp + summaries; self.trace is rebuilt per path by reset hooks"""

    def __init__(self, model: SrcModel, inject_faults=True):
        self.model = model
        self.I = Interp(model)
        libsum.install(self.I)
        self.inject = inject_faults
        self.tables = parse_ddl(self.I, model)
        self.trace = []
        self.nconn = 0
        self.fault_used = False
        self.cell_values = {}
        self.last_insert = {}
        self._install()

    def row_value(self, row, col):
        """abstract cell value; `self.cell_values[(table, col)]` pins adversarial concrete values"""
        v = self.cell_values.get((row.attrs.get("table"), col))
        if isinstance(v, list):
            return v[row.attrs.get("idx", 0) % len(v)]      # per-row values of a multi-row result
        if v is not None:
            return v
        return Opaque(f"{row.label}[{col}]")

    def reset_path(self):
        self.last_insert = {}
        self.trace = []
        self.nconn = 0
        self.fault_used = False

    def ev(self, *e):
        self.trace.append(tuple(e))

    def _install(self):
        I = self.I
        E, M, A = I.ext, I.libmeth, I.libattr
        mach = self

        def connect(I, a, k, n):
            mach.nconn += 1
            path = a[0] if a else k.get("database")
            mach.ev("connect", I.describe(path), tuple(sorted(k)), mach.nconn)
            return Obj(kind="Conn", label=f"conn{mach.nconn}", attrs={"n": mach.nconn})
        E["sqlite3.connect"] = connect
        E["sqlite3.Row"] = None
        A[("Conn", "row_factory")] = lambda I, v, n: Opaque("row_factory")
        M[("Conn", "cursor")] = lambda I, v, a, k, n: Obj(kind="Cursor", label=f"cursor{v.attrs['n']}", attrs={"n": v.attrs["n"], "last": None})

        def conn_ev(name):
            def f(I, v, a, k, n):
                mach.ev(name, v.attrs["n"])
                return None
            return f
        for nm in ("commit", "rollback", "close"):
            M[("Conn", nm)] = conn_ev(nm)

        def execute(I, cur, a, k, n, script=False):
            sql = a[0] if a else None
            kind, table = classify(sql)
            if len(a) > 1 or "parameters" in k:
                mach.ev("bind", kind, table, a[1] if len(a) > 1 else k["parameters"])      # the values bound to the statement
            mach.ev("script" if script else "sql", kind, table, sql if isinstance(sql, str) else I.describe(sql), cur.attrs["n"],
                    getattr(n, "lineno", None), I.stack[-1].short if I.stack else None)
            if mach.inject and not mach.fault_used and kind != "PRAGMA":
                c = I.choose(1 + len(FAULTS), f"fault@{kind}:{table}")
                if c > 0:
                    mach.fault_used = True
                    f = FAULTS[c - 1]
                    mach.ev("fault", f, kind, table)
                    raise Raised(ExcVal(_BUILTIN_EXC[f], node=n, msg="injected", func=I.stack[-1] if I.stack else None))
            cur.attrs["last"] = (kind, table)
            if kind == "INSERT":
                mach.last_insert[cur.attrs["n"]] = table
            cur.attrs["sql"] = sql if isinstance(sql, str) else None
            if cur.attrs.get("pending"):
                mach.ev("discard-pending", cur.attrs["pending"], kind, table)
            cur.attrs["pending"] = None
            return cur
        M[("Cursor", "execute")] = execute
        M[("Conn", "execute")] = lambda I, v, a, k, n: execute(I, Obj(kind="Cursor", attrs={"n": v.attrs["n"], "last": None}), a, k, n)
        M[("Cursor", "executescript")] = lambda I, v, a, k, n: execute(I, v, a, k, n, script=True)
        M[("Cursor", "executemany")] = execute

        def row_for(cur):
            kind, table = cur.attrs.get("last") or (None, None)
            cols = list(mach.tables[table].columns) if table in mach.tables else ["id"]
            sql = cur.attrs.get("sql")
            if sql:
                m = re.match(r"\s*SELECT\s+(.*?)\s+FROM\b", sql, re.I | re.S)
                if m and m.group(1).strip() != "*":
                    cols = [c.strip().strip("`\"'") for c in m.group(1).split(",")]
            return Obj(kind="Row", label=f"row:{table}", attrs={"cols": cols, "table": table, "idx": cur.attrs.get("_idx", 0)})

        def pinned_empty(cur):
            kind, table = cur.attrs.get("last") or (None, None)
            return kind == "SELECT" and table in getattr(mach, "empty_tables", ())      # a scenario pins this table as empty

        def fetchone(I, cur, a, k, n):
            if pinned_empty(cur):
                return None
            c = I.choose(2, f"fetchone:{cur.attrs.get('last')}")
            if c == 0:
                return row_for(cur)
            return None

        def fetchall(I, cur, a, k, n):
            kind, table = cur.attrs.get("last") or (None, None)
            many = getattr(mach, "multi_rows", {}).get(table)
            if many:
                # a pinned multi-row result (used to ask what a reader does with repeated rows)
                cur.attrs["pending"] = None
                rows = []
                for i in range(many):
                    cur.attrs["_idx"] = i
                    rows.append(row_for(cur))
                cur.attrs["_idx"] = 0
                return rows
            if pinned_empty(cur):
                cur.attrs["pending"] = None
                return []
            c = I.choose(2, f"fetchall:{cur.attrs.get('last')}")
            cur.attrs["pending"] = None
            return [row_for(cur)] if c == 0 else []

        def fetchmany(I, cur, a, k, n):
            if pinned_empty(cur):
                return []
            c = I.choose(2, f"fetchmany:{cur.attrs.get('last')}")
            if c == 0:
                cur.attrs["pending"] = cur.attrs.get("last")     # more rows of this result may remain
                return [row_for(cur)]
            return []
        M[("Cursor", "fetchone")] = fetchone
        M[("Cursor", "fetchall")] = fetchall
        M[("Cursor", "fetchmany")] = fetchmany
        M[("Cursor", "__iter__")] = fetchall
        A[("Cursor", "connection")] = lambda I, v, n: Obj(kind="Conn", label=f"conn{v.attrs['n']}", attrs={"n": v.attrs["n"]})
        M[("Cursor", "close")] = lambda I, v, a, k, n: mach.ev("cursor-close", v.attrs["n"])
        # lastrowid names the table of the cursor's most recent INSERT: a later INSERT (e.g. a nested auto-insert on the same cursor) changes it
        A[("Cursor", "lastrowid")] = lambda I, v, n: Num.atom("rowid:" + str(mach.last_insert.get(v.attrs["n"], "none")))
        A[("Cursor", "rowcount")] = lambda I, v, n: Num.atom("rowcount")

        def row_get(I, row, a, k, n):
            key = a[0]
            cols = row.attrs["cols"]
            if isinstance(key, str) and key not in cols:
                raise I.fault("IndexError", n, f"No item with that key: {key}")
            if isinstance(key, Num) and key.is_const():
                i = int(key.value())
                if i >= len(cols):
                    raise I.fault("IndexError", n, "row index out of range")
                key = cols[i]
            return mach.row_value(row, key)
        M[("Row", "__getitem__")] = row_get
        M[("Row", "keys")] = lambda I, row, a, k, n: list(row.attrs["cols"])
        M[("Row", "__iter__")] = lambda I, row, a, k, n: [mach.row_value(row, c) for c in row.attrs["cols"]]
        E["json.dumps"] = lambda I, a, k, n: Opaque("json")
        E["json.loads"] = lambda I, a, k, n: Opaque("parsed")
        E["functools.wraps"] = lambda I, a, k, n: Opaque("wraps", callable_=True)
        M[("Opaque:wraps", "__call__")] = lambda I, v, a, k, n: a[0]

    # ------------------------------------------------------------------
    def explore(self, thunk, max_paths=20000):
        """thunk(I) -> value; returns [(Outcome, trace)]"""
        I = self.I
        out = []
        work = [[]]
        while work:
            dec = work.pop()
            I.reset(dec)
            self.reset_path()
            try:
                try:
                    v = thunk(I)
                    oc = Outcome("ok", value=v)
                except Raised as r:
                    oc = Outcome("raise", exc=r.exc)
            except NeedChoice as nc:
                for i in reversed(range(nc.n)):
                    work.append(dec + [i])
                if len(out) + len(work) > max_paths:
                    raise AnalysisError(f"path explosion at '{nc.label}'")
                continue
            oc.decisions = list(I.dlabels)
            out.append((oc, list(self.trace)))
        return out


def wrapper_of(model: SrcModel):
    """the nested `wrapper` function of with_connection and the name of the wrapped-function variable"""
    wc = model.func(f"{SQLITE}.with_connection")
    import ast
    inner = [n for n in wc.node.body if isinstance(n, ast.FunctionDef)]
    returned = [r.value.id for r in wc.node.body if isinstance(r, ast.Return) and isinstance(r.value, ast.Name)]
    inner = [n for n in inner if n.name in returned] or inner
    if len(inner) != 1:
        raise AnalysisError("with_connection: cannot identify the wrapper function it returns")
    params = wc.params()
    if len(params) != 1:
        raise AnalysisError("with_connection no longer takes exactly the decorated function")
    return wc, FuncInfo(wc.module, inner[0], None), params[0]


def install_decorator(mach: SqlMachine):
    """calls of @with_connection functions run the real wrapper around the raw function"""
    model, I = mach.model, mach.I
    wc, wrapper, fparam = wrapper_of(model)

    def hook(I, fi, args, kwargs, node):
        raw = FuncRef(fi, raw=True)
        mach.ev("enter", fi.name, tuple(sorted(kwargs)))
        try:
            # run the decorator itself on the raw function (whatever it prepares at decoration time is prepared), then call
            # the function it returns
            wfun = I.call_func(wc, [raw], {}, node)
            if not isinstance(wfun, FuncRef):
                raise AnalysisError("with_connection does not return a function")
            return I.call_func(wfun.fi, args, kwargs, node, closure=wfun.closure, raw=True)
        finally:
            mach.ev("exit", fi.name)
    I.decorator_hooks["with_connection"] = hook
    return wrapper
