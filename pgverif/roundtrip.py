"""Symbolic export -> import round trips for the JSON / CSV / Excel / AIF parsers (used by C05, C06, C07)."""
from __future__ import annotations

import copy

from . import docsim
from .absint import ClassRef, ExtRef, ModRef, NeedChoice, Obj, Opaque, Outcome, Raised
from .core import AnalysisError
from .docsim import Col, MiniFrame, SStr, Tok
from .domain import make_interp
from .num import Num
from .srcmodel import load

CONFIGS = {
    "abs-molar-K": {"pressure_mode": "absolute", "pressure_unit": "bar", "loading_basis": "molar", "loading_unit": "mmol",
                    "material_basis": "mass", "material_unit": "g", "temperature_unit": "K"},
    "rel-percent-C": {"pressure_mode": "relative", "pressure_unit": None, "loading_basis": "percent", "loading_unit": None,
                      "material_basis": "volume", "material_unit": "cm3", "temperature_unit": "°C"},
}

# adsorption (0) / desorption (1) marks of the three abstract points: both branches, one branch only, user-assigned, desorption recorded
# before adsorption (the closing point is an adsorption point)
BRANCH_PATTERNS = {"two": (0, 0, 1), "all-ads": (0, 0, 0), "all-des": (1, 1, 1), "user": (1, 0, 1), "des-first": (1, 0, 0), "zero-start": (0, 0, 1)}

ISO_CLASSES = {"point": "pygaps.core.pointisotherm.PointIsotherm", "model": "pygaps.core.modelisotherm.ModelIsotherm",
               "base": "pygaps.core.baseisotherm.BaseIsotherm"}


class RT:
    def __init__(self, root):
        self.model = load(root)
        self.fs = {}
        self.I = make_interp(self.model)
        I = self.I
        docsim.install(I, self.fs)
        self.constructed = []
        I.overrides["pygaps.utilities.hashgen.isotherm_to_hash"] = lambda I, fi, env, n: "ISOID"

        def ctor(kind):
            def f(I, ci, args, kwargs, node):
                self.constructed.append((kind, list(args), dict(kwargs)))
                return Obj(kind="Rebuilt", label="rebuilt:" + kind, attrs={"kwargs": dict(kwargs)})
            return f
        for k, q in ISO_CLASSES.items():
            I.overrides[q] = ctor(k)
        I.overrides["pygaps.core.material.Material"] = lambda I, ci, a, k, n: Obj(kind="MaterialFromDict", attrs={"args": a, "kw": k})

        # value-domain round trip of scalars: text/number tokens survive str() -> cast_string()
        cs = self.model.func("pygaps.utilities.string_utilities.cast_string")

        def cast_string(I, fi, env, n):
            s = env["s"]
            if isinstance(s, SStr) and len(s.parts) == 1:
                return s.parts[0]
            if isinstance(s, (Tok, Num)):
                return s
            if isinstance(s, SStr):
                # list / tuple spellings
                if isinstance(s.parts[0], str) and s.parts[0].startswith("["):
                    return I.call_func(self.model.func("pygaps.utilities.string_utilities._from_list"), [s], {}, n)
                return s
            saved = I.overrides.pop(fi.qualname)
            try:
                return I.call_func(fi, [s], {}, n)
            finally:
                I.overrides[fi.qualname] = saved
        I.overrides[cs.qualname] = cast_string

        def import_module(I, a, k, n):
            name = a[0]
            if isinstance(name, str) and name in self.model.modules:
                return ModRef(name)
            I.err(n, f"importlib.import_module({name!r})")
        I.ext["importlib.import_module"] = import_module
        I.ext["numpy.nan"] = None
        I.ext["builtins.map"] = lambda I, a, k, n: [I.call_value(a[0], [x], {}, n) for x in I.iterate(a[1], n)]
        I.ext["builtins.str.lower"] = lambda I, a, k, n: I.call_libmethod(a[0], "lower", [], {}, n)
        for nm in ("parse_pressure_string", "parse_loading_string", "parse_temperature_string"):
            I.ext[f"adsorption_file_parser.utils.unit_parsing.{nm}"] = (
                lambda nm: lambda I, a, k, n: ({"PARSED_BY": nm} if nm != "parse_temperature_string" else "PARSED_TEMPERATURE_UNIT"))(nm)

    # ---- abstract isotherms ---------------------------------------------------------------------------
    def mk_material(self, with_props=True):
        ci = self.model.cls("pygaps.core.material.Material")
        props = {"density": Num.atom("rho"), "batch": Tok("t_batch"), "flagm": False} if with_props else {}
        return Obj(cls=ci, label="material", attrs={"name": Tok("t_matname"), "properties": props})

    def mk_adsorbate(self):
        ci = self.model.cls("pygaps.core.adsorbate.Adsorbate")
        return Obj(cls=ci, label="adsorbate", attrs={"name": Tok("t_adsname"), "alias": ["x"], "properties": {},
                                                     "_state": None, "_backend_mode": None})

    def mk_model(self):
        ci = self.model.cls("pygaps.modelling.langmuir.Langmuir")
        I = self.I
        return I.instantiate(ci, [], {"parameters": {"K": Num.atom("pK"), "n_m": Num.atom("pNm")},
                                      "pressure_range": (Num.atom("pr0"), Num.atom("pr1")),
                                      "loading_range": (Num.atom("lr0"), Num.atom("lr1")), "rmse": Num.atom("rmse")}, None)

    def mk_frame(self):
        pat = getattr(self, "branch_pattern", "two")
        marks = BRANCH_PATTERNS[pat]
        # "zero-start": a measurement that starts from vacuum - an exact 0 in the pressure and loading columns
        p0, l0 = (Num.const(0), Num.const(0)) if pat == "zero-start" else (Num.atom("p0"), Num.atom("l0"))
        return MiniFrame({"pressure": [p0, Num.atom("p1"), Num.atom("p2")],
                          "loading": [l0, Num.atom("l1"), Num.atom("l2")],
                          "branch": [Num.const(b) for b in marks],
                          "enthalpy": [Num.atom("h0"), docsim.NAN, Num.atom("h2")],
                          "note": [Tok("c0"), Tok("c1"), Tok("c2")],
                          "unset": [docsim.NAN, docsim.NAN, docsim.NAN]})

    def mk_iso(self, kind, config, props=None, material_props=True):
        ci = self.model.cls(ISO_CLASSES[kind])
        attrs = dict(CONFIGS[config])
        attrs.update({"_temperature": Num.atom("Tst"), "_adsorbate": self.mk_adsorbate(),
                      "_material": self.mk_material(material_props),
                      "properties": dict(props if props is not None else
                                         {"user": Tok("t_user"), "count": Num.atom("n_count"), "flag": True, "off": False,
                                          "zero": Num.const(0), "iso_type": Tok("t_isotype")})})
        if kind == "point":
            attrs.update({"data_raw": self.mk_frame(), "pressure_key": "pressure", "loading_key": "loading",
                          "l_interpolator": None, "p_interpolator": None})
        elif kind == "model":
            attrs.update({"model": self.mk_model(), "branch": "ads"})
        return Obj(cls=ci, label="iso", attrs=attrs)

    # ---- running --------------------------------------------------------------------------------------
    def explore(self, thunk):
        I = self.I
        out = []
        work = [[]]
        while work:
            dec = work.pop()
            I.reset(dec)
            self.constructed = []
            self.fs.clear()
            try:
                try:
                    v = thunk(I)
                    oc = Outcome("ok", value=v)
                except Raised as r:
                    oc = Outcome("raise", exc=r.exc)
            except NeedChoice as nc:
                for i in reversed(range(nc.n)):
                    work.append(dec + [i])
                if len(out) + len(work) > 500:
                    raise AnalysisError(f"path explosion in round trip at '{nc.label}'")
                continue
            oc.decisions = list(I.dlabels)
            out.append((oc, list(self.constructed)))
        return out

    def to_dict(self, iso):
        I = self.I
        td = self.model.func("pygaps.core.baseisotherm.BaseIsotherm.to_dict")
        return I.call_func(td, [], {}, None, self_obj=iso)

    def roundtrip(self, writer_q, reader_q, kind, config, target, writer_kwargs=None, reader_kwargs=None,
                  path_ext="", props=None, material_props=True):
        """returns list of (outcome, constructed, original to_dict, original iso)"""
        w = self.model.func(writer_q)
        r = self.model.func(reader_q)
        holder = {}

        def thunk(I):
            iso = self.mk_iso(kind, config, props, material_props)
            holder["iso"] = iso
            holder["orig"] = copy.deepcopy(self.to_dict(iso))
            wk = dict(writer_kwargs or {})
            if target == "string":
                doc = I.call_func(w, [iso], wk, None)
                holder["doc"] = doc
                return I.call_func(r, [doc], dict(reader_kwargs or {}), None)
            path = "FILE" + path_ext
            I.call_func(w, [iso, path], wk, None)
            holder["doc"] = self.fs.get(path)
            return I.call_func(r, [path], dict(reader_kwargs or {}), None)
        res = []
        for oc, constructed in self.explore(thunk):
            res.append((oc, constructed, holder.get("orig"), holder.get("iso"), holder.get("doc")))
        return res


def _unwrap(v):
    """str(text token) is that text; str(number) is NOT the number (a type change number -> text)"""
    if isinstance(v, SStr) and len(v.parts) == 1 and isinstance(v.parts[0], Tok):
        return v.parts[0]
    return v


def veq(I, a, b):
    """abstract value equality: True / False"""
    a, b = _unwrap(a), _unwrap(b)
    if isinstance(a, dict) and isinstance(b, dict):
        return set(map(repr, a)) == set(map(repr, b)) and all(veq(I, a[k], b[k]) for k in a if k in b) and len(a) == len(b)
    if isinstance(a, (list, tuple)) and isinstance(b, (list, tuple)):
        return len(a) == len(b) and all(veq(I, x, y) for x, y in zip(a, b))
    if isinstance(a, bool) or isinstance(b, bool):
        return a is b
    e = I.py_eq(a, b)
    return e is True


def frame_diff(I, got, want):
    """list of differences between two MiniFrames (columns, cells)"""
    d = []
    if not isinstance(got, MiniFrame):
        return [f"not a table: {got!r}"]
    if list(got.cols) != list(want.cols):
        if set(got.cols) != set(want.cols):
            d.append(f"columns {list(got.cols)} != {list(want.cols)}")
    for c in want.cols:
        if c in got.cols and not veq(I, got.cols[c], want.cols[c]):
            d.append(f"column '{c}': {got.cols[c]} != {want.cols[c]}")
    return d


FORMATS = {
    "json": ("pygaps.parsing.json.isotherm_to_json", "pygaps.parsing.json.isotherm_from_json", "", ("string", "file")),
    "csv": ("pygaps.parsing.csv.isotherm_to_csv", "pygaps.parsing.csv.isotherm_from_csv", "", ("string", "file")),
    "excel": ("pygaps.parsing.excel.isotherm_to_xl", "pygaps.parsing.excel.isotherm_from_xl", ".xls", ("file",)),
    "aif": ("pygaps.parsing.aif.isotherm_to_aif", "pygaps.parsing.aif.isotherm_from_aif", ".aif", ("string", "file")),
}


CTOR_BRANCH_WORDS = {"ads": 0, "des": 1}
_PROTO = {}


def ctor_branch_protocol(I):
    """PointIsotherm.__init__ given a table without a branch column and branch='ads' / 'des' marks every point 0 / 1: decided by
    interpreting the constructor on a three-row table (whatever the spelling of the dispatch), cached per model"""
    from .absint import Raised
    model = I.model
    if id(model) in _PROTO:
        return _PROTO[id(model)]
    ci = model.cls("pygaps.core.pointisotherm.PointIsotherm")
    init = ci.find_method("__init__")
    saved = dict(I.overrides)
    I.overrides.pop("pygaps.core.pointisotherm.PointIsotherm", None)
    I.overrides["pygaps.core.baseisotherm.BaseIsotherm.__init__"] = lambda I, fi, env, n: None
    ok = True
    try:
        for word, mark in CTOR_BRANCH_WORDS.items():
            def thunk(I, word=word):
                frame = MiniFrame({c: [Num.atom(f"{c}{i}") for i in range(3)] for c in ("pressure", "loading")})
                new = Obj(cls=ci, label="new", attrs={})
                I.call_func(init, [], {"isotherm_data": frame, "pressure_key": "pressure", "loading_key": "loading", "branch": word}, None, self_obj=new)
                return new
            outs = I.explore(thunk)
            for oc in outs:
                col = oc.value.attrs.get("data_raw").cols.get("branch") if oc.kind == "ok" and isinstance(oc.value.attrs.get("data_raw"), MiniFrame) else None
                ok = ok and col is not None and len(col) == 3 and all(isinstance(v, Num) and v.is_const() and v.value() == mark for v in col)
            ok = ok and bool(outs)
    finally:
        I.overrides.clear()
        I.overrides.update(saved)
    _PROTO[id(model)] = ok
    return ok


def compare(I, kind, cons, orig, iso):
    """list of (difference class, human text) between what reached the constructor and the original content"""
    out = []
    if len(cons) != 1:
        return [("constructed", f"{len(cons)} isotherm objects were constructed")]
    k, args, kw = cons[0]
    if k != kind:
        out.append(("class", f"rebuilt as a {k} isotherm instead of {kind}"))
    kw = dict(kw)
    data = kw.pop("isotherm_data", None)
    pk = kw.pop("pressure_key", None)
    lk = kw.pop("loading_key", None)
    mdl = kw.pop("model", None)
    okeys = {str(x): x for x in orig}
    gkeys = {str(x): x for x in kw}
    for key in sorted(set(okeys) | set(gkeys)):
        if key not in gkeys:
            out.append((f"key:{key}", f"'{key}' ({I.describe(orig[okeys[key]])}) does not reach the constructor"))
        elif key not in okeys:
            out.append((f"extra:{key}", f"an extra '{key}' = {I.describe(kw[gkeys[key]])} reaches the constructor"))
        elif not veq(I, kw[gkeys[key]], orig[okeys[key]]):
            out.append((f"value:{key}", f"'{key}' comes back as {I.describe(kw[gkeys[key]])}, exported {I.describe(orig[okeys[key]])}"))
    if kind == "point" and isinstance(data, MiniFrame) and "branch" not in data.cols and "branch" not in okeys \
            and kw.get(gkeys.get("branch")) in CTOR_BRANCH_WORDS and ctor_branch_protocol(I):
        # constructor protocol (verified on PointIsotherm.__init__ by ctor_branch_protocol): branch='ads' / 'des' without a
        # branch column means every point carries the mark 0 / 1.  branch='guess' is data dependent and stays a difference.
        mark = CTOR_BRANCH_WORDS[kw[gkeys["branch"]]]
        cols = dict(data.cols)
        cols["branch"] = [Num.const(mark)] * data.nrows
        data = MiniFrame(cols, data.tags)
        out = [d for d in out if d[0] != "extra:branch"]
    if kind == "point":
        want = iso.attrs["data_raw"]
        for d in frame_diff(I, data, want):
            out.append(("data:" + d.split(":")[0].split(" ")[0] + (d.split("'")[1] if "'" in d else ""), "data: " + d))
        if isinstance(data, MiniFrame):
            if pk not in data.cols or lk not in data.cols or not veq(I, data.cols.get(pk), want.cols["pressure"]) \
                    or not veq(I, data.cols.get(lk), want.cols["loading"]):
                out.append(("data:keys", f"pressure_key={pk!r}, loading_key={lk!r} do not name the exported pressure / loading columns"))
    if kind == "model":
        om = iso.attrs["model"]
        if not isinstance(mdl, Obj) or mdl.cls is not om.cls:
            out.append(("model:class", f"model comes back as {mdl!r}"))
        else:
            for a in ("params", "pressure_range", "loading_range", "rmse"):
                if not veq(I, mdl.attrs.get(a), om.attrs.get(a)):
                    out.append((f"model:{a}", f"model.{a} comes back as {I.describe(mdl.attrs.get(a))}, exported {I.describe(om.attrs.get(a))}"))
    return out, (data.tags if isinstance(data, MiniFrame) else None)


def doc_signature(I, doc):
    """comparable description of an abstract document (for string-target vs file-target agreement)"""
    if isinstance(doc, Obj):
        if doc.kind == "JsonDoc":
            return ("json", I.describe(doc.attrs["value"]), tuple(sorted((k, I.describe(v)) for k, v in doc.attrs["kw"].items())))
        if doc.kind == "Text":
            return ("text", tuple(I.describe(x) if not isinstance(x, Obj) else ("table", repr(x.attrs["frame"]), I.describe(x.attrs["kw"])) for x in doc.attrs["lines"]))
        if doc.kind == "CifDoc":
            items = []
            for it in doc.attrs["block"].attrs["items"]:
                if it[0] == "pair":
                    items.append(("pair", it[1], I.describe(it[2])))
                else:
                    items.append(("loop", it[1].attrs["prefix"], tuple(it[1].attrs["names"]), I.describe(it[1].attrs["cols"])))
            return ("cif", tuple(items))
    return ("other", I.describe(doc))
