"""Specification of permanent isotherm conversions (DESIGN Appendix A.2), independent of the repo code.

A state is the 7 labels.  `target_*` compute the representation a request names (None = keep);
REFUSE means the request cannot be honoured and must be refused with a pygaps error, changing nothing.
"""
from __future__ import annotations

from .domain import Oracle, Tables, kelvin

REFUSE = "REFUSE"
FRAC = ("fraction", "percent")


def target_pressure(t: Tables, s, mode_to, unit_to):
    mode = mode_to or s["pressure_mode"]
    if mode not in t.pressure_mode:
        return REFUSE
    if mode != "absolute":
        unit = None
    else:
        unit = unit_to or (s["pressure_unit"] if s["pressure_mode"] == "absolute" else None)
        if not unit or unit not in t.pressure:
            return REFUSE
    n = dict(s)
    n["pressure_mode"], n["pressure_unit"] = mode, unit
    return n


def target_loading(t: Tables, s, basis_to, unit_to):
    basis = basis_to or s["loading_basis"]
    if basis not in t.loading_mode:
        return REFUSE
    if basis in FRAC:
        unit = None
    else:
        unit = unit_to or (s["loading_unit"] if basis == s["loading_basis"] else None)
        if not unit or unit not in t.loading_table(basis):
            return REFUSE
    n = dict(s)
    n["loading_basis"], n["loading_unit"] = basis, unit
    return n


def target_material(t: Tables, s, basis_to, unit_to):
    basis = basis_to or s["material_basis"]
    if basis not in t.material_mode:
        return REFUSE
    unit = unit_to or (s["material_unit"] if basis == s["material_basis"] else None)
    if not unit or unit not in t.material_table(basis):
        return REFUSE
    n = dict(s)
    n["material_basis"], n["material_unit"] = basis, unit
    return n


def canon_temperature(unit):
    if unit and isinstance(unit, str) and "c" in unit.lower():
        return "°C"
    return unit


def target_temperature(t: Tables, s, unit_to):
    u = canon_temperature(unit_to)
    if not u or u not in t.temperature:
        return REFUSE
    n = dict(s)
    n["temperature_unit"] = u
    return n


def all_states(t: Tables, thorough, tunits=("K", "°C")):
    """(pressure reps, loading reps, material reps, temperature units)"""
    def reps(tab):
        ks = list(tab)
        return ks if thorough else [ks[0], ks[-1]]
    pres = [("absolute", u) for u in (t.pressure if thorough else ["bar", "Pa"] if "bar" in t.pressure and "Pa" in t.pressure else reps(t.pressure))]
    pres += [(m, None) for m in t.pressure_mode if m != "absolute"]
    load = []
    for b in t.loading_mode:
        tab = t.loading_table(b)
        if tab is None:
            load.append((b, None))
        else:
            load += [(b, u) for u in reps(tab)]
    mat = []
    for b in t.material_mode:
        mat += [(b, u) for u in reps(t.material_table(b))]
    return pres, load, mat, list(tunits)


def mkstate(p, l, m, tu):
    return {"pressure_mode": p[0], "pressure_unit": p[1], "loading_basis": l[0], "loading_unit": l[1],
            "material_basis": m[0], "material_unit": m[1], "temperature_unit": tu}


_FCACHE = {}


def factors(o: Oracle, s, n):
    """expected multiplicative factors (pressure column, loading column) for a state change s -> n"""
    key = (id(o), tuple(s.values()), tuple(n.values()))
    r = _FCACHE.get(key)
    if r is None:
        T = kelvin(s["temperature_unit"])
        r = (o.U_P(s, T) / o.U_P(n, T), o.U_L(s, T) / o.U_L(n, T))
        _FCACHE[key] = r
    return r
