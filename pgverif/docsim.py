"""E6 - symbolic documents: abstract interpretation of an exporter followed by its importer.

Metadata *values* and data cells are opaque tokens; *keys, tags, markers, prefixes, row/column offsets* are
concrete because the source spells them.  The writer is interpreted on an abstract isotherm and produces an
abstract document (JSON dict / CSV lines / Excel cell grid / CIF block); the reader is interpreted on that
document; what reaches the isotherm constructor is compared with the original content.  No concrete datum is
supplied: this decides key/tag agreement, prefix-slice agreement, positional layouts, encode/decode maps and
which values are dropped or rerouted - not the value-level behaviour of pandas/gemmi/xlrd (trusted).
"""
from __future__ import annotations

import copy

from .absint import (Arr, ExtRef, Frame, Interp, Mask, Obj, Opaque, Raised, UnknownBool, ExcVal, _BUILTIN_EXC)
from .core import AnalysisError
from .num import Num


class Tok:
    """an opaque text value inside the format's value domain"""

    def __init__(self, name):
        self.name = name

    def __repr__(self):
        return f"<{self.name}>"

    def __eq__(self, o):
        return isinstance(o, Tok) and o.name == self.name

    def __hash__(self):
        return hash(("Tok", self.name))

    def __deepcopy__(self, memo):
        return self


NAN = Tok("NaN")


class SStr:
    """symbolic string: concrete pieces and value tokens (Tok / Num)"""

    def __init__(self, parts):
        out = []
        for p in parts:
            if isinstance(p, SStr):
                ps = p.parts
            else:
                ps = [p]
            for q in ps:
                if isinstance(q, str):
                    if q == "":
                        continue
                    if out and isinstance(out[-1], str):
                        out[-1] += q
                        continue
                out.append(q)
        self.parts = out

    @staticmethod
    def make(parts):
        s = SStr(parts)
        if all(isinstance(p, str) for p in s.parts):
            return "".join(s.parts)
        return s

    def __repr__(self):
        return "S" + repr(self.parts)

    def __eq__(self, o):
        return isinstance(o, SStr) and self.parts == o.parts

    def __hash__(self):
        return hash(tuple(map(repr, self.parts)))

    def __deepcopy__(self, memo):
        return self


class TaggedList(list):
    """table contents as nested lists; remembers the value-changing operations applied to the table it came from"""

    def __init__(self, items=(), tags=()):
        super().__init__(items)
        self.tags = tuple(tags)


class TaggedRow(dict):
    """one table row as a dictionary; remembers the value-changing operations (rounding ...) applied to the table it came from"""

    def __init__(self, d=(), tags=()):
        super().__init__(d)
        self.tags = tuple(tags)

    def __deepcopy__(self, memo):
        r = TaggedRow({k: copy.deepcopy(v, memo) for k, v in self.items()}, self.tags)
        memo[id(self)] = r
        return r


def sstr_of(v):
    """str(v) for abstract values"""
    if isinstance(v, (str, SStr)):
        return v
    if v is None:
        return "None"
    if isinstance(v, bool):
        return "True" if v else "False"
    if isinstance(v, (Tok, Num)):
        if isinstance(v, Num) and v.is_const():
            f = v.value()
            return str(int(f)) if f.denominator == 1 else str(float(f))
        return SStr([v])
    if isinstance(v, (list, tuple)):
        o, c = ("[", "]") if isinstance(v, list) else ("(", ")")
        parts = [o]
        for i, x in enumerate(v):
            if i:
                parts.append(", ")
            parts.append(sstr_of(x))
        if isinstance(v, tuple) and len(v) == 1:
            parts.append(",")
        parts.append(c)
        return SStr.make(parts)
    return None


def _concrete_ops(fn):
    def f(I, s, a, k, n):
        return fn(I, s, a, k, n)
    return f


class MiniFrame:
    """tiny symbolic table: ordered columns -> list of cells"""

    def __init__(self, cols, tags=()):
        self.cols = {k: list(v) for k, v in cols.items()}
        self.tags = tuple(tags)

    @property
    def nrows(self):
        return len(next(iter(self.cols.values()))) if self.cols else 0

    def copy(self):
        return MiniFrame(self.cols, self.tags)

    def __deepcopy__(self, memo):
        return self.copy()

    def __repr__(self):
        return f"<MiniFrame {list(self.cols)} x{self.nrows} {self.tags}>"


class Col:
    """a column view (Series) of a MiniFrame"""

    def __init__(self, values, name=None, dtype=None):
        self.values = list(values)
        self.name = name
        self.dtype = dtype

    def __deepcopy__(self, memo):
        return Col(self.values, self.name, self.dtype)

    def __repr__(self):
        return f"<Col {self.name} {self.values}>"


def install(I: Interp, fs: dict):
    """summaries for str/StringIO/json/pandas(MiniFrame)/xlwt/xlrd/gemmi/pathlib; fs = abstract file system"""
    E, M, A = I.ext, I.libmeth, I.libattr
    I.sym_strings = True

    # ---------------- SStr -------------------------------------------------------------------
    def s_parts(s):
        return s.parts if isinstance(s, SStr) else [s]

    def s_strip(I, s, a, k, n, left=True, right=True):
        chars = a[0] if a else None
        parts = list(s.parts)
        if left and parts and isinstance(parts[0], str):
            parts[0] = parts[0].lstrip(chars)
        if right and parts and isinstance(parts[-1], str):
            parts[-1] = parts[-1].rstrip(chars)
        return SStr.make(parts)
    M[("SStr", "strip")] = s_strip
    M[("SStr", "rstrip")] = lambda I, s, a, k, n: s_strip(I, s, a, k, n, left=False)
    M[("SStr", "lstrip")] = lambda I, s, a, k, n: s_strip(I, s, a, k, n, right=False)

    def s_split(I, s, a, k, n):
        sep = a[0] if a else k.get("sep")
        if not isinstance(sep, str):
            I.err(n, "split() of a symbolic string needs a concrete separator")
        out, cur = [], []
        for p in s.parts:
            if isinstance(p, str):
                bits = p.split(sep)
                cur.append(bits[0])
                for b in bits[1:]:
                    out.append(SStr.make(cur))
                    cur = [b]
            else:
                cur.append(p)
        out.append(SStr.make(cur))
        return out
    M[("SStr", "split")] = s_split

    def s_startswith(I, s, a, k, n):
        pre = a[0]
        if isinstance(pre, tuple):
            # str.startswith(tuple): true if any prefix matches
            res = [s_startswith(I, s, [p_], k, n) for p_ in pre]
            if any(r is True for r in res):
                return True
            unknown = [r for r in res if isinstance(r, UnknownBool)]
            return unknown[0] if unknown else False
        first = s.parts[0] if s.parts and isinstance(s.parts[0], str) else ""
        if isinstance(pre, str):
            if len(first) >= len(pre):
                return first.startswith(pre)
            if not pre.startswith(first):
                return False
            return UnknownBool(f"startswith({pre})")
        I.err(n, "startswith with symbolic prefix")
    M[("SStr", "startswith")] = s_startswith

    def s_endswith(I, s, a, k, n):
        suf = a[0]
        last = s.parts[-1] if s.parts and isinstance(s.parts[-1], str) else ""
        if isinstance(suf, str) and len(last) >= len(suf):
            return last.endswith(suf)
        return UnknownBool(f"endswith({suf})")
    M[("SStr", "endswith")] = s_endswith
    M[("SStr", "replace")] = lambda I, s, a, k, n: SStr.make([p.replace(a[0], a[1]) if isinstance(p, str) else p for p in s.parts])
    M[("SStr", "lower")] = lambda I, s, a, k, n: SStr.make([p.lower() if isinstance(p, str) else p for p in s.parts])
    M[("SStr", "isnumeric")] = lambda I, s, a, k, n: UnknownBool("isnumeric")
    M[("SStr", "encode")] = lambda I, s, a, k, n: s

    def s_getitem(I, s, a, k, n):
        idx = a[0]
        if isinstance(idx, slice) and idx.step is None and (idx.start or 0) >= 0 and idx.stop is None:
            st = idx.start or 0
            first = s.parts[0] if s.parts and isinstance(s.parts[0], str) else ""
            if len(first) >= st:
                return SStr.make([first[st:]] + s.parts[1:])
        I.err(n, f"slice {idx!r} of a symbolic string")
    M[("SStr", "__getitem__")] = s_getitem

    # str.join / concat with SStr are handled by hooks below
    def str_join(I, sep, items, n):
        parts = []
        for i, x in enumerate(items):
            if i:
                parts.append(sep)
            sx = sstr_of(x) if not isinstance(x, (str, SStr)) else x
            if sx is None:
                I.err(n, f"join of {x!r}")
            parts.append(sx)
        return SStr.make(parts)
    I.str_join = str_join

    # ---------------- files ------------------------------------------------------------------
    def b_open(I, a, k, n):
        path = a[0]
        mode = k.get("mode", a[1] if len(a) > 1 else "r")
        if isinstance(path, str) and (path in fs or "w" in mode):
            return Obj(kind="File", label=f"file:{path}", attrs={"path": path, "mode": mode})
        raise Raised(ExcVal(["FileNotFoundError", "OSError", "Exception", "BaseException"], node=n, msg="no such file"))
    E["builtins.open"] = b_open
    M[("File", "__enter__")] = lambda I, v, a, k, n: v
    M[("File", "__exit__")] = lambda I, v, a, k, n: None

    def f_write(I, v, a, k, n):
        fs[v.attrs["path"]] = a[0]
        return None
    M[("File", "write")] = f_write
    M[("File", "read")] = lambda I, v, a, k, n: fs[v.attrs["path"]]

    def stringio(I, a, k, n):
        init = a[0] if a else None
        lines = []
        if isinstance(init, Obj) and init.kind == "Text":
            lines = list(init.attrs["lines"])
        elif isinstance(init, (str, SStr)):
            lines = [init] if init != "" else []
        elif init is not None:
            raise I.fault("TypeError", n, "initial_value must be str")
        return Obj(kind="StringIO", label="stringio", attrs={"lines": lines, "pos": 0})
    E["io.StringIO"] = stringio

    def sio_write(I, v, a, k, n):
        v.attrs["lines"].append(a[0])
        return None
    M[("StringIO", "write")] = sio_write

    def sio_writelines(I, v, a, k, n):
        v.attrs["lines"].extend(I.iterate(a[0], n))
        return None
    M[("StringIO", "writelines")] = sio_writelines
    M[("StringIO", "getvalue")] = lambda I, v, a, k, n: Obj(kind="Text", label="text", attrs={"lines": list(v.attrs["lines"])})

    def sio_readline(I, v, a, k, n):
        i = v.attrs["pos"]
        if i >= len(v.attrs["lines"]):
            return ""
        v.attrs["pos"] = i + 1
        ln = v.attrs["lines"][i]
        if isinstance(ln, Obj):
            I.err(n, "readline() reaches the data table")
        return ln
    M[("StringIO", "readline")] = sio_readline
    M[("Text", "encode")] = lambda I, v, a, k, n: v

    # ---------------- json ----------------------------------------------------------------------
    def jdumps(I, a, k, n):
        return Obj(kind="JsonDoc", label="json", attrs={"value": copy.deepcopy(a[0]), "kw": dict(k)})
    E["json.dumps"] = jdumps

    def jdump(I, a, k, n):
        fs[a[1].attrs["path"]] = Obj(kind="JsonDoc", label="json", attrs={"value": copy.deepcopy(a[0]), "kw": dict(k)})
        return None
    E["json.dump"] = jdump

    def jloads(I, a, k, n):
        d = a[0]
        if isinstance(d, Obj) and d.kind == "JsonDoc":
            return copy.deepcopy(d.attrs["value"])
        raise Raised(ExcVal(["JSONDecodeError", "ValueError", "Exception", "BaseException"], node=n, msg="not json"))
    E["json.loads"] = jloads

    def jload(I, a, k, n):
        d = fs.get(a[0].attrs["path"])
        return jloads(I, [d], {}, n)
    E["json.load"] = jload

    # ---------------- MiniFrame -----------------------------------------------------------------
    def mf_getitem(I, f, a, k, n):
        key = a[0]
        if isinstance(key, str):
            if key not in f.cols:
                raise I.fault("KeyError", n, key)
            return Col(f.cols[key], key, f.dtypes.get(key) if hasattr(f, "dtypes") else None)
        if isinstance(key, list) and all(isinstance(x, str) for x in key):
            for x in key:
                if x not in f.cols:
                    raise I.fault("KeyError", n, x)
            return MiniFrame({x: f.cols[x] for x in key}, f.tags)
        if isinstance(key, Col):     # boolean mask
            keep = [i for i, b in enumerate(key.values) if b is True]
            return MiniFrame({c: [v[i] for i in keep] for c, v in f.cols.items()}, f.tags)
        I.err(n, f"MiniFrame[{key!r}]")
    M[("MiniFrame", "__getitem__")] = mf_getitem

    def mf_setitem(I, f, a, k, n):
        key, val = a
        if isinstance(val, Col):
            f.cols[key] = list(val.values)
        elif isinstance(val, list):
            f.cols[key] = list(val)
        else:
            f.cols[key] = [val] * max(f.nrows, 0)
        return None
    M[("MiniFrame", "__setitem__")] = mf_setitem
    A[("MiniFrame", "columns")] = lambda I, f, n: list(f.cols)
    A[("MiniFrame", "empty")] = lambda I, f, n: f.nrows == 0
    A[("MiniFrame", "loc")] = lambda I, f, n: Obj(kind="MiniLoc", attrs={"f": f})
    A[("MiniFrame", "values")] = lambda I, f, n: Obj(kind="MiniValues", attrs={"f": f})
    A[("MiniFrame", "shape")] = lambda I, f, n: (Num.const(f.nrows), Num.const(len(f.cols)))
    M[("MiniLoc", "__getitem__")] = lambda I, v, a, k, n: mf_getitem(I, v.attrs["f"], a, k, n)
    M[("MiniFrame", "copy")] = lambda I, f, a, k, n: f.copy()
    M[("MiniFrame", "round")] = lambda I, f, a, k, n: MiniFrame(f.cols, f.tags + (("round", I.describe(a[0]) if a else "0"),))
    M[("MiniFrame", "astype")] = lambda I, f, a, k, n: MiniFrame(f.cols, f.tags + (("astype", I.describe(a[0]) if a else ""),))
    M[("MiniFrame", "apply")] = lambda I, f, a, k, n: MiniFrame(f.cols, f.tags + (("apply", I.describe(a[0]), tuple(sorted(k))),))
    M[("MiniFrame", "reindex")] = lambda I, f, a, k, n: MiniFrame({c: f.cols.get(c, [NAN] * f.nrows) for c in k["columns"]}, f.tags)
    A[("MiniValues", "T")] = lambda I, v, n: v
    M[("MiniValues", "tolist")] = lambda I, v, a, k, n: TaggedList([list(c) for c in v.attrs["f"].cols.values()], v.attrs["f"].tags)

    def mf_to_dict(I, f, a, k, n):
        orient = k.get("orient", a[0] if a else "dict")
        if orient != "index":
            I.err(n, f"DataFrame.to_dict(orient={orient!r})")
        return {Num.const(i): TaggedRow({c: f.cols[c][i] for c in f.cols}, f.tags) for i in range(f.nrows)}
    def mf_drop(I, f, a, k, n):
        """DataFrame.drop(columns=name | [names]) / drop(name(s), axis=1): a new table without those columns; a missing column is a
        KeyError unless errors='ignore'"""
        if "columns" in k:
            names = k["columns"]
        elif a and (I.describe(k.get("axis")) in ("1", "'columns'", "columns") or k.get("axis") == "columns"):
            names = a[0]
        else:
            I.err(n, "DataFrame.drop of rows / index labels is not modelled")
        names = [names] if isinstance(names, str) else list(names)
        for nm in names:
            if nm not in f.cols and k.get("errors") != "ignore":
                raise I.fault("KeyError", n, f"{nm!r} not found in axis")
        out = MiniFrame({c: v for c, v in f.cols.items() if c not in names}, f.tags)
        if k.get("inplace") is True:
            f.cols = out.cols
            return None
        return out
    M[("MiniFrame", "drop")] = mf_drop
    M[("MiniFrame", "to_dict")] = mf_to_dict

    def mf_to_csv(I, f, a, k, n):
        out = a[0] if a else k.get("path_or_buf")
        kw = {x: y for x, y in k.items() if x != "path_or_buf"}
        tab = Obj(kind="CsvTable", label="csvtable", attrs={"frame": f.copy(), "kw": kw})
        out.attrs["lines"].append(tab)
        return None
    M[("MiniFrame", "to_csv")] = mf_to_csv

    def read_csv(I, a, k, n):
        sio = a[0]
        rest = sio.attrs["lines"][sio.attrs["pos"]:]
        if len(rest) != 1 or not (isinstance(rest[0], Obj) and rest[0].kind == "CsvTable"):
            I.err(n, f"read_csv: the rest of the document is not exactly the data table ({rest!r})")
        tab = rest[0]
        sio.attrs["pos"] = len(sio.attrs["lines"])
        f = tab.attrs["frame"]
        kw = tab.attrs["kw"]
        cols = dict(f.cols)
        if kw.get("index", True) is not False:
            cols = {"Unnamed: 0": [Num.const(i) for i in range(f.nrows)], **cols}
        if kw.get("header", True) is False:
            cols = {f"col{i}": v for i, v in enumerate(cols.values())}
        if I.py_eq(kw.get("sep", ","), k.get("sep", ",")) is not True:
            cols = {"<whole line>": [Tok("line")] * f.nrows}
        return MiniFrame(cols, f.tags + tuple(("to_csv:" + x, I.describe(y)) for x, y in sorted(kw.items()) if x not in ("sep", "index", "header")))
    E["pandas.read_csv"] = read_csv

    def df_from_dict(I, a, k, n):
        data = a[0]
        if isinstance(data, list) and all(isinstance(r, dict) for r in data):
            cols = {}
            for r in data:
                for c in r:
                    cols.setdefault(c, None)
            tags = ()
            for r in data:
                for t_ in getattr(r, "tags", ()):
                    if t_ not in tags:
                        tags += (t_,)
            return MiniFrame({c: [r.get(c, NAN) for r in data] for c in cols}, tags)
        if isinstance(data, dict):
            return MiniFrame({c: list(v.values) if isinstance(v, Col) else list(v) for c, v in data.items()})
        I.err(n, f"DataFrame from {data!r}")
    E["pandas.DataFrame.from_dict"] = df_from_dict

    def df_ctor(I, a, k, n):
        data = a[0] if a else k.get("data")
        cols = k.get("columns")
        if isinstance(data, Obj) and data.kind == "CifTable":
            tags = data.attrs["tags"]
            vals = data.attrs["cols"]
            names = cols if cols is not None else tags
            if len(names) != len(vals):
                raise I.fault("ValueError", n, "columns passed do not match the data")
            return MiniFrame({nm: list(v) for nm, v in zip(names, vals)}, (("from-cif",),))
        return df_from_dict(I, [data], {}, n)
    E["pandas.DataFrame"] = df_ctor
    E["pandas.to_numeric"] = Opaque("pandas.to_numeric", callable_=True)
    for nm in ("pandas.isna", "pandas.isnull", "numpy.isnan", "math.isnan"):
        E[nm] = lambda I, a, k, n: a[0] is NAN
    for nm in ("pandas.notna", "pandas.notnull"):
        E[nm] = lambda I, a, k, n: a[0] is not NAN

    def concat(I, a, k, n):
        frames = [f for f in a[0] if f is not None]      # pandas.concat silently drops None entries
        if not frames:
            raise I.fault("ValueError", n, "All objects passed were None")
        cols = {}
        for f in frames:
            for c in f.cols:
                cols.setdefault(c, [])
        for f in frames:
            for c in cols:
                cols[c] += f.cols.get(c, [NAN] * f.nrows)
        return MiniFrame(cols, tuple(t for f in frames for t in f.tags))
    E["pandas.concat"] = concat

    # ---- columns
    def col_map(fn):
        def f(I, c, a, k, n):
            return Col([fn(I, v, a, k, n) for v in c.values], c.name, c.dtype)
        return f

    def c_replace(I, v, a, k, n):
        return a[1] if I.py_eq(v, a[0]) is True else v
    M[("Col", "replace")] = col_map(c_replace)
    M[("Col", "fillna")] = col_map(lambda I, v, a, k, n: a[0] if v is NAN else v)

    def f_fillna(I, f, a, k, n):
        """DataFrame.fillna(value | {column: value}): every NaN of the frame / of the named columns"""
        val = a[0] if a else k.get("value")
        if isinstance(val, dict):
            return MiniFrame({c: [(val[c] if (x is NAN and c in val) else x) for x in v] for c, v in f.cols.items()}, f.tags)
        return MiniFrame({c: [(val if x is NAN else x) for x in v] for c, v in f.cols.items()}, f.tags)
    M[("MiniFrame", "fillna")] = f_fillna

    def f_replace(I, f, a, k, n):
        """DataFrame.replace(old, new) | replace({column: {old: new}}) | replace({old: new})"""
        def rep(x, pairs):
            for old, new in pairs:
                if I.py_eq(x, old) is True:
                    return new
            return x
        if len(a) == 2:
            return MiniFrame({c: [rep(x, [(a[0], a[1])]) for x in v] for c, v in f.cols.items()}, f.tags)
        spec = a[0] if a else k.get("to_replace")
        if isinstance(spec, dict) and spec and all(isinstance(x, dict) for x in spec.values()):
            return MiniFrame({c: [rep(x, list(spec[c].items())) if c in spec else x for x in v] for c, v in f.cols.items()}, f.tags)
        if isinstance(spec, dict):
            return MiniFrame({c: [rep(x, list(spec.items())) for x in v] for c, v in f.cols.items()}, f.tags)
        I.err(n, f"DataFrame.replace({spec!r})")
    M[("MiniFrame", "replace")] = f_replace

    def c_astype(I, c, a, k, n):
        t = a[0] if a else k.get("dtype")
        t = t if isinstance(t, str) else getattr(t, "dotted", str(t))
        if any(x in t for x in ("int", "float")):
            vals = [Num.const(int(v)) if isinstance(v, bool) else v for v in c.values]
            if any(v is NAN for v in vals) and "int" in t:
                raise I.fault("ValueError", n, "cannot convert NA to integer")
            return Col(vals, c.name, t)
        return Col(list(c.values), c.name, t)
    M[("Col", "astype")] = c_astype

    def c_first_valid(I, c, a, k, n):
        for i, v in enumerate(c.values):
            if v is not NAN and v is not None:
                return Num.const(i)
        return None
    M[("Col", "first_valid_index")] = c_first_valid
    A[("MiniFrame", "index")] = lambda I, f, n: Col([Num.const(i) for i in range(f.nrows)], "index", "int64")

    def c_apply(I, c, a, k, n):
        return Col([I.call_value(a[0], [v], {}, n) for v in c.values], c.name, c.dtype)
    M[("Col", "apply")] = c_apply
    M[("Col", "__iter__")] = lambda I, c, a, k, n: list(c.values)
    M[("Col", "tolist")] = lambda I, c, a, k, n: list(c.values)
    # Series.any() / all(): truth of the cells (missing cells are skipped, as pandas does with skipna=True); a cell whose truth is not
    # known forks through the interpreter's own truth()
    M[("Col", "any")] = lambda I, c, a, k, n: any(I.truth(v, n) for v in c.values if v is not NAN)
    M[("Col", "all")] = lambda I, c, a, k, n: all(I.truth(v, n) for v in c.values if v is not NAN)
    A[("Col", "values")] = lambda I, c, n: c
    A[("Col", "empty")] = lambda I, c, n: len(c.values) == 0
    A[("Col", "dtype")] = lambda I, c, n: Obj(kind="DType", attrs={"name": c.dtype or ("object" if any(isinstance(v, (Tok, str)) for v in c.values) else "float64")})
    A[("DType", "name")] = lambda I, d, n: d.attrs["name"]
    M[("Col", "__getitem__")] = lambda I, c, a, k, n: c.values[int(a[0].value())]
    I.col_eq = lambda c, other: Col([I.py_eq(v, other) for v in c.values], c.name)

    # ---------------- xlwt / xlrd ----------------------------------------------------------------
    E["xlwt.Workbook"] = lambda I, a, k, n: Obj(kind="XlBook", label="workbook", attrs={"sheets": {}})

    def add_sheet(I, wb, a, k, n):
        ow = k.get("cell_overwrite_ok", a[1] if len(a) > 1 else False)
        sh = Obj(kind="XlSheet", label=f"sheet:{a[0]}", attrs={"cells": {}, "name": a[0], "overwrite_ok": ow is True})
        wb.attrs["sheets"][a[0]] = sh
        return sh
    M[("XlBook", "add_sheet")] = add_sheet
    E["xlwt.easyxf"] = lambda I, a, k, n: Opaque("style")

    def xl_write(I, sh, a, k, n):
        r, c, v = a[0], a[1], (a[2] if len(a) > 2 else "")
        if not (isinstance(r, Num) and r.is_const() and isinstance(c, Num) and c.is_const()):
            I.err(n, "cell position is not a folded constant")
        pos = (int(r.value()), int(c.value()))
        if pos[0] < 0 or pos[1] < 0:
            raise I.fault("ValueError", n, f"row / column index {pos} not an int in range")
        if pos in sh.attrs["cells"] and not sh.attrs.get("overwrite_ok"):
            # xlwt refuses to write a cell twice unless the sheet was added with cell_overwrite_ok=True
            raise I.fault("Exception", n, f"Attempt to overwrite cell: sheetname={sh.attrs.get('name')!r} rowx={pos[0]} colx={pos[1]}")
        sh.attrs["cells"][pos] = v
        sh.attrs.setdefault("order", []).append(pos)
        return None
    M[("XlSheet", "write")] = xl_write
    M[("XlSheet", "col")] = lambda I, sh, a, k, n: Obj(kind="XlCol", attrs={})

    def xl_save(I, wb, a, k, n):
        fs[a[0]] = wb
        return None
    M[("XlBook", "save")] = xl_save

    def open_workbook(I, a, k, n):
        wb = fs.get(a[0])
        if not (isinstance(wb, Obj) and wb.kind == "XlBook"):
            raise Raised(ExcVal(["XLRDError", "Exception", "BaseException"], node=n, msg="not a workbook"))
        return wb
    E["xlrd.open_workbook"] = open_workbook
    M[("XlBook", "sheet_names")] = lambda I, wb, a, k, n: list(wb.attrs["sheets"])

    def sheet_by_name(I, wb, a, k, n):
        if a[0] not in wb.attrs["sheets"]:
            raise Raised(ExcVal(["XLRDError", "Exception", "BaseException"], node=n, msg="no sheet"))
        return wb.attrs["sheets"][a[0]]
    M[("XlBook", "sheet_by_name")] = sheet_by_name
    M[("XlBook", "sheet_by_index")] = lambda I, wb, a, k, n: list(wb.attrs["sheets"].values())[int(a[0].value())]

    def xl_cell(I, sh, a, k, n):
        r, c = int(a[0].value()), int(a[1].value())
        cells = sh.attrs["cells"]
        nrows = 1 + max((p[0] for p in cells), default=-1)
        ncols = 1 + max((p[1] for p in cells), default=-1)
        if r >= nrows or c >= ncols:
            raise I.fault("IndexError", n, "cell out of range")
        v = cells.get((r, c))
        if v is None:
            return Obj(kind="XlCell", attrs={"value": "", "ctype": ExtRef("xlrd.XL_CELL_EMPTY")})
        if isinstance(v, bool):
            return Obj(kind="XlCell", attrs={"value": Num.const(int(v)), "ctype": ExtRef("xlrd.XL_CELL_BOOLEAN"), "orig": v})
        ct = "xlrd.XL_CELL_TEXT" if isinstance(v, (str, SStr, Tok)) else "xlrd.XL_CELL_NUMBER"
        return Obj(kind="XlCell", attrs={"value": v, "ctype": ExtRef(ct)})
    M[("XlSheet", "cell")] = xl_cell

    def xl_cell_value(I, sh, a, k, n):
        return xl_cell(I, sh, a, k, n).attrs["value"]
    M[("XlSheet", "cell_value")] = xl_cell_value

    def xl_col_values(I, sh, a, k, n):
        c = int(a[0].value())
        cells = sh.attrs["cells"]
        nrows = 1 + max((p[0] for p in cells), default=-1)
        start = int(I.to_py(a[1] if len(a) > 1 else k.get("start_rowx", Num.const(0)), n))
        end = a[2] if len(a) > 2 else k.get("end_rowx")
        end = nrows if end is None else int(I.to_py(end, n))
        return [xl_cell(I, sh, [Num.const(r), Num.const(c)], {}, n).attrs["value"] for r in range(start, end)]
    M[("XlSheet", "col_values")] = xl_col_values

    def xl_row_values(I, sh, a, k, n):
        r = int(a[0].value())
        cells = sh.attrs["cells"]
        ncols = 1 + max((p[1] for p in cells), default=-1)
        start = int(I.to_py(a[1] if len(a) > 1 else k.get("start_colx", Num.const(0)), n))
        end = a[2] if len(a) > 2 else k.get("end_colx")
        end = ncols if end is None else int(I.to_py(end, n))
        return [xl_cell(I, sh, [Num.const(r), Num.const(c)], {}, n).attrs["value"] for c in range(start, end)]
    M[("XlSheet", "row_values")] = xl_row_values
    A[("XlSheet", "nrows")] = lambda I, sh, n: Num.const(1 + max((p[0] for p in sh.attrs["cells"]), default=-1))
    A[("XlSheet", "ncols")] = lambda I, sh, n: Num.const(1 + max((p[1] for p in sh.attrs["cells"]), default=-1))

    # ---------------- gemmi cif -----------------------------------------------------------------------
    E["gemmi.cif.Document"] = lambda I, a, k, n: Obj(kind="CifDoc", label="cifdoc", attrs={"block": None})

    def add_block(I, d, a, k, n):
        d.attrs["block"] = Obj(kind="CifBlock", label="block", attrs={"name": a[0], "items": []})
        return d.attrs["block"]
    M[("CifDoc", "add_new_block")] = add_block
    M[("CifDoc", "sole_block")] = lambda I, d, a, k, n: d.attrs["block"]

    def set_pair(I, b, a, k, n):
        b.attrs["items"] = [it for it in b.attrs["items"] if not (it[0] == "pair" and it[1] == a[0])]
        b.attrs["items"].append(("pair", a[0], a[1]))
        return None
    M[("CifBlock", "set_pair")] = set_pair

    def init_loop(I, b, a, k, n):
        loop = Obj(kind="CifLoop", label="loop", attrs={"prefix": a[0], "names": list(a[1]), "cols": None})
        b.attrs["items"].append(("loop", loop))
        return loop
    M[("CifBlock", "init_loop")] = init_loop

    def set_all_values(I, loop, a, k, n):
        cols = a[0]
        if len(cols) != len(loop.attrs["names"]):
            raise I.fault("ValueError", n, "wrong number of columns for the loop")
        loop.attrs["cols"] = [list(c) for c in cols]
        loop.attrs["value_tags"] = tuple(getattr(cols, "tags", ()))      # value-changing operations applied to the table written
        return None
    M[("CifLoop", "set_all_values")] = set_all_values
    A[("CifLoop", "tags")] = lambda I, loop, n: [loop.attrs["prefix"] + x for x in loop.attrs["names"]]
    M[("CifDoc", "as_string")] = lambda I, d, a, k, n: d

    def write_file(I, d, a, k, n):
        fs[a[0] if isinstance(a[0], str) else I.describe(a[0])] = d
        return None
    M[("CifDoc", "write_file")] = write_file

    def read_file(I, a, k, n):
        d = fs.get(a[0])
        if not (isinstance(d, Obj) and d.kind == "CifDoc"):
            raise Raised(ExcVal(["OSError", "Exception", "BaseException"], node=n, msg="not a cif"))
        return d
    E["gemmi.cif.read_file"] = read_file

    def read_string(I, a, k, n):
        d = a[0]
        if not (isinstance(d, Obj) and d.kind == "CifDoc"):
            raise Raised(ExcVal(["ValueError", "Exception", "BaseException"], node=n, msg="not a cif"))
        return d
    E["gemmi.cif.read_string"] = read_string

    def find_value(I, b, a, k, n):
        for it in b.attrs["items"]:
            if it[0] == "pair" and it[1] == a[0]:
                return it[2]
        return None
    M[("CifBlock", "find_value")] = find_value

    def block_iter(I, b, a, k, n):
        out = []
        for it in b.attrs["items"]:
            if it[0] == "pair":
                out.append(Obj(kind="CifItem", attrs={"pair": (it[1], it[2]), "loop": None}))
            else:
                out.append(Obj(kind="CifItem", attrs={"pair": None, "loop": it[1]}))
        return out
    M[("CifBlock", "__iter__")] = block_iter

    def block_find(I, b, a, k, n):
        tags = a[0]
        for it in b.attrs["items"]:
            if it[0] == "loop":
                lt = [it[1].attrs["prefix"] + x for x in it[1].attrs["names"]]
                if lt == tags:
                    return Obj(kind="CifTable", attrs={"tags": tags, "cols": it[1].attrs["cols"]})
        I.err(n, f"block.find({tags})")
    M[("CifBlock", "find")] = block_find

    # ---------------- misc -------------------------------------------------------------------------------
    def path_exists(I, v, a, k, n):
        p = v.attrs["p"]
        if not isinstance(p, str):
            # the text of a document used as a file name: the OS refuses a name component longer than 255 bytes with
            # OSError(ENAMETOOLONG), which Path.exists() does not swallow; a short text is simply "no such file"
            if I.choose(2, "document text longer than a file name may be") == 0:
                raise I.fault("OSError", n, "[Errno 36] File name too long")
            return False
        return p in fs
    E["pathlib.Path"] = lambda I, a, k, n: Obj(kind="Path", attrs={"p": a[0]})
    M[("Path", "exists")] = path_exists
    M[("Path", "__str__")] = lambda I, v, a, k, n: v.attrs["p"]

    def splitext(I, a, k, n):
        p = a[0]
        if isinstance(p, str):
            import os
            return tuple(os.path.splitext(p))
        I.err(n, "splitext of symbolic path")
    E["os.path.splitext"] = splitext

    def literal_eval(I, a, k, n):
        s = a[0]
        if isinstance(s, str):
            import ast as _a
            try:
                return I.from_py(_a.literal_eval(s))
            except Exception:
                raise I.fault("ValueError", n, "malformed node or string")
        if isinstance(s, SStr):
            ps = s.parts
            if isinstance(ps[0], str) and isinstance(ps[-1], str) and ps[0][0] in "([" and ps[-1][-1] in ")]":
                inner = [ps[0][1:]] + ps[1:-1] + [ps[-1][:-1]]
                items = []
                for p in inner:
                    if isinstance(p, str):
                        if p.strip(" ,") != "":
                            I.err(n, f"literal_eval of {s!r}")
                    else:
                        items.append(p)
                return tuple(items) if ps[0][0] == "(" else items
        I.err(n, f"literal_eval of {s!r}")
    E["ast.literal_eval"] = literal_eval
