"""Self-test of the checkers (thorough tier): every catalogued *mutant* (one construct of the current tree rewritten so
that the property breaks while the file still compiles) must be reported by the property's check, every *equivalent*
(a behaviour-preserving rewrite) must leave it silent.  The rewrites are applied to a scratch copy of <root>/src outside
/repo and /verif, which is removed afterwards; the check is re-run on the copy with --root (evidence redirected).

A rewrite whose anchor text is not present in the current tree is skipped and reported as such (the tree was edited):
the self-test never makes the property check fail for that reason.  A catalogued mutant that is *not* reported, or an
equivalent that *is*, is a checker regression: the run ends with ANALYSIS-ERROR (exit 2), never with VIOLATION.
"""
from __future__ import annotations

import json
import os
import shutil
import subprocess
import sys
import tempfile
from concurrent.futures import ThreadPoolExecutor
from pathlib import Path

VERIF = Path(__file__).resolve().parent.parent
CATALOGUE_DIR = VERIF / "pgverif" / "selftest_catalogue"
SEEDED_DIR = VERIF / "seeded"
EQUIV_DIR = VERIF / "equivalents"


def load_catalogue(prop):
    p = CATALOGUE_DIR / f"{prop}.json"
    return json.loads(p.read_text()) if p.exists() else []


def seeded_for(prop):
    """stored seeded changes (sub-agent made, confirmed): meta.json lists the checks that must report them"""
    out = []
    if SEEDED_DIR.exists():
        for d in sorted(SEEDED_DIR.iterdir()):
            mf = d / "meta.json"
            if mf.exists():
                meta = json.loads(mf.read_text())
                if prop in meta.get("caught_by", {}):
                    out.append({"name": f"seeded/{d.name}", "patch": str(d / "patch.diff"), "expect": "fire",
                                "rule": meta["caught_by"][prop]})
    return out


def equivalents_for(prop):
    """stored behaviour-preserving refactorings (sub-agent made, differential script + pinned suite confirmed): the check of the
    property they were written against must stay silent on them"""
    out = []
    if EQUIV_DIR.exists():
        for d in sorted(EQUIV_DIR.glob(f"{prop}-*")):
            if (d / "patch.diff").exists():
                out.append({"name": f"equivalents/{d.name}", "patch": str(d / "patch.diff"), "expect": "silent"})
    return out


def _apply(entry, scratch):
    if "patch" in entry:
        r = subprocess.run(["patch", "-p1", "-s", "--fuzz=0", "-i", entry["patch"]], cwd=scratch, capture_output=True, text=True)
        for junk in list(Path(scratch).rglob("*.orig")) + list(Path(scratch).rglob("*.rej")):
            junk.unlink()
        if r.returncode != 0 and "GIT binary patch" in Path(entry["patch"]).read_text(errors="replace"):
            # a patch that also changes a shipped binary data file (default.db): `patch` cannot, `git apply` can (no repository needed);
            # start again from pristine files, a partial `patch` run may have changed some
            shutil.rmtree(Path(scratch) / "src")
            shutil.copytree(Path(entry.get("_root", "/repo")) / "src", Path(scratch) / "src", ignore=shutil.ignore_patterns("__pycache__", "*.pyc"))
            r = subprocess.run(["git", "apply", "-p1", entry["patch"]], cwd=scratch, capture_output=True, text=True)
        return r.returncode == 0
    f = Path(scratch) / entry["file"]
    if not f.exists():
        return False
    s = f.read_text()
    edits = entry.get("edits") or [{"old": entry["old"], "new": entry["new"]}]
    for e in edits:
        if s.count(e["old"]) < 1:
            return False
        s = s.replace(e["old"], e["new"], 1 if not e.get("all") else -1)
    f.write_text(s)
    if f.suffix == ".py":
        try:
            compile(s, str(f), "exec")
        except SyntaxError:
            return False
    return True


def _one(prop, root, entry, base):
    scratch = tempfile.mkdtemp(prefix="pgverif-st-", dir=base)
    try:
        shutil.copytree(Path(root) / "src", Path(scratch) / "src", ignore=shutil.ignore_patterns("__pycache__", "*.pyc"))
        entry = dict(entry, _root=str(root))
        if not _apply(entry, scratch):
            return {"name": entry["name"], "status": "skipped (anchor text not in the current tree)"}
        env = dict(os.environ, PGVERIF_EVIDENCE_DIR=str(Path(scratch) / "ev"), PGVERIF_NO_SELFTEST="1", PGVERIF_JOBS="2")
        r = subprocess.run([sys.executable, str(VERIF / "check"), prop, "--tier", "quick", "--no-selftest", "--root", scratch],
                           capture_output=True, text=True, env=env, timeout=1500)
        rules = sorted({ln.split(" -- ")[1] for ln in r.stdout.splitlines() if ln.startswith("  ") and " -- " in ln and len(ln.split(" -- ")) >= 3})
        fired = r.returncode == 1
        want = entry.get("expect", "fire")
        if r.returncode == 2:
            err = next((ln for ln in r.stdout.splitlines() if ln.startswith("ANALYSIS-ERROR")), "ANALYSIS-ERROR")[:200]
            ok = want == "fire" and entry.get("accept_error", False)
            return {"name": entry["name"], "status": "ok (fail-closed)" if ok else "FAILED", "detail": err, "expect": want}
        if want == "fire":
            ok = fired and (not entry.get("rule") or any(x.startswith(entry["rule"]) for x in rules))
        else:
            ok = not fired
        return {"name": entry["name"], "status": "ok" if ok else "FAILED", "expect": want, "reported": rules[:4]}
    except subprocess.TimeoutExpired:
        return {"name": entry["name"], "status": "FAILED", "detail": "timeout"}
    finally:
        shutil.rmtree(scratch, ignore_errors=True)


def run_selftest(prop, root, jobs=8):
    entries = load_catalogue(prop) + seeded_for(prop) + equivalents_for(prop)
    if not entries:
        return {"entries": 0, "note": "no catalogue for this property"}
    base = tempfile.mkdtemp(prefix="pgverif-selftest-", dir=os.environ.get("PGVERIF_SCRATCH") or tempfile.gettempdir())
    try:
        with ThreadPoolExecutor(max_workers=jobs) as ex:
            res = list(ex.map(lambda e: _one(prop, root, e, base), entries))
    finally:
        shutil.rmtree(base, ignore_errors=True)
    failed = [r for r in res if r["status"] == "FAILED"]
    return {
        "entries": len(entries),
        "mutants_reported": sum(1 for r in res if r["status"].startswith("ok") and r.get("expect") == "fire"),
        "equivalents_silent": sum(1 for r in res if r["status"] == "ok" and r.get("expect") == "silent"),
        "skipped": [r["name"] for r in res if r["status"].startswith("skipped")],
        "failed": failed,
        "results": res,
    }


if __name__ == "__main__":
    out = run_selftest(sys.argv[1], sys.argv[2] if len(sys.argv) > 2 else "/repo", jobs=int(os.environ.get("JOBS", "12")))
    for r in out.get("results", []):
        print(f"{r['status']:10s} {r.get('expect', ''):7s} {r['name']}  {r.get('reported', r.get('detail', ''))}")
    print({k: v for k, v in out.items() if k not in ("results",)})
