import json
C="src/pygaps/parsing/csv.py"
X="src/pygaps/parsing/excel.py"
A="src/pygaps/parsing/aif.py"
E=[]
def m(name, file, old, new, expect="fire", rule=None, **kw):
    E.append(dict(name=name, file=file, old=old, new=new, expect=expect, **({"rule": rule} if rule else {}), **kw))
m("csv writer: rounding to 4 decimals", C, "data.round(_PARSER_PRECISION).to_csv(", "data.round(4).to_csv(")
m("csv writer: lossy float format", C, "to_csv(output, sep=separator, index=False, header=True)", "to_csv(output, sep=separator, index=False, header=True, float_format='%.5g')")
m("csv reader: branch words inverted", C, "lambda x: 0 if x == 'ads' else 1", "lambda x: 1 if x == 'ads' else 0")
m("csv reader: loading column taken from position 2", C, "loading_key=data.columns[1],", "loading_key=data.columns[2],")
m("csv reader: model ranges swapped", C, "        model['pressure_range'] = _from_list(line.split(sep=separator)[1])\n        line = raw_csv.readline().rstrip()\n        model['loading_range'] = _from_list(line.split(sep=separator)[1])", "        model['loading_range'] = _from_list(line.split(sep=separator)[1])\n        line = raw_csv.readline().rstrip()\n        model['pressure_range'] = _from_list(line.split(sep=separator)[1])")
m("csv writer: material properties lose their prefix", C, "iso_dict.update({f\"_material_{key}\": val for key, val in material.items()})", "iso_dict.update({f\"material_{key}\": val for key, val in material.items()})")
m("excel writer: adsorption written as 'adsorption'", X, "data['branch'] = data['branch'].replace(0, 'ads').replace(1, 'des')\n\n        columns", "data['branch'] = data['branch'].replace(0, 'adsorption').replace(1, 'des')\n\n        columns")
m("aif writer: desorption loop written from the adsorption data", A, "            df = isotherm.data(branch='des')[columns]", "            df = isotherm.data(branch='ads')[columns]")
m("aif writer: rounding dropped in one loop only", A, "            loop_des.set_all_values(df.round(_PARSER_PRECISION).astype(\"string\").values.T.tolist())", "            loop_des.set_all_values(df.round(3).astype(\"string\").values.T.tolist())")
m("EQ csv writer: branch words via map on both values", C, "data['branch'] = data['branch'].replace(0, 'ads').replace(1, 'des')\n\n        output.write", "data['branch'] = data['branch'].replace(1, 'des').replace(0, 'ads')\n\n        output.write", expect="silent")
json.dump(E, open("/verif/pgverif/selftest_catalogue/C07.json","w"), indent=1)
print(len(E))
