import json
I="src/pygaps/iast/pgiast.py"
K="src/pygaps/characterisation/psd_kernel.py"
U="src/pygaps/utilities/math_utilities.py"
def build(prop, entries):
    json.dump(entries, open(f"/verif/pgverif/selftest_catalogue/{prop}.json","w"), indent=1); print(prop, len(entries))
def m(E, name, file, old, new, expect="fire", rule=None, **kw):
    E.append(dict(name=name, file=file, old=old, new=new, expect=expect, **({"rule": rule} if rule else {}), **kw))
E=[]
m(E,"iast_point: [0,1] guard dropped", I, "    if numpy.any((adsorbed_mole_fractions < 0.0) | (adsorbed_mole_fractions > 1.0)):", "    if False:")
m(E,"iast_point: success test dropped", I, "    if not res.success:\n        raise CalculationError(\n            textwrap.dedent(\n                f\"\"\"\n                Root finding for adsorbed phase", "    if False:\n        raise CalculationError(\n            textwrap.dedent(\n                f\"\"\"\n                Root finding for adsorbed phase")
m(E,"iast_point: same component on both sides of the objective", I, "            sp2 = isotherms[i + 1].spreading_pressure_at(\n                partial_pressures[i + 1] / ads_mole_frac2,\n                branch=branch,\n            )\n            spreading_pressure_diff[i] = sp1 - sp2\n\n        return spreading_pressure_diff\n\n    ###\n    #   Solve for mole fractions in adsorbed phase", "            sp2 = isotherms[i].spreading_pressure_at(\n                partial_pressures[i + 1] / ads_mole_frac2,\n                branch=branch,\n            )\n            spreading_pressure_diff[i] = sp1 - sp2\n\n        return spreading_pressure_diff\n\n    ###\n    #   Solve for mole fractions in adsorbed phase")
m(E,"iast_point: fictitious pressure p*x", I, "    pressure0 = partial_pressures / adsorbed_mole_fractions", "    pressure0 = partial_pressures * adsorbed_mole_fractions")
m(E,"iast_point: one component left out of the total loading", I, "    inverse_loading = 0.0\n    for i in range(n_components):\n        inverse_loading += adsorbed_mole_fractions[i] / isotherms[i].loading_at(pressure0[i], branch=branch)\n    loading_total = 1.0 / inverse_loading\n\n    # get loading of each component by multiplying by mole fractions\n    loadings = adsorbed_mole_fractions * loading_total\n    if verbose:", "    inverse_loading = 0.0\n    for i in range(n_components - 1):\n        inverse_loading += adsorbed_mole_fractions[i] / isotherms[i].loading_at(pressure0[i], branch=branch)\n    loading_total = 1.0 / inverse_loading\n\n    # get loading of each component by multiplying by mole fractions\n    loadings = adsorbed_mole_fractions * loading_total\n    if verbose:")
m(E,"reverse_iast: gas fraction guard only checks the lower side", I, "    if numpy.sum(gas_mole_fractions < 0.0) != 0 or numpy.sum(gas_mole_fractions > 1.0) != 0:", "    if numpy.sum(gas_mole_fractions < 0.0) != 0:")
m(E,"iast_point_fraction normalises the fractions", I, "    partial_pressures = numpy.asarray(gas_mole_fraction) * total_pressure", "    partial_pressures = numpy.asarray(gas_mole_fraction) / numpy.sum(gas_mole_fraction) * total_pressure")
m(E,"selectivity without the gas fractions", I, "(x[0] / mole_fractions[0]) / (x[1] / mole_fractions[1])", "x[0] / x[1]")
m(E,"EQ last fraction via explicit sum", I, "                ads_mole_frac2 = 1.0 - numpy.sum(adsorbed_mole_fractions)", "                ads_mole_frac2 = 1.0 - sum(adsorbed_mole_fractions)", expect="silent", accept_error=True)
build("C13", E)
E=[]
m(E,"bounds (None, None)", K, "bounds = [(0, None) for pore in pore_widths]", "bounds = [(None, None) for pore in pore_widths]")
m(E,"reported fit evaluated at the initial guess", K, "kernel_final_loading = kernel_loading(result.x)", "kernel_final_loading = kernel_loading(guess)")
m(E,"interpolators extrapolate", K, "kind='cubic'", "kind='cubic', bounds_error=False")
m(E,"success test dropped", K, "    if not result.success:", "    if False:")
m(E,"ValueError no longer converted", K, "    except ValueError as err:\n        raise CalculationError(", "    except KeyError as err:\n        raise CalculationError(")
m(E,"loading sliced one short", K, "    loading = loading[minimum:maximum + 1]", "    loading = loading[minimum:maximum]")
m(E,"method without bounds support", K, "method='SLSQP',", "method='BFGS',")
m(E,"bspline: x and y swapped in the control points", U, "cv = numpy.stack((xs, ys), axis=-1)", "cv = numpy.stack((ys, xs), axis=-1)")
m(E,"cumulative from the pre-spline widths when lengths agree", K, "    dpore_widths = numpy.ediff1d(pore_widths, to_begin=pore_widths[0])\n    pore_vol_cum", "    if len(pore_widths) != len(result.x):\n        dpore_widths = numpy.ediff1d(pore_widths, to_begin=pore_widths[0])\n    else:\n        dpore_widths = numpy.ediff1d(numpy.asarray(list(kernel.keys()), dtype='float64'), to_begin=0)\n    pore_vol_cum")
m(E,"baseline shift before the limits are applied", K, "    # select the maximum and minimum of the points and the pressure associated\n    minimum = 0", "    if loading.min() < 0:\n        loading = loading - loading.min()\n    # select the maximum and minimum of the points and the pressure associated\n    minimum = 0")
m(E,"EQ cumulative product in the other order", K, "numpy.cumsum(pore_dist * dpore_widths)", "numpy.cumsum(dpore_widths * pore_dist)", expect="silent")
m(E,"EQ bounds built in a loop", K, "    bounds = [(0, None) for pore in pore_widths]\n", "    bounds = []\n    for pore in pore_widths:\n        bounds.append((0, None))\n", expect="silent")
m(E,"EQ bounds as optimize.Bounds(0, inf)", K, "    bounds = [(0, None) for pore in pore_widths]", "    bounds = optimize.Bounds(0, numpy.inf)", expect="silent")
m(E,"EQ bounds by list multiplication", K, "    bounds = [(0, None) for pore in pore_widths]", "    bounds = [(0, None)] * len(pore_widths)", expect="silent")
m(E,"EQ first differences via numpy.diff(prepend=0)", K, "    dpore_widths = numpy.ediff1d(pore_widths, to_begin=pore_widths[0])\n    pore_vol_cum", "    dpore_widths = numpy.diff(pore_widths, prepend=0)\n    pore_vol_cum", expect="silent")
m(E,"EQ objective with operators", K, "        return numpy.square(  # -> square the difference\n            numpy.subtract(  # -> between calculated and isotherm\n                kernel_loading(pore_dist),\n                loading)).sum(axis=0)  # -> then sum the squares together", "        return numpy.sum((loading - kernel_loading(pore_dist))**2)", expect="silent")
build("C18", E)
