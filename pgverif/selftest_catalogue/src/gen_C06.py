import json
J="src/pygaps/parsing/json.py"
B="src/pygaps/core/baseisotherm.py"
E=[]
def m(name, file, old, new, expect="fire", rule=None, **kw):
    E.append(dict(name=name, file=file, old=old, new=new, expect=expect, **({"rule": rule} if rule else {}), **kw))
m("writer marks desorption with another word", J, "                value['branch'] = 'des'", "                value['branch'] = 'desorption'")
m("reader: model key renamed on one side", J, "model = raw_dict.pop(\"isotherm_model\", None)", "model = raw_dict.pop(\"model\", None)")
m("reader keeps file_version as metadata", J, "version = raw_dict.pop(\"file_version\", None)", "version = raw_dict.get(\"file_version\", None)")
m("writer: sort_keys only for string target", J, "    args_to_json['sort_keys'] = True  # we will sort always\n\n    if path:", "    if not path:\n        args_to_json['sort_keys'] = True\n\n    if path:")
m("reader: desorption mark mapped to 0", J, ".fillna(0).replace('des', 1)", ".fillna(1).replace('des', 0)")
m("to_dict drops the temperature unit", B, "        parameter_dict['temperature'] = parameter_dict.pop('_temperature')\n", "        parameter_dict['temperature'] = parameter_dict.pop('_temperature')\n        parameter_dict.pop('temperature_unit', None)\n")
m("all-adsorption isotherm not announced (fix reverted)", J, "        if not isotherm.has_branch('des'):\n            # only desorption points carry a mark: say that their absence is meant\n            iso_dict['branch'] = 'ads'\n", "")
m("EQ both sides renamed consistently", J, "", "", expect="silent", edits=[{"old":"iso_dict[\"isotherm_model\"]","new":"iso_dict[\"isotherm_model_v2\"]"},{"old":"raw_dict.pop(\"isotherm_model\", None)","new":"raw_dict.pop(\"isotherm_model_v2\", None)"}])
m("EQ writer builds rows with a loop", J, "        iso_dict[\"isotherm_data\"] = [process_data(v) for v in isotherm_data_dict.values()]", "        rows = []\n        for v in isotherm_data_dict.values():\n            rows.append(process_data(v))\n        iso_dict[\"isotherm_data\"] = rows", expect="silent")
json.dump(E, open("/verif/pgverif/selftest_catalogue/C06.json","w"), indent=1)
print(len(E))
