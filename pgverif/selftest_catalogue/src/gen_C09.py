import json
S="src/pygaps/parsing/sqlite.py"
def build(prop, entries):
    json.dump(entries, open(f"/verif/pgverif/selftest_catalogue/{prop}.json","w"), indent=1); print(prop, len(entries))
def m(E, name, file, old, new, expect="fire", rule=None, **kw):
    E.append(dict(name=name, file=file, old=old, new=new, expect=expect, **({"rule": rule} if rule else {}), **kw))
E=[]
m(E,"foreign keys pragma dropped", S, "            cursor.execute('PRAGMA foreign_keys = ON')\n", "")
m(E,"commit moved into finally", S, "        else:\n            conn.commit()\n\n        finally:\n            conn.close()", "        finally:\n            conn.commit()\n            conn.close()")
m(E,"nested material upload opens its own connection", S, "material_to_db(isotherm.material, db_path=db_path, cursor=cursor)", "material_to_db(isotherm.material, db_path=db_path)")
m(E,"isotherm delete removes the parent row first", S, "    # Delete data from isotherm_data table\n    cursor.execute(build_delete(table='isotherm_data', where=['iso_id']), {'iso_id': iso_id})\n\n    # Delete properties from isotherm_properties table\n    cursor.execute(build_delete(table='isotherm_properties', where=['iso_id']), {'iso_id': iso_id})\n\n    # Delete isotherm in isotherms table\n    cursor.execute(build_delete(table='isotherms', where=['id']), {'id': iso_id})", "    # Delete isotherm in isotherms table\n    cursor.execute(build_delete(table='isotherms', where=['id']), {'id': iso_id})\n\n    # Delete data from isotherm_data table\n    cursor.execute(build_delete(table='isotherm_data', where=['iso_id']), {'iso_id': iso_id})\n\n    # Delete properties from isotherm_properties table\n    cursor.execute(build_delete(table='isotherm_properties', where=['iso_id']), {'iso_id': iso_id})")
m(E,"isotherm delete forgets the property rows", S, "    # Delete properties from isotherm_properties table\n    cursor.execute(build_delete(table='isotherm_properties', where=['iso_id']), {'iso_id': iso_id})\n\n    # Delete isotherm in isotherms table", "    # Delete isotherm in isotherms table")
m(E,"integrity errors swallowed by the wrapper", S, "        except sqlite3.IntegrityError as err:\n            conn.rollback()\n            raise ParsingError(err) from err", "        except sqlite3.IntegrityError as err:\n            conn.rollback()\n            ret = None")
m(E,"EQ explicit rollback dropped (close without commit discards the transaction)", S, "        except sqlite3.InterfaceError as err:\n            conn.rollback()\n            raise ParsingError(err) from err\n\n        else:", "        except sqlite3.InterfaceError as err:\n            raise ParsingError(err) from err\n\n        else:", expect="silent")
m(E,"autocommit connection", S, "        conn = sqlite3.connect(db_path)\n", "        conn = sqlite3.connect(db_path, isolation_level=None)\n")
m(E,"EQ wrapper catches both error classes in one clause", S, "        except sqlite3.IntegrityError as err:\n            conn.rollback()\n            raise ParsingError(err) from err\n\n        except sqlite3.InterfaceError as err:\n            conn.rollback()\n            raise ParsingError(err) from err", "        except (sqlite3.IntegrityError, sqlite3.InterfaceError) as err:\n            conn.rollback()\n            raise ParsingError(err) from err", expect="silent")
build("C09", E)
E=[]
m(E,"retrieved isotherm keeps the database id", S, "", "", edits=[{"old":"            iso_params.pop('id')\n","new":""}])
m(E,"positional db_path ignored again", S, "            if 'db_path' in params and params.index('db_path') < len(args):\n                db_path = args[params.index('db_path')]\n", "            pass\n")
m(E,"foreign keys pragma dropped", S, "            cursor.execute('PRAGMA foreign_keys = ON')\n", "")
m(E,"isotherm delete forgets the data rows", S, "    # Delete data from isotherm_data table\n    cursor.execute(build_delete(table='isotherm_data', where=['iso_id']), {'iso_id': iso_id})\n\n", "")
m(E,"delete of an absent isotherm passes silently", S, "    if ids is None:\n        raise sqlite3.IntegrityError(\n            \"Isotherm to delete does not exist in database. Did you modify any parameters?\"\n        )\n", "    if ids is None:\n        return\n")
build("C08", E)
