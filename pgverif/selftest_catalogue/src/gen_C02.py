import json
P="src/pygaps/core/pointisotherm.py"
B="src/pygaps/core/baseisotherm.py"
E=[]
def m(name, file, old, new, expect="fire", rule=None, **kw):
    E.append(dict(name=name, file=file, old=old, new=new, expect=expect, **({"rule": rule} if rule else {}), **kw))
m("convert_pressure: mode label store skipped", P, "        if mode_to != self.pressure_mode:\n            self.pressure_mode = mode_to\n", "")
m("convert_pressure: unit kept for relative target", P, "        if unit_to != self.pressure_unit and mode_to == 'absolute':\n            self.pressure_unit = unit_to\n        else:\n            self.pressure_unit = None", "        if unit_to != self.pressure_unit:\n            self.pressure_unit = unit_to")
m("convert_pressure: interpolator reset dropped", P, "            self.pressure_unit = None\n\n        # Reset interpolators\n        self.l_interpolator = None\n        self.p_interpolator = None", "            self.pressure_unit = None")
m("convert_material: data stored before the second conversion", P, "            material=self.material\n        )\n", "            material=self.material\n        )\n        self.data_raw[self.loading_key] = loading\n")
m("convert_material: basis label store skipped", P, "        if basis_to != self.material_basis:\n            self.material_basis = basis_to\n", "")
m("convert_material: fractional loading not co-converted", P, "        if self.loading_basis in ['percent', 'fraction']:\n            if basis_to == 'volume':", "        if self.loading_basis in ['percent']:\n            if basis_to == 'volume':")
m("convert_pressure: from/to swapped", P, "                mode_from=self.pressure_mode,\n                mode_to=mode_to,\n                unit_from=self.pressure_unit,\n                unit_to=unit_to,\n                adsorbate=self.adsorbate,\n                temp=self.temperature\n            )\n        except pgError", "                mode_from=mode_to,\n                mode_to=self.pressure_mode,\n                unit_from=unit_to,\n                unit_to=self.pressure_unit,\n                adsorbate=self.adsorbate,\n                temp=self.temperature\n            )\n        except pgError")
m("EQ convert_pressure: label store unconditional", P, "        if mode_to != self.pressure_mode:\n            self.pressure_mode = mode_to\n", "        self.pressure_mode = mode_to\n", expect="silent")
m("EQ convert_material: unit label store unconditional", P, "        if unit_to != self.material_unit:\n            self.material_unit = unit_to\n", "        self.material_unit = unit_to\n", expect="silent")
json.dump(E, open("/verif/pgverif/selftest_catalogue/C02.json","w"), indent=1)
print(len(E))
