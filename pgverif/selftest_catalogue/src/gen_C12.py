import json
B="src/pygaps/modelling/base_model.py"
M="src/pygaps/core/modelisotherm.py"
def build(prop, entries):
    json.dump(entries, open(f"/verif/pgverif/selftest_catalogue/{prop}.json","w"), indent=1); print(prop, len(entries))
def m(E, name, file, old, new, expect="fire", rule=None, **kw):
    E.append(dict(name=name, file=file, old=old, new=new, expect=expect, **({"rule": rule} if rule else {}), **kw))
E=[]
m(E,"rmse normalised by the other range", B, "            fit_func_base = lambda pr, ld: self.loading(pr) - ld\n            model_range = self.loading_range[1] - self.loading_range[0]", "            fit_func_base = lambda pr, ld: self.loading(pr) - ld\n            model_range = self.pressure_range[1] - self.pressure_range[0]")
m(E,"best model chosen by the largest error", M, "best_fit = attempts[errors.index(min(errors))]", "best_fit = attempts[errors.index(max(errors))]")
m(E,"bounds not passed to the optimiser", B, "            \"bounds\": bounds,  # supply the bounds of the parameters\n", "")
m(E,"optimiser failure ignored", B, "        if not opt_res.success:\n            raise CalculationError(", "        if False:\n            raise CalculationError(")
m(E,"parameters written in reversed order", B, "            self.params[param_names[i]] = opt_res.x[i]", "            self.params[param_names[i]] = opt_res.x[-1 - i]")
m(E,"rmse without the square root", B, "self.rmse = numpy.sqrt(numpy.sum((opt_res.fun)**2) / len(loading)) / model_range", "self.rmse = numpy.sum((opt_res.fun)**2) / len(loading) / model_range")
m(E,"EQ parameter assignment via zip", B, "        for i, _ in enumerate(param_names):\n            self.params[param_names[i]] = opt_res.x[i]", "        for i, name_ in enumerate(param_names):\n            self.params[name_] = opt_res.x[i]", expect="silent")
m(E,"EQ rmse via numpy.mean", B, "        self.rmse = numpy.sqrt(numpy.sum((opt_res.fun)**2) / len(loading)) / model_range", "        residuals = opt_res.fun\n        self.rmse = numpy.sqrt(numpy.mean(residuals**2)) / model_range", expect="silent")
m(E,"EQ best fit via min(key=)", M, "        errors = [x.model.rmse for x in attempts]\n        best_fit = attempts[errors.index(min(errors))]", "        best_fit = min(attempts, key=lambda x: x.model.rmse)", expect="silent")
m(E,"EQ fit arguments via dict()", B, "        fit_args = {\n            \"fun\": fit_func,  # fitting function\n            \"x0\": guess,  # initial guess\n            \"bounds\": bounds,  # supply the bounds of the parameters\n            \"args\": (pressure, loading),  # extra arguments to the fit function\n        }", "        fit_args = dict(fun=fit_func, x0=guess, bounds=bounds, args=(pressure, loading))", expect="silent")
m(E,"Virial rmse divides outside the root", "src/pygaps/modelling/virial.py", "self.rmse = numpy.sqrt(numpy.sum((opt_res.fun)**2) / len(loading))", "self.rmse = numpy.sqrt(numpy.sum(opt_res.fun**2)) / len(loading)")
build("C12", E)
