import json
D="src/pygaps/modelling/"
def build(prop, entries):
    json.dump(entries, open(f"/verif/pgverif/selftest_catalogue/{prop}.json","w"), indent=1); print(prop, len(entries))
def m(E, name, file, old, new, expect="fire", rule=None, **kw):
    E.append(dict(name=name, file=file, old=old, new=new, expect=expect, **({"rule": rule} if rule else {}), **kw))
E=[]
m(E,"Langmuir inverse: sign in the denominator", D+"langmuir.py", "return loading / (self.params[\"K\"] * (self.params[\"n_m\"] - loading))", "return loading / (self.params[\"K\"] * (self.params[\"n_m\"] + loading))")
m(E,"Toth inverse: exponent 1/t -> t", D+"toth.py", "return (loading / (n_m * K)) / (1 - (loading / n_m)**t)**(1 / t)", "return (loading / (n_m * K)) / (1 - (loading / n_m)**t)**t")
m(E,"DSLangmuir inverse: discriminant sign", D+"dslangmuir.py", "numpy.sqrt(y**2 - 4 * x * (-loading))", "numpy.sqrt(y**2 + 4 * x * (-loading))")
m(E,"BET inverse: other root", D+"bet.py", "res = (-y - numpy.sqrt(y**2 - 4 * x * loading)) / (2 * x)", "res = (-y + numpy.sqrt(y**2 - 4 * x * loading)) / (2 * x)")
m(E,"Freundlich inverse: exponent inverted", D+"freundlich.py", "return (loading / self.params['K'])**self.params['m']", "return (loading / self.params['K'])**(1 / self.params['m'])")
m(E,"Quadratic loading: coefficient 2 dropped", D+"quadratic.py", "return nm * (Ka + 2.0 * Kb * pressure) * pressure / (1.0 + Ka * pressure + Kb * pressure**2)", "return nm * (Ka + Kb * pressure) * pressure / (1.0 + Ka * pressure + Kb * pressure**2)")
m(E,"EQ Langmuir loading written with a common factor", D+"langmuir.py", "        kp = self.params[\"K\"] * pressure\n        return self.params[\"n_m\"] * kp / (1.0 + kp)", "        kp = self.params[\"K\"] * pressure\n        return self.params[\"n_m\"] * (1.0 - 1.0 / (1.0 + kp))", expect="silent")
build("C10", E)
E=[]
m(E,"Langmuir spreading pressure: K dropped inside the log", D+"langmuir.py", "return self.params[\"n_m\"] * numpy.log(1.0 + self.params[\"K\"] * pressure)", "return self.params[\"n_m\"] * numpy.log(1.0 + pressure)")
m(E,"Toth spreading pressure integrates loading(x) without /x", D+"toth.py", "integrate.quad(lambda x: self.loading(x) / x, 0, pressure)[0]", "integrate.quad(lambda x: self.loading(x), 0, pressure)[0]")
m(E,"Toth spreading pressure: lower limit 1", D+"toth.py", "integrate.quad(lambda x: self.loading(x) / x, 0, pressure)[0]", "integrate.quad(lambda x: self.loading(x) / x, 1, pressure)[0]")
m(E,"BET spreading pressure: log argument inverted", D+"bet.py", "return nm * numpy.log((1.0 - N * pressure + C * pressure) / (1.0 - N * pressure))", "return nm * numpy.log((1.0 - N * pressure) / (1.0 - N * pressure + C * pressure))")
m(E,"Freundlich spreading pressure: factor m dropped", D+"freundlich.py", "return m * K * pressure**(1 / m)", "return K * pressure**(1 / m)")
m(E,"point isotherm: first segment area halved", "src/pygaps/core/pointisotherm.py", "        area = loadings[0]  # area of first segment", "        area = loadings[0] / 2  # area of first segment")
m(E,"point isotherm: refusal below the first point is back", "src/pygaps/core/pointisotherm.py", "        if interp_fill is None and pressure > pressures.max():", "        if interp_fill is None and (pressure > pressures.max() or pressure < pressures.min()):")
m(E,"EQ BET spreading pressure as a difference of logs", D+"bet.py", "return nm * numpy.log((1.0 - N * pressure + C * pressure) / (1.0 - N * pressure))", "return nm * (numpy.log(1.0 - N * pressure + C * pressure) - numpy.log(1.0 - N * pressure))", expect="silent")
build("C11", E)
