import json
F="src/pygaps/units/converter_mode.py"
U="src/pygaps/units/converter_unit.py"
E=[]
def m(name, file, old, new, expect="fire", rule=None, **kw):
    E.append(dict(name=name, file=file, old=old, new=new, expect=expect, **({"rule": rule} if rule else {}), **kw))
m("loading mass->volume_gas sign flipped", F, "constant = adsorbate.gas_density(temp=temp)\n                sign = -1", "constant = adsorbate.gas_density(temp=temp)\n                sign = 1")
m("loading mass->volume_liquid uses gas density", F, "            elif _basis_to == 'volume_liquid':\n                constant = adsorbate.liquid_density(temp=temp)\n                sign = -1", "            elif _basis_to == 'volume_liquid':\n                constant = adsorbate.gas_density(temp=temp)\n                sign = -1")
m("percent->fraction drops /100", F, "                if basis_from == 'percent':\n                    return value / 100", "                if basis_from == 'percent':\n                    return value")
m("percent factor 0.01 -> 100", F, "                    if basis_from == 'percent':\n                        factor = 0.01", "                    if basis_from == 'percent':\n                        factor = 100")
m("relative% pressure factor not divided", F, "                factor = factor / 100", "                factor = factor * 100")
m("c_unit from/to swapped", U, "(unit_list[unit_from] / unit_list[unit_to]) ** sign", "(unit_list[unit_to] / unit_list[unit_from]) ** sign")
m("material volume->molar uses molar mass only", F, "            elif basis_to == 'molar':\n                constant = material.density / material.molar_mass\n                sign = 1", "            elif basis_to == 'molar':\n                constant = material.molar_mass\n                sign = 1")
m("material unit conversion sign dropped", F, "return c_unit(_MATERIAL_MODE[basis_from], value, unit_from, unit_to, sign=-1)", "return c_unit(_MATERIAL_MODE[basis_from], value, unit_from, unit_to)")
m("c_material unit check removed", F, "        _check_unit(unit_to, _MATERIAL_MODE[basis_to], 'material')\n        _check_unit(unit_from", "        _check_unit(unit_from")
m("temperature offset sign", F, "return value - _TEMPERATURE_UNITS[unit_to]", "return value + _TEMPERATURE_UNITS[unit_to]")
m("relative->relative% inverted", F, "            if mode_to == \"relative%\":\n                sign = 1\n            elif mode_to == \"relative\":\n                sign = -1", "            if mode_to == \"relative%\":\n                sign = -1\n            elif mode_to == \"relative\":\n                sign = 1")
# equivalents
m("EQ x/100 as x*0.01 (fraction)", F, "                    return value / 100", "                    return value * 0.01", expect="silent")
m("EQ factor/100 as factor*0.01", F, "                factor = factor / 100", "                factor = factor * 0.01", expect="silent")
m("EQ renamed local in c_unit", U, "    return value * \\\n        (unit_list[unit_from] / unit_list[unit_to]) ** sign", "    ratio = unit_list[unit_from] / unit_list[unit_to]\n    return value * ratio ** sign", expect="silent")
json.dump(E, open("/verif/pgverif/selftest_catalogue/C01.json","w"), indent=1)
print(len(E))
