import json
A="src/pygaps/core/adsorbate.py"
J="src/pygaps/data/adsorbates.json"
def build(prop, entries):
    json.dump(entries, open(f"/verif/pgverif/selftest_catalogue/{prop}.json","w"), indent=1); print(prop, len(entries))
def m(E, name, file, old, new, expect="fire", rule=None, **kw):
    E.append(dict(name=name, file=file, old=old, new=new, expect=expect, **({"rule": rule} if rule else {}), **kw))
E=[]
m(E,"liquid density read on the vapour side (Q=1)", A, "                state.update(CP.QT_INPUTS, 0.0, temp)\n                return state.rhomass() / 1000\n            except BaseException as err:\n                _warn_reading_params(err)\n                return self.liquid_density(temp, calculate=False)", "                state.update(CP.QT_INPUTS, 1.0, temp)\n                return state.rhomass() / 1000\n            except BaseException as err:\n                _warn_reading_params(err)\n                return self.liquid_density(temp, calculate=False)")
m(E,"gas density /100", A, "                state.update(CP.QT_INPUTS, 1.0, temp)\n                return state.rhomass() / 1000", "                state.update(CP.QT_INPUTS, 1.0, temp)\n                return state.rhomass() / 100")
m(E,"surface tension fallback reads another property", A, "            return self.get_prop(\"surface_tension\")", "            return self.get_prop(\"liquid_density\")")
m(E,"liquid density fallback returns instead of raising", A, "        try:\n            return self.get_prop(\"liquid_density\")\n        except ParameterError as err:\n            _raise_calculation_error(err)", "        try:\n            return self.get_prop(\"liquid_density\")\n        except ParameterError as err:\n            return None")
m(E,"duplicate alias in the shipped list", J, "            \"he\",\n            \"helium\"\n", "            \"he\",\n            \"helium\",\n            \"neon\"\n")
m(E,"shipped molar mass of helium off", J, "\"molar_mass\": 4.002602,", "\"molar_mass\": 4.2,")
m(E,"saturation pressure: unit ignored for stored values", A, "            sat_p = c_unit(_PRESSURE_UNITS, sat_p, 'Pa', unit)", "            pass")
build("C20", E)
