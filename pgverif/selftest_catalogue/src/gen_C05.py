import json
H="src/pygaps/utilities/hashgen.py"
P="src/pygaps/core/pointisotherm.py"
B="src/pygaps/core/baseisotherm.py"
E=[]
def m(name, file, old, new, expect="fire", rule=None, **kw):
    E.append(dict(name=name, file=file, old=old, new=new, expect=expect, **({"rule": rule} if rule else {}), **kw))
m("hash: sort_keys dropped", H, "json.dumps(_numbers_as_float(raw_dict), sort_keys=True)", "json.dumps(_numbers_as_float(raw_dict))")
m("hash: row labels hashed again", H, "hash_pandas_object(data, index=False)", "hash_pandas_object(data)")
m("hash: builtin hash() of the text", H, "    return md_hasher.hexdigest()", "    return str(hash(json.dumps(raw_dict, sort_keys=True)))")
m("hash: rounding dropped", H, "data = isotherm.data_raw.round(8)", "data = isotherm.data_raw")
m("cache field no longer reserved", P, "        'l_interpolator',\n", "")
m("unit label reserved (excluded from identity)", B, "        \"_temperature\",\n        \"m\",", "        \"_temperature\",\n        \"pressure_unit\",\n        \"m\",")
m("eq compares materials only", B, "return self.iso_id == other_isotherm.iso_id", "return str(self.material) == str(other_isotherm.material)")
m("EQ reserved list reordered", B, "        \"_material\",\n        \"_adsorbate\",", "        \"_adsorbate\",\n        \"_material\",", expect="silent")
m("EQ hash dict serialised in two steps", H, "    md_hasher = hashlib.md5(json.dumps(_numbers_as_float(raw_dict), sort_keys=True).encode('utf-8'))", "    text = json.dumps(_numbers_as_float(raw_dict), sort_keys=True)\n    md_hasher = hashlib.md5(text.encode('utf-8'))", expect="silent")
json.dump(E, open("/verif/pgverif/selftest_catalogue/C05.json","w"), indent=1)
print(len(E))
