import json
D="src/pygaps/characterisation/"
def build(prop, entries):
    json.dump(entries, open(f"/verif/pgverif/selftest_catalogue/{prop}.json","w"), indent=1); print(prop, len(entries))
def m(E, name, file, old, new, expect="fire", rule=None, **kw):
    E.append(dict(name=name, file=file, old=old, new=new, expect=expect, **({"rule": rule} if rule else {}), **kw))
E=[]
m(E,"BET area: 10**(-17)", D+"area_bet.py", "bet_area = n_monolayer * cross_section * (10**(-18)) * constants.Avogadro", "bet_area = n_monolayer * cross_section * (10**(-17)) * constants.Avogadro")
m(E,"BET monolayer from the slope", D+"area_bet.py", "n_monolayer = 1 / (intercept * c_const)", "n_monolayer = 1 / (slope * c_const)")
m(E,"BET window without +1", D+"area_bet.py", "    pressure = pressure[minimum:maximum + 1]\n    loading = loading[minimum:maximum + 1]\n\n    # calculate the BET transform", "    pressure = pressure[minimum:maximum]\n    loading = loading[minimum:maximum]\n\n    # calculate the BET transform")
m(E,"BET window: minimum pressure 20 % of the maximum", D+"area_bet.py", "min_p = pressure[maximum] * 0.1", "min_p = pressure[maximum] * 0.2")
m(E,"Langmuir constant from the slope", D+"area_lang.py", "langmuir_const = 1 / (intercept * n_monolayer)", "langmuir_const = 1 / (slope * n_monolayer)")
m(E,"t-plot volume: /1000 dropped", D+"t_plots.py", "adsorbed_volume = intercept * molar_mass / liquid_density / 1000", "adsorbed_volume = intercept * molar_mass / liquid_density")
m(E,"DR potential: /1000 dropped", D+"dr_da_plots.py", "potential = (constants.gas_constant * iso_temp) / (-slope)**(1 / exp) / 1000", "potential = (constants.gas_constant * iso_temp) / (-slope)**(1 / exp)")
m(E,"EQ 1e-18 literal", D+"area_bet.py", "bet_area = n_monolayer * cross_section * (10**(-18)) * constants.Avogadro", "bet_area = constants.Avogadro * cross_section * 1e-18 * n_monolayer", expect="silent")
build("C14", E)
