import json
P="src/pygaps/core/pointisotherm.py"
A="src/pygaps/characterisation/area_bet.py"
K="src/pygaps/characterisation/psd_kernel.py"
E=[]
def m(name, file, old, new, expect="fire", rule=None, **kw):
    E.append(dict(name=name, file=file, old=old, new=new, expect=expect, **({"rule": rule} if rule else {}), **kw))
m("area_BET converts the caller's isotherm", A, "    # Read data in\n    pressure, loading = get_iso_loading_and_pressure_ordered(", "    isotherm.convert_pressure(mode_to='relative')\n    # Read data in\n    pressure, loading = get_iso_loading_and_pressure_ordered(")
m("area_BET stores a result attribute on the isotherm", A, "    # Read data in\n    pressure, loading = get_iso_loading_and_pressure_ordered(", "    isotherm.last_analysis = 'bet'\n    # Read data in\n    pressure, loading = get_iso_loading_and_pressure_ordered(")
m("pressure_at: cache key drops interp_kind", P, "            or self.p_interpolator.interp_kind != interpolation_type\n", "")
m("loading_at: cache key drops interp_fill", P, "            or self.l_interpolator.interp_fill != interp_fill\n", "")
m("psd kernel cache entry mutated on use", K, "    if path in _LOADED:\n        return _LOADED[path]", "    if path in _LOADED:\n        _LOADED[path].pop(next(iter(_LOADED[path])), None)\n        return _LOADED[path]")
m("EQ area_BET works on a deep copy", A, "    # Read data in\n    pressure, loading = get_iso_loading_and_pressure_ordered(\n        isotherm,", "    import copy\n    isotherm = copy.deepcopy(isotherm)\n    isotherm.convert_pressure(mode_to='relative')\n    # Read data in\n    pressure, loading = get_iso_loading_and_pressure_ordered(\n        isotherm,", expect="silent")
json.dump(E, open("/verif/pgverif/selftest_catalogue/C04.json","w"), indent=1)
print(len(E))
