import os, tempfile, sqlite3, pygaps, pygaps.parsing as pgp
from pygaps.utilities.sqlite_db_creator import db_create
import pygaps.data
d = tempfile.mkdtemp()
db1, db2 = os.path.join(d,'a.db'), os.path.join(d,'b.db')
db_create(db1); db_create(db2)
def mk():
    return pygaps.PointIsotherm(pressure=[1,2,3], loading=[1.,2.,3.], material='zz_mat_f10', adsorbate='N2', temperature=77,
      pressure_mode='absolute', pressure_unit='bar', loading_basis='molar', loading_unit='mmol', material_basis='mass', material_unit='g')
pgp.isotherm_to_db(mk(), db_path=db1, verbose=False)
try:
    pgp.isotherm_to_db(mk(), db_path=db2, verbose=False)
    print("F10: second file OK")
    f10=True
except Exception as e:
    print("F10: upload to a fresh second file fails:", type(e).__name__, str(e)[:80]); f10=False
# F11 positional path
default = str(pygaps.data.DATABASE)
before = sqlite3.connect(default).execute("select count(*) from materials").fetchone()[0]
m = pygaps.Material('zz_mat_f11')
try:
    pgp.material_to_db(m, db2, verbose=False)
except TypeError as e:
    print("positional not accepted", e)
after = sqlite3.connect(default).execute("select count(*) from materials").fetchone()[0]
inb = sqlite3.connect(db2).execute("select count(*) from materials where name='zz_mat_f11'").fetchone()[0]
print("F11: default.db materials before/after", before, after, "in target:", inb)
assert f10 and before==after and inb==1
