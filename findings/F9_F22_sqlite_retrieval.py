import os, tempfile, pygaps, pygaps.parsing as pgp
from pygaps.utilities.sqlite_db_creator import db_create
d = tempfile.mkdtemp(); db = os.path.join(d,'a.db'); db_create(db)
m = pygaps.Material('zz_m22', tags=['a','b'], density=2.0)
pgp.material_to_db(m, db_path=db, verbose=False)
back = [x for x in pgp.materials_from_db(db_path=db, verbose=False) if x.name=='zz_m22'][0]
print("F22 stored", m.to_dict(), "retrieved", back.to_dict())
iso = pygaps.PointIsotherm(pressure=[1,2,3], loading=[1.,2.,3.], material='zz_m9', adsorbate='N2', temperature=77,
      pressure_mode='absolute', pressure_unit='bar', loading_basis='molar', loading_unit='mmol', material_basis='mass', material_unit='g')
pgp.isotherm_to_db(iso, db_path=db, verbose=False)
r = pgp.isotherms_from_db(db_path=db, verbose=False)[0]
print("F9 equal:", r == iso, "extra props:", set(r.properties)-set(iso.properties))
try:
    pgp.isotherm_delete_db(r, db_path=db, verbose=False); print("delete through retrieved OK")
except Exception as e: print("delete through retrieved object refused:", type(e).__name__)
