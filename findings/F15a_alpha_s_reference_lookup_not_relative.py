"""Known finding C15 (alpha_s): the reference isotherm is looked up with the sample's *relative* pressures but without
pressure_mode='relative' (only pressure_unit=isotherm.pressure_unit is passed).  A reference stored in absolute pressure is
therefore read at 'p/p0 taken as an absolute pressure in the reference's own unit': the result depends on the unit the
reference happens to be stored in.

Run: PYTHONPATH=/repo/src /venv/bin/python findings/F15a_alpha_s_reference_lookup_not_relative.py   (exit 1 = defect present)

Not repaired: with the one-line repair (pressure_mode='relative') the pinned test
tests/characterisation/test_alphas_plots.py::TestAlphaSPlot::test_alphas[MCM-41] fails - the automatic section finder then
returns a different first linear section (area 31.8 instead of 350 +- 10 %): the pinned suite encodes the present numbers.
"""
import sys
import warnings

warnings.filterwarnings("ignore")
import pygaps
import pygaps.parsing.json as pgpj
import pygaps.characterisation.alphas_plots as als

d = "/repo/docs/examples/data/characterisation/"
iso = pgpj.isotherm_from_json(d + "MCM-41 N2 77.355.json")
ref_bar = pgpj.isotherm_from_json(d + "SiO2 N2 77.355.json")          # absolute, bar
ref_pa = pgpj.isotherm_from_json(d + "SiO2 N2 77.355.json")
ref_pa.convert_pressure(unit_to="Pa")                                   # same physical isotherm, stored in Pa
m_bar = pygaps.ModelIsotherm.from_pointisotherm(ref_bar, model="BET")
m_pa = pygaps.ModelIsotherm.from_pointisotherm(ref_pa, model="BET")
p_rel = iso.pressure(branch="ads", pressure_mode="relative")[10:14]
# the call alpha_s makes (alphas_plots.py, "Now for reference isotherm"):
call = dict(pressure_unit=iso.pressure_unit, loading_basis="molar", loading_unit="mmol", branch="ads")
a = m_bar.loading_at(p_rel, **call)
b = m_pa.loading_at(p_rel, **call)
want = m_bar.loading_at(p_rel, pressure_mode="relative", loading_basis="molar", loading_unit="mmol")
print("p/p0                          :", p_rel)
print("reference in bar, as called   :", a)
print("reference in Pa,  as called   :", b)
print("reference at relative pressure:", want)
import numpy
sys.exit(0 if numpy.allclose(a, want, rtol=1e-9) and numpy.allclose(b, want, rtol=1e-9) else 1)
