import numpy as np, pygaps, pygaps.characterisation as pgc, pygaps.modelling as pgm
def mk(T=77.355, scale=1.0, lo=0.02, hi=0.9, **over):
    p = np.linspace(lo, hi, 40)
    nm, C = 5.0*scale, 100.0
    n = nm*C*p/((1-p)*(1-p+C*p))
    kw = dict(material='zz', adsorbate='N2', temperature=T, pressure_mode='relative', pressure_unit=None,
              loading_basis='molar', loading_unit='mmol', material_basis='mass', material_unit='g')
    kw.update(over)
    return pygaps.PointIsotherm(pressure=p, loading=n, **kw)
# F15: alpha_s with the reference stored in absolute pressure
iso, ref = mk(scale=2.0, lo=0.05, hi=0.8), mk()
r1 = pgc.alpha_s(iso, ref, t_limits=(0.3, 1.5))['results'][0]['area']
ref2 = mk(); ref2.convert_pressure(mode_to='absolute', unit_to='bar')
r2 = pgc.alpha_s(iso, ref2, t_limits=(0.3, 1.5))['results']
print("alpha_s area, reference relative:", r1, " reference converted to bar:", r2[0]['area'] if r2 else r2)
# isosteric: one isotherm in kPa
def lang(T, unit):
    p = np.linspace(0.05, 5, 60); K = 2.0*np.exp(-20000/8.314*(1/300-1/T))
    n = 4*K*p/(1+K*p)
    i = pygaps.PointIsotherm(pressure=p, loading=n, material='zz', adsorbate='CH4', temperature=T, pressure_mode='absolute', pressure_unit='bar',
              loading_basis='molar', loading_unit='mmol', material_basis='mass', material_unit='g')
    if unit != 'bar': i.convert_pressure(unit_to=unit)
    return i
a = pgc.isosteric_enthalpy([lang(280,'bar'), lang(300,'bar'), lang(320,'bar')], loading_points=[1.0,2.0])['isosteric_enthalpy']
b = pgc.isosteric_enthalpy([lang(280,'bar'), lang(300,'kPa'), lang(320,'bar')], loading_points=[1.0,2.0])['isosteric_enthalpy']
print("isosteric all bar:", a, " middle one in kPa:", b)
