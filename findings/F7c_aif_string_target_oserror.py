"""C07 (string targets): isotherm_from_aif(<text of an AIF file>) decides "path or text" with pathlib.Path(text).exists(), which raises
OSError(ENAMETOOLONG) when the first path component of the text is longer than 255 bytes - i.e. for practically every AIF document
that has no '/' early on (e.g. loadings in '% mass').  json / csv use `try: open() except OSError` and are not affected.
Run: PYTHONPATH=/repo/src /venv/bin/python findings/F7c_aif_string_target_oserror.py   (exit 1 = defect present)"""
import sys, warnings
warnings.filterwarnings("ignore")
import pygaps
import pygaps.parsing as pgp
from pygaps.core.baseisotherm import BaseIsotherm

iso = BaseIsotherm(material="carbon", adsorbate="nitrogen", temperature=77, pressure_mode="relative", loading_basis="percent",
                          material_basis="mass", material_unit="g", temperature_unit="K",
                          comment="x" * 40, operator="someone", instrument="an instrument", date="today")
text = pgp.isotherm_to_aif(iso)
try:
    back = pgp.isotherm_from_aif(text)
except OSError as e:
    print("DEFECT: isotherm_from_aif(text) raises", type(e).__name__, str(e)[:60])
    sys.exit(1)
print("ok: re-imported from the string", back == iso)
