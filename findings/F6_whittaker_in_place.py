import pygaps, pygaps.characterisation as pgc
iso = pygaps.PointIsotherm(pressure=[0.1,0.5,1,2,3,5,8], loading=[0.9,2.9,4.0,5.0,5.4,5.8,6.0], material='m1', adsorbate='CH4', temperature=298,
    pressure_mode='absolute', pressure_unit='bar', loading_basis='molar', loading_unit='mmol', material_basis='mass', material_unit='g')
before=(iso.iso_id, iso.pressure_unit, list(iso.pressure()))
r = pgc.enthalpy_sorption_whittaker(iso, model='Langmuir', loading=[1,2,3])
after=(iso.iso_id, iso.pressure_unit, list(iso.pressure()))
print(r['enthalpy_sorption'])
print(before==after, before[1], after[1])
assert before==after
