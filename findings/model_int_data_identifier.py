import pygaps
kw=dict(material='m1', adsorbate='N2', temperature=77, pressure_mode='absolute', pressure_unit='bar', loading_basis='molar', loading_unit='mmol', material_basis='mass', material_unit='g')
a = pygaps.ModelIsotherm(pressure=[1,2,3,4], loading=[1.,1.9,3.1,4.0], model='Henry', **kw)
b = pygaps.ModelIsotherm(pressure=[1.,2.,3.,4.], loading=[1.,1.9,3.1,4.0], model='Henry', **kw)
print(a.iso_id == b.iso_id)
