import pygaps, numpy as np
def mk():
    return pygaps.PointIsotherm(pressure=[1,2,3], loading=[1.,2.,3.], material=dict(name='m1', density=2.0), adsorbate='N2', temperature=77,
    pressure_mode='absolute', pressure_unit='bar', loading_basis='percent', loading_unit=None, material_basis='mass', material_unit='g')
iso = mk()
acc = iso.loading(loading_basis='molar', loading_unit='mol', material_unit='kg')
c = mk(); c.convert_material(unit_to='kg'); c.convert_loading(basis_to='molar', unit_to='mol')
print("accessor", acc, "permanent", c.loading())
acc2 = mk().loading(material_basis='volume', material_unit='cm3')
c3 = mk(); c3.convert_material(basis_to='volume', unit_to='cm3')
print("accessor", acc2, "permanent", c3.loading(), c3.loading_basis, c3.material_basis)
