import pygaps, pygaps.parsing as pgp
kw=dict(material='m1', adsorbate='N2', temperature=77, pressure_mode='absolute', pressure_unit='bar', loading_basis='molar', loading_unit='mmol', material_basis='mass', material_unit='g')
m = pygaps.ModelIsotherm(pressure=[1.,2.,3.,4.], loading=[1.,1.9,3.1,4.0], model='Henry', **kw)
back = pgp.isotherm_from_csv(pgp.isotherm_to_csv(m))
print(type(m.model.rmse).__name__, type(back.model.rmse).__name__, m.iso_id == back.iso_id)
assert isinstance(back.model.rmse, float) and m.iso_id == back.iso_id
