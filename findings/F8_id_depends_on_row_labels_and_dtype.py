import pandas, pygaps
kw=dict(material='m1', adsorbate='N2', temperature=77, pressure_mode='absolute', pressure_unit='bar', loading_basis='molar', loading_unit='mmol', material_basis='mass', material_unit='g')
a = pygaps.PointIsotherm(pressure=[1,2,3], loading=[1,2,3], **kw)
b = pygaps.PointIsotherm(pressure=[1.,2.,3.], loading=[1.,2.,3.], **kw)
df = pandas.DataFrame({'pressure':[1.,2.,3.],'loading':[1.,2.,3.]}, index=[5,6,7])
c = pygaps.PointIsotherm(isotherm_data=df, pressure_key='pressure', loading_key='loading', **kw)
print(a.iso_id, b.iso_id, c.iso_id)
assert a.iso_id == b.iso_id == c.iso_id
d = pygaps.PointIsotherm(pressure=[1.,2.,3.], loading=[1.,2.,3.000001], **kw)
assert d.iso_id != b.iso_id
