#!/usr/bin/env python3
"""Run the pinned suite on /repo (guard off - there are no hooks) and compare with BASELINE.json stable_pass."""
import json, subprocess, sys, tempfile, xml.etree.ElementTree as ET, os
root = sys.argv[1] if len(sys.argv) > 1 else "/repo"
base = json.load(open("/root/.vp/BASELINE.json"))
want = set(base["stable_pass"])
out = tempfile.mktemp(suffix=".xml")
env = dict(os.environ)
if root != "/repo":
    env["PYTHONPATH"] = f"{root}/src"
subprocess.run(["/venv/bin/python", "-m", "pytest", "-ra", "-q", "-p", "no:cacheprovider", "--timeout=900",
                "--continue-on-collection-errors", f"--junitxml={out}"], cwd=root, env=env,
               stdout=subprocess.DEVNULL, stderr=subprocess.DEVNULL)
passed = set()
for tc in ET.parse(out).getroot().iter("testcase"):
    if not any(ch.tag in ("failure", "error", "skipped") for ch in tc):
        passed.add(f"{tc.get('classname')}::{tc.get('name')}")
os.unlink(out)
missing = sorted(want - passed)
print(f"baseline stable_pass={len(want)} passed_now={len(passed)} lost={len(missing)}")
for m in missing[:40]:
    print("  LOST", m)
sys.exit(1 if missing else 0)
