#!/usr/bin/env python3-vt
"""Regenerate MANIFEST.json from the META blocks of pgverif/props/Cxx.py."""
import importlib
import json
import os
import sys

HERE = os.path.dirname(os.path.dirname(os.path.abspath(__file__)))
sys.path.insert(0, HERE)
props = [json.loads(l) for l in open(os.path.join(HERE, "properties.jsonl"))]
checks, na = [], []
for p in props:
    pid = p["id"]
    try:
        mod = importlib.import_module(f"pgverif.props.{pid}")
        meta = mod.META
    except (ModuleNotFoundError, AttributeError):
        na.append({"property_id": pid, "reason": "check not built yet in this round (see DESIGN.md section 4 for the planned static rules)"})
        continue
    checks.append({
        "property_id": pid,
        "quick_cmd": f"./check {pid} --tier quick",
        "thorough_cmd": f"./check {pid} --tier thorough",
        "evidence_file": f"/verif/evidence/{pid}.json",
        "replay_cmd_template": f"./check {pid} --replay {{path}}",
        "engine": "pgverif",
        "level_claimed": {"category": "other", "text": meta["level_text"], "design_ref": meta.get("design_ref", f"DESIGN.md section 4 ({pid}) and section 9.2")},
        "level_note": meta["level_note"],
        "technique": meta["technique"],
    })
manifest = {
    "version": 1,
    "setup_cmd": "python3-vt tools/setup_check.py",
    "hooks": {
        "guard": "PYGAPS_VERIF",
        "enable": "no hooks: every check reads /repo's working tree through ast/sqlite3/json and never imports or runs pygaps",
        "baseline_off_cmd": "cd /repo && /venv/bin/python -m pytest -ra -q -p no:cacheprovider --timeout=900 --continue-on-collection-errors",
        "source_commits": [],
        "add_only": True,
    },
    "engines": [{
        "name": "pgverif", "path": "/verif/pgverif",
        "serves_properties": [c["property_id"] for c in checks],
        "kind_free_text": "repo-specific static analysis: AST source model + call graph, abstract interpreter over unit "
                          "labels with exact symbolic monomials, algebraic normal forms (sympy as normaliser), "
                          "effect/alias analysis, transaction-discipline CFG rules, writer/reader schema agreement, data lint",
    }],
    "checks": checks,
    "not_applicable": na,
    "notes": "All checks are static (family: static analysis). Exit 2 + ANALYSIS-ERROR = anchor vanished or construct "
             "outside the understood fragment (fail closed, never a VIOLATION). known_findings.json lists genuine "
             "defects (known) and repaired ones (fixed). The thorough tier adds the checker self-test: catalogued mutants "
             "(pgverif/selftest_catalogue) and the stored sub-agent changes (/verif/seeded) are applied to a scratch copy "
             "of <root>/src under the system temp directory and must be reported; catalogued equivalents and the stored "
             "behaviour-preserving refactorings (/verif/equivalents) must stay silent; a miss or a false alarm there is "
             "ANALYSIS-ERROR (exit 2). C20 uses the installed CoolProp fluid table (via /venv/bin/python, no pygaps import) "
             "as the reference for shipped constants. DESIGN.md section 9 is the as-built description.",
}
json.dump(manifest, open(os.path.join(HERE, "MANIFEST.json"), "w"), indent=1)
print(f"{len(checks)} checks, {len(na)} not applicable")
