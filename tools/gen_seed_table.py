#!/usr/bin/env python3-vt
"""Rewrite the seeded-change table of DESIGN.md (section 9.5) from /verif/seeded/*/meta.json; prints the counts."""
import glob, json, re
rows, n, own = [], 0, 0
for mf in sorted(glob.glob("/verif/seeded/C*-*/meta.json"), key=lambda p: (p.split("/")[-2].split("-")[0], int(p.split("/")[-2].split("-")[1]))):
    m = json.load(open(mf))
    head = (m.get("needs_to_manifest") or "").strip().split("\n")[0]
    head = re.sub(r"^#+\s*", "", head).replace("|", "/")[:105]
    by = ", ".join(f"{c} ({r.split('.', 1)[1] if '.' in r else r})" for c, r in sorted(m.get("caught_by", {}).items())) or "**not reported**"
    rows.append(f"| {m['id']} | {head} | {by} |")
    n += 1
    own += m["property"] in m.get("caught_by", {})
p = "/verif/DESIGN.md"
s = open(p).read()
hdr = "| seed | change (author's heading) | reported by (rule) |\n|---|---|---|\n"
a = s.index(hdr) + len(hdr)
b = a
lines = s[a:].split("\n")
k = 0
while k < len(lines) and lines[k].startswith("| C"):
    k += 1
b = a + sum(len(x) + 1 for x in lines[:k])
s = s[:a] + "\n".join(rows) + "\n" + s[b:]
open(p, "w").write(s)
print(f"{n} seeds, {own} reported by the check of their own property, {sum(1 for r in rows if 'not reported' in r)} not reported")
