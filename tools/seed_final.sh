#!/bin/bash
# usage: seed_final.sh <id> <n> <patchfile> <demofile> <outdir>
# In a fresh scratch worktree of /repo at HEAD: demo clean / patched, suite with patch, every check (quick) against the
# patched worktree via --root (evidence redirected).  Writes <outdir>/{patch.diff,result.json,checks.txt}.
set -u
ID=$1; N=$2; PATCH=$3; DEMO=$4; OUT=$5
WT=$(mktemp -d /var/tmp/seedfin.XXXXXX); rm -rf "$WT"; mkdir -p "$OUT"
git -C /repo worktree add --detach "$WT" HEAD >/dev/null 2>&1 || { echo "worktree failed"; exit 2; }
cp /repo/src/pygaps/_version.py "$WT/src/pygaps/_version.py"
cd "$WT"; export PYTHONPATH="$WT/src"
mkdir -p "$WT/_seed"; sed -e "s#/tmp/seed6/C[0-9][0-9]#$WT#g" -e "s#/tmp/seed4/C[0-9][0-9]#$WT#g" -e "s#/tmp/seed3/C[0-9][0-9]#$WT#g" -e "s#/tmp/seed2/C[0-9][0-9]#$WT#g" -e "s#/tmp/seed/C[0-9][0-9]#$WT#g" "$DEMO" > "$WT/_seed/demo.py"
timeout 900 /venv/bin/python _seed/demo.py > "$OUT/demo_clean.out" 2>&1; CLEAN=$?
AP=0
if ! git apply "$PATCH" 2> "$OUT/apply.err"; then
  if ! patch -p1 --fuzz=3 -s < "$PATCH" >> "$OUT/apply.err" 2>&1; then AP=1; fi
  find . -name '*.orig' -o -name '*.rej' | xargs rm -f 2>/dev/null
fi
git diff -- src > "$OUT/patch.diff"
timeout 900 /venv/bin/python _seed/demo.py > "$OUT/demo_patched.out" 2>&1; PATCHED=$?
/usr/bin/python3 /verif/tools/suite_check.py "$WT" > "$OUT/suite.out" 2>&1; SUITE=$?
: > "$OUT/checks.txt"
for c in C01 C02 C03 C04 C05 C06 C07 C08 C09 C10 C11 C12 C13 C14 C15 C16 C17 C18 C19 C20; do
  out=$(cd ${VERIF_SNAPSHOT:-/verif} && PGVERIF_EVIDENCE_DIR="$OUT/ev" ./check $c --tier quick --no-selftest --root "$WT" 2>&1); rc=$?
  rules=$(echo "$out" | grep -E '^  src' | sed -E 's/.* -- (C[0-9]+\.[A-Za-z0-9-]+) -- (.*)/\1|\2/' | sort -u | head -4 | tr '\n' ';')
  [ $rc -eq 2 ] && rules=$(echo "$out" | grep -m1 ANALYSIS-ERROR | cut -c1-200)
  echo "$c rc=$rc $rules" >> "$OUT/checks.txt"
done
rm -rf "$OUT/ev"
cd /; git -C /repo worktree remove --force "$WT"
echo "{\"id\": \"$ID-$N\", \"apply\": $AP, \"demo_clean_exit\": $CLEAN, \"demo_patched_exit\": $PATCHED, \"suite_lost\": $SUITE}" > "$OUT/result.json"
cat "$OUT/result.json"; grep -v "rc=0" "$OUT/checks.txt"
