#!/usr/bin/env python3-vt
"""Re-express every stored patch (seeded/*/patch.diff, equivalents/*/patch.diff) against /repo HEAD when its context moved after a
`fix:` commit: applied with `patch --fuzz=3` in a scratch worktree, rewritten as `git diff -- src`.  Prints the ones that no longer apply."""
import glob, os, subprocess, tempfile
bad = []
for pth in sorted(glob.glob("/verif/seeded/C*-*/patch.diff") + glob.glob("/verif/equivalents/C*-*/patch.diff")):
    wt = tempfile.mkdtemp(prefix="rebase-", dir="/var/tmp")
    os.rmdir(wt)
    subprocess.run(["git", "-C", "/repo", "worktree", "add", "--detach", wt, "HEAD"], capture_output=True)
    try:
        if subprocess.run(["git", "apply", "--check", pth], cwd=wt, capture_output=True).returncode == 0:
            continue
        r = subprocess.run(["patch", "-p1", "-s", "--fuzz=3", "-i", pth], cwd=wt, capture_output=True, text=True)
        for junk in glob.glob(f"{wt}/**/*.orig", recursive=True) + glob.glob(f"{wt}/**/*.rej", recursive=True):
            os.unlink(junk)
        if r.returncode != 0:
            bad.append(pth)
            print("DOES NOT APPLY:", pth, r.stdout.strip()[:200])
            continue
        new = subprocess.run(["git", "diff", "--binary", "--", "src"], cwd=wt, capture_output=True, text=True).stdout
        open(pth, "w").write(new)
        print("rebased:", pth)
    finally:
        subprocess.run(["git", "-C", "/repo", "worktree", "remove", "--force", wt], capture_output=True)
print(f"{len(bad)} patches need manual attention")
