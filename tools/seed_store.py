#!/usr/bin/env python3-vt
"""Store confirmed seeded changes under /verif/seeded/<id>-<n>/ from the verification run in /var/tmp/seedfin_out.
meta.json: property, what the change needs to manifest (from the author's notes), what was run, which checks report it."""
import json, os, re, shutil, subprocess, sys, glob
sys.path.insert(0, "/verif")
from pgverif import selftest

OUT = "/var/tmp/seedfin_out"
props = {json.loads(l)["id"]: json.loads(l) for l in open("/verif/properties.jsonl")}
head = subprocess.run(["git", "-C", "/repo", "log", "--format=%h", "-1"], capture_output=True, text=True).stdout.strip()


def section(notes, n):
    parts = re.split(r"\n(?=#{1,3} )", notes)
    pat = re.compile(rf"^#{{1,3}}\s*(change|patch|seed)?\s*#?{n}\b", re.I)
    for p in parts:
        if pat.match(p.strip()):
            return p.strip()
    for p in parts:
        if re.search(rf"(change|patch)\s*{n}\b", p.split("\n")[0], re.I):
            return p.strip()
    return ""


for d in sorted(glob.glob(f"{OUT}/C*-*")):
    sid = os.path.basename(d)
    prop, n = sid.split("-")
    res = json.load(open(f"{d}/result.json"))
    ok = res["apply"] == 0 and res["demo_clean_exit"] == 0 and res["demo_patched_exit"] != 0 and res["suite_lost"] == 0
    if not ok:
        print(sid, "NOT CONFIRMED", res)
        continue
    dst = f"/verif/seeded/{sid}"
    os.makedirs(dst, exist_ok=True)
    shutil.copy(f"{d}/patch.diff", f"{dst}/patch.diff")
    src = f"/tmp/seed/{prop}/_seed"
    demo = open(f"{src}/demo{n}.py").read().replace(f"/tmp/seed/{prop}", "<worktree>")
    open(f"{dst}/demo.py", "w").write(demo)
    notes = open(f"{src}/notes.md").read() if os.path.exists(f"{src}/notes.md") else ""
    sec = section(notes, n)
    fired = {}
    cands = [l.split()[0] for l in open(f"{d}/checks.txt") if "rc=1" in l]
    if prop not in cands:
        cands.append(prop)
    for c in cands:
        r = selftest._one(c, "/repo", {"name": sid, "patch": f"{dst}/patch.diff", "expect": "fire"}, "/var/tmp")
        if r["status"] == "ok" and r.get("reported"):
            fired[c] = r["reported"][0]
    meta = {
        "id": sid, "property": prop, "title": props[prop]["title"],
        "author": "fresh sub-agent given only the property text and a scratch worktree of /repo (nothing from /verif)",
        "needs_to_manifest": sec[:3000] or "see demo.py",
        "applies_to": f"/repo at {head} (git -C /repo apply patch.diff)",
        "what_was_run": {
            "scratch_worktree": "git worktree of /repo at HEAD, removed afterwards",
            "demo_clean_exit": res["demo_clean_exit"], "demo_patched_exit": res["demo_patched_exit"],
            "pinned_suite_with_patch": "tools/suite_check.py: every test of BASELINE.stable_pass still passes (lost=0)",
            "demo_cmd": "PYTHONPATH=<worktree>/src /venv/bin/python <worktree>/_seed/demo.py",
        },
        "caught_by": fired,
    }
    json.dump(meta, open(f"{dst}/meta.json", "w"), indent=1)
    print(sid, "stored; caught by", fired)
