#!/usr/bin/env python3-vt
"""Store confirmed seeded changes under /verif/seeded/<id>-<n>/ from a verification run (tools/seed_final.sh) in /var/tmp/seedfin_out.
usage: seed_store.py <source-root> <offset>   e.g.  /tmp/seed2 3  (seed <id>-<n> comes from <source-root>/<id>/_seed/*<n-offset>.*)
       seed_store.py --refresh                re-base every stored patch.diff onto /repo HEAD and re-establish caught_by
meta.json: property, what the change needs to manifest (from the author's notes), what was run, which checks report it."""
import json, os, re, shutil, subprocess, sys, glob, tempfile
sys.path.insert(0, "/verif")
from pgverif import selftest

OUT = "/var/tmp/seedfin_out"
props = {json.loads(l)["id"]: json.loads(l) for l in open("/verif/properties.jsonl")}
head = subprocess.run(["git", "-C", "/repo", "log", "--format=%h", "-1"], capture_output=True, text=True).stdout.strip()
ALL = [f"C{i:02d}" for i in range(1, 21)]


def section(notes, n):
    parts = re.split(r"\n(?=#{1,3} )", notes)
    pat = re.compile(rf"^#{{1,3}}\s*(change|patch|seed)?\s*#?{n}\b", re.I)
    for p in parts:
        if pat.match(p.strip()):
            return p.strip()
    for p in parts:
        if re.search(rf"(change|patch|seed)\s*{n}\b", p.split("\n")[0], re.I):
            return p.strip()
    return ""


def caught_by(patch, cands):
    from concurrent.futures import ThreadPoolExecutor
    fired = {}
    def one(c):
        return c, selftest._one(c, "/repo", {"name": "seed", "patch": patch, "expect": "fire"}, "/var/tmp")
    with ThreadPoolExecutor(max_workers=8) as ex:
        for c, r in ex.map(one, cands):
            if r["status"] == "ok" and r.get("reported"):
                fired[c] = r["reported"][0]
    return dict(sorted(fired.items()))


def rebase(patch):
    """re-express a patch against /repo HEAD (context may have moved after later fix commits); None if it no longer applies"""
    wt = tempfile.mkdtemp(prefix="seedrebase-", dir="/var/tmp")
    os.rmdir(wt)
    subprocess.run(["git", "-C", "/repo", "worktree", "add", "--detach", wt, "HEAD"], capture_output=True)
    try:
        r = subprocess.run(["git", "apply", patch], cwd=wt, capture_output=True)
        if r.returncode != 0:
            r = subprocess.run(["patch", "-p1", "-s", "--fuzz=3", "-i", patch], cwd=wt, capture_output=True)
            for junk in glob.glob(f"{wt}/**/*.orig", recursive=True) + glob.glob(f"{wt}/**/*.rej", recursive=True):
                os.unlink(junk)
            if r.returncode != 0:
                return None
        return subprocess.run(["git", "diff", "--", "src"], cwd=wt, capture_output=True, text=True).stdout
    finally:
        subprocess.run(["git", "-C", "/repo", "worktree", "remove", "--force", wt], capture_output=True)


if sys.argv[1] == "--refresh":
    for d in sorted(glob.glob("/verif/seeded/C*-*")):
        mf = f"{d}/meta.json"
        meta = json.load(open(mf))
        new = rebase(f"{d}/patch.diff")
        if new is None or not new.strip():
            meta["applies_to"] = meta.get("applies_to", "") + f" [does NOT apply to {head}]"
            print(os.path.basename(d), "DOES NOT APPLY to HEAD")
        else:
            open(f"{d}/patch.diff", "w").write(new)
            meta["applies_to"] = f"/repo at {head} (git -C /repo apply patch.diff)"
            meta["caught_by"] = caught_by(f"{d}/patch.diff", ALL if "--all" in sys.argv else sorted(set(meta.get("caught_by", {})) | {meta["property"]}))
            print(os.path.basename(d), meta["caught_by"])
        json.dump(meta, open(mf, "w"), indent=1)
    sys.exit(0)

SRC, OFF = sys.argv[1], int(sys.argv[2])
for d in sorted(glob.glob(f"{OUT}/C*-*")):
    sid = os.path.basename(d)
    prop, n = sid.split("-")
    n0 = int(n) - OFF
    res = json.load(open(f"{d}/result.json"))
    ok = res["apply"] == 0 and res["demo_clean_exit"] == 0 and res["demo_patched_exit"] != 0 and res["suite_lost"] == 0
    if not ok:
        print(sid, "NOT CONFIRMED", res)
        continue
    dst = f"/verif/seeded/{sid}"
    os.makedirs(dst, exist_ok=True)
    new = rebase(f"{d}/patch.diff")
    open(f"{dst}/patch.diff", "w").write(new if new else open(f"{d}/patch.diff").read())
    src = f"{SRC}/{prop}/_seed"
    demo = open(f"{src}/demo{n0}.py").read().replace(f"{SRC}/{prop}", "<worktree>")
    open(f"{dst}/demo.py", "w").write(demo)
    notes = open(f"{src}/notes.md").read() if os.path.exists(f"{src}/notes.md") else ""
    sec = section(notes, n0)
    if not sec and os.path.exists(f"{src}/meta{n0}.json"):
        try:
            am = json.load(open(f"{src}/meta{n0}.json"))
            sec = "; ".join(f"{k}: {am[k]}" for k in ("summary", "needs", "clause", "files") if am.get(k))
        except Exception:
            sec = open(f"{src}/meta{n0}.json").read()
    cands = [l.split()[0] for l in open(f"{d}/checks.txt") if "rc=1" in l or "rc=2" in l]
    if prop not in cands:
        cands.append(prop)
    meta = {
        "id": sid, "property": prop, "title": props[prop]["title"],
        "author": "fresh sub-agent given only the property text and a scratch worktree of /repo (nothing from /verif)"
                  + ("; second round: also told the one-line headings of the first-round changes, to avoid repeating them" if OFF == 3 else
                     "; third round" if OFF == 6 else "; fourth round (tiny slips, 1-6 changed lines)" if OFF == 9 else
                     "; sixth round (two cooperating sites, multi-step sequences, faults at a particular point, unusual inputs)" if OFF == 16 else ""),
        "needs_to_manifest": sec[:3000] or "see demo.py",
        "applies_to": f"/repo at {head} (git -C /repo apply patch.diff)",
        "what_was_run": {
            "scratch_worktree": "git worktree of /repo at HEAD, removed afterwards",
            "demo_clean_exit": res["demo_clean_exit"], "demo_patched_exit": res["demo_patched_exit"],
            "pinned_suite_with_patch": "tools/suite_check.py: every test of BASELINE.stable_pass still passes (lost=0)",
            "demo_cmd": "PYTHONPATH=<worktree>/src /venv/bin/python <worktree>/_seed/demo.py",
        },
        "caught_by": caught_by(f"{dst}/patch.diff", cands),
    }
    json.dump(meta, open(f"{dst}/meta.json", "w"), indent=1)
    print(sid, "stored; caught by", meta["caught_by"])
