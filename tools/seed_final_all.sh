#!/bin/bash
# usage: seed_final_all.sh <seed-root> <offset> [jobs]   - tools/seed_final.sh for every <seed-root>/Cxx/_seed/patchN.diff (stored number N+offset),
# <jobs> at a time, results under /var/tmp/seedfin_out/Cxx-<N+offset>/ ; then run tools/seed_store.py <seed-root> <offset>
ROOT=$1; OFF=$2; JOBS=${3:-5}
rm -rf /var/tmp/seedfin_out; mkdir -p /var/tmp/seedfin_out
for d in $ROOT/C*/_seed; do
  c=$(basename $(dirname $d))
  for n in 1 2 3 4 5 6; do
    [ -f $d/patch$n.diff ] && [ -f $d/demo$n.py ] && echo "$c $((n+OFF)) $d/patch$n.diff $d/demo$n.py /var/tmp/seedfin_out/$c-$((n+OFF))"
  done
done | xargs -P $JOBS -L 1 bash /verif/tools/seed_final.sh > /var/tmp/seedfin_out.log 2>&1
echo finished
