#!/bin/bash
# usage: seed_verify.sh <seed-src-dir> <N> <outdir>   e.g. /tmp/seed/C01/_seed 1 /tmp/seedv/C01-1
# Confirms, in a fresh scratch worktree of /repo at the base commit: demo passes clean, fails patched,
# suite passing set unchanged with the patch.
set -u
SRC=$1; N=$2; OUT=$3; BASE=${4:-362f9e7}
WT=$(mktemp -d /tmp/seedwt.XXXXXX)
rm -rf "$WT"; mkdir -p "$OUT"
git -C /repo worktree add --detach "$WT" "$BASE" >/dev/null 2>&1 || { echo "worktree failed"; exit 2; }
cp /repo/src/pygaps/_version.py "$WT/src/pygaps/_version.py"
cd "$WT"
export PYTHONPATH="$WT/src"
sed "s#/tmp/seed/C[0-9][0-9]#$WT#g" "$SRC/demo$N.py" > "$WT/demo.py"
timeout 900 /venv/bin/python demo.py > "$OUT/demo_clean.out" 2>&1; CLEAN=$?
git apply "$SRC/patch$N.diff" 2> "$OUT/apply.err"; AP=$?
timeout 900 /venv/bin/python demo.py > "$OUT/demo_patched.out" 2>&1; PATCHED=$?
/usr/bin/python3 /verif/tools/suite_check.py "$WT" > "$OUT/suite.out" 2>&1; SUITE=$?
git checkout -- src >/dev/null 2>&1
cd /
git -C /repo worktree remove --force "$WT"
echo "{\"apply\": $AP, \"demo_clean_exit\": $CLEAN, \"demo_patched_exit\": $PATCHED, \"suite_lost\": $SUITE}" > "$OUT/result.json"
cat "$OUT/result.json"
