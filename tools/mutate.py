#!/usr/bin/env python3-vt
"""Blind-spot hunt by small syntactic mutants of the anchored source files (not part of any registered check).

usage: mutate.py <out.jsonl> [per_file=25] [seed=1] [workers=8] [file-substring ...]
For every python file named in the anchors of /verif/properties.jsonl, up to <per_file> mutants (comparison / arithmetic operator swap,
numeric constant change, negated `if` test, deleted simple statement, swapped call arguments of the same kind) are applied one at a time to a
scratch copy of /repo/src (source-level edit of the node's text span) and the quick checks of the properties that anchor the file are run
on the copy (--root).  One JSON line per mutant: file, line, kind, before/after text, enclosing function, checks fired / errored.
Survivors are candidates for triage by reading (equivalent mutant, outside every property, or a blind spot) - a ranking aid, never a verdict.
VERIF_SNAPSHOT=<copy of /verif> runs the checkers of that copy; MUT_REPLAY=<earlier out.jsonl> re-runs exactly the mutants recorded there."""
import ast, json, os, random, shutil, subprocess, sys, tempfile
from concurrent.futures import ThreadPoolExecutor
from pathlib import Path

VERIF = os.environ.get("VERIF_SNAPSHOT", "/verif")
out_path = sys.argv[1]
per_file = int(sys.argv[2]) if len(sys.argv) > 2 else 25
seed = int(sys.argv[3]) if len(sys.argv) > 3 else 1
workers = int(sys.argv[4]) if len(sys.argv) > 4 else 8
only = sys.argv[5:]

anch = {}
for l in open(f"{VERIF}/properties.jsonl"):
    d = json.loads(l)
    for f in d["anchors"]["files"]:
        if f.endswith(".py"):
            anch.setdefault(f, []).append(d["id"])

CMP = {ast.Lt: "<=", ast.LtE: "<", ast.Gt: ">=", ast.GtE: ">", ast.Eq: "!=", ast.NotEq: "==", ast.Is: "is not", ast.IsNot: "is", ast.In: "not in", ast.NotIn: "in"}
CMPTXT = {ast.Lt: "<", ast.LtE: "<=", ast.Gt: ">", ast.GtE: ">=", ast.Eq: "==", ast.NotEq: "!=", ast.Is: "is", ast.IsNot: "is not", ast.In: "in", ast.NotIn: "not in"}
BIN = {ast.Add: "-", ast.Sub: "+", ast.Mult: "/", ast.Div: "*", ast.Pow: "*"}
BINTXT = {ast.Add: "+", ast.Sub: "-", ast.Mult: "*", ast.Div: "/", ast.Pow: "**"}
SKIP_FUNCS = ("plot", "__repr__", "__str__", "print_info", "_repr")


def seg(src_lines, node):
    return ast.get_source_segment("".join(src_lines), node)


def mutants_of(path):
    src = Path(path).read_text()
    tree = ast.parse(src)
    lines = src.splitlines(keepends=True)
    offs = [0]
    for ln in lines:
        offs.append(offs[-1] + len(ln))

    def span(n):
        return offs[n.lineno - 1] + len(lines[n.lineno - 1].encode()[:n.col_offset].decode()), \
            offs[n.end_lineno - 1] + len(lines[n.end_lineno - 1].encode()[:n.end_col_offset].decode())
    out = []
    parents = {}
    for n in ast.walk(tree):
        for c in ast.iter_child_nodes(n):
            parents[c] = n

    def func_of(n):
        names = []
        while n in parents:
            n = parents[n]
            if isinstance(n, (ast.FunctionDef, ast.ClassDef)):
                names.append(n.name)
        return ".".join(reversed(names))

    def skip(n):
        f = func_of(n)
        if any(s in f for s in SKIP_FUNCS):
            return True
        q = n
        while q in parents:
            q = parents[q]
            if isinstance(q, ast.Raise) or (isinstance(q, ast.Call) and ast.unparse(q.func).startswith(("logger.", "warnings.", "print"))):
                return True
            if isinstance(q, ast.If) and ast.unparse(q.test) in ("verbose", "verbose is True"):
                return True
        return False
    for n in ast.walk(tree):
        if skip(n):
            continue
        if isinstance(n, ast.Compare) and len(n.ops) == 1 and type(n.ops[0]) in CMP:
            a, b = span(n.left)[1], span(n.comparators[0])[0]
            mid = src[a:b]
            t = CMPTXT[type(n.ops[0])]
            if t in mid:
                out.append((a, b, mid.replace(t, CMP[type(n.ops[0])], 1), "cmp", n))
        elif isinstance(n, ast.BinOp) and type(n.op) in BIN and not isinstance(n.left, ast.Constant) or \
                (isinstance(n, ast.BinOp) and type(n.op) in BIN and not isinstance(getattr(n.left, "value", None), str)):
            if isinstance(n.left, ast.Constant) and isinstance(n.left.value, str):
                continue
            a, b = span(n.left)[1], span(n.right)[0]
            mid = src[a:b]
            t = BINTXT[type(n.op)]
            if t in mid and mid.count(t) == 1:
                out.append((a, b, mid.replace(t, BIN[type(n.op)], 1), "binop", n))
        elif isinstance(n, ast.Constant) and isinstance(n.value, (int, float)) and not isinstance(n.value, bool):
            p = parents.get(n)
            if isinstance(p, ast.Expr):
                continue
            a, b = span(n)
            v = n.value
            new = "1" if v == 0 else "0" if v == 1 else repr(v + 1) if isinstance(v, int) else repr(v * 10)
            out.append((a, b, new, "const", n))
        elif isinstance(n, ast.Constant) and isinstance(n.value, bool):
            a, b = span(n)
            out.append((a, b, "False" if n.value else "True", "bool", n))
        elif isinstance(n, ast.If) and not isinstance(n.test, ast.Constant):
            a, b = span(n.test)
            out.append((a, b, f"not ({src[a:b]})", "negate-if", n.test))
        elif isinstance(n, (ast.Assign, ast.AugAssign, ast.Expr)) and isinstance(parents.get(n), (ast.FunctionDef, ast.If, ast.For, ast.While, ast.With, ast.Try)) \
                and not (isinstance(n, ast.Expr) and isinstance(n.value, ast.Constant)):
            body = [x for fld in ("body", "orelse", "finalbody") for x in getattr(parents[n], fld, []) if not isinstance(x, ast.ExceptHandler)]
            if sum(1 for x in body if x is not None) > 1 and n.lineno == n.end_lineno:
                a, b = span(n)
                out.append((a, b, "pass", "delete-stmt", n))
        elif isinstance(n, ast.Call) and len(n.args) == 2 and not n.keywords and all(isinstance(x, (ast.Name, ast.Attribute, ast.Subscript)) for x in n.args) \
                and ast.unparse(n.args[0]) != ast.unparse(n.args[1]):
            a0, b0 = span(n.args[0])
            a1, b1 = span(n.args[1])
            out.append((a0, b1, src[a1:b1] + src[b0:a1] + src[a0:b0], "swap-args", n))
    res = []
    for a, b, new, kind, node in out:
        if src[a:b] == new:
            continue
        mutated = src[:a] + new + src[b:]
        try:
            compile(mutated, path, "exec")
        except SyntaxError:
            continue
        res.append({"line": node.lineno, "kind": kind, "before": src[a:b][:80], "after": new[:80], "func": func_of(node), "a": a, "b": b, "new": new})
    return src, res


def run_one(job):
    rel, props, src, m = job
    scratch = tempfile.mkdtemp(prefix="pgmut-", dir="/var/tmp")
    try:
        shutil.copytree("/repo/src", f"{scratch}/src", ignore=shutil.ignore_patterns("__pycache__", "*.pyc"))
        Path(f"{scratch}/{rel}").write_text(src[:m["a"]] + m["new"] + src[m["b"]:])
        fired, errs = {}, {}
        for c in props:
            env = dict(os.environ, PGVERIF_EVIDENCE_DIR=f"{scratch}/ev", PGVERIF_NO_SELFTEST="1", PGVERIF_JOBS="2")
            try:
                r = subprocess.run([sys.executable, f"{VERIF}/check", c, "--tier", "quick", "--no-selftest", "--root", scratch],
                                   capture_output=True, text=True, env=env, timeout=900)
            except subprocess.TimeoutExpired:
                errs[c] = "timeout"
                continue
            if r.returncode == 1:
                rules = sorted({ln.split(" -- ")[1] for ln in r.stdout.splitlines() if ln.startswith("  ") and len(ln.split(" -- ")) >= 3})
                fired[c] = rules[:3]
            elif r.returncode == 2:
                errs[c] = next((ln for ln in r.stdout.splitlines() if ln.startswith("ANALYSIS-ERROR")), "ANALYSIS-ERROR")[:160]
        rec = {k: v for k, v in m.items() if k not in ("a", "b", "new")}
        rec.update({"file": rel, "props": props, "fired": fired, "errors": errs})
        return rec
    finally:
        shutil.rmtree(scratch, ignore_errors=True)


random.seed(seed)
jobs = []
for rel, props in sorted(anch.items()):
    if only and not any(s in rel for s in only):
        continue
    src, ms = mutants_of(f"/repo/{rel}")
    random.shuffle(ms)
    for m in ms[:per_file]:
        jobs.append((rel, props, src, m))
if os.environ.get("MUT_REPLAY"):      # re-run exactly the mutants recorded in an earlier output (after the checks were strengthened)
    jobs, cache = [], {}
    for l in open(os.environ["MUT_REPLAY"]):
        r = json.loads(l)
        if r["file"] not in cache:
            cache[r["file"]] = mutants_of(f"/repo/{r['file']}")
        src, ms = cache[r["file"]]
        m = next((m for m in ms if all(m[k] == r[k] for k in ("line", "kind", "before", "after", "func"))), None)
        if m is not None:
            jobs.append((r["file"], anch.get(r["file"], r["props"]), src, m))
print(f"{len(jobs)} mutants over {len({j[0] for j in jobs})} files", flush=True)
with open(out_path, "w") as fo, ThreadPoolExecutor(max_workers=workers) as ex:
    for rec in ex.map(run_one, jobs):
        fo.write(json.dumps(rec) + "\n")
        fo.flush()
print("done")
