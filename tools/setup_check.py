#!/usr/bin/env python3-vt
"""setup: verify the offline tool-chain the checks rely on and that /repo parses."""
import ast
import pathlib
import sys

import lark  # noqa
import networkx  # noqa
import sympy  # noqa

root = pathlib.Path("/repo/src/pygaps")
n = 0
for p in root.rglob("*.py"):
    ast.parse(p.read_text(encoding="utf-8"))
    n += 1
print(f"setup ok: python {sys.version.split()[0]}, sympy {sympy.__version__}, {n} repo files parse")
