def g_for_else(xs):
    for x in xs:
        if x > 2:
            r = "found"
            break
    else:
        r = "none"
    return r

def g_while_else(n):
    i = 0
    while i < n:
        i += 2
        if i == 5:
            break
    else:
        return ("done", i)
    return ("broke", i)

def g_continue(xs):
    out = []
    for x in xs:
        if x % 2:
            continue
        out.append(x)
    return out

def g_nonlocal():
    c = 0
    def inc():
        nonlocal c
        c += 1
        return c
    inc(); inc()
    return c

def g_gen(xs):
    def evens(v):
        for x in v:
            if x % 2 == 0:
                yield x
    return list(evens(xs)), sum(evens(xs))

def g_try_finally_return(d):
    try:
        return d["a"]
    except KeyError:
        return -1
    finally:
        d["f"] = 1

def g_del(d):
    del d["a"]
    return sorted(d)

def g_str_methods(s):
    return (s.startswith("ab"), s.endswith("c"), s.strip("c"), s.split("b"), "-".join([s, s]), s.upper(), s.title(), s.replace("a", "z"), s.isdigit(), s.find("b"), len(s), s[1:], s * 2, "b" in s)

def g_dict_methods(d):
    e = d.copy()
    e.update({"z": 26}, y=25)
    v = e.pop("a")
    w = e.pop("nope", None)
    e.setdefault("q", 1)
    return (sorted(e.items()), v, w, list(d.keys()), list(d.values()), d.get("a"), d.get("zz", 0), "a" in d, len(e))

def g_list_methods(xs):
    ys = list(xs)
    ys.append(9); ys.extend([8, 7]); ys.insert(0, 1)
    p = ys.pop(); ys.remove(9)
    i = ys.index(8); c = ys.count(1)
    ys.sort(); zs = ys.copy(); zs.reverse()
    ys[0] = 100
    ys[1:2] = [5, 5]
    return ys, zs, p, i, c

def g_zip_star(xs):
    a, b = zip(*xs)
    return a, b, dict(zip(a, b))

def g_max_key(xs):
    return max(xs, key=lambda t: t[1]), min(xs), sorted(xs, key=lambda t: -t[1])

def g_tuple_cmp():
    return (1, 2) < (1, 3), [1, 2] == [1, 2], (1, "a") != (1, "b")

def g_short_circuit(a, b):
    return a or b, a and b, not a, (a or "d")

def g_chain_cmp(x):
    return 0 < x < 10, 0 < x <= 3 < 5, x == 3 == 3

def g_conversions():
    return int("3") + 1, float("2.5") * 2, str(3) + "x", bool(0), bool("a"), int(3.7), round(2.567, 2), abs(-3), list("ab"), tuple([1, 2]), set([1, 1, 2]) == {1, 2}

def g_aug_subscript(d, xs):
    d["a"] += 1
    xs[0] *= 3
    d.setdefault("l", []).append(1)
    return d, xs

def g_ifexp_nested(x):
    return ("a" if x > 0 else "b") + ("c" if x > 5 else "d")

def g_kwargs(*args, **kw):
    return args, sorted(kw.items())

def g_call_kwargs():
    return g_kwargs(1, 2, *[3], k=1, **{"j": 2})

def g_default_mut(x, acc=None):
    acc = [] if acc is None else acc
    acc.append(x)
    return acc

def g_enumerate_dict(d):
    return [(i, k, v) for i, (k, v) in enumerate(sorted(d.items()))]

def g_any_gen(xs):
    return any(x > 2 for x in xs), all(x > 0 for x in xs), next((x for x in xs if x > 1), None), next(iter(xs))

def g_str_format(x):
    return "{:.2f}|{:>5}|{!r}".format(1.0, "a", "q"), f"{x:.3g}", f"{'a' if x else 'b'}"

def g_exceptions(d):
    try:
        return d["nope"]
    except (KeyError, IndexError) as e:
        return type(e).__name__
    
def g_raise_from():
    try:
        try:
            raise ValueError("inner")
        except ValueError as e:
            raise RuntimeError("outer") from e
    except RuntimeError as r:
        return str(r)

def g_isinstance(x):
    return isinstance(x, str), isinstance(x, (list, tuple)), isinstance(x, dict), type(x).__name__

def g_range():
    return list(range(3)), list(range(1, 7, 2)), list(range(5, 0, -2)), len(range(10))

def g_slice_assign():
    xs = [0, 1, 2, 3, 4]
    xs[::2] = [9, 9, 9]
    return xs, xs[-1], xs[-2:], xs[:0]

def g_dict_order():
    d = {"b": 1, "a": 2}
    d["c"] = 3
    return list(d), list(reversed(list(d))), {k: v for k, v in d.items() if v > 1}

def g_int_ops():
    return 7 // 2, 7 % 3, -7 // 2, 2 ** 10, 7 / 2, 1e3, 10 % 3 == 1

def g_lambda_closure():
    k = 3
    f = lambda x: x + k
    k = 4
    return f(1)

def g_global_read():
    return _CONST + 1

_CONST = 41

def g_unpack_nested():
    (a, b), c = (1, 2), 3
    a, b = b, a
    return a, b, c

def g_str_in_tuple(m):
    return m in ("x", "y"), m not in ["z"], m.lower() in {"x"}
