import sys
sys.path.insert(0,'/verif')
from pgverif.srcmodel import load
from pgverif.domain import make_interp
from pgverif.core import AnalysisError
m=load('/var/tmp/probe')
mod=m.module('pygaps._probe')
args={'f_sum':[[1,2,3]],'f_sum_gen':[[1,2]],'f_reversed':[[1,2,3]],'f_filter':[[0,1,None,2]],'f_filter2':[[0,None,2]],'f_callable':[len],'f_starmap':[[(1,2),(3,4)]],'f_chain_from':[[[1],[2,3]]],
'f_suppress':[{'a':1}],'f_copy':[{'a':1}],'f_deepcopy':[{'a':[1]}],'f_math':[2],'f_isclose':[1.0],'f_not':[0],'f_contains':[[1,2]],'f_str_join':[['a','b']],'f_str_methods':[' A,b '],
'f_sorted_key':[[('a',1),('b',2)]],'f_min_key':[[('a',2),('b',1)]],'f_any_all':[[1,2]],'f_enumerate_start':[['x','y']],'f_dict_comp_merge':[{'a':1},{'b':2}],'f_setdefault':[{}],'f_walrus':[[1,2]],'f_fstring':['s'],
'f_ternary_chain':[1],'f_try_else_finally':[{'a':1}],'f_slice':[[1,2,3,4,5]],'f_star_unpack':[[1,2,3]],'f_isinstance_tuple':[1.5],'f_getattr_default':[None]}
bad=[]
for name,fi in mod.functions.items():
    I=make_interp(m)
    a=[I.from_py(x) if not callable(x) else x for x in args.get(name,[])]
    try:
        outs=I.explore(lambda I: I.call_func(fi,list(a),{},None))
        kinds=[o.kind for o in outs]
        if any(k!='ok' for k in kinds): bad.append((name,[repr(o)[:100] for o in outs]))
        else: print('ok  ',name, [I.describe(o.value)[:60] if not isinstance(o.value,(list,tuple,dict,str,bool,int)) else repr(o.value)[:60] for o in outs][:2])
    except AnalysisError as e:
        bad.append((name,'ANALYSIS-ERROR '+str(e)[-110:]))
    except Exception as e:
        bad.append((name,'CRASH %s %s'%(type(e).__name__,str(e)[:100])))
print()
for b in bad: print('BAD ',b)
