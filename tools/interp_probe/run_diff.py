import sys, copy, importlib.util
sys.path.insert(0,'/verif')
from pgverif.srcmodel import load
from pgverif.domain import make_interp
from pgverif.core import AnalysisError
from pgverif.num import Num
from fractions import Fraction
spec=importlib.util.spec_from_file_location('_probe2','/var/tmp/probe/src/pygaps/_probe2.py'); real=importlib.util.module_from_spec(spec); spec.loader.exec_module(real)
m=load('/var/tmp/probe'); mod=m.module('pygaps._probe2')
args={'g_for_else':[[1,2,3]],'g_while_else':[6],'g_continue':[[1,2,3,4]],'g_gen':[[1,2,3,4]],'g_try_finally_return':[{'b':1}],'g_del':[{'a':1,'b':2,'c':3}],'g_str_methods':['abc'],
'g_dict_methods':[{'a':1,'b':2}],'g_list_methods':[[3,1,2]],'g_zip_star':[[(1,'a'),(2,'b')]],'g_max_key':[[(1,5),(2,3)]],'g_short_circuit':[0,'x'],'g_chain_cmp':[3],'g_aug_subscript':[{'a':1},[2,3]],
'g_ifexp_nested':[3],'g_default_mut':[1],'g_enumerate_dict':[{'b':1,'a':2}],'g_any_gen':[[1,2,3]],'g_str_format':[2.5],'g_exceptions':[{}],'g_isinstance':[[1]],'g_str_in_tuple':['X'],'g_kwargs':[1]}
def conv(I,x):
    if isinstance(x,bool) or x is None or isinstance(x,str): return x
    if isinstance(x,int): return Num.const(x)
    if isinstance(x,float): return Num.const(Fraction(x))
    if isinstance(x,list): return [conv(I,y) for y in x]
    if isinstance(x,tuple): return tuple(conv(I,y) for y in x)
    if isinstance(x,dict): return {k:conv(I,v) for k,v in x.items()}
    return x
def back(v):
    if isinstance(v,Num):
        if v.is_const():
            f=v.value(); return int(f) if f.denominator==1 else float(f)
        return repr(v)
    if isinstance(v,bool) or v is None or isinstance(v,str): return v
    if type(v).__name__=='PySet': return set(back(x) for x in v)
    if isinstance(v,list): return [back(x) for x in v]
    if isinstance(v,tuple): return tuple(back(x) for x in v)
    if isinstance(v,dict): return {k:back(x) for k,x in v.items()}
    try:
        import sympy as sp
        if isinstance(v, sp.Basic): return float(v) if not v.is_Integer else int(v)
    except Exception: pass
    return repr(v)
bad=[]
for name,fi in mod.functions.items():
    a=args.get(name,[])
    try: want=getattr(real,name)(*copy.deepcopy(a))
    except Exception as e: want=('EXC',type(e).__name__)
    I=make_interp(m)
    try:
        outs=I.explore(lambda I: I.call_func(fi,[conv(I,x) for x in copy.deepcopy(a)],{},None))
        if len(outs)!=1: bad.append((name,'paths',[repr(o)[:80] for o in outs])); continue
        o=outs[0]
        got=back(o.value) if o.kind=='ok' else ('EXC',o.exc.types[0] if hasattr(o.exc,'types') else repr(o.exc))
        if got!=want: bad.append((name,'MISMATCH',got,want))
        else: print('ok  ',name)
    except AnalysisError as e:
        bad.append((name,'ANALYSIS-ERROR '+str(e)[-120:]))
    except Exception as e:
        import traceback
        bad.append((name,'CRASH %s %s'%(type(e).__name__,str(e)[:100]), traceback.format_exc().splitlines()[-3]))
print()
for b in bad: print('BAD ',b)
