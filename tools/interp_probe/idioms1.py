import collections
import contextlib
import copy
import functools
import itertools
import math
import operator
from itertools import chain, starmap


def f_sum(xs):
    return sum(xs)

def f_sum_gen(xs):
    return sum(x * 2 for x in xs)

def f_reversed(xs):
    return list(reversed(xs))

def f_filter(xs):
    return list(filter(None, xs))

def f_filter2(xs):
    return [x for x in filter(lambda v: v is not None, xs)]

def f_callable(x):
    return callable(x)

def f_starmap(xs):
    return list(starmap(operator.add, xs))

def f_product():
    return [(a, b) for a, b in itertools.product(("x", "y"), (1, 2))]

def f_zip_longest():
    return list(itertools.zip_longest([1, 2], [3]))

def f_chain_from(xs):
    return list(chain.from_iterable(xs))

def f_ordered():
    d = collections.OrderedDict()
    d["a"] = 1
    return list(d.items())

def f_defaultdict():
    d = collections.defaultdict(list)
    d["a"].append(1)
    return d["a"]

def f_namedtuple():
    P = collections.namedtuple("P", "a b")
    return P(1, 2).a

def f_suppress(d):
    with contextlib.suppress(KeyError):
        return d["zz"]
    return None

def f_copy(d):
    e = copy.copy(d)
    e["k"] = 1
    return d

def f_deepcopy(d):
    e = copy.deepcopy(d)
    e["k"] = 1
    return d

def f_math(x):
    return math.sqrt(x) + math.log(x) + math.exp(x) + math.pi

def f_isclose(x):
    return math.isclose(x, 1.0)

def f_not(x):
    return operator.not_(x)

def f_contains(xs):
    return operator.contains(xs, 1)

def f_dict_fromkeys():
    return dict.fromkeys(("a", "b"), 0)

def f_str_join(xs):
    return str.join(", ", xs)

def f_str_methods(s):
    return s.lower().strip().replace("a", "b").split(",")

def f_divmod():
    return divmod(7, 2)

def f_pow():
    return pow(2, 3)

def f_super_obj():
    class A:
        def v(self):
            return 1
    class B(A):
        def v(self):
            return super().v() + 1
    return B().v()

def f_lru():
    @functools.lru_cache(maxsize=None)
    def g(x):
        return x + 1
    return g(1)

def f_wraps():
    def deco(fn):
        @functools.wraps(fn)
        def inner(*a, **k):
            return fn(*a, **k)
        return inner
    @deco
    def g(x):
        return x
    return g(3)

def f_sorted_key(xs):
    return sorted(xs, key=lambda t: t[1], reverse=True)

def f_min_key(xs):
    return min(xs, key=operator.itemgetter(1))

def f_any_all(xs):
    return any(x for x in xs) and all(xs)

def f_enumerate_start(xs):
    return [(i, x) for i, x in enumerate(xs, start=1)]

def f_dict_comp_merge(a, b):
    return {**a, **b, "z": 1}

def f_setdefault(d):
    d.setdefault("k", []).append(1)
    return d

def f_walrus(xs):
    if (n := len(xs)) > 1:
        return n
    return 0

def f_fstring(x):
    return f"{x!r:>10} {x}"

def f_ternary_chain(a):
    return "neg" if a < 0 else "zero" if a == 0 else "pos"

def f_try_else_finally(d):
    try:
        v = d["a"]
    except KeyError:
        v = None
    else:
        v = v + 1
    finally:
        d["seen"] = True
    return v

def f_slice(xs):
    return xs[1:-1:2], xs[::-1]

def f_star_unpack(xs):
    first, *rest = xs
    return first, rest

def f_isinstance_tuple(x):
    return isinstance(x, (int, float)) and not isinstance(x, bool)

def f_getattr_default(o):
    return getattr(o, "nope", 5)

def f_lambda_default():
    fs = [lambda x, k=k: x + k for k in range(3)]
    return [f(1) for f in fs]

def f_nested_comp():
    return [[i * j for j in range(2)] for i in range(2)]

def f_set_ops():
    return sorted({1, 2} | {3}) , {1, 2} & {2}, {1} <= {1, 2}

def f_str_format():
    return "{} and {name}".format(1, name="x"), "%s-%d" % ("a", 2)

def f_global_const():
    return operator.abs(-2)

def f_accumulate():
    return list(itertools.accumulate([1, 2, 3]))

def f_count_take():
    return list(itertools.islice(itertools.count(1), 3))

def f_partial_kw():
    g = functools.partial(f_getattr_default)
    return g(None)
