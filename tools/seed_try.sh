#!/bin/bash
# usage: seed_try.sh <patch.diff> <check id> [<check id>...]
# applies the patch to /repo's working tree, runs the quick checks, reverts. Prints one line per check.
P=$1; shift
cd /repo
if [ -n "$(git status --porcelain -- src)" ]; then echo "repo src not clean"; exit 3; fi
if ! git apply "$P" >/tmp/seed_apply.log 2>&1; then
  git reset -q; git checkout -- src
  if ! patch -p1 --fuzz=3 -s < "$P" >/tmp/seed_apply.log 2>&1; then echo "APPLY-FAILED $P"; git checkout -- src; find src -name '*.orig' -o -name '*.rej' | xargs rm -f; exit 4; fi
fi
git reset -q
for c in "$@"; do
  out=$(cd /verif && ./check $c --tier quick --no-selftest 2>&1); rc=$?
  nv=$(echo "$out" | grep -c '^VIOLATION')
  first=$(echo "$out" | grep -m1 -E '^  src|ANALYSIS-ERROR' | cut -c1-260)
  echo "$c rc=$rc violations=$nv :: $first"
done
git checkout -- src; find src -name '*.orig' -o -name '*.rej' | xargs rm -f 2>/dev/null
git status --porcelain -- src | head -3
