#!/usr/bin/env python3-vt
"""usage: eq_try.py Cxx [checks...]  - run checks (default: all 20) against every stored equivalents/Cxx-N/patch.diff (behaviour-preserving
refactorings): every check must stay silent (exit 0); prints alarms (exit 1) and analysis errors (exit 2).
EQ_ROOT=<dir> takes the patches from <dir>/Cxx/_eq/patchN.diff instead. VERIF_SNAPSHOT=<copy of /verif> runs the checkers of that copy (so that /verif can be edited meanwhile)."""
import sys, glob, os
VERIF = os.environ.get("VERIF_SNAPSHOT", "/verif")
sys.path.insert(0, VERIF)
from concurrent.futures import ThreadPoolExecutor
from pgverif import selftest
prop = sys.argv[1]
checks = sys.argv[2:] or [f"C{i:02d}" for i in range(1, 21)]
patches = sorted(glob.glob(f"{os.environ['EQ_ROOT']}/{prop}/_eq/patch[0-9]*.diff")) if os.environ.get("EQ_ROOT") else \
    sorted(glob.glob(f"{VERIF}/equivalents/{prop}-[0-9]*/patch.diff"))
jobs = [(p, c) for p in patches for c in checks]
def run(j):
    p, c = j
    return p, c, selftest._one(c, "/repo", {"name": os.path.basename(p) if os.environ.get("EQ_ROOT") else os.path.basename(os.path.dirname(p)), "patch": p, "expect": "silent"}, "/var/tmp")
with ThreadPoolExecutor(max_workers=int(os.environ.get("EQ_WORKERS", "5"))) as ex:
    res = list(ex.map(run, jobs))
for p in patches:
    alarms = {c: r.get("reported") for pp, c, r in res if pp == p and r["status"] == "FAILED" and r.get("reported")}
    errs = {c: (r.get("detail") or "")[:160] for pp, c, r in res if pp == p and r["status"] == "FAILED" and not r.get("reported")}
    skipped = [c for pp, c, r in res if pp == p and r["status"].startswith("skipped")]
    print(os.path.basename(p) if os.environ.get('EQ_ROOT') else os.path.basename(os.path.dirname(p)), "ALARMS:" if alarms else "silent", alarms or "", "| ERR:" if errs else "", errs or "", "| NOT-APPLIED" if skipped else "")
