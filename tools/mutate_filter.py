#!/usr/bin/env python3-vt
"""Second stage of tools/mutate.py: keep only the surviving mutants that the pinned test suite does not notice either.

usage: mutate_filter.py <in.jsonl> <out.jsonl> [workers=6]
For every record of <in.jsonl> with no check fired and no analysis error, the mutant is re-created (same deterministic enumeration as
mutate.py), applied to a scratch copy of /repo (src + tests), and the pinned suite (BASELINE.json stable_pass) is run there.  Records
whose mutant loses no baseline-passing test are written to <out.jsonl> with "suite_lost": 0 - those are the candidates for reading:
an equivalent mutant, code outside every property, or a blind spot of the checks."""
import importlib.util, json, os, shutil, subprocess, sys, tempfile, xml.etree.ElementTree as ET
from concurrent.futures import ThreadPoolExecutor
from pathlib import Path

inp, outp = sys.argv[1], sys.argv[2]
workers = int(sys.argv[3]) if len(sys.argv) > 3 else 6
want = set(json.load(open("/root/.vp/BASELINE.json"))["stable_pass"])

# reuse mutate.py's enumeration without running its main part
src_mut = Path(__file__).with_name("mutate.py").read_text().split("\nrandom.seed(seed)")[0]
src_mut = src_mut.replace("out_path = sys.argv[1]", "out_path = None").replace("per_file = int(sys.argv[2]) if len(sys.argv) > 2 else 25", "per_file = 0") \
    .replace("seed = int(sys.argv[3]) if len(sys.argv) > 3 else 1", "seed = 1").replace("workers = int(sys.argv[4]) if len(sys.argv) > 4 else 8", "workers = 1") \
    .replace("only = sys.argv[5:]", "only = []")
ns = {"__file__": str(Path(__file__).with_name("mutate.py"))}
exec(compile(src_mut, "mutate.py", "exec"), ns)
mutants_of = ns["mutants_of"]

recs = [json.loads(l) for l in open(inp)]
surv = [r for r in recs if not r["fired"] and not r["errors"]]
cache = {}


def locate(r):
    f = r["file"]
    if f not in cache:
        cache[f] = mutants_of(f"/repo/{f}")
    src, ms = cache[f]
    for m in ms:
        if m["line"] == r["line"] and m["kind"] == r["kind"] and m["before"] == r["before"] and m["after"] == r["after"] and m["func"] == r["func"]:
            return src, m
    return None, None


def run(r):
    src, m = locate(r)
    if m is None:
        return dict(r, suite_lost=None, note="mutant not re-located")
    scratch = tempfile.mkdtemp(prefix="pgmutf-", dir="/var/tmp")
    try:
        for d in ("src", "tests"):
            shutil.copytree(f"/repo/{d}", f"{scratch}/{d}", ignore=shutil.ignore_patterns("__pycache__", "*.pyc"))
        os.makedirs(f"{scratch}/docs/examples", exist_ok=True)
        if os.path.isdir("/repo/docs/examples/data"):
            os.symlink("/repo/docs/examples/data", f"{scratch}/docs/examples/data")      # the test fixtures' data files (read only)
        for fn in ("setup.py", "setup.cfg", "pyproject.toml", "conftest.py", "pytest.ini", "tox.ini"):
            if os.path.exists(f"/repo/{fn}"):
                shutil.copy(f"/repo/{fn}", f"{scratch}/{fn}")
        Path(f"{scratch}/{r['file']}").write_text(src[:m["a"]] + m["new"] + src[m["b"]:])
        xml = f"{scratch}/junit.xml"
        env = dict(os.environ, PYTHONPATH=f"{scratch}/src")
        subprocess.run(["/venv/bin/python", "-m", "pytest", "-ra", "-q", "-p", "no:cacheprovider", "--timeout=900", "--continue-on-collection-errors",
                        f"--junitxml={xml}"], cwd=scratch, env=env, stdout=subprocess.DEVNULL, stderr=subprocess.DEVNULL, timeout=3000)
        passed = set()
        for tc in ET.parse(xml).getroot().iter("testcase"):
            if not any(ch.tag in ("failure", "error", "skipped") for ch in tc):
                passed.add(f"{tc.get('classname')}::{tc.get('name')}")
        lost = sorted(want - passed)
        return dict(r, suite_lost=len(lost), lost=lost[:3])
    except Exception as e:      # noqa
        return dict(r, suite_lost=None, note=f"{type(e).__name__}: {e}"[:200])
    finally:
        shutil.rmtree(scratch, ignore_errors=True)


print(f"{len(surv)} surviving mutants to run through the pinned suite", flush=True)
with open(outp, "w") as fo, ThreadPoolExecutor(max_workers=workers) as ex:
    for rec in ex.map(run, surv):
        fo.write(json.dumps(rec) + "\n")
        fo.flush()
print("done")
