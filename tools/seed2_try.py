#!/usr/bin/env python3-vt
"""usage: [SEED_ROOT=/tmp/seed3] [VERIF_SNAPSHOT=<copy of /verif>] seed2_try.py Cxx [checks...]  - run checks (default: all 20) against every
$SEED_ROOT/Cxx/_seed/patchN.diff (default root /tmp/seed2) on scratch copies"""
import sys, glob, os
sys.path.insert(0, os.environ.get("VERIF_SNAPSHOT", "/verif"))
from concurrent.futures import ThreadPoolExecutor
from pgverif import selftest
prop = sys.argv[1]
checks = sys.argv[2:] or [f"C{i:02d}" for i in range(1, 21)]
patches = sorted(glob.glob(f"{os.environ.get('SEED_ROOT', '/tmp/seed2')}/{prop}/_seed/patch[0-9].diff"))
jobs = [(p, c) for p in patches for c in checks]
def run(j):
    p, c = j
    r = selftest._one(c, "/repo", {"name": os.path.basename(p), "patch": p, "expect": "fire"}, "/var/tmp")
    return p, c, r
with ThreadPoolExecutor(max_workers=int(os.environ.get("SEED_WORKERS", "8"))) as ex:
    res = list(ex.map(run, jobs))
for p in patches:
    fired = {c: r.get("reported") for pp, c, r in res if pp == p and r["status"] == "ok"}
    other = {c: r["status"] + " " + str(r.get("detail", ""))[:80] for pp, c, r in res if pp == p and r["status"] not in ("ok", "FAILED")}
    errs = {c: r.get("detail") for pp, c, r in res if pp == p and r["status"] == "FAILED" and r.get("detail")}
    print(os.path.basename(p), "FIRED:", fired, "| ERR:" if errs else "", errs or "", "| OTHER:" if other else "", other or "")
