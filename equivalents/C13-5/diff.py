"""Differential script for change 1: iast_point residual closure."""
import itertools

import numpy

import _fixtures as fx
import pygaps.iast.pgiast as pgi

M = fx.models()
P = fx.points()
ch4, c2h6 = fx.real()
run = fx.run

# --- model mixtures, 2-4 components, default guess
mixes = [
    ("H1", "H2"), ("H1", "H2", "H3"), ("L1", "L2"), ("L1", "L2", "L3"), ("L1", "L2", "L3", "L4"),
    ("DS", "L2"), ("TS", "Q"), ("BET", "L1"), ("TA", "TO"), ("TO", "JS", "L3"), ("JS", "DS", "Q", "H1"),
    ("H1", "L2", "TO"), ("Q", "TA", "BET", "TS"),
]
pressures = [
    [0.5, 0.5, 0.5, 0.5], [1e-3, 2.0, 0.3, 5.0], [7.0, 0.02, 11.0, 1.0], [1e-6, 1e-6, 1e-6, 1e-6],
    [30.0, 45.0, 2.0, 0.5]
]
for mix in mixes:
    isos = [M[k] for k in mix]
    for pp in pressures:
        pp = pp[:len(isos)]
        run(f"point {mix} {pp}", pgi.iast_point, isos, pp)
        run(f"point-arr {mix} {pp}", pgi.iast_point, isos, numpy.array(pp), warningoff=True)

# --- permutations
for perm in itertools.permutations(range(3)):
    keys = [("L1", "TO", "DS")[i] for i in perm]
    pp = [(0.4, 2.5, 1.1)[i] for i in perm]
    run(f"perm {keys}", pgi.iast_point, [M[k] for k in keys], pp)

# --- user guesses (good, poor, int, wrong length, wrong sum, 2-D)
guesses = [
    [0.5, 0.5], [0.9, 0.1], [0.01, 0.99], (0.3, 0.7), numpy.array([0.25, 0.75]), [1, 0], [0, 1],
    [0.5, 0.6], [0.3, 0.3, 0.4], [1.0], [], [[0.5, 0.5]], [1.2, -0.2], [0.99999, 0.00001]
]
for g in guesses:
    run(f"guess2 {g!r}", pgi.iast_point, [M["L1"], M["L2"]], [1.0, 2.0], adsorbed_mole_fraction_guess=g)
    run(f"guess2pt {g!r}", pgi.iast_point, [P["P1"], P["P2"]], [1.0, 2.0], adsorbed_mole_fraction_guess=g)
guesses3 = [
    [0.3, 0.3, 0.4], [0.8, 0.1, 0.1], [0.05, 0.05, 0.9], [0.5, 0.5], [1.0], [], [0.25, 0.25, 0.25, 0.25],
    [0.2, 0.2, 0.2, 0.2, 0.2]
]
for g in guesses3:
    run(f"guess3 {g!r}", pgi.iast_point, [M["L1"], M["TO"], M["DS"]], [1.0, 2.0, 0.2],
        adsorbed_mole_fraction_guess=g)
    run(f"guess3pt {g!r}", pgi.iast_point, [P["P1"], P["PS"], P["P3"]], [1.0, 2.0, 0.2],
        adsorbed_mole_fraction_guess=g)

# --- point isotherms, in and out of range, branches
for pp in ([1.0, 1.0], [0.01, 0.02], [50.0, 3.0], [150.0, 150.0], [0.5, 30.0]):
    run(f"pts12 {pp}", pgi.iast_point, [P["P1"], P["P2"]], pp)
    run(f"pts-mix {pp}", pgi.iast_point, [P["P1"], M["L2"]], pp)
    run(f"real {pp}", pgi.iast_point, [ch4, c2h6], pp)
    run(f"real-v {pp}", pgi.iast_point, [ch4, c2h6], pp, verbose=True)
run("pts123", pgi.iast_point, [P["P1"], P["P2"], P["P3"]], [1.0, 0.5, 3.0])
run("pts123 P5", pgi.iast_point, [P["P1"], P["P5"], P["P3"]], [1.0, 0.5, 3.0], verbose=True)
run("short range", pgi.iast_point, [P["PS"], P["P2"]], [2.0, 2.0])
run("short range 2", pgi.iast_point, [P["P2"], P["PS"]], [2.0, 2.0])
run("short range 3", pgi.iast_point, [P["P1"], P["P2"], P["PS"]], [2.0, 2.0, 2.5])
run("des branch", pgi.iast_point, [P["PD"], P["PD"]], [1.0, 2.0], branch="des")
run("des branch mix", pgi.iast_point, [P["PD"], P["P2"]], [1.0, 2.0], branch="des")
run("des model", pgi.iast_point, [M["LDES"], M["L1"]], [1.0, 2.0], branch="des")
run("des model 2", pgi.iast_point, [M["LDES"], M["LDES"]], [1.0, 2.0], branch="des")
run("ads on des", pgi.iast_point, [M["LDES"], M["L1"]], [1.0, 2.0])
run("narrow", pgi.iast_point, [M["LN"], M["L1"]], [4.0, 0.1])
run("narrow verbose", pgi.iast_point, [M["LN"], M["LN"], M["L1"]], [4.0, 3.0, 0.1], verbose=True)

# --- guards / edge inputs
run("one iso", pgi.iast_point, [M["L1"]], [1.0])
run("no iso", pgi.iast_point, [], [])
run("size mismatch", pgi.iast_point, [M["L1"], M["L2"]], [1.0])
run("size mismatch 3", pgi.iast_point, [M["L1"], M["L2"]], [1.0, 2.0, 3.0])
run("virial", pgi.iast_point, [M["VIR"], M["L2"]], [1.0, 1.0])
run("freundlich", pgi.iast_point, [M["L1"], M["FR"]], [1.0, 1.0])
run("relative", pgi.iast_point, [M["L1"], M["LREL"]], [1.0, 0.5])
run("zero pressure", pgi.iast_point, [M["L1"], M["L2"]], [0.0, 1.0])
run("zero pressures", pgi.iast_point, [M["L1"], M["L2"]], [0.0, 0.0])
run("negative pressure", pgi.iast_point, [M["L1"], M["L2"]], [-1.0, 1.0])
run("nan pressure", pgi.iast_point, [M["L1"], M["L2"]], [numpy.nan, 1.0])
run("2d pressures", pgi.iast_point, [M["L1"], M["L2"]], [[1.0, 2.0]])
run("2d col pressures", pgi.iast_point, [M["L1"], M["L2"]], numpy.array([[1.0], [2.0]]))
run("tuple pressures", pgi.iast_point, (M["L1"], M["L2"], M["L3"]), (1.0, 2.0, 3.0))

# --- fraction wrapper
for y in ([0.5, 0.5], [0.01, 0.99], [0.999, 0.001], [0.0, 1.0]):
    for pt in (0.1, 1.0, 25.0):
        run(f"fraction {y} {pt}", pgi.iast_point_fraction, [M["TO"], M["JS"]], y, pt)
run("fraction 4", pgi.iast_point_fraction, [M["L1"], M["L2"], M["L3"], M["L4"]], [0.1, 0.2, 0.3, 0.4], 3.0)
