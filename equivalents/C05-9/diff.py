"""Differential transcript for C05-1 (hashgen.isotherm_to_hash refactoring)."""
import logging
import warnings

import numpy
import pandas

import pygaps
from pygaps.modelling import get_isotherm_model
from pygaps.utilities import hashgen

warnings.simplefilter("ignore")
LOG = logging.getLogger('pygaps')
for h in list(LOG.handlers):
    LOG.removeHandler(h)


class _H(logging.Handler):
    def emit(self, record):
        if record.levelno >= logging.WARNING:
            print("  LOG", record.levelname, record.getMessage())


LOG.addHandler(_H())


def show(label, fn):
    try:
        print(label, "->", repr(fn()))
    except BaseException as e:  # noqa
        print(label, "!!", type(e).__name__, str(e))


UNITS = dict(
    pressure_mode='absolute', pressure_unit='bar', material_basis='mass', material_unit='g',
    loading_basis='molar', loading_unit='mmol', temperature_unit='K'
)
BASE = dict(material='carbon', adsorbate='N2', temperature=77, **UNITS)

P = [0.1, 0.2, 0.3, 0.5, 0.4, 0.25]
L = [1.0, 2.0, 3.0, 4.0, 3.5, 2.5]

# --- _numbers_as_float
for obj in [
    1, 1.0, True, False, None, "3", [1, 2.5, True, (3, "x")], {"a": 1, "b": {"c": [1, {"d": 2}]}},
    numpy.int64(4), numpy.float64(4), numpy.bool_(True), (1, 2), {1: 2}, 10**30, -0, float('nan'),
    {"t": (1, )}, [], {}, set(),
]:
    show(f"naf({obj!r})", lambda o=obj: hashgen._numbers_as_float(o))

# --- point isotherms, all sorts of routes
isos = {}
isos['lists'] = lambda: pygaps.PointIsotherm(pressure=P, loading=L, **BASE)
isos['arrays'] = lambda: pygaps.PointIsotherm(pressure=numpy.array(P), loading=numpy.array(L), **BASE)
isos['df'] = lambda: pygaps.PointIsotherm(
    isotherm_data=pandas.DataFrame({'p': P, 'l': L}), pressure_key='p', loading_key='l', **BASE
)
isos['df_index'] = lambda: pygaps.PointIsotherm(
    isotherm_data=pandas.DataFrame({'p': P, 'l': L}, index=list("abcdef")), pressure_key='p', loading_key='l', **BASE
)
isos['df_named'] = lambda: pygaps.PointIsotherm(
    isotherm_data=pandas.DataFrame({'pressure': P, 'loading': L}), pressure_key='pressure', loading_key='loading', **BASE
)
isos['ints'] = lambda: pygaps.PointIsotherm(pressure=[1, 2, 3, 4], loading=[1, 2, 3, 4], **BASE)
isos['floats'] = lambda: pygaps.PointIsotherm(pressure=[1., 2., 3., 4.], loading=[1., 2., 3., 4.], **BASE)
isos['mixed'] = lambda: pygaps.PointIsotherm(pressure=[1, 2., 3, 4.], loading=numpy.array([1, 2, 3, 4], dtype='int32'), **BASE)
isos['f32'] = lambda: pygaps.PointIsotherm(
    pressure=numpy.array([1, 2, 3, 4], dtype='float32'), loading=numpy.array([1, 2, 3, 4], dtype='float32'), **BASE
)
isos['below_round'] = lambda: pygaps.PointIsotherm(pressure=[1, 2, 3, 4 + 1e-10], loading=[1, 2, 3, 4], **BASE)
isos['above_round'] = lambda: pygaps.PointIsotherm(pressure=[1, 2, 3, 4 + 1e-7], loading=[1, 2, 3, 4], **BASE)
isos['branch_ads'] = lambda: pygaps.PointIsotherm(pressure=P, loading=L, branch='ads', **BASE)
isos['branch_des'] = lambda: pygaps.PointIsotherm(pressure=P, loading=L, branch='des', **BASE)
isos['branch_bool'] = lambda: pygaps.PointIsotherm(pressure=P, loading=L, branch=[False] * 4 + [True] * 2, **BASE)
isos['branch_int'] = lambda: pygaps.PointIsotherm(pressure=P, loading=L, branch=[0, 0, 0, 0, 1, 1], **BASE)
isos['other_num'] = lambda: pygaps.PointIsotherm(
    isotherm_data=pandas.DataFrame({'p': P, 'l': L, 'enth': [5, 4, 3, 2, 1, 0]}), pressure_key='p', loading_key='l', **BASE
)
isos['other_numf'] = lambda: pygaps.PointIsotherm(
    isotherm_data=pandas.DataFrame({'p': P, 'l': L, 'enth': [5., 4, 3, 2, 1, 0]}), pressure_key='p', loading_key='l', **BASE
)
isos['other_str'] = lambda: pygaps.PointIsotherm(
    isotherm_data=pandas.DataFrame({'p': P, 'l': L, 'note': list("uvwxyz")}), pressure_key='p', loading_key='l', **BASE
)
isos['other_bool'] = lambda: pygaps.PointIsotherm(
    isotherm_data=pandas.DataFrame({'p': P, 'l': L, 'flag': [True, False] * 3}), pressure_key='p', loading_key='l', **BASE
)
isos['other_nan'] = lambda: pygaps.PointIsotherm(
    isotherm_data=pandas.DataFrame({'p': P, 'l': L, 'enth': [5, None, 3, numpy.nan, 1, 0]}), pressure_key='p', loading_key='l', **BASE
)
isos['other_obj'] = lambda: pygaps.PointIsotherm(
    isotherm_data=pandas.DataFrame({'p': P, 'l': L, 'o': [[1], [2], [3], [4], [5], [6]]}), pressure_key='p', loading_key='l', **BASE
)
isos['empty'] = lambda: pygaps.PointIsotherm(pressure=[], loading=[], branch='ads', **BASE)
isos['one'] = lambda: pygaps.PointIsotherm(pressure=[1], loading=[2], **BASE)
isos['nanp'] = lambda: pygaps.PointIsotherm(pressure=[1, numpy.nan, 3], loading=[1, 2, 3], branch='ads', **BASE)
isos['meta_int'] = lambda: pygaps.PointIsotherm(pressure=P, loading=L, **BASE, user=3, flag=True, nested={"a": [1, 2, {"b": 3}]})
isos['meta_float'] = lambda: pygaps.PointIsotherm(pressure=P, loading=L, **BASE, user=3.0, flag=True, nested={"a": [1., 2., {"b": 3.}]})
isos['meta_flag1'] = lambda: pygaps.PointIsotherm(pressure=P, loading=L, **BASE, user=3.0, flag=1, nested={"a": [1., 2., {"b": 3.}]})
isos['meta_tuple'] = lambda: pygaps.PointIsotherm(pressure=P, loading=L, **BASE, tup=(1, 2))
isos['meta_npint'] = lambda: pygaps.PointIsotherm(pressure=P, loading=L, **BASE, user=numpy.int64(3))
isos['meta_npfloat'] = lambda: pygaps.PointIsotherm(pressure=P, loading=L, **BASE, user=numpy.float64(3))
isos['meta_set'] = lambda: pygaps.PointIsotherm(pressure=P, loading=L, **BASE, user={1, 2})
isos['meta_nan'] = lambda: pygaps.PointIsotherm(pressure=P, loading=L, **BASE, user=float('nan'))
isos['meta_intkey'] = lambda: pygaps.PointIsotherm(pressure=P, loading=L, **{**BASE, 'x': {1: 2}})
isos['meta_mixkey'] = lambda: pygaps.PointIsotherm(pressure=P, loading=L, **{**BASE, 'x': {1: 2, 'a': 3}})
isos['temp_float'] = lambda: pygaps.PointIsotherm(pressure=P, loading=L, **{**BASE, 'temperature': 77.0})
isos['temp_str'] = lambda: pygaps.PointIsotherm(pressure=P, loading=L, **{**BASE, 'temperature': "77"})
isos['temp_C'] = lambda: pygaps.PointIsotherm(pressure=P, loading=L, **{**BASE, 'temperature': 25, 'temperature_unit': '°C'})
isos['relative'] = lambda: pygaps.PointIsotherm(pressure=P, loading=L, **{**BASE, 'pressure_mode': 'relative'})
isos['unit_kpa'] = lambda: pygaps.PointIsotherm(pressure=P, loading=L, **{**BASE, 'pressure_unit': 'kPa'})
isos['mat_dict'] = lambda: pygaps.PointIsotherm(pressure=P, loading=L, **{**BASE, 'material': {'name': 'zeo', 'density': 2}})
isos['mat_dictf'] = lambda: pygaps.PointIsotherm(pressure=P, loading=L, **{**BASE, 'material': {'name': 'zeo', 'density': 2.0}})
isos['ads_unknown'] = lambda: pygaps.PointIsotherm(pressure=P, loading=L, **{**BASE, 'adsorbate': 'unobtainium'})
isos['base'] = lambda: pygaps.core.baseisotherm.BaseIsotherm(**BASE)
isos['base_meta'] = lambda: pygaps.core.baseisotherm.BaseIsotherm(**BASE, user=3)


def _model_iso(**params):
    model = get_isotherm_model('Langmuir')
    for k, v in params.items():
        model.params[k] = v
    return pygaps.ModelIsotherm(model=model, **BASE)


isos['model_int'] = lambda: _model_iso(K=2, n_m=5)
isos['model_float'] = lambda: _model_iso(K=2.0, n_m=5.0)
isos['model_other'] = lambda: _model_iso(K=2.5, n_m=5.0)
isos['model_fit'] = lambda: pygaps.ModelIsotherm(
    pressure=[0.1, 0.2, 0.3, 0.4, 0.5], loading=[1, 1.7, 2.2, 2.6, 2.9], model='Langmuir', **BASE
)
isos['model_henry'] = lambda: pygaps.ModelIsotherm(pressure=[0.1, 0.2, 0.3], loading=[1, 2, 3], model='Henry', **BASE)

built = {}
for name, mk in isos.items():
    try:
        built[name] = mk()
    except BaseException as e:  # noqa
        print("build", name, "!!", type(e).__name__, str(e))

for name, iso in built.items():
    show(f"hash[{name}]", lambda i=iso: hashgen.isotherm_to_hash(i))
    show(f"iso_id[{name}]", lambda i=iso: i.iso_id)

# stability under reads / caches / state unchanged
for name in ['lists', 'df_index', 'other_num', 'meta_int']:
    iso = built[name]
    before = iso.iso_id
    raw_before = iso.data_raw.copy()
    dtypes_before = list(map(str, iso.data_raw.dtypes))
    iso.pressure()
    iso.loading(branch='ads')
    try:
        iso.loading_at(0.15)
        iso.pressure_at(1.5)
    except BaseException as e:  # noqa
        print("interp", name, type(e).__name__, e)
    print("stable", name, before == iso.iso_id, iso.data_raw.equals(raw_before), dtypes_before == list(map(str, iso.data_raw.dtypes)),
          list(iso.data_raw.columns), list(iso.data_raw.index))

# equality matrix
names = sorted(built)
for a in names:
    row = ""
    for b in names:
        try:
            row += "1" if built[a] == built[b] else "0"
        except BaseException as e:  # noqa
            row += "E"
    print("eq", a.ljust(14), row)

# the private data hash path on raw frames
frames = {
    'dup_cols': pandas.DataFrame([[1, 2, 3], [4, 5, 6]], columns=['a', 'a', 'b']),
    'empty': pandas.DataFrame(),
    'strs': pandas.DataFrame({'a': ['x', 'y']}),
    'mixed': pandas.DataFrame({'a': [1, 2], 'b': [1.123456789123, 2.5], 'c': ['x', 'y'], 'd': [True, False]}),
    'complex': pandas.DataFrame({'a': [1 + 2j, 3]}),
    'dt': pandas.DataFrame({'a': pandas.to_datetime(['2020-01-01', '2020-01-02'])}),
    'cat': pandas.DataFrame({'a': pandas.Categorical(['x', 'y'])}),
    'nullable': pandas.DataFrame({'a': pandas.array([1, None], dtype='Int64')}),
    'intcols': pandas.DataFrame({0: [1, 2], 1: [3, 4]}),
}


class FakePoint(pygaps.PointIsotherm):
    def __init__(self, frame):  # noqa
        self.data_raw = frame

    def to_dict(self):
        return {"x": 1}


for name, fr in frames.items():
    show(f"frame[{name}]", lambda f=fr: hashgen.isotherm_to_hash(FakePoint(f)))
    print("  frame dtypes after", list(map(str, fr.dtypes)))

# error cases
show("hash(None)", lambda: hashgen.isotherm_to_hash(None))
show("hash(dict)", lambda: hashgen.isotherm_to_hash({}))


class NoData(pygaps.PointIsotherm):
    def __init__(self):  # noqa
        pass

    def to_dict(self):
        return {"x": 1}


show("hash(NoData)", lambda: hashgen.isotherm_to_hash(NoData()))


class BadDict(pygaps.PointIsotherm):
    def __init__(self):  # noqa
        self.data_raw = "not a frame"

    def to_dict(self):
        return {"x": 1}


show("hash(BadDict)", lambda: hashgen.isotherm_to_hash(BadDict()))


class ToDictList(pygaps.PointIsotherm):
    def __init__(self):  # noqa
        self.data_raw = pandas.DataFrame({'a': [1]})

    def to_dict(self):
        return [1, 2]


show("hash(ToDictList)", lambda: hashgen.isotherm_to_hash(ToDictList()))


class Duck:
    def to_dict(self):
        return {"b": 2, "a": 1, "c": [1, 2, (3, 4)]}


show("hash(Duck)", lambda: hashgen.isotherm_to_hash(Duck()))


class DuckBad:
    def to_dict(self):
        return {"a": object}


show("hash(DuckBad)", lambda: hashgen.isotherm_to_hash(DuckBad()))
