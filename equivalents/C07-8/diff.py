"""Change 4: isotherm_to_aif - unit strings, branch loops and model tags restructured.

Exports the corpus to AIF (string and file targets), prints the exact text, reads it back
(metadata-only and model isotherms can be read in this environment; point isotherms hit the
pandas-3 incompatibility of the reader in both trees) and exercises error paths of the writer.
"""
import os

import numpy

import _common as c
from pygaps.parsing import isotherm_from_aif
from pygaps.parsing import isotherm_to_aif


def file_text(path):
    with open(path, encoding="utf-8") as f:
        return f.read()


n = 0
for label, make in c.corpus():
    n += 1
    iso = make()
    text = c.run(f"{label} | write", isotherm_to_aif, iso)
    c.run(f"{label} | iso after", lambda: iso)
    if isinstance(text, str):
        back = c.run(f"{label} | read", isotherm_from_aif, text)
        if not isinstance(back, BaseException):
            c.run(f"{label} | equal", lambda: back == make())
        # units parsed from the standard tags instead of the pygaps ones
        c.run(f"{label} | read parse_units", isotherm_from_aif, text, _parse_units=True)
    # file targets: extension is always replaced by .aif
    for ext in (".aif", ".txt", "", ".tar.gz"):
        path = c.tmp(f"a{n}{ext}")
        res = c.run(f"{label} | file{ext} write", isotherm_to_aif, make(), path)
        real = os.path.splitext(path)[0] + ".aif"
        if not isinstance(res, BaseException):
            c.run(f"{label} | file{ext} same text", lambda: file_text(real) == text)
            if ext == ".txt":
                c.run(f"{label} | file read", isotherm_from_aif, real)
        if os.path.exists(real):
            os.remove(real)
c.run("files left", lambda: sorted(os.listdir(c.TMP)))

# mutated isotherms / writer error paths
iso = c.point(other=["enthalpy"])
iso.pressure_mode = "relative"
c.run("mutated | relative with unit left", isotherm_to_aif, iso)
iso = c.point()
iso.loading_basis = "percent"
iso.material_basis = "volume"
c.run("mutated | percent volume", isotherm_to_aif, iso)
iso = c.point()
iso.loading_basis = "fraction"
iso.loading_unit = None
c.run("mutated | fraction", isotherm_to_aif, iso)
iso = c.point()
iso.loading_basis = "Fraction"
c.run("mutated | unknown basis spelled Fraction", isotherm_to_aif, iso)
iso = c.point()
iso.pressure_unit = None
c.run("mutated | absolute without unit", isotherm_to_aif, iso)
iso = c.point()
iso.pressure_mode = None
c.run("mutated | pressure mode None", isotherm_to_aif, iso)
iso = c.point()
iso.temperature_unit = "°C"
c.run("mutated | celsius", isotherm_to_aif, iso)
iso = c.base()
iso.properties["pressure_unit"] = "shadow"
c.run("mutated | property shadows unit", isotherm_to_aif, iso)
iso = c.base()
iso.properties["material"] = "shadow"
c.run("mutated | property shadows material", isotherm_to_aif, iso)
iso = c.base()
iso.properties["multi\nline key"] = "v"
c.run("mutated | newline key", isotherm_to_aif, iso)
iso = c.base()
iso.properties["k"] = "two\nlines"
c.run("mutated | newline value", isotherm_to_aif, iso)
iso = c.base()
iso.properties["k"] = "it's"
c.run("mutated | quote value", isotherm_to_aif, iso)
iso = c.base()
iso.properties[""] = "empty key"
c.run("mutated | empty key", isotherm_to_aif, iso)

iso = c.model()
iso.model.pressure_range = (1.0, )
c.run("model | short pressure range", isotherm_to_aif, iso)
iso = c.model()
iso.model.loading_range = ()
c.run("model | empty loading range", isotherm_to_aif, iso)
iso = c.model()
iso.model.loading_range = None
c.run("model | None loading range", isotherm_to_aif, iso)
iso = c.model()
iso.model.pressure_range = (1, 2, 3)
c.run("model | long pressure range", isotherm_to_aif, iso)
iso = c.model()
iso.model.pressure_range = [numpy.float64(0.5), numpy.float64(2.5)]
iso.model.rmse = numpy.float64(0.125)
c.run("model | numpy range", isotherm_to_aif, iso)
iso = c.model()
iso.model.params = {}
c.run("model | no params", isotherm_to_aif, iso)
iso = c.model()
iso.model.params = {"K": None, "n m": "x y", "z": numpy.float64(1.5)}
c.run("model | odd params", isotherm_to_aif, iso)
iso = c.model()
iso.model.params = {"bad\nkey": 1}
c.run("model | newline param key", isotherm_to_aif, iso)
iso = c.model()
iso.model.name = None
c.run("model | name None", isotherm_to_aif, iso)
iso = c.model()
iso.model.name = None
iso.model.pressure_range = ()
c.run("model | name None and empty range (first fault wins)", isotherm_to_aif, iso)
iso = c.model()
iso.model.loading_range = (1, )
iso.model.params = {"bad\nkey": 1}
c.run("model | short loading range and bad param key", isotherm_to_aif, iso)
iso = c.model()
iso.model.name = "two words"
c.run("model | name with space", isotherm_to_aif, iso)
iso = c.model()
del iso.model.rmse
c.run("model | no rmse attribute", isotherm_to_aif, iso)

iso = c.point(other=["enthalpy"])
iso.data_raw = iso.data_raw.iloc[:0]
c.run("point | no rows", isotherm_to_aif, iso)
iso = c.point(data="ads")
iso.data_raw.loc[:, "branch"] = 1
c.run("point | all flipped to des", isotherm_to_aif, iso)
iso = c.point(data="two")
iso.data_raw.loc[2, "loading"] = numpy.nan
iso.data_raw.loc[5, "pressure"] = numpy.inf
c.run("point | nan and inf", isotherm_to_aif, iso)
iso = c.point(data="two")
iso.data_raw["loading"] = iso.data_raw["loading"] * 1e-9
c.run("point | tiny values", isotherm_to_aif, iso)
iso = c.point(data="two")
iso.data_raw["loading"] = iso.data_raw["loading"] * 1e17
c.run("point | huge values", isotherm_to_aif, iso)

c.run("arg | None", isotherm_to_aif, None)
c.run("arg | dict", isotherm_to_aif, {"material": "m"})
c.run("arg | path in missing dir", isotherm_to_aif, c.base(), c.tmp("no/such/dir/x.aif"))
c.run("arg | path is dir", isotherm_to_aif, c.base(), c.TMP + "/")
c.run("arg | pathlib path", isotherm_to_aif, c.base(), __import__("pathlib").Path(c.tmp("pl.txt")))
c.run("arg | pathlib result", lambda: sorted(os.listdir(c.TMP)))

c.cleanup()
