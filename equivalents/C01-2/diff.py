"""Differential script for change 2: c_loading basis-constant table."""
import itertools
import warnings

import numpy as np
import pandas as pd

import pygaps
from pygaps.core.adsorbate import Adsorbate
from pygaps.units.converter_mode import c_loading

warnings.simplefilter("ignore")


def canon(x):
    if isinstance(x, pd.Series):
        return f"Series(index={list(x.index)!r}, values={[repr(float(v)) for v in x.values]}, name={x.name!r})"
    if isinstance(x, np.ndarray):
        return f"ndarray(dtype={x.dtype}, shape={x.shape}, values={[repr(v) for v in x.ravel().tolist()]})"
    if isinstance(x, (float, np.floating)):
        return f"{type(x).__name__}:{float(x)!r}"
    return f"{type(x).__name__}:{x!r}"


def run(label, func, *args, **kwargs):
    try:
        res = func(*args, **kwargs)
        print(f"{label} -> {canon(res)}")
    except BaseException as err:  # noqa
        print(f"{label} !! {type(err).__name__}: {err}")


class FakeAdsorbate:
    """Records the calls made by the converter (names, arguments, order)."""
    def __init__(self, fail=()):
        self.calls = []
        self.fail = fail

    def _rec(self, name, val, args, kwargs):
        self.calls.append((name, args, tuple(sorted(kwargs.items()))))
        if name in self.fail:
            raise RuntimeError(f"fake failure in {name}")
        return val

    def molar_mass(self, *a, **k):
        return self._rec("molar_mass", 28.5, a, k)

    def gas_density(self, *a, **k):
        return self._rec("gas_density", 0.0047, a, k)

    def liquid_density(self, *a, **k):
        return self._rec("liquid_density", 0.83, a, k)

    def gas_molar_density(self, *a, **k):
        return self._rec("gas_molar_density", 1.7e-4, a, k)

    def liquid_molar_density(self, *a, **k):
        return self._rec("liquid_molar_density", 0.029, a, k)


n2 = Adsorbate.find("nitrogen")
co2 = Adsorbate.find("carbon dioxide")
butane = Adsorbate.find("butane")
dictads = Adsorbate(
    "eq_dictads", molar_mass=44.5, gas_density=0.002, liquid_density=1.1, gas_molar_density=4.5e-5,
    liquid_molar_density=0.025
)
partial = Adsorbate("eq_partial", molar_mass=30.0, liquid_density=0.9)
nothing = Adsorbate("eq_nothing")

MOLAR = ["mmol", "mol", "kmol", "cm3(STP)", "mL(STP)", "cc(STP)", "L(STP)"]
MASS = ["amu", "mg", "cg", "dg", "g", "kg"]
VOL = ["cm3", "mL", "cc", "dm3", "L", "m3"]
LOAD = ([("molar", u) for u in MOLAR] + [("mass", u) for u in MASS] + [("volume_gas", u) for u in VOL] +
        [("volume_liquid", u) for u in VOL] + [("fraction", None), ("percent", None)])
MAT = [("molar", u) for u in MOLAR] + [("mass", u) for u in MASS] + [("volume", u) for u in VOL]
assert len(LOAD) == 27 and len(MAT) == 19

VALUES = [
    ("one", 1.0),
    ("int", 7),
    ("zero", 0.0),
    ("neg", -0.3),
    ("tiny", 4.9406564584124654e-300),
    ("nan", float("nan")),
    ("arr", np.array([0.0, 0.1, 1.0, 1e-5, 33.3, 1e6])),
    ("intarr", np.array([[1, 2], [3, 4]])),
    ("empty", np.array([])),
    ("series", pd.Series([0.01, 0.2, 3.0], index=["a", "b", "c"], name="l")),
]
ADS = [("n2", n2, 77.355), ("co2", co2, 273.15), ("butane", butane, 298.15), ("dict", dictads, 300.0)]

print("# section 1: all ordered pairs of the 27 loading representations (material: mass/g)")
for aname, ads, temp in ADS:
    for (bf, uf), (bt, ut) in itertools.product(LOAD, LOAD):
        for vname, val in VALUES[:5] + VALUES[6:7]:
            run(f"S1 {aname} {bf}/{uf}->{bt}/{ut} {vname}", c_loading, val, bf, bt, uf, ut, ads, temp, "mass", "g")

print("# section 2: fraction/percent against all 19 material representations, all values")
for aname, ads, temp in ADS[:2] + ADS[3:]:
    for (bm, um) in MAT:
        for (bl, ul) in LOAD[::3] + LOAD[-2:]:
            for frac in ["fraction", "percent"]:
                for vname, val in VALUES:
                    run(f"S2 {aname} mat={bm}/{um} {bl}/{ul}->{frac} {vname}", c_loading, val, bl, frac, ul, None, ads,
                        temp, bm, um)
                    run(f"S2 {aname} mat={bm}/{um} {frac}->{bl}/{ul} {vname}", c_loading, val, frac, bl, None, ul, ads,
                        temp, bm, um)

print("# section 3: exact calls made on the adsorbate, and their order")
for (bm, um) in [("mass", "kg"), ("volume", "L"), ("molar", "mmol")]:
    for (bf, uf), (bt, ut) in itertools.product(LOAD[::2] + LOAD[-2:], repeat=2):
        fake = FakeAdsorbate()
        run(f"S3 mat={bm}/{um} {bf}/{uf}->{bt}/{ut}", c_loading, 2.5, bf, bt, uf, ut, fake, 111.0, bm, um)
        print(f"   calls={fake.calls!r}")
for failing in ["molar_mass", "gas_density", "liquid_density", "gas_molar_density", "liquid_molar_density"]:
    for (bf, uf), (bt, ut) in itertools.permutations([("molar", "mol"), ("mass", "g"), ("volume_gas", "L"),
                                                      ("volume_liquid", "mL")], 2):
        fake = FakeAdsorbate(fail=(failing, ))
        run(f"S3 fail={failing} {bf}/{uf}->{bt}/{ut}", c_loading, 2.5, bf, bt, uf, ut, fake, 111.0)
        print(f"   calls={fake.calls!r}")

print("# section 4: missing adsorbate / temperature / material information")
for (bf, uf), (bt, ut) in itertools.product(LOAD[1::4] + LOAD[-2:], repeat=2):
    run(f"S4 noads {bf}/{uf}->{bt}/{ut}", c_loading, 1.25, bf, bt, uf, ut)
    run(f"S4 noads mat=mass/g {bf}/{uf}->{bt}/{ut}", c_loading, 1.25, bf, bt, uf, ut, None, None, "mass", "g")
    run(f"S4 noads mat=volume/cm3 {bf}/{uf}->{bt}/{ut}", c_loading, 1.25, bf, bt, uf, ut, None, None, "volume", "cm3")
    run(f"S4 n2 notemp {bf}/{uf}->{bt}/{ut}", c_loading, 1.25, bf, bt, uf, ut, n2, None, "molar", "mol")
    run(f"S4 n2 T=0 {bf}/{uf}->{bt}/{ut}", c_loading, 1.25, bf, bt, uf, ut, n2, 0, "molar", "mol")
for bm, um in [(None, None), ("", ""), ("mass", None), ("mass", "L"), ("volume_liquid", "mL"), ("volume_gas", "mL"),
               ("percent", None), ("bad", "g"), (None, "g"), ("volume", "cm3(STP)"), ("molar", "g")]:
    for (bf, uf), (bt, ut) in [(("mass", "g"), ("fraction", None)), (("percent", None), ("molar", "mmol")),
                               (("fraction", None), ("percent", None)), (("percent", None), ("fraction", None)),
                               (("mass", "g"), ("molar", "mmol")), (("fraction", None), ("fraction", None))]:
        run(f"S4 mat={bm!r}/{um!r} {bf}/{uf}->{bt}/{ut}", c_loading, 1.25, bf, bt, uf, ut, n2, 77.0, bm, um)

print("# section 5: bad / missing bases and units")
BASES = ["mass", "molar", "volume_gas", "volume_liquid", "fraction", "percent", "volume", None, "", "bad", "Mass"]
for bf, bt in itertools.product(BASES, repeat=2):
    run(f"S5 basis {bf!r}->{bt!r}", c_loading, 3.0, bf, bt, "g", "g", n2, 77.0, "mass", "g")
for bf, bt in itertools.product(BASES[:6], repeat=2):
    for uf, ut in [(None, None), ("", "g"), ("g", ""), ("bad", "mmol"), ("mmol", "bad"), ("mL", "mL"), ("mmol", "mol"),
                   ("G", "g"), ("cm3(STP)", "cm3"), ("cm3", "cm3(STP)"), ("g", None), (None, "g")]:
        run(f"S5 {bf}/{uf!r}->{bt}/{ut!r}", c_loading, 3.0, bf, bt, uf, ut, n2, 77.0, "mass", "g")

print("# section 6: adsorbates without a backend (dictionary fallback, warnings, calculation errors)")
for aname, ads in [("partial", partial), ("nothing", nothing), ("dict", dictads)]:
    for (bf, uf), (bt, ut) in itertools.product(LOAD[1::5] + LOAD[-2:], repeat=2):
        for bm, um in [("mass", "g"), ("volume", "cm3"), ("molar", "mol")]:
            run(f"S6 {aname} mat={bm} {bf}/{uf}->{bt}/{ut}", c_loading, 0.5, bf, bt, uf, ut, ads, 200.0, bm, um)

print("# section 7: temperatures outside of the saturation range")
for temp in [10.0, 63.2, 126.0, 126.5, 400.0, -1.0, float("nan")]:
    for (bf, uf), (bt, ut) in itertools.permutations([("molar", "mmol"), ("mass", "mg"), ("volume_gas", "cm3"),
                                                      ("volume_liquid", "cm3"), ("percent", None)], 2):
        run(f"S7 T={temp!r} {bf}/{uf}->{bt}/{ut}", c_loading, 0.5, bf, bt, uf, ut, n2, temp, "volume", "mL")

print("# section 8: chains: there-and-back and through an intermediate")
sel = LOAD[::4] + LOAD[-2:]
for aname, ads, temp in ADS[:2]:
    for (bm, um) in [("mass", "g"), ("volume", "cm3"), ("molar", "mmol")]:
        for a, b, c in itertools.permutations(sel, 3):
            x = c_loading(0.37, a[0], b[0], a[1], b[1], ads, temp, bm, um)
            y = c_loading(x, b[0], c[0], b[1], c[1], ads, temp, bm, um)
            z = c_loading(y, c[0], a[0], c[1], a[1], ads, temp, bm, um)
            d = c_loading(0.37, a[0], c[0], a[1], c[1], ads, temp, bm, um)
            print(f"S8 {aname} mat={bm}/{um} {a}->{b}->{c}->a {x!r} {y!r} {z!r} direct={d!r}")

print("# section 9: through the isotherm API")
pygaps.MATERIAL_LIST.append(pygaps.Material("eq_mat", density=1.3, molar_mass=455.0))
iso = pygaps.PointIsotherm(
    pressure=[0.1, 0.2, 0.5, 1.0],
    loading=[1.0, 2.0, 3.0, 3.5],
    material="eq_mat",
    adsorbate="nitrogen",
    temperature=77.355,
    loading_basis="molar",
    loading_unit="mmol",
    material_basis="mass",
    material_unit="g",
)
for basis, unit in LOAD:
    run(f"S9 loading({basis},{unit})", iso.loading, loading_basis=basis, loading_unit=unit)
for basis, unit in [("mass", "mg"), ("percent", None), ("volume_liquid", "cm3"), ("fraction", None), ("volume_gas", "L"),
                    ("molar", "cm3(STP)"), ("molar", "mmol")]:
    run(f"S9 convert_loading({basis},{unit})", iso.convert_loading, basis_to=basis, unit_to=unit)
    run("S9   ->", iso.loading)
    run("S9   state", lambda: (iso.loading_basis, iso.loading_unit))
for basis, unit in [("volume", "cm3"), ("molar", "mol"), ("mass", "kg")]:
    run(f"S9 convert_material({basis},{unit})", iso.convert_material, basis_to=basis, unit_to=unit)
    run("S9   ->", iso.loading)
    run("S9   pct", iso.loading, loading_basis="percent")
run("S9 convert bad basis", iso.convert_loading, basis_to="bad", unit_to="g")
run("S9 convert bad unit", iso.convert_loading, basis_to="mass", unit_to="bad")
