"""Differential transcript for C17 patches (psd_micro.py / models_hk.py). Bit-exact: floats are printed as hex."""
import re
import sys
import warnings

import numpy

import pygaps
import pygaps.characterisation.models_hk as mhk
import pygaps.characterisation.psd_micro as pm
from pygaps.utilities.exceptions import ParameterError

FAST = "--fast" in sys.argv


def scrub(text):
    return re.sub(r"0x[0-9a-fA-F]{6,}", "0x?", text)


def hexed(obj):
    """Bit-exact rendering of floats / arrays / containers."""
    if isinstance(obj, numpy.ndarray):
        return f"ndarray{obj.shape}{obj.dtype}[" + ", ".join(hexed(x) for x in obj.tolist()) + "]"
    if isinstance(obj, (float, numpy.floating)):
        return f"{type(obj).__name__}:{float(obj).hex()}"
    if isinstance(obj, (list, tuple)):
        inner = ", ".join(hexed(x) for x in obj)
        return f"{type(obj).__name__}({inner})"
    if isinstance(obj, dict):
        return "{" + ", ".join(f"{k!r}: {hexed(v)}" for k, v in obj.items()) + "}"
    return f"{type(obj).__name__}:{obj!r}"


def show(label, fn):
    with warnings.catch_warnings(record=True) as caught:
        warnings.simplefilter("always")
        try:
            res = fn()
            print(label, "->", scrub(hexed(res)))
        except BaseException as err:  # noqa
            print(label, "!!", type(err).__name__, scrub(repr(err.args)))
            cause = err.__cause__
            if cause is not None:
                print("   cause:", type(cause).__name__, scrub(repr(cause.args)))
    for w in caught:
        print("   warning:", w.category.__name__, scrub(str(w.message)))


N2 = {
    'molecular_diameter': 0.3,
    'polarizability': 1.46E-3,
    'magnetic_susceptibility': 2E-8,
    'surface_density': 6.7E18,
    'liquid_density': 0.806,
    'adsorbate_molar_mass': 28.0134,
}
AR = {
    'molecular_diameter': 0.34,
    'polarizability': 1.63E-3,
    'magnetic_susceptibility': 3.25E-8,
    'surface_density': 8.52E18,
    'liquid_density': 1.4,
    'adsorbate_molar_mass': 39.948,
}
CARBON = mhk.PROPERTIES_CARBON
OXIDE = mhk.PROPERTIES_AlSi_OXIDE_ION

P_SHORT = [1e-7, 1e-6, 1e-5, 1e-4, 1e-3, 1e-2, 0.05, 0.1, 0.2]
L_SHORT = [0.5, 1.1, 2.0, 3.2, 4.1, 4.9, 5.4, 5.8, 6.1]
P_TINY = [1e-6, 1e-4, 1e-2]
L_TINY = [1.0, 2.5, 4.0]

FUNS = {"HK": pm.psd_horvath_kawazoe, "RY": pm.psd_horvath_kawazoe_ry}
GEOS = ["slit", "cylinder", "sphere"]

print("=== low level functions, every geometry with and without the Cheng-Yang term")
for fname, fun in FUNS.items():
    for geo in GEOS:
        for use_cy in (False, True):
            p, l = (P_TINY, L_TINY) if (FAST and geo == "cylinder") else (P_SHORT, L_SHORT)
            show(
                f"{fname} {geo} cy={use_cy} N2/carbon",
                lambda: fun(p, l, 77.355, geo, N2, CARBON, use_cy=use_cy),
            )
    for geo in ["slit", "sphere"]:
        for use_cy in (False, True):
            show(
                f"{fname} {geo} cy={use_cy} Ar/oxide 87K",
                lambda: fun(numpy.array(P_SHORT), numpy.array(L_SHORT), 87.3, geo, AR, OXIDE, use_cy=use_cy),
            )

print("=== use_cy given as other truthy / falsy objects, positionally")
for flag in [0, 1, None, "", "no", [], [0], 0.0, numpy.bool_(True), numpy.bool_(False), numpy.array([True]), numpy.array([True, False])]:
    for fname, fun in FUNS.items():
        show(f"{fname} slit use_cy={flag!r}", lambda: fun(P_TINY, L_TINY, 77.0, "slit", N2, CARBON, flag))
show("HK default use_cy", lambda: pm.psd_horvath_kawazoe(P_TINY, L_TINY, 77.0, "slit", N2, CARBON))
show("RY default use_cy", lambda: pm.psd_horvath_kawazoe_ry(P_TINY, L_TINY, 77.0, "slit", N2, CARBON))

print("=== early stop at unrealistic pore sizes, odd pressures")
P_ODD = {
    "up to saturation": ([1e-5, 1e-3, 0.1, 0.5, 0.9, 0.99, 0.999], [1, 2, 3, 4, 5, 6, 7]),
    "stops first": ([0.9999, 0.5, 0.1], [1, 2, 3]),
    "unsorted": ([1e-2, 1e-5, 1e-3, 1e-4], [3.0, 1.0, 2.5, 2.0]),
    "repeated": ([1e-4, 1e-4, 1e-3, 1e-3], [1.0, 1.0, 2.0, 2.5]),
    "zero and above one": ([0.0, 1e-3, 1.0, 1.5], [0.0, 1.0, 2.0, 3.0]),
    "negative": ([-0.1, 1e-3, 1e-2], [0.5, 1.0, 2.0]),
    "nan": ([float("nan"), 1e-3, 1e-2], [0.5, 1.0, 2.0]),
    "single": ([1e-3], [1.0]),
    "two": ([1e-3, 1e-2], [1.0, 2.0]),
    "zero loading": ([1e-4, 1e-3, 1e-2], [0.0, 1.0, 2.0]),
    "all zero loading": ([1e-4, 1e-3, 1e-2], [0.0, 0.0, 0.0]),
    "decreasing loading": ([1e-4, 1e-3, 1e-2], [3.0, 2.0, 1.0]),
    "integers": ([1, 2, 3], [1, 2, 3]),
    "tuples": ((1e-4, 1e-3, 1e-2), (1.0, 2.0, 3.0)),
}
for name, (p, l) in P_ODD.items():
    for fname, fun in FUNS.items():
        for geo in ["slit", "sphere"]:
            for use_cy in (False, True):
                show(f"{name}: {fname} {geo} cy={use_cy}", lambda: fun(p, l, 77.0, geo, N2, CARBON, use_cy=use_cy))
show("loading as list with cy (list / float)", lambda: pm.psd_horvath_kawazoe([1e-3, 1e-2], [1.0, 2.0], 77.0, "slit", N2, CARBON, use_cy=True))

print("=== parameter errors")
for fname, fun in FUNS.items():
    show(f"{fname} empty", lambda: fun([], [], 77.0, "slit", N2, CARBON))
    show(f"{fname} empty cy", lambda: fun([], [], 77.0, "slit", N2, CARBON, use_cy=True))
    show(f"{fname} mismatch", lambda: fun([1e-3, 1e-2], [1.0], 77.0, "slit", N2, CARBON))
    show(f"{fname} mismatch cy", lambda: fun([1e-3, 1e-2], [1.0], 77.0, "slit", N2, CARBON, use_cy=True))
    show(f"{fname} mismatch longer loading cy", lambda: fun([1e-3], [1.0, 2.0], 77.0, "sphere", N2, CARBON, use_cy=True))
    show(f"{fname} scalar pressure", lambda: fun(1e-3, 1.0, 77.0, "slit", N2, CARBON))
    show(f"{fname} bad geometry", lambda: fun(P_TINY, L_TINY, 77.0, "cube", N2, CARBON))
    show(f"{fname} bad geometry cy", lambda: fun(P_TINY, L_TINY, 77.0, None, N2, CARBON, use_cy=True))
    show(f"{fname} material incomplete", lambda: fun(P_TINY, L_TINY, 77.0, "slit", N2, {"molecular_diameter": 0.3}))
    show(f"{fname} adsorbate incomplete", lambda: fun(P_TINY, L_TINY, 77.0, "slit", dict(CARBON), CARBON))
    show(f"{fname} adsorbate empty", lambda: fun(P_TINY, L_TINY, 77.0, "slit", {}, {}))
    show(f"{fname} zero temperature", lambda: fun(P_TINY, L_TINY, 0, "slit", N2, CARBON))
    show(f"{fname} zero density", lambda: fun(P_TINY, L_TINY, 77.0, "slit", {**N2, "liquid_density": 0.0}, CARBON))
    show(f"{fname} string property", lambda: fun(P_TINY, L_TINY, 77.0, "slit", {**N2, "molecular_diameter": "0.3"}, CARBON))
    show(f"{fname} arguments untouched", lambda: (lambda p, l, a, m: (fun(p, l, 77.0, "slit", a, m, use_cy=True), p, l, a, m))(list(P_TINY), list(L_TINY), dict(N2), dict(CARBON)))

print("=== solvers directly")


def pot(l_pore):
    return -3.0 / (l_pore - 0.6)


show("_solve_hk", lambda: pm._solve_hk(numpy.array(P_SHORT), pot, 0.64, 1))
show("_solve_hk geo 2", lambda: pm._solve_hk(numpy.array(P_SHORT + [0.9, 0.99]), pot, 0.64, 2))
show("_solve_hk_cy", lambda: pm._solve_hk_cy(numpy.array(P_SHORT), numpy.array(L_SHORT), pot, 0.64, 1))
show("_solve_hk_cy geo 2", lambda: pm._solve_hk_cy(numpy.array(P_SHORT + [0.9, 0.99]), numpy.array(L_SHORT + [6.2, 6.3]), pot, 0.64, 2))
show("_solve_hk empty", lambda: pm._solve_hk([], pot, 0.64, 1))
show("_solve_hk_cy empty", lambda: pm._solve_hk_cy([], [], pot, 0.64, 1))
show("_dispersion_from_dict", lambda: pm._dispersion_from_dict(N2, CARBON))
show("_N_over_RT", lambda: [pm._N_over_RT(t) for t in (77.0, 87.3, 298.15, -1, numpy.float64(0.0))])

print("=== models_hk.get_hk_model")
for model in ["Carbon(HK)", "AlSiOxideIon", "AlPhOxideIon", "carbon(hk)", "", None, 5, 1.5, ["Carbon(HK)"], ("a", ), b"Carbon(HK)"]:
    show(f"get_hk_model({model!r})", lambda: mhk.get_hk_model(model))
show("get_hk_model same object", lambda: mhk.get_hk_model("Carbon(HK)") is mhk.PROPERTIES_CARBON)
CUSTOM = dict(molecular_diameter=0.3, polarizability=1e-3, magnetic_susceptibility=1e-7, surface_density=1e19, extra=1)
show("get_hk_model custom", lambda: mhk.get_hk_model(CUSTOM))
show("get_hk_model custom identity", lambda: mhk.get_hk_model(CUSTOM) is CUSTOM)
for missing in list(mhk.HK_KEYS):
    part = {k: v for k, v in CUSTOM.items() if k != missing}
    show(f"get_hk_model without {missing}", lambda: mhk.get_hk_model(part))
show("get_hk_model two missing", lambda: mhk.get_hk_model({"surface_density": 1, "polarizability": 2}))
show("get_hk_model empty dict", lambda: mhk.get_hk_model({}))


class KeysDict(dict):
    def keys(self):
        print("    (keys() called)")
        return super().keys()


show("get_hk_model dict subclass", lambda: mhk.get_hk_model(KeysDict(CUSTOM)))
show("get_hk_model dict subclass missing", lambda: mhk.get_hk_model(KeysDict(surface_density=1)))
show("HK_KEYS", lambda: list(mhk.HK_KEYS.items()))

print("=== psd_microporous on isotherms")
P_ISO = [1e-7, 3e-7, 1e-6, 3e-6, 1e-5, 3e-5, 1e-4, 3e-4, 1e-3, 3e-3, 1e-2, 0.03, 0.1, 0.15, 0.19, 0.25, 0.5, 0.9]
L_ISO = [0.3, 0.6, 1.0, 1.6, 2.3, 3.0, 3.7, 4.3, 4.8, 5.2, 5.5, 5.8, 6.1, 6.2, 6.3, 6.4, 6.8, 7.5]


def iso(adsorbate="N2", temperature=77.355, p=P_ISO, l=L_ISO, **kw):
    meta = dict(
        material="carbon",
        adsorbate=adsorbate,
        temperature=temperature,
        pressure_mode="relative",
        pressure_unit=None,
        loading_basis="molar",
        loading_unit="mmol",
        material_basis="mass",
        material_unit="g",
        temperature_unit="K",
    )
    meta.update(kw)
    return pygaps.PointIsotherm(pressure=p, loading=l, **meta)


ISO = iso()
for model in ["HK", "HK-CY", "RY", "RY-CY"]:
    for geo in (["slit", "sphere"] if FAST else GEOS):
        show(f"psd_microporous {model} {geo}", lambda: pm.psd_microporous(ISO, psd_model=model, pore_geometry=geo))
show("default arguments", lambda: pm.psd_microporous(ISO))
show("positional", lambda: pm.psd_microporous(ISO, "RY-CY", "sphere", "ads", "AlSiOxideIon", None, (1e-6, 0.1), False))
show("custom adsorbate model", lambda: pm.psd_microporous(ISO, adsorbate_model=AR))
show("custom adsorbate model incomplete", lambda: pm.psd_microporous(ISO, adsorbate_model={"molecular_diameter": 0.3}))
show("custom adsorbate model empty dict", lambda: pm.psd_microporous(ISO, adsorbate_model={}))
show("custom material model", lambda: pm.psd_microporous(ISO, material_model=CUSTOM))
show("material model incomplete", lambda: pm.psd_microporous(ISO, material_model={"polarizability": 1}))
show("material model unknown", lambda: pm.psd_microporous(ISO, material_model="Gold"))
for lim in [None, (None, None), (None, 0.5), (1e-5, None), (1e-5, 1e-2), (0, 0), [1e-6, 0.1], (0.3, 0.2), (1e-3, 3e-3), (1e-3, 2e-2), (2.0, 3.0), (1e-5, ), "ab"]:
    show(f"p_limits={lim!r}", lambda: pm.psd_microporous(ISO, psd_model="HK-CY", p_limits=lim))
show("psd_model None", lambda: pm.psd_microporous(ISO, psd_model=None))
show("psd_model unknown", lambda: pm.psd_microporous(ISO, psd_model="hk"))
show("geometry unknown", lambda: pm.psd_microporous(ISO, pore_geometry="cube"))
show("branch unknown", lambda: pm.psd_microporous(ISO, branch="both"))
show("branch des without data", lambda: pm.psd_microporous(ISO, branch="des"))
ISO_DES = iso(p=P_ISO + P_ISO[::-1], l=L_ISO + [x + 0.1 for x in L_ISO[::-1]])
show("branch des", lambda: pm.psd_microporous(ISO_DES, psd_model="RY", branch="des"))
show("argon 87K", lambda: pm.psd_microporous(iso("Ar", 87.3), psd_model="RY-CY", pore_geometry="sphere"))
show("adsorbate without HK properties", lambda: pm.psd_microporous(iso("butane", 273.0)))
show("absolute pressure isotherm", lambda: pm.psd_microporous(iso(pressure_mode="absolute", pressure_unit="bar", p=[x * 1.0 for x in P_ISO])))
show("too few points", lambda: pm.psd_microporous(iso(p=[1e-3, 1e-2], l=[1.0, 2.0])))
show("not an isotherm", lambda: pm.psd_microporous("nope"))
show("not an isotherm, with adsorbate model", lambda: pm.psd_microporous("nope", adsorbate_model=N2))

MODEL_ISO = pygaps.ModelIsotherm.from_pointisotherm(iso(p=[0.01, 0.02, 0.05, 0.1, 0.15, 0.2, 0.3], l=[1.0, 1.8, 3.2, 4.4, 5.0, 5.4, 5.9]), model="Langmuir")
show("model isotherm", lambda: pm.psd_microporous(MODEL_ISO, psd_model="HK", p_limits=(None, 0.25)))

print("=== published slit equation maps back to the chosen widths")


def slit_pressures(widths):
    d_ads, d_mat = N2['molecular_diameter'], CARBON['molecular_diameter']
    d_eff = (d_ads + d_mat) / 2
    sigma = (2 / 5)**(1 / 6) * d_eff
    a_ads, a_mat = pm._dispersion_from_dict(N2, CARBON)
    coeff = pm._N_over_RT(77.355) * (N2['surface_density'] * a_ads + CARBON['surface_density'] * a_mat) / (sigma * 1e-9)**4
    out = []
    for w in widths:
        L = w + d_mat
        out.append(
            float(
                numpy.exp(
                    coeff / (L - 2 * d_eff) * (
                        sigma**4 / (3 * (L - d_eff)**3) - sigma**10 / (9 * (L - d_eff)**9) - sigma**4 / (3 * d_eff**3) +
                        sigma**10 / (9 * d_eff**9)
                    )
                )
            )
        )
    return out


WIDTHS = [0.4, 0.5, 0.6, 0.8, 1.0, 1.5, 2.0]
show("pressures", lambda: slit_pressures(WIDTHS))
show("widths back", lambda: pm.psd_horvath_kawazoe(slit_pressures(WIDTHS), [1, 2, 3, 4, 5, 6, 7], 77.355, "slit", N2, CARBON))

print("=== cylindrical geometry in depth (series constants)")
P_WIDE = [1e-8, 1e-6, 1e-4, 1e-2, 0.1, 0.3, 0.5, 0.7, 0.8, 0.9, 0.95]
L_WIDE = [0.2, 0.9, 2.1, 3.5, 4.4, 5.0, 5.5, 6.0, 6.4, 7.0, 7.7]
for fname, fun in FUNS.items():
    for use_cy in (False, True):
        show(f"{fname} cylinder wide cy={use_cy} N2/carbon", lambda: fun(P_WIDE, L_WIDE, 77.355, "cylinder", N2, CARBON, use_cy=use_cy))
        show(f"{fname} cylinder cy={use_cy} Ar/oxide", lambda: fun(P_SHORT, L_SHORT, 87.3, "cylinder", AR, OXIDE, use_cy=use_cy))
        show(f"{fname} cylinder cy={use_cy} N2/AlPh", lambda: fun(P_SHORT, L_SHORT, 77.355, "cylinder", N2, mhk.PROPERTIES_AlPh_OXIDE_ION, use_cy=use_cy))
    for name in ["stops first", "unsorted", "zero and above one", "nan", "single", "zero loading", "integers"]:
        p, l = P_ODD[name]
        show(f"{name}: {fname} cylinder", lambda: fun(p, l, 77.0, "cylinder", N2, CARBON))
        show(f"{name}: {fname} cylinder cy", lambda: fun(p, l, 77.0, "cylinder", N2, CARBON, use_cy=True))
    show(f"{fname} cylinder big molecule", lambda: fun(P_TINY, L_TINY, 77.0, "cylinder", {**N2, "molecular_diameter": 1.2}, CARBON))
    show(f"{fname} cylinder tiny molecule", lambda: fun(P_TINY, L_TINY, 77.0, "cylinder", {**N2, "molecular_diameter": 0.05}, {**CARBON, "molecular_diameter": 0.05}))
    show(f"{fname} cylinder huge molecule", lambda: fun(P_TINY, L_TINY, 77.0, "cylinder", {**N2, "molecular_diameter": 60.0}, {**CARBON, "molecular_diameter": 60.0}))
for model in ["HK", "HK-CY", "RY", "RY-CY"]:
    show(f"psd_microporous {model} cylinder to 0.9", lambda: pm.psd_microporous(ISO, psd_model=model, pore_geometry="cylinder", p_limits=(None, 0.95)))


def reference_constants(count):
    a_ks, b_ks = [1], [1]
    for k in range(1, count):
        a_ks.append(((-4.5 - k) / k)**2 * a_ks[k - 1])
        b_ks.append(((-1.5 - k) / k)**2 * b_ks[k - 1])
    return a_ks, b_ks


show("first series constants (reference recurrence)", lambda: [x[:6] for x in reference_constants(2000)])
show("names left in the module", lambda: sorted(n for n in vars(pm) if n.startswith("psd_")))
