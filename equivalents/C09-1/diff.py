# ---------------------------------------------------------------- harness
# (shared, embedded verbatim in every diffN.py so that each script is self-contained)
import gc
import hashlib
import logging
import os
import re
import shutil
import sqlite3
import sys
import tempfile
import warnings

warnings.filterwarnings("ignore")

import numpy
import pandas

import pygaps
import pygaps.parsing.sqlite as pgsql
from pygaps.data import ADSORBATE_LIST
from pygaps.data import MATERIAL_LIST
from pygaps.utilities.sqlite_db_pragmas import PRAGMAS
from pygaps.utilities.sqlite_utilities import db_execute_general

assert pgsql.__file__.startswith('/tmp/eq/C09/src/'), pgsql.__file__

TMP = tempfile.mkdtemp(prefix='eqC09_')
OUT = []
EVENTS = []  # trace of the current case


def emit(*parts):
    line = " ".join(str(p) for p in parts)
    OUT.append(line.replace(TMP, '<TMP>'))


def sig(x):
    """Canonical text of a value (floats to 12 significant digits)."""
    if isinstance(x, float):
        return repr(float(f"{x:.12g}"))
    if isinstance(x, (numpy.floating, )):
        return sig(float(x))
    if isinstance(x, dict):
        return "{" + ", ".join(f"{sig(k)}: {sig(v)}" for k, v in x.items()) + "}"
    if isinstance(x, (list, tuple)):
        o, c = ("[", "]") if isinstance(x, list) else ("(", ")")
        return o + ", ".join(sig(v) for v in x) + c
    if isinstance(x, sqlite3.Row):
        return "Row" + sig(tuple(x))
    if isinstance(x, numpy.ndarray):
        return "nd" + sig(x.tolist())
    if isinstance(x, (sqlite3.Cursor, sqlite3.Connection)):
        return f"<{type(x).__name__}>"
    if x is None or isinstance(x, (str, int, bool, bytes)):
        return repr(x)
    if isinstance(x, type({}.keys())):
        return "keys" + sig(list(x))
    r = repr(x)
    # no memory addresses in the canonical text
    return re.sub(r" at 0x[0-9a-f]+", "", r)


def exc_text(err):
    cause = err.__cause__
    return (
        f"{type(err).__module__}.{type(err).__name__}: {err} "
        f"| cause={type(cause).__name__ if cause is not None else None}"
        f"{(': ' + str(cause)) if cause is not None else ''} "
        f"| suppress_context={err.__suppress_context__}"
    )


# --- log capture
class _ListHandler(logging.Handler):
    def emit(self, record):
        EVENTS.append(f"log[{record.levelname}] {record.getMessage()}")


for _h in list(pygaps.logger.handlers):
    pygaps.logger.removeHandler(_h)
pygaps.logger.addHandler(_ListHandler())


# --- tracing / fault injecting connection
class Fault:
    """Raise `exc` (or die with os._exit) at a given point of the next operation.

    point: ('exec', k) before the k-th traced execute (1-based, PRAGMA included),
           ('after_exec', k) after the k-th execute ran for real,
           ('cursor',), ('commit',), ('after_commit',), ('rollback',), ('close',)
    """
    def __init__(self, point=None, exc=None, die=False):
        self.point, self.exc, self.die = point, exc, die
        self.n_exec = 0

    def hit(self, *point):
        if self.point == point:
            if self.die:
                os._exit(77)
            EVENTS.append(f"FAULT at {point}: {type(self.exc).__name__}")
            raise self.exc


FAULT = Fault()


class TCursor(sqlite3.Cursor):
    def execute(self, sql, params=()):
        FAULT.n_exec += 1
        k = FAULT.n_exec
        EVENTS.append(f"exec#{k} {' '.join(sql.split())} <- {sig(params)}")
        FAULT.hit('exec', k)
        ret = super().execute(sql, params)
        FAULT.hit('after_exec', k)
        return ret


class TConn(sqlite3.Connection):
    def __setattr__(self, name, value):
        EVENTS.append(f"conn.{name} = {getattr(value, '__name__', value)}")
        super().__setattr__(name, value)

    def cursor(self, *a, **kw):
        EVENTS.append("conn.cursor()")
        FAULT.hit('cursor')
        return super().cursor(TCursor)

    def commit(self):
        EVENTS.append("conn.commit()")
        FAULT.hit('commit')
        super().commit()
        FAULT.hit('after_commit')

    def rollback(self):
        EVENTS.append("conn.rollback()")
        FAULT.hit('rollback')
        super().rollback()

    def close(self):
        EVENTS.append("conn.close()")
        FAULT.hit('close')
        super().close()


_real_connect = sqlite3.connect


def _tracing_connect(database, *a, **kw):
    EVENTS.append(f"sqlite3.connect({database!r})".replace(TMP, '<TMP>'))
    return _real_connect(database, *a, factory=TConn, **kw)


sqlite3.connect = _tracing_connect


# --- databases
def make_template():
    """Empty pyGAPS schema plus the standard isotherm types (no tracing)."""
    pth = os.path.join(TMP, 'template.db')
    sqlite3.connect = _real_connect
    try:
        for pragma in PRAGMAS:
            db_execute_general(pragma, pth)
        con = _real_connect(pth)
        for tp in ('isotherm', 'pointisotherm', 'modelisotherm'):
            con.execute("INSERT INTO isotherm_type (type) VALUES (?)", (tp, ))
        con.commit()
        con.close()
    finally:
        sqlite3.connect = _tracing_connect
    return pth


TEMPLATE = make_template()
_n_db = [0]


def fresh_db(src=None):
    _n_db[0] += 1
    pth = os.path.join(TMP, f"db{_n_db[0]:03d}.db")
    shutil.copy(src or TEMPLATE, pth)
    return pth


TABLES = [
    'adsorbates', 'adsorbate_properties_type', 'adsorbate_properties', 'materials',
    'material_properties_type', 'material_properties', 'isotherm_type', 'isotherms',
    'isotherm_properties', 'isotherm_data'
]


def dump_db(pth, full=True):
    """Canonical text of the complete committed content of a database file."""
    con = _real_connect(pth)
    lines = []
    for tb in TABLES:
        rows = con.execute(f'SELECT * FROM "{tb}" ORDER BY 1').fetchall()
        lines.append(f"  {tb}[{len(rows)}]: " + "; ".join(sig(tuple(r)) for r in rows))
    ic = con.execute("PRAGMA integrity_check").fetchall()
    fk = con.execute("PRAGMA foreign_key_check").fetchall()
    lines.append(f"  integrity={ic} fk_violations={fk}")
    con.close()
    leftovers = sorted(
        f[len(os.path.basename(pth)):] for f in os.listdir(os.path.dirname(pth))
        if f.startswith(os.path.basename(pth)) and f != os.path.basename(pth)
    )
    lines.append(f"  side files: {leftovers}")
    text = "\n".join(lines)
    if full:
        return text
    return "  db sha1 " + hashlib.sha1(text.encode()).hexdigest() + "\n" + lines[-2]


def lists_text():
    now = {id(a) for a in ADSORBATE_LIST}
    added = [a for a in ADSORBATE_LIST if id(a) not in _ADS0_IDS]
    removed = [a.name for a in _ADS0 if id(a) not in now]
    return (
        f"  MATERIAL_LIST={[str(m.name) + ':' + sig(m.properties) for m in MATERIAL_LIST]} "
        f"ADSORBATE_LIST[{len(ADSORBATE_LIST)}] added="
        f"{[str(a.name) + ':' + sig(a.properties) for a in added]} removed={removed}"
    )


def reset_lists():
    del MATERIAL_LIST[:]
    ADSORBATE_LIST[:] = _ADS0


_ADS0 = list(ADSORBATE_LIST)
_ADS0_IDS = {id(a) for a in _ADS0}


def run(label, call, db=None, fault=None, full=True, show_ret=True):
    """Run one case: trace, result/exception, committed db content, module lists."""
    global FAULT
    del EVENTS[:]
    FAULT = fault or Fault()
    emit(f"=== {label}")
    try:
        ret = call()
        res = f"  -> returned {sig(ret) if show_ret else type(ret).__name__}"
    except BaseException as err:  # noqa
        res = f"  -> raised {exc_text(err)}"
    if FAULT.exc is not None:
        FAULT.exc.__traceback__ = None
    FAULT = Fault()
    # frames kept alive by a traceback keep cursors (hence open statements) alive: drop them now,
    # not whenever the collector happens to run
    gc.collect()
    for ev in EVENTS:
        emit("   ", ev)
    emit(res)
    if db is not None:
        emit(dump_db(db, full=full))
    emit(lists_text())


def run_death(label, call, db, fault):
    """Run the call in a forked child that dies abruptly at the fault point."""
    global FAULT
    emit(f"=== {label}")
    sys.stdout.flush()
    sys.stderr.flush()
    pid = os.fork()
    if pid == 0:
        try:
            FAULT = fault
            call()
        except BaseException:  # noqa
            os._exit(55)
        os._exit(0)
    _, status = os.waitpid(pid, 0)
    emit(f"  child exit code {os.WEXITSTATUS(status)}")
    emit(dump_db(db))
    # the survivor can repeat the operation on the same file
    FAULT = Fault()
    del EVENTS[:]
    try:
        ret = call()
        emit(f"  repeat -> returned {sig(ret)}")
    except BaseException as err:  # noqa
        emit(f"  repeat -> raised {exc_text(err)}")
    gc.collect()
    emit(dump_db(db))
    reset_lists()


def finish():
    sqlite3.connect = _real_connect
    shutil.rmtree(TMP, ignore_errors=True)
    sys.stdout.write("\n".join(OUT) + "\n")


# --- objects
def mk_material(name='M1', **props):
    return pygaps.Material(name, **props)


def mk_adsorbate(name='A1', **props):
    return pygaps.Adsorbate(name, **props)


ISO_PARAMS = dict(
    material='M1', adsorbate='A1', temperature=77.0, date='26/06/92', lab='TL', is_real=True,
    flag=False, n_runs=3, frac=0.25
)


def mk_point(**over):
    p = dict(ISO_PARAMS)
    p.update(over)
    cols = p.pop('_cols', None) or {
        'pressure': [1.0, 2.0, 3.0, 4.0],
        'loading': [0.5, 1.0, 1.4, 1.6],
        'enthalpy': [5.2, 5.1, 5.0, 4.9],
        'text_data': ['a', 'b', 'c', 'd'],
    }
    return pygaps.PointIsotherm(
        isotherm_data=pandas.DataFrame(cols), pressure_key='pressure', loading_key='loading', **p
    )


def mk_model(**over):
    p = dict(ISO_PARAMS)
    p.update(over)
    return pygaps.ModelIsotherm(
        pressure=[1.0, 2.0, 3.0, 4.0], loading=[0.5, 1.0, 1.5, 2.0], model='Henry', **p
    )


def mk_base(**over):
    p = dict(ISO_PARAMS)
    p.update(over)
    return pygaps.core.baseisotherm.BaseIsotherm(**p)


EXCS = {
    'Integrity': lambda: sqlite3.IntegrityError("injected integrity"),
    'Interface': lambda: sqlite3.InterfaceError("injected interface"),
    'Operational': lambda: sqlite3.OperationalError("injected disk I/O error"),
}
# ---------------------------------------------------------------- end of harness
# ---------------------------------------------------------------- cases: with_connection
import pathlib


def seeded():
    """A database with some prior content."""
    db = fresh_db()
    pgsql.material_to_db(mk_material('M0', density=1.5, comment='old'), db_path=db, verbose=False)
    pgsql.adsorbate_to_db(mk_adsorbate('A0', formula='X2', alias=['a0', 'a-zero']), db_path=db, verbose=False)
    pgsql.isotherm_to_db(mk_point(material='M0', adsorbate='A0'), db_path=db, verbose=False)
    reset_lists()
    return db


SEED = seeded()
emit("seed content")
emit(dump_db(SEED))

# --- 1. how the database path is found: keyword / positional / default / falsy / Path
db = fresh_db(SEED)
run("path kw, writer", lambda: pgsql.material_to_db(mk_material('M1', a=1), db_path=db), db)
run("path positional 2nd, writer", lambda: pgsql.material_to_db(mk_material('M2', a=1), db), db)
run("path positional + more positionals", lambda: pgsql.material_to_db(mk_material('M3'), db, True, False, False), db)
run("path positional 1st, reader", lambda: pgsql.materials_from_db(db), db, full=False)
run("path positional 2nd after None criteria", lambda: pgsql.isotherms_from_db(None, db), db, full=False)
run("path positional 2nd after dict criteria", lambda: pgsql.isotherms_from_db({'material': 'M0'}, db, False), db, full=False)
run("path as pathlib.Path kw", lambda: pgsql.material_property_types_from_db(db_path=pathlib.Path(db)), db, full=False)
run("path as pathlib.Path positional", lambda: pgsql.adsorbate_property_types_from_db(pathlib.Path(db), False), db, full=False)
reset_lists()

default = fresh_db(SEED)
real_default = pgsql.DATABASE
pgsql.DATABASE = default  # never touch the packaged default.db
run("no path -> DATABASE", lambda: pgsql.material_to_db(mk_material('MD1', d=2.5)), default)
run("db_path=None kw -> DATABASE", lambda: pgsql.material_to_db(mk_material('MD2'), db_path=None), default)
run("db_path=None positional -> DATABASE", lambda: pgsql.material_to_db(mk_material('MD3'), None), default)
run("db_path='' kw -> DATABASE", lambda: pgsql.material_to_db(mk_material('MD4'), db_path=''), default)
run("db_path='' positional -> DATABASE", lambda: pgsql.materials_from_db('', False), default, full=False)
run("db_path=0 positional -> DATABASE", lambda: pgsql.materials_from_db(0, False), default, full=False)
run("kw None wins? positional absent, reader", lambda: pgsql.isotherm_types_from_db(db_path=None, verbose=False), default, full=False)
pgsql.DATABASE = real_default
reset_lists()

# --- 2. an outer cursor is reused: no connection, no commit, no rollback by the inner call
db = fresh_db(SEED)


def with_outer_cursor(fn, fail=None):
    con = _real_connect(db)
    con.row_factory = sqlite3.Row
    cur = con.cursor(TCursor)
    cur.execute('PRAGMA foreign_keys = ON')
    try:
        ret = fn(cur)
        if fail:
            raise fail
        con.commit()
        return ret
    finally:
        con.close()


run("outer cursor, committed by caller", lambda: with_outer_cursor(lambda c: pgsql.material_to_db(mk_material('MO1', k='v'), cursor=c)), db)
run("outer cursor, caller never commits", lambda: with_outer_cursor(lambda c: pgsql.material_to_db(mk_material('MO2', k='v'), cursor=c), fail=RuntimeError('caller gives up')), db)
run("outer cursor, inner integrity error is raw (not ParsingError)", lambda: with_outer_cursor(lambda c: pgsql.material_to_db(mk_material('M0'), cursor=c)), db)
run("cursor=None opens a connection", lambda: pgsql.material_to_db(mk_material('MO3'), db_path=db, cursor=None), db)
run("outer cursor reader + positional path ignored", lambda: with_outer_cursor(lambda c: pgsql.materials_from_db('/nonexistent/dir/x.db', False, cursor=c)), db, full=False)
reset_lists()

# --- 3. faults of every kind at every point of the wrapper
for kind in ('Integrity', 'Interface', 'Operational'):
    for point in (('cursor', ), ('exec', 1), ('exec', 2), ('exec', 4), ('after_exec', 5), ('commit', ), ('after_commit', ), ('close', )):
        db = fresh_db(SEED)
        run(
            f"fault {kind} at {point} in material_to_db", lambda: pgsql.material_to_db(mk_material('MF', p1=1.0, p2='two'), db_path=db, verbose=False), db,
            fault=Fault(point, EXCS[kind]()), full=False
        )
        run("  ...repeat without fault", lambda: pgsql.material_to_db(mk_material('MF', p1=1.0, p2='two'), db_path=db, verbose=False), db, full=False)
        reset_lists()

for name, exc in (
    ('ProgrammingError', sqlite3.ProgrammingError('injected programming')),
    ('DatabaseError', sqlite3.DatabaseError('injected database')),
    ('DataError', sqlite3.DataError('injected data')),
    ('NotSupportedError', sqlite3.NotSupportedError('injected unsupported')),
    ('sqlite3.Error', sqlite3.Error('injected base')),
    ('ValueError', ValueError('injected value')),
    ('KeyboardInterrupt', KeyboardInterrupt()),
    ('subclass of IntegrityError', type('MyIntegrity', (sqlite3.IntegrityError, ), {})('injected sub')),
):
    db = fresh_db(SEED)
    run(f"fault {name} at exec 3 in adsorbate_to_db", lambda: pgsql.adsorbate_to_db(mk_adsorbate('AF', formula='F'), db, verbose=False), db, fault=Fault(('exec', 3), exc), full=False)
    reset_lists()

db = fresh_db(SEED)
run("rollback itself fails", lambda: pgsql.material_to_db(mk_material('M0'), db_path=db), db, fault=Fault(('rollback', ), sqlite3.OperationalError('injected rollback failure')), full=False)
run("genuine integrity error (duplicate) -> ParsingError, repeatable", lambda: pgsql.material_to_db(mk_material('M0'), db_path=db), db, full=False)
run("genuine interface error (unsupported value type)", lambda: pgsql.material_to_db(mk_material('MI', good=1, bad=object), db_path=db), db, full=False)
run("genuine operational error (no such table)", lambda: pgsql.materials_from_db(db_path=os.path.join(TMP, 'empty_new.db')), None)
run("cannot open database", lambda: pgsql.materials_from_db(db_path=os.path.join(TMP, 'no', 'such', 'dir', 'x.db')), None)
run("TypeError from the wrapped function (bad kwarg is swallowed by **kwargs)", lambda: pgsql.materials_from_db(db_path=db, bogus=1, verbose=False), db, full=False)
run("TypeError: too many positionals", lambda: pgsql.materials_from_db(db, False, 3), db, full=False)
run("TypeError: db_path twice", lambda: pgsql.materials_from_db(db, db_path=db), db, full=False)
reset_lists()

# --- 4. abrupt death
for point in (('exec', 1), ('exec', 3), ('after_exec', 5), ('commit', ), ('after_commit', ), ('close', )):
    db = fresh_db(SEED)
    run_death(f"process dies at {point} in material_to_db", lambda: pgsql.material_to_db(mk_material('MX', p1=1.0, p2='two'), db_path=db, verbose=False), db, Fault(point, die=True))

# --- 5. the decorator on functions of other shapes
calls = []


def shape_none(a, b=2, **kwargs):
    """doc of shape_none"""
    kwargs['cursor'].execute("SELECT 1")
    return ('none', a, b, sorted(kwargs))


def shape_first(db_path=None, x=1, **kwargs):
    return ('first', db_path, x, sorted(kwargs))


def shape_third(a, b, db_path=None, **kwargs):
    return ('third', a, b, db_path, sorted(kwargs))


def shape_kwonly(a=0, *, db_path=None, **kwargs):
    return ('kwonly', a, db_path, sorted(kwargs))


def shape_varargs(*items, db_path=None, **kwargs):
    return ('varargs', items, db_path, sorted(kwargs))


def shape_raises(a, db_path=None, **kwargs):
    kwargs['cursor'].execute("INSERT INTO materials (name) VALUES ('ghost')")
    raise {0: sqlite3.IntegrityError, 1: sqlite3.InterfaceError, 2: sqlite3.OperationalError, 3: ZeroDivisionError}[a]("inner " + str(a))


db = fresh_db(SEED)
default = fresh_db(SEED)
pgsql.DATABASE = default
for fn in (shape_none, shape_first, shape_third, shape_kwonly, shape_varargs, shape_raises):
    w = pgsql.with_connection(fn)
    emit(f"--- decorated {fn.__name__}: name={w.__name__} doc={w.__doc__!r} wrapped_is_fn={w.__wrapped__ is fn}")
    trials = {
        'shape_none': [((1, ), {}), ((1, 5), {}), ((1, ), {'db_path': db}), ((), {})],
        'shape_first': [((), {}), ((db, ), {}), ((db, 7), {}), ((), {'db_path': db, 'x': 3}), ((None, 4), {}), (('', ), {})],
        'shape_third': [((1, 2), {}), ((1, 2, db), {}), ((1, 2), {'db_path': db}), ((1, ), {'b': 2, 'db_path': db}), ((1, 2, None), {})],
        'shape_kwonly': [((), {}), ((5, ), {}), ((), {'db_path': db}), ((5, db), {})],
        'shape_varargs': [((), {}), ((db, ), {}), ((1, 2, 3), {}), ((1, ), {'db_path': db})],
        'shape_raises': [((0, ), {'db_path': db}), ((1, db), {}), ((2, db), {}), ((3, ), {'db_path': db}), ((0, ), {})],
    }[fn.__name__]
    for args, kw in trials:
        run(f"{fn.__name__} args={sig(args)} kw={sig(kw)}", lambda: w(*args, **kw), None)
emit(dump_db(db))
emit(dump_db(default))
pgsql.DATABASE = real_default

finish()
