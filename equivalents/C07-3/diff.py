# ---- common header (duplicated in every diffN.py so each script is self-contained) ----
import math
import os
import sys
import tempfile
import warnings

warnings.simplefilter("ignore")

import numpy
import pandas

import pygaps
import pygaps.parsing as pgp
from pygaps.core.baseisotherm import BaseIsotherm
from pygaps.core.modelisotherm import ModelIsotherm
from pygaps.core.pointisotherm import PointIsotherm
from pygaps.modelling import model_from_dict

assert pygaps.__file__.startswith("/tmp/eq/C07/src"), pygaps.__file__

# the pygaps logger writes INFO+ to stdout -> warnings become part of the canonical text
# (the stream was bound at import; make sure it is *our* stdout)
import re
import shutil

TMP = "/tmp/eq/C07/_eq/work"  # fixed location so that paths in messages are reproducible
shutil.rmtree(TMP, ignore_errors=True)
os.makedirs(TMP)


def canon(v):
    """Canonical text of a value: floats to 12 significant digits, recursive containers."""
    if isinstance(v, (bool, numpy.bool_)):
        return f"bool:{bool(v)}"
    if isinstance(v, (int, numpy.integer)):
        return f"int:{int(v)}"
    if isinstance(v, (float, numpy.floating)):
        v = float(v)
        if math.isnan(v):
            return "float:nan"
        return f"float:{v:.12g}"
    if isinstance(v, str):
        return f"str:{v!r}"
    if v is None:
        return "None"
    if isinstance(v, dict):
        return "{" + ", ".join(f"{canon(k)}: {canon(x)}" for k, x in v.items()) + "}"
    if isinstance(v, (list, tuple)):
        o, c = ("[", "]") if isinstance(v, list) else ("(", ")")
        return o + ", ".join(canon(x) for x in v) + c
    if isinstance(v, numpy.ndarray):
        return "nd" + canon(v.tolist())
    return f"{type(v).__name__}:{v!r}"


def canon_exc(e):
    msg = re.sub(r"0x[0-9a-fA-F]+", "0xADDR", str(e))
    return f"EXC {type(e).__module__}.{type(e).__name__}: {msg}"


def describe(iso):
    """Canonical multi-line text of everything observable on an isotherm."""
    out = [f"  class={type(iso).__name__} iso_id={iso.iso_id}"]
    d = iso.to_dict()
    for k in d:  # insertion order is observable as well
        out.append(f"  meta {k!r} = {canon(d[k])}")
    out.append(f"  material={iso.material!r} props={canon(iso.material.properties)}")
    out.append(f"  adsorbate={str(iso.adsorbate)!r} temperature={canon(iso.temperature)}")
    out.append(f"  units={canon(iso.units)}")
    if isinstance(iso, PointIsotherm):
        df = iso.data_raw
        out.append(f"  keys p={iso.pressure_key!r} l={iso.loading_key!r} other={iso.other_keys!r}")
        out.append(f"  columns={list(df.columns)!r} dtypes={[str(t) for t in df.dtypes]!r}")
        for row in df.itertuples(index=True):
            out.append("  row " + " | ".join(canon(x) for x in row))
    if isinstance(iso, ModelIsotherm):
        m = iso.model
        out.append(f"  model name={m.name!r} rmse={canon(m.rmse)}")
        out.append(f"  model params={canon(dict(m.params))}")
        out.append(f"  model prange={canon(m.pressure_range)} lrange={canon(m.loading_range)}")
    return "\n".join(out)


def run(label, func):
    """Run func, print canonical result or exception."""
    print(f"### {label}")
    sys.stdout.flush()
    try:
        res = func()
    except BaseException as e:  # noqa
        print(canon_exc(e))
        c = e.__cause__
        while c is not None:
            print("  cause " + canon_exc(c))
            c = c.__cause__
        return None
    if isinstance(res, BaseIsotherm):
        print(describe(res))
    elif isinstance(res, str):
        print("  text:")
        for ln in res.split("\n"):
            print("  |" + ln.replace("\r", "<CR>"))
    else:
        print("  " + canon(res))
    return res


UNITS = {
    "default": dict(
        pressure_mode="absolute", pressure_unit="bar", material_basis="mass", material_unit="g",
        loading_basis="molar", loading_unit="mmol", temperature_unit="K"
    ),
    "relative": dict(
        pressure_mode="relative", pressure_unit=None, material_basis="mass", material_unit="kg",
        loading_basis="mass", loading_unit="g", temperature_unit="K"
    ),
    "relpct": dict(
        pressure_mode="relative%", pressure_unit=None, material_basis="volume", material_unit="cm3",
        loading_basis="volume_gas", loading_unit="cm3", temperature_unit="°C"
    ),
    "stp": dict(
        pressure_mode="absolute", pressure_unit="mbar", material_basis="mass", material_unit="mg",
        loading_basis="molar", loading_unit="cm3(STP)", temperature_unit="K"
    ),
    "percent": dict(
        pressure_mode="absolute", pressure_unit="kPa", material_basis="mass", material_unit="g",
        loading_basis="percent", loading_unit=None, temperature_unit="K"
    ),
    "fraction": dict(
        pressure_mode="absolute", pressure_unit="torr", material_basis="molar", material_unit="mol",
        loading_basis="fraction", loading_unit=None, temperature_unit="K"
    ),
    "volliq": dict(
        pressure_mode="absolute", pressure_unit="Pa", material_basis="molar", material_unit="mmol",
        loading_basis="volume_liquid", loading_unit="cm3", temperature_unit="K"
    ),
}

META = {
    "none": {},
    "plain": dict(user="TU", comment="a plain text", iso_type="isotherm"),
    "numbers": dict(n=3, zero=0, neg=-7, x=1.5, tiny=1.2345678901234e-09, big=6.02e+23, negf=-0.25),
    "bools": dict(flag=True, other=False),
    "mixed": dict(
        user="TU", machine="M 1", date="2020-01-02", n=42, ratio=0.333333333333, ok=True,
        material_batch="b-1", activation_temperature=150.0, material_mass=0.0123, instrument="inst"
    ),
    "nonecarry": dict(nothing=None, empty=""),
    "lists": dict(lst=[1, 2, 3], lstf=[1.5, 2.5], tup=(1, 2)),
    "tricky": dict(t1="True", t2="none", t3="12", t4="1e5", t5="[1 2]", t6="  padded  ", t7="inf", t8="nan"),
    "unicode": dict(user="Müller", note="²", half="½", arabic="٣"),
    "sepkey": {"a b": "x", "tab\tkey": 1},
    "comma": dict(comment="a, b"),
    "quote": dict(comment="it's", dq='say "hi"'),
    "semi": dict(comment="a;b", hash="#x", under="_x", dollar="$y"),
    "nestedmat": dict(_material_foo=1, sample_bar=2),
}

MATERIALS = {
    "str": "MAT-1",
    "props": dict(name="MAT-2", density=1.25, formula="C6H6", batch="b7", molar_mass=100),
    "propbool": dict(name="MAT 3", porous=True, note="hello world", count=0),
    "recursive": dict(name="MAT4", a_material_b=1, sample_x="y"),
}

POINTS = {
    "basic": dict(
        pressure=[0.1, 0.2, 0.3, 0.4, 0.5, 0.4, 0.3],
        loading=[1.0, 2.0, 3.0, 3.5, 4.0, 3.8, 3.1],
        branch=[0, 0, 0, 0, 0, 1, 1],
    ),
    "single": dict(pressure=[1.0], loading=[2.0], branch=[0]),
    "adsonly": dict(pressure=[1e-6, 1e-3, 1.0, 1e3], loading=[0.0, 1 / 3, 2 / 3, 123456.123456789123]),
    "desonly": dict(pressure=[3.0, 2.0, 1.0], loading=[3.0, 2.5, 1.0], branch=[1, 1, 1]),
    "precision": dict(
        pressure=[0.123456789012, 0.2000000049, 0.2000000051, 1e-9, 5e-9],
        loading=[1.000000005, 2.999999995, 1e-12, 7.0, 8.0],
        branch=[0, 0, 0, 1, 1],
    ),
    "ints": dict(pressure=[1, 2, 3, 2], loading=[10, 20, 30, 25], branch=[0, 0, 0, 1]),
}


def make_point(points="basic", units="default", meta="none", material="str", extra=None, **kw):
    p = POINTS[points]
    data = {"pressure": p["pressure"], "loading": p["loading"]}
    other = []
    n = len(p["pressure"])
    if extra:
        for col in extra:
            if col == "enthalpy":
                data[col] = [5.0 + 0.123456789123 * i for i in range(n)]
            elif col == "count":
                data[col] = list(range(n))
            elif col == "label":
                data[col] = [f"p{i}" for i in range(n)]
            elif col == "flag":
                data[col] = [bool(i % 2) for i in range(n)]
            other.append(col)
    args = dict(
        isotherm_data=pandas.DataFrame(data), pressure_key="pressure", loading_key="loading",
        material=MATERIALS[material] if isinstance(MATERIALS[material], str) else dict(MATERIALS[material]),
        adsorbate=kw.pop("adsorbate", "N2"), temperature=kw.pop("temperature", 77.0),
    )
    if other:
        args["other_keys"] = other
    args["branch"] = p.get("branch", "guess")
    args.update(UNITS[units])
    args.update(META[meta])
    args.update(kw)
    return PointIsotherm(**args)


MODELS = {
    "henry": dict(name="Henry", rmse=0.01, parameters={"K": 2.5}, pressure_range=[0.1, 10.0],
                  loading_range=[0.25, 25.0]),
    "langmuir": dict(name="Langmuir", rmse=1.234567890123e-05, parameters={"K": 12.3456789, "n_m": 4.2},
                     pressure_range=[1e-05, 1.0], loading_range=[0.0, 4.1]),
    "dslangmuir": dict(name="DSLangmuir", rmse=0, parameters={"n_m1": 1.0, "K1": 2.0, "n_m2": 3.0, "K2": 0.5},
                       pressure_range=[0, 100], loading_range=[0, 4]),
    "toth": dict(name="Toth", rmse=0.5, parameters={"n_m": 10.0, "K": 1.0, "t": 0.7},
                 pressure_range=[0.001, 5.5], loading_range=[0.01, 8.25]),
}


def make_model(model="henry", units="default", meta="none", material="str", **kw):
    md = {k: (dict(v) if isinstance(v, dict) else (list(v) if isinstance(v, list) else v))
          for k, v in MODELS[model].items()}
    args = dict(
        model=model_from_dict(md),
        material=MATERIALS[material] if isinstance(MATERIALS[material], str) else dict(MATERIALS[material]),
        adsorbate=kw.pop("adsorbate", "CO2"), temperature=kw.pop("temperature", 298.15),
    )
    args.update(UNITS[units])
    args.update(META[meta])
    args.update(kw)
    return ModelIsotherm(**args)


def make_base(units="default", meta="none", material="str", **kw):
    args = dict(
        material=MATERIALS[material] if isinstance(MATERIALS[material], str) else dict(MATERIALS[material]),
        adsorbate=kw.pop("adsorbate", "CH4"), temperature=kw.pop("temperature", 303),
    )
    args.update(UNITS[units])
    args.update(META[meta])
    args.update(kw)
    return BaseIsotherm(**args)


def all_isotherms():
    """(label, factory) of a broad family of isotherms."""
    cases = []
    # point isotherms: every unit configuration x several data shapes
    for u in UNITS:
        cases.append((f"point/basic/{u}", lambda u=u: make_point("basic", u, "plain")))
    for pts in POINTS:
        cases.append((f"point/{pts}/default", lambda pts=pts: make_point(pts, "default", "numbers")))
    for m in META:
        cases.append((f"point/basic/meta-{m}", lambda m=m: make_point("basic", "default", m)))
    for mat in MATERIALS:
        cases.append((f"point/basic/mat-{mat}", lambda mat=mat: make_point("basic", "relative", "mixed", mat)))
    cases.append(("point/extra-enthalpy", lambda: make_point("basic", "default", "plain", extra=["enthalpy"])))
    cases.append(("point/extra-multi", lambda: make_point("precision", "percent", "bools", "props",
                                                          extra=["enthalpy", "count", "label"])))
    cases.append(("point/extra-flag", lambda: make_point("ints", "fraction", "none", extra=["flag", "count"])))
    cases.append(("point/otheradsorbate", lambda: make_point("adsonly", "volliq", "mixed", adsorbate="carbon dioxide",
                                                             temperature=0)))
    cases.append(("point/unknownadsorbate", lambda: make_point("single", "default", "none", adsorbate="mystery gas",
                                                               temperature=1e-3)))
    # model isotherms
    for mod in MODELS:
        cases.append((f"model/{mod}/default", lambda mod=mod: make_model(mod, "default", "plain")))
    for u in UNITS:
        cases.append((f"model/langmuir/{u}", lambda u=u: make_model("langmuir", u, "numbers", "props")))
    for m in META:
        cases.append((f"model/henry/meta-{m}", lambda m=m: make_model("henry", "default", m)))
    # base isotherms
    for u in UNITS:
        cases.append((f"base/{u}", lambda u=u: make_base(u, "mixed")))
    for m in META:
        cases.append((f"base/meta-{m}", lambda m=m: make_base("default", m, "propbool")))
    for mat in MATERIALS:
        cases.append((f"base/mat-{mat}", lambda mat=mat: make_base("relpct", "bools", mat)))
    return cases


def quiet(factory):
    """Build an isotherm with the pygaps logger silenced (constructor noise is not under test)."""
    import logging
    lg = logging.getLogger("pygaps")
    old = lg.level
    lg.setLevel(logging.CRITICAL)
    try:
        return factory()
    finally:
        lg.setLevel(old)

# ---- end of common header ----

# ===== diff3: Excel reader (isotherm_from_xl) =====
import xlwt
from pygaps.parsing.excel import isotherm_from_xl, isotherm_to_xl

# 1. full round trips through a file
for n, (label, factory) in enumerate(all_isotherms()):
    def rt(factory=factory, n=n):
        iso = quiet(factory)
        path = os.path.join(TMP, f"rt{n}.xls")
        res = isotherm_to_xl(iso, path)
        print(f"  writer returned {res!r}")
        new = isotherm_from_xl(path)
        print(f"  equal={new == iso} dict_equal={new.to_dict() == iso.to_dict()}")
        return new

    run(f"xl-roundtrip {label}", rt)

# 2. positional override parameters (the signature takes *isotherm_parameters)
iso = quiet(lambda: make_point("basic", "default", "mixed", "props", extra=["enthalpy", "count"]))
P = os.path.join(TMP, "override.xls")
isotherm_to_xl(iso, P)
run("override none", lambda: isotherm_from_xl(P))
run("override pair", lambda: isotherm_from_xl(P, ("user", "someone else")))
run("override two pairs", lambda: isotherm_from_xl(P, ("material", "X"), ("newkey", 5)))
run("override two-char string", lambda: isotherm_from_xl(P, "ab"))
run("override dict (invalid)", lambda: isotherm_from_xl(P, {"a": 1}))
run("override long string (invalid)", lambda: isotherm_from_xl(P, "abc"))
run("missing file", lambda: isotherm_from_xl(os.path.join(TMP, "nope.xls")))
run("not an excel file", lambda: isotherm_from_xl(__file__))

# 3. hand-made workbooks
HEADER = [
    ("Material name", "M"), ("Experiment temperature (K)", 77.0), ("Adsorbate used", "nitrogen"),
    ("Pressure mode", "absolute"), ("Pressure unit", "bar"), ("Loading basis", "molar"), ("Loading unit", "mmol"),
    ("Material basis", "mass"), ("Material unit", "g"),
]
_count = [0]


def build(cells, other=None, first_sheet="data", header=HEADER, extra_sheets=()):
    """cells: {(row, col): value} written on top of the standard header."""
    wb = xlwt.Workbook()
    sht = wb.add_sheet(first_sheet)
    for r, (text, val) in enumerate(header):
        sht.write(r, 0, text)
        if val is not None:
            sht.write(r, 1, val)
    for (r, c), v in cells.items():
        sht.write(r, c, v)
    for name in extra_sheets:
        wb.add_sheet(name)
    if other is not None:
        osht = wb.add_sheet("otherdata")
        for r, row in enumerate(other):
            for c, v in enumerate(row):
                if v is not None:
                    osht.write(r, c, v)
    _count[0] += 1
    path = os.path.join(TMP, f"hand{_count[0]}.xls")
    wb.save(path)
    return path


def table(rows, start=10, header_cells=("pressure", "loading", "branch")):
    cells = {(start, c): h for c, h in enumerate(header_cells)}
    for r, row in enumerate(rows):
        for c, v in enumerate(row):
            if v is not None:
                cells[(start + 1 + r, c)] = v
    return cells


PTS = [(1.0, 2.0, "ads"), (2.0, 3.0, "ads"), (3.0, 4.0, "ads"), (2.0, 3.5, "des")]
VER = [("file_version", "3.0")]
MODELCELLS = {
    (9, 0): "Isotherm type", (9, 1): "model", (10, 0): "Model name", (10, 1): "Henry", (11, 0): "RMSE", (11, 1): 0.1,
    (12, 0): "Pressure range", (12, 1): "[0.1, 1.0]", (13, 0): "Loading range", (13, 1): "(0.2, 2.0)",
    (14, 0): "Model parameters", (15, 0): "K", (15, 1): 2.0,
}
hand = {
    "data basic": lambda: build({(9, 1): "data", **table(PTS)}, VER),
    "data no otherdata sheet": lambda: build({(9, 1): "data", **table(PTS)}),
    "data no version": lambda: build({(9, 1): "data", **table(PTS)}, [("user", "me")]),
    "data old version": lambda: build({(9, 1): "data", **table(PTS)}, [("file_version", "2.0")]),
    "data numeric version": lambda: build({(9, 1): "data", **table(PTS)}, [("file_version", 3.0)]),
    "data bad version": lambda: build({(9, 1): "data", **table(PTS)}, [("file_version", "abc")]),
    "data sheet not named data": lambda: build({(9, 1): "data", **table(PTS)}, VER, first_sheet="Sheet1"),
    "data sheet second": lambda: build({(9, 1): "metadata"}, VER, first_sheet="first", extra_sheets=("data", )),
    "data type label long": lambda: build({(9, 1): "Data points"}, VER),
    "data type label upper": lambda: build({(9, 1): "DATA", **table(PTS)}, VER),
    "data no branch column": lambda: build({(9, 1): "data", **table([r[:2] for r in PTS], header_cells=("pressure", "loading"))}, VER),
    "data other key names": lambda: build({(9, 1): "data", **table(PTS, header_cells=("p", "l", "branch"))}, VER),
    "data odd branch labels": lambda: build({(9, 1): "data", **table([(1.0, 2.0, "ads"), (2.0, 3.0, "ADS"), (1.0, 1.0, 0)])}, VER),
    "data extra col with dtype": lambda: build(
        {(9, 1): "data", (9, 3): "int64", (9, 4): "float64",
         **table([r + (i, i / 3) for i, r in enumerate(PTS)], header_cells=("pressure", "loading", "branch", "cnt", "enth"))},
        VER + [("other_keys", "cnt")]),
    "data extra col without dtype": lambda: build(
        {(9, 1): "data", **table([r + (i, f"t{i}") for i, r in enumerate(PTS)],
                                 header_cells=("pressure", "loading", "branch", "cnt", "txt"))}, VER),
    "data extra col bad dtype": lambda: build(
        {(9, 1): "data", (9, 3): "nonsense", **table([r + (i, ) for i, r in enumerate(PTS)],
                                                     header_cells=("pressure", "loading", "branch", "cnt"))}, VER),
    "data extra col str to int": lambda: build(
        {(9, 1): "data", (9, 3): "int64", **table([r + ("x", ) for r in PTS],
                                                  header_cells=("pressure", "loading", "branch", "cnt"))}, VER),
    "data dtype over first cols ignored": lambda: build(
        {(9, 2): "int64", (9, 1): "data", **table(PTS)}, VER),
    "data header gap": lambda: build(
        {(9, 1): "data", **table([r + (None, 9) for r in PTS], header_cells=("pressure", "loading", "branch", "", "late"))}, VER),
    "data row gap": lambda: build({(9, 1): "data", **table(PTS[:2] + [(None, None, None)] + PTS[2:])}, VER),
    "data pressure gap only": lambda: build({(9, 1): "data", **table(PTS[:2] + [(None, 9.0, "ads")] + PTS[2:])}, VER),
    "data loading gap": lambda: build({(9, 1): "data", **table(PTS[:2] + [(9.0, None, "ads")] + PTS[2:])}, VER),
    "data no rows": lambda: build({(9, 1): "data", **table([])}, VER),
    "data no header": lambda: build({(9, 1): "data"}, VER),
    "data one column": lambda: build({(9, 1): "data", **table([(1.0, ), (2.0, )], header_cells=("pressure", ))}, VER),
    "data single row": lambda: build({(9, 1): "data", **table(PTS[:1])}, VER),
    "data text in pressure": lambda: build({(9, 1): "data", **table([("a", 1.0, "ads"), (2.0, 2.0, "ads")])}, VER),
    "data many cols wide": lambda: build(
        {(9, 1): "data", **table([r + tuple(range(6)) for r in PTS],
                                 header_cells=("pressure", "loading", "branch", "c0", "c1", "c2", "c3", "c4", "c5"))}, VER),
    "model basic": lambda: build(dict(MODELCELLS), VER),
    "model upper label": lambda: build({**MODELCELLS, (9, 1): "Model isotherm"}, VER),
    "model no params": lambda: build({k: v for k, v in MODELCELLS.items() if k[0] != 15}, VER),
    "model three params": lambda: build({**MODELCELLS, (10, 1): "Toth", (15, 0): "n_m", (16, 0): "K", (16, 1): 1.0,
                                         (17, 0): "t", (17, 1): 0.5}, VER),
    "model param gap": lambda: build({**MODELCELLS, (10, 1): "Langmuir", (17, 0): "n_m", (17, 1): 1.0}, VER),
    "model param without value": lambda: build({**MODELCELLS, (10, 1): "Langmuir", (16, 0): "n_m"}, VER),
    "model bad range": lambda: build({**MODELCELLS, (12, 1): "not a list"}, VER),
    "model numeric range": lambda: build({**MODELCELLS, (12, 1): 5.0}, VER),
    "model truncated": lambda: build({(9, 1): "model", (10, 1): "Henry"}, VER),
    "model unknown": lambda: build({**MODELCELLS, (10, 1): "Nope"}, VER),
    "model wrong param": lambda: build({**MODELCELLS, (15, 0): "Q"}, VER),
    "meta basic": lambda: build({(9, 1): "metadata"}, VER),
    "meta type empty": lambda: build({}, VER),
    "meta type number": lambda: build({(9, 1): 5.0}, VER),
    "meta type other": lambda: build({(9, 1): "something"}, VER),
    "meta short sheet": lambda: build({}, VER, header=HEADER[:5]),
    "meta missing material": lambda: build({(9, 1): "metadata"}, VER, header=[("Material name", None)] + HEADER[1:]),
    "meta missing units": lambda: build({(9, 1): "metadata"}, VER, header=HEADER[:3] + [(t, None) for t, _ in HEADER[3:]]),
    "meta relative no unit": lambda: build(
        {(9, 1): "metadata"}, VER, header=HEADER[:3] + [("Pressure mode", "relative"), ("Pressure unit", None)] + HEADER[5:]),
    "other bools": lambda: build({(9, 1): "metadata"}, VER + [("t", True), ("f", False), ("one", 1), ("zero", 0), ("txt", "True")]),
    "other empty value": lambda: build({(9, 1): "metadata"}, VER + [("nothing", None), ("after", 1.5)]),
    "other empty name stops": lambda: build({(9, 1): "metadata"}, VER + [(None, "orphan"), ("after", 1.5)]),
    "other blank string name": lambda: build({(9, 1): "metadata"}, VER + [("", "blankname"), ("after", 1.5)]),
    "other numeric name": lambda: build({(9, 1): "metadata"}, VER + [(5, "numname")]),
    "other iso_id dropped": lambda: build({(9, 1): "metadata"}, VER + [("iso_id", "abc"), ("id", 3)]),
    "other overrides header": lambda: build({(9, 1): "metadata"}, VER + [("material", "M2"), ("temperature", 100)]),
    "other isotherm_data key": lambda: build({(9, 1): "metadata"}, VER + [("isotherm_data", "zzz")]),
    "other one column": lambda: build({(9, 1): "metadata"}, [("file_version", ), ("user", )]),
    "other empty sheet": lambda: build({(9, 1): "metadata"}, []),
    "other material props": lambda: build({(9, 1): "data", **table(PTS)}, VER + [("_material_density", 2.5), ("_material_ok", True)]),
    "other material props double": lambda: build({(9, 1): "metadata"}, VER + [("_material_a_material_b", 1)]),
    "other material props double ok": lambda: build({(9, 1): "metadata"}, VER + [("_material_a_material_b", 1), ("_material_ab", 2)]),
    "other material name prop": lambda: build({(9, 1): "metadata"}, VER + [("_material_name", "zz")]),
    "other date-like and errors": lambda: build({(9, 1): "metadata"}, VER + [("big", 1e300), ("neg", -1.5), ("long", "x" * 300)]),
}
for name, maker in hand.items():
    run(f"hand {name}", lambda: isotherm_from_xl(maker()))
