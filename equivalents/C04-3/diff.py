"""Differential script for change 3: enthalpy_sorption_whittaker restructuring."""
import logging
import warnings

import matplotlib

matplotlib.use("Agg")

import numpy as np  # noqa: E402

warnings.filterwarnings("ignore")

import pygaps  # noqa: E402
import pygaps.modelling as pgm  # noqa: E402
from pygaps.characterisation.enth_sorp_whittaker import enthalpy_sorption_whittaker  # noqa: E402
from pygaps.core.pointisotherm import PointIsotherm  # noqa: E402


class ListHandler(logging.Handler):
    def __init__(self):
        super().__init__()
        self.records = []

    def emit(self, record):
        self.records.append(f"{record.levelname}: {record.getMessage()}")


HANDLER = ListHandler()
pygaps.logger.addHandler(HANDLER)


def fmt(v):
    if isinstance(v, dict):
        return "{" + ", ".join(f"{k!r}: {fmt(x)}" for k, x in v.items()) + "}"
    if isinstance(v, (list, tuple)):
        return type(v).__name__ + "[" + ", ".join(fmt(x) for x in v) + "]"
    if isinstance(v, np.ndarray):
        if v.ndim == 0:
            return "a0:" + fmt(v.item())
        return "arr[" + ", ".join(fmt(x) for x in v.tolist()) + "]"
    if isinstance(v, (float, np.floating)):
        return f"{type(v).__name__}:{float(v):.12g}"
    if isinstance(v, (int, np.integer)) and not isinstance(v, bool):
        return f"{type(v).__name__}:{int(v)}"
    return repr(v)


def snapshot(iso):
    if isinstance(iso, PointIsotherm):
        cache = []
        for name in ("l_interpolator", "p_interpolator"):
            itp = getattr(iso, name)
            cache.append("None" if itp is None else f"({itp.interp_branch},{itp.interp_kind},{itp.interp_fill})")
        return (
            f"{iso.iso_id} {iso.pressure_mode}/{iso.pressure_unit} {iso.loading_basis}/{iso.loading_unit} "
            f"{iso.material_basis}/{iso.material_unit} T={iso.temperature!r} cache={cache} | " + " ".join(
                f"{c}:" + fmt(iso.data_raw[c].to_numpy(dtype=float)) for c in iso.data_raw.columns
            )
        )
    return (
        f"{iso.iso_id} {iso.units} T={iso.temperature!r} {iso.model.name} {fmt(iso.model.params)} "
        f"{fmt(iso.model.pressure_range)} {fmt(iso.model.loading_range)} rmse={fmt(iso.model.rmse)}"
    )


def toth(p, n_m, K, t):
    return n_m * K * p / (1 + (K * p)**t)**(1 / t)


def langmuir(p, n_m, K):
    return n_m * K * p / (1 + K * p)


def make(adsorbate, temp, p, loading, unit="bar", mode="absolute"):
    return PointIsotherm(
        pressure=p,
        loading=loading,
        branch="ads",
        material="TEST",
        adsorbate=adsorbate,
        temperature=temp,
        temperature_unit="K",
        pressure_mode=mode,
        pressure_unit=unit if mode == "absolute" else None,
        loading_basis="molar",
        loading_unit="mmol",
        material_basis="mass",
        material_unit="g",
    )


P_BAR = np.concatenate([np.linspace(0.02, 1, 12), np.linspace(1.5, 20, 14)])

FIXTURES = {
    # subcritical, real saturation pressure
    "co2_298_bar_toth": lambda: make("CO2", 298.0, P_BAR, toth(P_BAR, 6.0, 1.8, 0.7)),
    "co2_298_kPa_lang": lambda: make("CO2", 298.0, P_BAR * 100, langmuir(P_BAR, 5.0, 0.9), unit="kPa"),
    "co2_273_Pa_toth": lambda: make("CO2", 273.15, P_BAR * 1e5, toth(P_BAR, 8.0, 3.0, 0.55), unit="Pa"),
    # supercritical: pseudo-saturation pressure branch + warning
    "ch4_298_bar_toth": lambda: make("CH4", 298.0, P_BAR, toth(P_BAR, 4.0, 0.3, 0.8)),
    "n2_298_bar_lang": lambda: make("N2", 298.0, P_BAR, langmuir(P_BAR, 3.0, 0.15)),
    # cryogenic: most pressures below the triple point pressure -> capped
    "n2_77_rel_toth": lambda: make(
        "N2", 77.0, np.linspace(0.001, 0.3, 25), toth(np.linspace(0.001, 0.3, 25), 7.0, 400.0, 0.5),
        mode="relative"
    ),
    "ar_87_kPa_toth": lambda: make(
        "Ar", 87.3, np.linspace(0.05, 40, 25), toth(np.linspace(0.05, 40, 25), 9.0, 1.2, 0.6), unit="kPa"
    ),
}

LOADINGS = {
    "None": None,
    "one": [1],
    "few": [0.5, 1.0, 2.0, 3.0],
    "zeros": [0, 0.0, 1.0, 0, 2.5],
    "array": np.linspace(0.1, 20, 40),
    "beyond": [0.2, 3.5, 5.9, 6.0, 7.0, 50.0, -1.0],
    "empty": [],
    "nan": [float("nan"), 1.0],
    "ints": [1, 2, 3],
}

CASE = [0]


def run(what, func, *args, **kwargs):
    CASE[0] += 1
    del HANDLER.records[:]
    try:
        res = fmt(func(*args, **kwargs))
    except Exception as err:  # noqa: BLE001
        res = f"EXC {type(err).__name__}: {err}"
    print(f"[{CASE[0]:03d}] {what} -> {res}")
    for rec in HANDLER.records:
        print("      log:", rec.replace("\n", "\\n")[:400])


print("=== A: PointIsotherm input, fresh object per call")
for fname, build in FIXTURES.items():
    for model in ("Toth", "Langmuir", "toth", "Henry", "DSLangmuir", "bogus"):
        for lname, loading in LOADINGS.items():
            if model not in ("Toth", "Langmuir") and lname not in ("None", "few"):
                continue
            iso = build()
            before = snapshot(iso)
            run(f"{fname} {model} {lname}", enthalpy_sorption_whittaker, iso, model=model, loading=loading)
            if snapshot(iso) != before:
                print("      !! caller isotherm changed:", snapshot(iso))

print("=== B: ModelIsotherm input")
for fname, build in FIXTURES.items():
    for model in ("Toth", "Langmuir", "Henry"):
        iso = build()
        try:
            iso.convert_pressure(mode_to="absolute", unit_to="Pa")
            miso = pgm.model_iso(iso, branch="ads", model=model)
        except Exception as err:  # noqa: BLE001
            print(f"model build failed {fname} {model}: {type(err).__name__}")
            continue
        for lname in ("None", "few", "zeros", "beyond"):
            before = snapshot(miso)
            # the `model` argument is ignored for model isotherms
            run(
                f"model-iso {fname} {model} {lname}", enthalpy_sorption_whittaker, miso, model="bogus",
                loading=LOADINGS[lname]
            )
            if snapshot(miso) != before:
                print("      !! caller model isotherm changed:", snapshot(miso))
    # model isotherm not in Pa -> error
    iso = build()
    try:
        miso = pgm.model_iso(iso, branch="ads", model="Langmuir")
    except Exception as err:  # noqa: BLE001
        print(f"model build failed {fname}: {type(err).__name__}")
        continue
    run(f"model-iso native units {fname}", enthalpy_sorption_whittaker, miso, loading=[1.0])

print("=== C: history independence: same object queried repeatedly / after other queries")
iso = FIXTURES["co2_298_bar_toth"]()
before = snapshot(iso)
for i in range(3):
    run(f"repeat {i}", enthalpy_sorption_whittaker, iso, model="Toth", loading=[0.5, 1.0, 2.0])
run("then langmuir", enthalpy_sorption_whittaker, iso, model="Langmuir", loading=[0.5, 1.0, 2.0])
iso.loading_at(0.5, interpolation_type="cubic")
iso.pressure_at(2.0, interp_fill="extrapolate")
iso.spreading_pressure_at(3.0)
mid = snapshot(iso)
run("after queries", enthalpy_sorption_whittaker, iso, model="Toth", loading=[0.5, 1.0, 2.0])
print("unchanged by whittaker:", snapshot(iso) == mid, "| data same as at start:", before.split("|")[1] == mid.split("|")[1])

print("=== D: other argument kinds")
run("not an isotherm", enthalpy_sorption_whittaker, "abc", model="Toth")
run("None isotherm", enthalpy_sorption_whittaker, None, model="Toth")
run("model None", enthalpy_sorption_whittaker, FIXTURES["co2_298_bar_toth"](), model=None)
run("model list", enthalpy_sorption_whittaker, FIXTURES["co2_298_bar_toth"](), model=["Toth"])
run("scalar loading", enthalpy_sorption_whittaker, FIXTURES["co2_298_bar_toth"](), model="Toth", loading=1.0)
run("verbose plot", enthalpy_sorption_whittaker, FIXTURES["co2_298_kPa_lang"](), model="Langmuir", loading=[1.0, 2.0], verbose=True)
import matplotlib.pyplot as plt  # noqa: E402

for num in plt.get_fignums():
    fig = plt.figure(num)
    for ax in fig.axes:
        for line in ax.lines:
            print("plot line:", fmt(np.asarray(line.get_xdata(), dtype=float)), fmt(np.asarray(line.get_ydata(), dtype=float)))
        for coll in ax.collections:
            print("plot coll:", fmt(np.asarray(coll.get_offsets(), dtype=float).ravel()))
        print("plot labels:", ax.get_xlabel(), "|", ax.get_ylabel())
