"""Differential script for change 4: IsothermBaseModel.fit bookkeeping rewrite."""
import logging
import warnings

import matplotlib

matplotlib.use("Agg")

import numpy as np  # noqa: E402

warnings.filterwarnings("ignore")

import pygaps  # noqa: E402
import pygaps.modelling as pgm  # noqa: E402
from pygaps.core.modelisotherm import ModelIsotherm  # noqa: E402
from pygaps.core.pointisotherm import PointIsotherm  # noqa: E402


class ListHandler(logging.Handler):
    def __init__(self):
        super().__init__()
        self.records = []

    def emit(self, record):
        self.records.append(f"{record.levelname}: {record.getMessage()}")


HANDLER = ListHandler()
pygaps.logger.addHandler(HANDLER)


def fmt(v):
    if isinstance(v, dict):
        return "{" + ", ".join(f"{k!r}: {fmt(x)}" for k, x in v.items()) + "}"
    if isinstance(v, (list, tuple)):
        return type(v).__name__ + "[" + ", ".join(fmt(x) for x in v) + "]"
    if isinstance(v, np.ndarray):
        if v.ndim == 0:
            return "a0:" + fmt(v.item())
        return "arr[" + ", ".join(fmt(x) for x in v.tolist()) + "]"
    if isinstance(v, (float, np.floating)):
        return f"{type(v).__name__}:{float(v):.12g}"
    if isinstance(v, (int, np.integer)) and not isinstance(v, bool):
        return f"{type(v).__name__}:{int(v)}"
    return repr(v)


def model_text(model):
    return (
        f"{model.name} params={fmt(model.params)} rmse={fmt(model.rmse)} "
        f"prange={fmt(model.pressure_range)} lrange={fmt(model.loading_range)} bounds={fmt(model.param_bounds)}"
    )


def snapshot(iso):
    cache = []
    for name in ("l_interpolator", "p_interpolator"):
        itp = getattr(iso, name)
        cache.append("None" if itp is None else f"({itp.interp_branch},{itp.interp_kind},{itp.interp_fill})")
    return (
        f"{iso.iso_id} {iso.pressure_mode}/{iso.pressure_unit} {iso.loading_basis}/{iso.loading_unit} "
        f"{iso.material_basis}/{iso.material_unit} cache={cache} | " + " ".join(
            f"{c}:" + fmt(iso.data_raw[c].to_numpy(dtype=float)) for c in iso.data_raw.columns
        )
    )


COMMON = dict(
    material="TEST",
    adsorbate="N2",
    temperature=77.0,
    temperature_unit="K",
    pressure_mode="absolute",
    pressure_unit="bar",
    loading_basis="molar",
    loading_unit="mmol",
    material_basis="mass",
    material_unit="g",
)

P1 = np.concatenate([np.linspace(0.01, 0.2, 8), np.linspace(0.25, 1.0, 10)])
DATASETS = {
    "langmuir": (P1, 6.0 * 4.0 * P1 / (1 + 4.0 * P1)),
    "toth": (P1 * 10, 5.0 * 0.8 * P1 * 10 / (1 + (0.8 * P1 * 10)**0.6)**(1 / 0.6)),
    "linear": (P1, 2.5 * P1),
    "sigmoid": (P1, 7.0 / (1 + np.exp(-12 * (P1 - 0.4))) - 7.0 / (1 + np.exp(4.8))),
    "bet": (P1 * 0.9, 3.0 * 80 * P1 * 0.9 / ((1 - P1 * 0.9) * (1 + 79 * P1 * 0.9) + 1e-9)),
    "noisy": (P1, 6.0 * 4.0 * P1 / (1 + 4.0 * P1) * (1 + 0.03 * np.sin(37 * P1))),
}

CASE = [0]


def run(what, func, *args, show=None, **kwargs):
    CASE[0] += 1
    del HANDLER.records[:]
    try:
        res = func(*args, **kwargs)
        res = show(res) if show else fmt(res)
    except Exception as err:  # noqa: BLE001
        res = f"EXC {type(err).__name__}: {str(err)[:600]}".replace("\n", "\\n")
    print(f"[{CASE[0]:03d}] {what} -> {res}")
    for rec in HANDLER.records:
        print("      log:", rec.replace("\n", "\\n")[:300])


print("=== A: model_iso for every model on every dataset (fresh isotherm each)")
for dname, (p, l) in DATASETS.items():
    for model in pgm._MODELS:
        iso = PointIsotherm(pressure=p, loading=l, branch="ads", **COMMON)
        before = snapshot(iso)
        run(f"{dname} {model}", pgm.model_iso, iso, model=model, show=lambda m: model_text(m.model))
        if snapshot(iso) != before:
            print("      !! point isotherm changed")

print("=== B: direct fit() calls: guesses, bounds, optimisation parameters, error paths")


def direct(model_name, data, guess=None, opt=None, verbose=False, ctor=None, mutate=None):
    p, l = DATASETS[data]
    ctor = dict(ctor or {})
    ctor.setdefault("pressure_range", (float(min(p)), float(max(p))))
    ctor.setdefault("loading_range", (float(min(l)), float(max(l))))
    model = pgm.get_isotherm_model(model_name, **ctor)
    model.__init_parameters__({"temperature": 77.0})
    if mutate:
        mutate(model)
    if guess is None:
        guess = model.initial_guess(p, l)
    holder = {"model": model}
    try:
        ret = model.fit(p, l, guess, opt, verbose)
    finally:
        # params left behind also matter when the fit blows up half way
        print("      after:", model_text(model))
    return ret, holder["model"].params


run("langmuir default", direct, "Langmuir", "langmuir")
run("langmuir verbose", direct, "Langmuir", "langmuir", verbose=True)
run("langmuir guess dict", direct, "Langmuir", "langmuir", guess={"n_m": 3.0, "K": 1.0})
run("langmuir guess reversed order", direct, "Langmuir", "langmuir", guess={"K": 1.0, "n_m": 3.0})
run("langmuir guess extra key", direct, "Langmuir", "langmuir", guess={"K": 1.0, "n_m": 3.0, "zzz": 4})
run("langmuir guess missing key", direct, "Langmuir", "langmuir", guess={"K": 1.0})
run("langmuir guess empty", direct, "Langmuir", "langmuir", guess={})
run("langmuir guess out of bounds", direct, "Langmuir", "langmuir", guess={"K": -1.0, "n_m": 3.0})
run("langmuir guess nan", direct, "Langmuir", "langmuir", guess={"K": float("nan"), "n_m": 3.0})
run("langmuir opt lm-incompatible", direct, "Langmuir", "langmuir", opt={"method": "lm"})
run("langmuir opt dogbox", direct, "Langmuir", "langmuir", opt={"method": "dogbox"})
run("langmuir opt max_nfev 1", direct, "Langmuir", "langmuir", opt={"max_nfev": 1})
run("langmuir opt loss soft_l1", direct, "Langmuir", "langmuir", opt={"loss": "soft_l1"})
run("langmuir opt override x0", direct, "Langmuir", "langmuir", opt={"x0": [2.0, 2.0]})
run("langmuir opt override bounds", direct, "Langmuir", "langmuir", opt={"bounds": ([0, 0], [5.0, 5.0])})
run("langmuir opt override args", direct, "Langmuir", "langmuir", opt={"args": (P1[:5], (2.5 * P1)[:5])})
run("langmuir opt short x0+bounds", direct, "Langmuir", "langmuir", opt={"x0": [2.0], "bounds": ([0.0], [5.0])})
run("langmuir opt short x0 only", direct, "Langmuir", "langmuir", opt={"x0": [2.0]})
run("langmuir opt long x0+bounds", direct, "Langmuir", "langmuir", opt={"x0": [2.0, 2.0, 2.0], "bounds": ([0.0] * 3, [50.0] * 3)})
run("langmuir opt no bounds lm", direct, "Langmuir", "langmuir", opt={"method": "lm", "bounds": (-np.inf, np.inf)})
run("langmuir opt custom fun", direct, "Langmuir", "langmuir", opt={"fun": lambda x, p, l: x[0] * x[1] * p / (1 + x[0] * p) - l})
run("langmuir opt bad key", direct, "Langmuir", "langmuir", opt={"nonsense": 1})
run("langmuir opt empty dict", direct, "Langmuir", "langmuir", opt={})
run("langmuir custom bounds", direct, "Langmuir", "langmuir", ctor={"param_bounds": {"K": (0.0, 2.0), "n_m": (0.0, 100.0)}})
run("langmuir partial bounds", direct, "Langmuir", "langmuir", ctor={"param_bounds": {"K": (0.0, 2.0)}})
run("langmuir inverted bounds", direct, "Langmuir", "langmuir", ctor={"param_bounds": {"K": (2.0, 0.0), "n_m": (0.0, 100.0)}})
run("langmuir bounds as lists", direct, "Langmuir", "langmuir", ctor={"param_bounds": {"K": [0.0, 20.0], "n_m": [0.0, 100.0]}})
run("langmuir bounds 3-tuple", direct, "Langmuir", "langmuir", ctor={"param_bounds": {"K": (0.0, 20.0, 99.0), "n_m": (0.0, 100.0, 99.0)}})
run("langmuir bounds 1-tuple", direct, "Langmuir", "langmuir", ctor={"param_bounds": {"K": (0.0, ), "n_m": (0.0, 100.0)}})
run("langmuir preset params", direct, "Langmuir", "langmuir", ctor={"parameters": {"K": 9.0, "n_m": 1.0}})
run("langmuir degenerate range", direct, "Langmuir", "langmuir", ctor={"loading_range": (1.0, 1.0)})
run("langmuir nan range", direct, "Langmuir", "langmuir", ctor={"loading_range": (np.nan, np.nan)})
run("toth default", direct, "Toth", "toth")
run("toth on linear", direct, "Toth", "linear")
run("toth guess", direct, "Toth", "toth", guess={"n_m": 2.0, "K": 2.0, "t": 1.0})
run("henry default", direct, "Henry", "linear")
run("henry on langmuir", direct, "Henry", "langmuir")
run("dslangmuir", direct, "DSLangmuir", "noisy")
run("tslangmuir", direct, "TSLangmuir", "noisy")
run("bet", direct, "BET", "bet")
run("gab", direct, "GAB", "bet")
run("quadratic", direct, "Quadratic", "sigmoid")
run("temkin", direct, "TemkinApprox", "langmuir")
run("jensen-seaton", direct, "JensenSeaton", "toth")
run("freundlich", direct, "Freundlich", "toth")
run("dr", direct, "DR", "langmuir")
run("da", direct, "DA", "langmuir")
# models that calculate pressure from loading
run("virial", direct, "Virial", "langmuir")
run("fhvst", direct, "FHVST", "langmuir")
run("wvst", direct, "WVST", "langmuir")
run("wvst verbose", direct, "WVST", "toth", verbose=True)


def bad_calculates(model):
    model.calculates = "neither"


run("calculates neither", direct, "Langmuir", "langmuir", mutate=bad_calculates)


def extra_param(model):
    # params dict order drives the packing of x
    model.params = {"K": np.nan, "n_m": np.nan}


run("params dict re-ordered", direct, "Langmuir", "langmuir", mutate=extra_param)


def raising_loading(model):
    calls = {"n": 0}
    orig = model.loading

    def loading(pressure):
        calls["n"] += 1
        if calls["n"] > 3:
            raise RuntimeError(f"boom at call {calls['n']}")
        return orig(pressure)

    model.loading = loading


run("residual raises mid-fit", direct, "Langmuir", "langmuir", mutate=raising_loading)

# data edge cases
for name, p, l in (
    ("two points", [0.1, 0.5], [1.0, 2.0]),
    ("one point", [0.5], [2.0]),
    ("lists", list(P1), list(2.5 * P1)),
    ("zeros in data", [0.0, 0.1, 0.5, 1.0], [0.0, 1.0, 2.0, 2.5]),
    ("nan in data", [0.1, 0.5, 1.0], [1.0, float("nan"), 2.5]),
    ("length mismatch", [0.1, 0.5, 1.0], [1.0, 2.0]),
    ("empty", [], []),
):
    DATASETS["tmp"] = (np.asarray(p, dtype=float), np.asarray(l, dtype=float))
    run(f"langmuir {name}", direct, "Langmuir", "tmp", guess={"n_m": 3.0, "K": 1.0}, ctor={"pressure_range": (0.0, 1.0), "loading_range": (0.0, 3.0)})

print("=== C: fitting leaves the source isotherm alone and is repeatable on one object")
p, l = DATASETS["toth"]
iso = PointIsotherm(pressure=p, loading=l, branch="ads", **COMMON)
iso.loading_at(3.0, interpolation_type="cubic")
before = snapshot(iso)
for model in ("Toth", "Langmuir", "Toth", ["Henry", "Langmuir", "Toth"], "guess"):
    run(f"repeat {model}", pgm.model_iso, iso, model=model, show=lambda m: model_text(m.model))
print("isotherm unchanged:", snapshot(iso) == before)
run("refit a model in place (params overwritten)", lambda: [
    (m := pgm.get_isotherm_model("Langmuir", pressure_range=(0.1, 10.0), loading_range=(0.1, 4.0))),
    m.fit(p, l, {"n_m": 1.0, "K": 1.0}),
    dict(m.params),
    m.fit(p, l, {"n_m": 9.0, "K": 0.1}),
    dict(m.params),
    m.rmse,
][2:])
