"""Differential script for change 4: spreading pressure of the multi-site Langmuir models."""
import logging
import os
import warnings

import numpy

import pygaps
import pygaps.iast as pgi
import pygaps.modelling as pgm

warnings.simplefilter("ignore")
logging.disable(logging.CRITICAL)

# 12 significant digits by default; EQ_DIGITS=17 compares bit for bit
DIGITS = int(os.environ.get("EQ_DIGITS", "12"))


def fmt(v):
    """Canonical text of a result."""
    if isinstance(v, (list, tuple)):
        return "[" + ", ".join(fmt(x) for x in v) + "]"
    if isinstance(v, numpy.ndarray):
        return f"ndarray{v.shape}" + fmt(v.ravel().tolist())
    if isinstance(v, (float, numpy.floating)):
        return f"{type(v).__name__}:{float(v):.{DIGITS}g}"
    if isinstance(v, (int, numpy.integer)):
        return f"{type(v).__name__}:{int(v)}"
    return f"{type(v).__name__}:{v!r}"


def run(label, func, *args, **kwargs):
    try:
        res = fmt(func(*args, **kwargs))
    except Exception as e:  # noqa
        res = f"EXC {type(e).__name__}: {' '.join(str(e).split())}"
    print(f"{label} -> {res}")


f64 = numpy.float64
PARAMS = {
    'DSLangmuir': [
        {'n_m1': 5.0, 'K1': 3.0, 'n_m2': 2.0, 'K2': 0.25},
        {'n_m1': 5, 'K1': 3, 'n_m2': 2, 'K2': 1},
        {'n_m1': 0.01, 'K1': 1e4, 'n_m2': 30.0, 'K2': 1e-5},
        {'n_m1': 1.0, 'K1': 1.0, 'n_m2': 1.0, 'K2': 1.0},
        {'n_m1': 0.0, 'K1': 3.0, 'n_m2': 2.0, 'K2': 0.25},
        {'n_m1': 5.0, 'K1': 0.0, 'n_m2': 2.0, 'K2': 0.0},
        {'n_m1': -5.0, 'K1': 0.0, 'n_m2': -2.0, 'K2': 0.0},
        {'n_m1': -1.0, 'K1': 3.0, 'n_m2': 2.0, 'K2': -0.25},
        {'n_m1': f64(5.0), 'K1': f64(3.0), 'n_m2': f64(2.0), 'K2': f64(0.25)},
        {'n_m1': float('nan'), 'K1': 3.0, 'n_m2': 2.0, 'K2': 0.25},
        {'n_m1': float('inf'), 'K1': 3.0, 'n_m2': 2.0, 'K2': 0.25},
        {'K1': 3.0, 'n_m2': 2.0, 'K2': 0.25},
        {'n_m1': 5.0, 'n_m2': 2.0, 'K2': 0.25},
        {'n_m1': 5.0, 'K1': 3.0, 'K2': 0.25},
        {'n_m1': 5.0, 'K1': 3.0, 'n_m2': 2.0},
        {},
        {'n_m1': '5', 'K1': 3.0, 'n_m2': 2.0, 'K2': 0.25},
        {'n_m1': 5.0, 'K1': None, 'n_m2': 2.0, 'K2': 0.25},
    ],
    'TSLangmuir': [
        {'n_m1': 5.0, 'K1': 3.0, 'n_m2': 2.0, 'K2': 0.25, 'n_m3': 1.0, 'K3': 40.0},
        {'n_m1': 5, 'K1': 3, 'n_m2': 2, 'K2': 1, 'n_m3': 1, 'K3': 40},
        {'n_m1': 0.01, 'K1': 1e4, 'n_m2': 30.0, 'K2': 1e-5, 'n_m3': 3.3, 'K3': 0.7},
        {'n_m1': 1e-17, 'K1': 1.0, 'n_m2': 1.0, 'K2': 1.0, 'n_m3': -1.0, 'K3': 1.0},
        {'n_m1': 1e17, 'K1': 1.0, 'n_m2': 1.0, 'K2': 1.0, 'n_m3': -1e17, 'K3': 1.0},
        {'n_m1': 0.0, 'K1': 3.0, 'n_m2': 0.0, 'K2': 0.25, 'n_m3': 1.0, 'K3': 40.0},
        {'n_m1': 5.0, 'K1': 0.0, 'n_m2': 2.0, 'K2': 0.0, 'n_m3': 1.0, 'K3': 0.0},
        {'n_m1': -5.0, 'K1': 0.0, 'n_m2': -2.0, 'K2': 0.0, 'n_m3': -1.0, 'K3': 0.0},
        {'n_m1': f64(5.0), 'K1': f64(3.0), 'n_m2': f64(2.0), 'K2': f64(0.25), 'n_m3': f64(1.0), 'K3': f64(40.0)},
        {'n_m1': 5.0, 'K1': 3.0, 'n_m2': float('nan'), 'K2': 0.25, 'n_m3': 1.0, 'K3': 40.0},
        {'K1': 3.0, 'n_m2': 2.0, 'K2': 0.25, 'n_m3': 1.0, 'K3': 40.0},
        {'n_m1': 5.0, 'n_m2': 2.0, 'K2': 0.25, 'n_m3': 1.0, 'K3': 40.0},
        {'n_m1': 5.0, 'K1': 3.0, 'K2': 0.25, 'n_m3': 1.0, 'K3': 40.0},
        {'n_m1': 5.0, 'K1': 3.0, 'n_m2': 2.0, 'n_m3': 1.0, 'K3': 40.0},
        {'n_m1': 5.0, 'K1': 3.0, 'n_m2': 2.0, 'K2': 0.25, 'K3': 40.0},
        {'n_m1': 5.0, 'K1': 3.0, 'n_m2': 2.0, 'K2': 0.25, 'n_m3': 1.0},
        {'n_m3': 1.0, 'K3': 40.0},
        {'n_m1': 5.0, 'K1': 3.0, 'n_m2': 2.0, 'K2': 0.25, 'n_m3': None, 'K3': 40.0},
    ],
}

PRESSURES = [
    0.0, -0.0, 1e-300, 1e-12, 1e-6, 1e-3, 0.013, 0.1, 0.5, 1.0, 1, 2.5, 10.0, 137.0, 1e4, 1e8, 1e300,
    f64(0.75), numpy.float32(0.75), numpy.asarray(0.75), numpy.array([0.75]), numpy.int64(3),
    numpy.array([0.0, 0.1, 1.0, 10.0]), numpy.array([[0.1, 1.0], [2.0, 3.0]]), numpy.array([]), numpy.array([1, 2]),
    [0.5, 1.0], (0.5, 1.0), [], -0.1, -1.0, -1e3, float('nan'), float('inf'), None, '1.0', True, 1 + 2j,
]

# 1. the model functions directly
for mname, plist in PARAMS.items():
    for prm in plist:
        model = pgm.get_isotherm_model(mname)
        model.params = dict(prm)
        for p in PRESSURES:
            run(f"[{mname} {prm}] sp({p!r})", model.spreading_pressure, p)
        for p in (1e-3, 0.5, 7.0):
            run(f"[{mname} {prm}] loading({p!r})", model.loading, p)
            h = 1e-4 * p
            run(
                f"[{mname} {prm}] p*dsp/dp({p!r})", lambda q, d: q *
                (model.spreading_pressure(q + d) - model.spreading_pressure(q - d)) / (2 * d), p, h
            )
        run(f"[{mname} {prm}] sp(3)-sp(1)", lambda: model.spreading_pressure(3.0) - model.spreading_pressure(1.0))

# 2. through the isotherm, with conversions of the pressure argument
pygaps.ADSORBATE_LIST.append(
    pygaps.Adsorbate('TA', backend_name='NITROGEN', molar_mass=28.01348, saturation_pressure=101325.0)
)
pygaps.ADSORBATE_LIST.append(
    pygaps.Adsorbate('TB', backend_name='METHANE', molar_mass=16.04, saturation_pressure=101325.0)
)
pygaps.MATERIAL_LIST.append(pygaps.Material('TEST', density=2.0, molar_mass=10.0))
BASE = dict(
    material='TEST',
    adsorbate='TA',
    temperature=100.0,
    temperature_unit='K',
    loading_basis='molar',
    loading_unit='mmol',
    material_basis='mass',
    material_unit='g',
)


def make(mname, prm, **kwargs):
    model = pgm.get_isotherm_model(mname)
    model.params = dict(prm)
    return pygaps.ModelIsotherm(model=model, **{**BASE, **kwargs})


for mname, plist in PARAMS.items():
    for prm in plist[:5]:
        for iso_kw in (dict(pressure_mode='absolute', pressure_unit='bar'), dict(pressure_mode='relative',
                                                                                 pressure_unit=None)):
            iso = make(mname, prm, **iso_kw)
            for kw in (dict(), dict(pressure_unit='kPa'), dict(pressure_mode='relative'),
                       dict(pressure_mode='relative%'), dict(pressure_mode='absolute', pressure_unit='torr')):
                for p in (0.0, 0.01, 0.4, 3.0, 60.0, [0.1, 0.2], numpy.array([0.3, 3.0, 30.0])):
                    run(f"[{mname} {prm} iso{iso_kw}] {kw} p={p!r}", iso.spreading_pressure_at, p, **kw)

# 3. IAST uses the spreading pressures of both components
absb = dict(pressure_mode='absolute', pressure_unit='bar')
for m1, m2 in (('DSLangmuir', 'DSLangmuir'), ('TSLangmuir', 'DSLangmuir'), ('TSLangmuir', 'TSLangmuir')):
    iso1 = make(m1, PARAMS[m1][0], **absb)
    iso2 = make(m2, PARAMS[m2][2], adsorbate='TB', **absb)
    for pp in ([0.1, 0.1], [1.0, 0.2], [0.05, 3.0], [10.0, 10.0]):
        run(f"[iast {m1}+{m2}] partial pressures {pp}", pgi.iast_point, [iso1, iso2], pp, warningoff=True)
    for y in (0.1, 0.5, 0.9):
        run(
            f"[iast {m1}+{m2}] fraction {y} at 2 bar", pgi.iast_point_fraction, [iso1, iso2], [y, 1 - y], 2.0,
            warningoff=True
        )

# 4. fitted models (parameters as the optimiser leaves them)
p_data = numpy.array([0.02, 0.05, 0.1, 0.2, 0.5, 1.0, 2.0, 4.0, 8.0, 16.0])
l_data = 5 * 3 * p_data / (1 + 3 * p_data) + 2 * 0.25 * p_data / (1 + 0.25 * p_data)
for mname in ('DSLangmuir', 'TSLangmuir'):
    try:
        iso = pygaps.ModelIsotherm(pressure=p_data, loading=l_data, model=mname, **absb, **BASE)
    except Exception as e:  # noqa
        print(f"FIT {mname} EXC {type(e).__name__}: {e}")
        continue
    print(f"FIT {mname} params {fmt([iso.model.params[k] for k in iso.model.param_names])}")
    for p in numpy.geomspace(1e-3, 16.0, 23):
        run(f"[fit {mname}] p={fmt(p)}", iso.spreading_pressure_at, p)
