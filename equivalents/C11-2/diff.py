"""Differential script for change 2: ModelIsotherm.spreading_pressure_at."""
import logging
import os
import warnings

import numpy

import pygaps
import pygaps.modelling as pgm

warnings.simplefilter("ignore")
logging.disable(logging.CRITICAL)

# 12 significant digits by default; EQ_DIGITS=17 compares bit for bit
DIGITS = int(os.environ.get("EQ_DIGITS", "12"))


def fmt(v):
    """Canonical text of a result."""
    if isinstance(v, (list, tuple)):
        return "[" + ", ".join(fmt(x) for x in v) + "]"
    if isinstance(v, numpy.ndarray):
        return f"ndarray{v.shape}" + fmt(v.ravel().tolist())
    if isinstance(v, (float, numpy.floating)):
        return f"{type(v).__name__}:{float(v):.{DIGITS}g}"
    if isinstance(v, (int, numpy.integer)):
        return f"{type(v).__name__}:{int(v)}"
    return f"{type(v).__name__}:{v!r}"


def run(label, func, *args, **kwargs):
    try:
        res = fmt(func(*args, **kwargs))
    except Exception as e:  # noqa
        res = f"EXC {type(e).__name__}: {' '.join(str(e).split())}"
    print(f"{label} -> {res}")


pygaps.ADSORBATE_LIST.append(
    pygaps.Adsorbate('TA', backend_name='NITROGEN', molar_mass=28.01348, saturation_pressure=101325.0)
)
# an adsorbate without any way to get a saturation pressure
pygaps.ADSORBATE_LIST.append(pygaps.Adsorbate('NOSAT', molar_mass=10.0))
pygaps.MATERIAL_LIST.append(pygaps.Material('TEST', density=2.0, molar_mass=10.0))

BASE = dict(
    material='TEST',
    adsorbate='TA',
    temperature=100.0,
    temperature_unit='K',
    loading_basis='molar',
    loading_unit='mmol',
    material_basis='mass',
    material_unit='g',
)

MODELS = {
    'Henry': {'K': 2.0},
    'Langmuir': {'n_m': 5.0, 'K': 3.0},
    'DSLangmuir': {'n_m1': 5.0, 'K1': 3.0, 'n_m2': 2.0, 'K2': 0.25},
    'Quadratic': {'n_m': 4.0, 'Ka': 1.5, 'Kb': 0.3},
    'BET': {'n_m': 3.0, 'C': 40.0, 'N': 0.02},
    'TemkinApprox': {'n_m': 5.0, 'K': 2.0, 'tht': -0.1},
    'Freundlich': {'K': 2.0, 'm': 2.5},
    'Toth': {'n_m': 5.0, 'K': 2.0, 't': 0.7},
    'DR': {'n_m': 5.0, 'e': 2500.0},
}


def make(model_name, branch='ads', **kwargs):
    model = pgm.get_isotherm_model(model_name)
    model.params = dict(MODELS[model_name])
    return pygaps.ModelIsotherm(model=model, branch=branch, **{**BASE, **kwargs})


ISOS = {}
for mname in MODELS:
    ISOS[f'{mname}/abs-bar'] = make(mname, pressure_mode='absolute', pressure_unit='bar')
ISOS['Langmuir/abs-kPa'] = make('Langmuir', pressure_mode='absolute', pressure_unit='kPa')
ISOS['Langmuir/rel'] = make('Langmuir', pressure_mode='relative', pressure_unit=None)
ISOS['Langmuir/rel%'] = make('Langmuir', pressure_mode='relative%', pressure_unit=None)
ISOS['BET/rel'] = make('BET', pressure_mode='relative', pressure_unit=None)
ISOS['Langmuir/des'] = make('Langmuir', branch='des', pressure_mode='absolute', pressure_unit='bar')
ISOS['Langmuir/nosat'] = make('Langmuir', adsorbate='NOSAT', pressure_mode='absolute', pressure_unit='bar')
ISOS['Langmuir/nosat-rel'] = make('Langmuir', adsorbate='NOSAT', pressure_mode='relative', pressure_unit=None)
ISOS['Langmuir/torr-77K'] = make('Langmuir', pressure_mode='absolute', pressure_unit='torr', temperature=77.0)
ISOS['Langmuir/degC'] = make(
    'Langmuir', pressure_mode='absolute', pressure_unit='bar', temperature=-190.0, temperature_unit='°C'
)

for name, iso in ISOS.items():
    print(f"ISO {name}: mode={iso.pressure_mode!r} unit={iso.pressure_unit!r} branch={iso.branch!r}")

P_ARGS = [
    dict(),
    dict(pressure_unit=None, pressure_mode=None),
    dict(pressure_unit='', pressure_mode=''),
    dict(pressure_unit='bar'),
    dict(pressure_unit='kPa'),
    dict(pressure_unit='Pa'),
    dict(pressure_unit='atm'),
    dict(pressure_unit='torr'),
    dict(pressure_unit='bad'),
    dict(pressure_mode='absolute'),
    dict(pressure_mode='relative'),
    dict(pressure_mode='relative%'),
    dict(pressure_mode='bad'),
    dict(pressure_mode='absolute', pressure_unit='kPa'),
    dict(pressure_mode='absolute', pressure_unit='bad'),
    dict(pressure_mode='relative', pressure_unit='kPa'),
    dict(pressure_mode='relative%', pressure_unit='Pa'),
    dict(pressure_mode='relative', pressure_unit='bad'),
    dict(pressure_mode='bad', pressure_unit='bad'),
    dict(pressure_mode='absolute', pressure_unit=''),
    dict(pressure_mode='', pressure_unit='Pa'),
]
PRESSURES = [0.0, 1e-6, 0.013, 0.5, 1.0, 7.0, 150.0]

# 1. every unit/mode argument, one model on every kind of isotherm
for name, iso in ISOS.items():
    if not name.startswith(('Langmuir', 'BET/rel')):
        continue
    for kw in P_ARGS:
        for p in PRESSURES:
            run(f"[{name}] {kw} p={p}", iso.spreading_pressure_at, p, **kw)

# 2. every model, a few conversions
for name, iso in ISOS.items():
    if not name.endswith('/abs-bar'):
        continue
    for kw in (dict(), dict(pressure_unit='kPa'), dict(pressure_mode='relative'), dict(pressure_mode='relative%')):
        for p in (1e-4, 0.02, 0.3, 2.0, 45.0):
            run(f"[{name}] {kw} p={p}", iso.spreading_pressure_at, p, **kw)

# 3. branch argument
for name in ('Langmuir/abs-bar', 'Langmuir/des'):
    for br in (None, '', 'ads', 'des', 'all', 'bad', 0):
        for kw in (dict(), dict(pressure_unit='kPa'), dict(pressure_unit='bad'), dict(pressure_mode='bad')):
            run(f"[{name}] branch={br!r} {kw}", ISOS[name].spreading_pressure_at, 0.4, branch=br, **kw)

# 4. kinds of pressure argument
ODD = [
    [0.1, 1.0, 10.0],
    (0.1, 1.0),
    numpy.array([0.1, 1.0, 10.0]),
    numpy.array([[0.1, 1.0], [2.0, 3.0]]),
    numpy.array([]),
    [],
    numpy.float32(0.25),
    3,
    numpy.array([1, 2, 3]),
    True,
    -0.1,
    -10.0,
    float('nan'),
    float('inf'),
    None,
    '1.0',
    [[1.0, 2.0], [3.0]],
]
for name in ('Langmuir/abs-bar', 'Langmuir/rel', 'Henry/abs-bar', 'BET/abs-bar', 'Toth/abs-bar'):
    for kw in (dict(), dict(pressure_unit='kPa'), dict(pressure_mode='relative%'),
               dict(pressure_mode='absolute', pressure_unit='torr')):
        for p in ODD:
            run(f"[{name}] {kw} p={p!r}", ISOS[name].spreading_pressure_at, p, **kw)

# 5. positional call, as IAST does it
for name, iso in ISOS.items():
    run(f"[{name}] positional", iso.spreading_pressure_at, 0.37)
    run(f"[{name}] positional+branch", iso.spreading_pressure_at, 0.37, 'ads')
    run(f"[{name}] positional all", iso.spreading_pressure_at, 37.0, 'ads', 'kPa', 'absolute')
