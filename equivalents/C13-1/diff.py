import hashlib
import logging
import warnings

import numpy

import pygaps
import pygaps.iast.pgiast as pgi
import pygaps.modelling as pgm
from pygaps.core.modelisotherm import ModelIsotherm
from pygaps.core.pointisotherm import PointIsotherm

assert pygaps.__file__.startswith("/tmp/eq/C13/src"), pygaps.__file__

UNITS = dict(
    pressure_mode="absolute",
    pressure_unit="bar",
    material_basis="mass",
    material_unit="g",
    loading_basis="molar",
    loading_unit="mmol",
    temperature_unit="K",
)


# ---------------------------------------------------------------- canonical text
def fmt(obj):
    """Canonical text of a result: floats with 12 significant digits."""
    if isinstance(obj, dict):
        return "{" + ", ".join(f"{k!r}: {fmt(v)}" for k, v in obj.items()) + "}"
    if isinstance(obj, tuple):
        return "(" + ", ".join(fmt(v) for v in obj) + ")"
    if isinstance(obj, list):
        return "[" + ", ".join(fmt(v) for v in obj) + "]"
    if isinstance(obj, numpy.ndarray):
        if obj.ndim == 0:
            return f"arr0<{obj.dtype}>({fmt(obj.item())})"
        return f"arr<{obj.dtype},{obj.shape}>[" + ", ".join(fmt(v) for v in obj.tolist()) + "]"
    if isinstance(obj, (bool, numpy.bool_)):
        return f"{type(obj).__name__}:{bool(obj)}"
    if isinstance(obj, (float, numpy.floating)):
        return f"{type(obj).__name__}:{float(obj):.12g}"
    if isinstance(obj, (int, numpy.integer)):
        return f"{type(obj).__name__}:{int(obj)}"
    return f"{type(obj).__name__}:{obj!r}"


# ---------------------------------------------------------------- log capture
class _ListHandler(logging.Handler):
    def __init__(self):
        super().__init__(level=logging.DEBUG)
        self.records = []

    def emit(self, record):
        self.records.append(f"{record.levelname}|{record.getMessage()}")


LOGS = _ListHandler()
pygaps.logger.addHandler(LOGS)
pygaps.logger.setLevel(logging.DEBUG)
for _h in list(pygaps.logger.handlers):
    if _h is not LOGS:
        pygaps.logger.removeHandler(_h)
pygaps.logger.propagate = False

# ---------------------------------------------------------------- call trace
TRACE = []


def _traced(cls, name):
    original = getattr(cls, name)

    def wrapper(self, pressure, *args, **kwargs):
        try:
            ptxt = fmt(numpy.asarray(pressure, dtype=float))
        except Exception:  # pragma: no cover
            ptxt = repr(pressure)
        TRACE.append(f"{getattr(self, '_tag', '?')}.{name}({ptxt}, {args!r}, {sorted(kwargs.items())!r})")
        return original(self, pressure, *args, **kwargs)

    setattr(cls, name, wrapper)


for _cls in (ModelIsotherm, PointIsotherm):
    for _name in ("spreading_pressure_at", "loading_at"):
        _traced(_cls, _name)


# ---------------------------------------------------------------- runner
def run(label, func, *args, **kwargs):
    LOGS.records.clear()
    TRACE.clear()
    print(f"=== {label}")
    with warnings.catch_warnings(record=True) as caught:
        warnings.simplefilter("always")
        try:
            result = func(*args, **kwargs)
            print("  result:", fmt(result))
        except BaseException as err:  # noqa
            print(f"  raised: {type(err).__name__}: {str(err)!r}")
    for rec in LOGS.records:
        print("  log:", repr(rec))
    for w in caught:
        print(f"  warning: {w.category.__name__}: {str(w.message)!r}")
    digest = hashlib.sha1("\n".join(TRACE).encode()).hexdigest()
    print(f"  calls: {len(TRACE)} sha1={digest}")


# ---------------------------------------------------------------- isotherms
def model_iso(tag, name, params, prange=(0.01, 20.0), lrange=(0.0, 10.0), branch="ads", **over):
    model = pgm.get_isotherm_model(
        name, parameters=params, pressure_range=prange, loading_range=lrange
    )
    props = dict(UNITS)
    props.update(material="M", adsorbate="N2", temperature=300)
    props.update(over)
    iso = ModelIsotherm(model=model, branch=branch, **props)
    iso._tag = tag
    return iso


def point_iso(tag, func, pmax=20.0, npts=40, **over):
    pressure = numpy.geomspace(0.005, pmax, npts)
    loading = func(pressure)
    props = dict(UNITS)
    props.update(material="M", adsorbate="N2", temperature=300)
    props.update(over)
    iso = PointIsotherm(pressure=pressure, loading=loading, **props)
    iso._tag = tag
    return iso


LA = model_iso("LA", "Langmuir", {"K": 1.5, "n_m": 4.0})
LB = model_iso("LB", "Langmuir", {"K": 0.2, "n_m": 6.5}, adsorbate="CO2")
LC = model_iso("LC", "Langmuir", {"K": 7.0, "n_m": 4.0}, adsorbate="CH4")  # same capacity as LA
LD = model_iso("LD", "Langmuir", {"K": 0.05, "n_m": 4.0}, adsorbate="O2", prange=(0.01, 2.0))
HA = model_iso("HA", "Henry", {"K": 0.7})
HB = model_iso("HB", "Henry", {"K": 3.1}, adsorbate="CO2")
DS = model_iso("DS", "DSLangmuir", {"n_m1": 2.0, "K1": 4.0, "n_m2": 3.0, "K2": 0.1})
TS = model_iso(
    "TS", "TSLangmuir", {"n_m1": 1.0, "n_m2": 2.0, "n_m3": 1.5, "K1": 9.0, "K2": 0.8, "K3": 0.05}
)
QU = model_iso("QU", "Quadratic", {"n_m": 3.0, "Ka": 0.9, "Kb": 0.4})
BE = model_iso("BE", "BET", {"n_m": 2.5, "C": 30.0, "N": 0.01})
TE = model_iso("TE", "TemkinApprox", {"n_m": 5.0, "K": 0.6, "tht": -0.1})
TO = model_iso("TO", "Toth", {"n_m": 5.0, "K": 1.2, "t": 0.7})
JS = model_iso("JS", "JensenSeaton", {"K": 6.0, "a": 3.0, "b": 0.05, "c": 1.3})
FR = model_iso("FR", "Freundlich", {"K": 1.0, "m": 2.0})  # not IAST capable
REL = model_iso("REL", "Langmuir", {"K": 50.0, "n_m": 4.0}, pressure_mode="relative")
DES = model_iso("DES", "Langmuir", {"K": 1.1, "n_m": 3.0}, branch="des")
PA = point_iso("PA", lambda p: 4.0 * 1.5 * p / (1 + 1.5 * p))
PB = point_iso("PB", lambda p: 6.5 * 0.2 * p / (1 + 0.2 * p), adsorbate="CO2")
PC = point_iso("PC", lambda p: 3.0 * 0.9 * p / (1 + 0.9 * p), pmax=5.0, npts=15, adsorbate="CH4")

# ================================================================= cases (change 1: iast_point)
ip = pgi.iast_point
ipf = pgi.iast_point_fraction

# binaries over a range of pressures / models
for p in ([1.0, 2.0], [1e-6, 3e-6], [1e-3, 50.0], [250.0, 1e3], [0.3, 0.3]):
    run(f"LA+LB {p}", ip, [LA, LB], p)
    run(f"LB+LA {p[::-1]} (permuted)", ip, [LB, LA], p[::-1])
run("HA+HB henry closed form", ip, [HA, HB], [0.4, 1.7])
run("HA+LA", ip, [HA, LA], [2.0, 0.5])
run("LA+LC equal capacity", ip, [LA, LC], [0.8, 0.1])
run("LA+LC+LD equal capacity ternary", ip, [LA, LC, LD], [0.8, 0.1, 1.5])
for pair in ([DS, LA], [TS, LB], [QU, LA], [BE, LB], [TE, LA], [TO, LB], [JS, LA], [TO, JS]):
    run("pair " + "+".join(i._tag for i in pair), ip, pair, [0.7, 1.9])
    run("pair " + "+".join(i._tag for i in pair) + " warningoff", ip, pair, [12.0, 30.0], warningoff=True)

# ternary / quaternary, different containers for the pressures
run("ternary list", ip, [LA, LB, HA], [1.0, 2.0, 0.5])
run("ternary tuple", ip, (LA, LB, HA), (1.0, 2.0, 0.5))
run("ternary ndarray", ip, [HA, LA, LB], numpy.array([0.5, 1.0, 2.0]))
run("ternary ints", ip, [LA, LB, HA], [1, 2, 3])
run("ternary float32", ip, [LA, LB, HA], numpy.array([1, 2, 3], dtype="float32"))
run("quaternary", ip, [LA, LB, DS, QU], [0.2, 1.4, 0.9, 3.0])
run("quaternary permuted", ip, [QU, DS, LB, LA], [3.0, 0.9, 1.4, 0.2])
run("quaternary verbose", ip, [LA, HB, LC, LB], [0.2, 1.4, 0.9, 3.0], verbose=True)

# starting guesses
run("guess list", ip, [LA, LB], [1.0, 2.0], adsorbed_mole_fraction_guess=[0.5, 0.5])
run("guess ndarray", ip, [LA, LB], [1.0, 2.0], adsorbed_mole_fraction_guess=numpy.array([0.9, 0.1]))
run("guess ternary", ip, [LA, LB, HA], [1.0, 2.0, 0.5], adsorbed_mole_fraction_guess=[0.2, 0.3, 0.5])
run("guess does not sum to 1", ip, [LA, LB], [1.0, 2.0], adsorbed_mole_fraction_guess=[0.5, 0.6])
run("guess degenerate [1, 0]", ip, [LA, LB], [1.0, 2.0], adsorbed_mole_fraction_guess=[1.0, 0.0])
run("guess degenerate [0, 1]", ip, [LA, LB], [1.0, 2.0], adsorbed_mole_fraction_guess=[0.0, 1.0])
run("guess outside [1.5, -0.5]", ip, [LA, LB], [1.0, 2.0], adsorbed_mole_fraction_guess=[1.5, -0.5])
run("guess outside henry", ip, [HA, HB], [1.0, 2.0], adsorbed_mole_fraction_guess=[-0.5, 1.5])
run("guess wrong length", ip, [LA, LB, HA], [1.0, 2.0, 0.5], adsorbed_mole_fraction_guess=[0.5, 0.5])
run("guess empty", ip, [LA, LB], [1.0, 2.0], adsorbed_mole_fraction_guess=[])

# extrapolation warnings / verbose
run("extrapolate warning", ip, [LA, LD], [15.0, 15.0])
run("extrapolate warning verbose", ip, [LA, LD], [15.0, 15.0], verbose=True)
run("extrapolate warningoff", ip, [LA, LD], [15.0, 15.0], warningoff=True)
run("verbose binary", ip, [LA, LB], [1.0, 2.0], verbose=True)

# guards
run("one isotherm", ip, [LA], [1.0])
run("no isotherm", ip, [], [])
run("size mismatch", ip, [LA, LB], [1.0])
run("size mismatch 2", ip, [LA, LB], [1.0, 2.0, 3.0])
run("non IAST model", ip, [LA, FR], [1.0, 2.0])
run("non IAST model first, relative second", ip, [FR, REL], [1.0, 2.0])
run("relative pressure", ip, [LA, REL], [1.0, 0.2])
run("relative and single", ip, [REL], [1.0])
run("branch des on ads models", ip, [LA, LB], [1.0, 2.0], branch="des")
run("des model default branch", ip, [DES, LA], [1.0, 2.0])
run("des models des branch", ip, [DES, DES], [1.0, 2.0], branch="des")
run("zero partial pressure", ip, [LA, LB], [0.0, 2.0])
run("negative partial pressure", ip, [LA, LB], [-1.0, 2.0])
run("nan partial pressure", ip, [LA, LB], [numpy.nan, 2.0])

# point isotherms
run("points PA+PB", ip, [PA, PB], [1.0, 2.0])
run("points PB+PA", ip, [PB, PA], [2.0, 1.0])
run("points PA+PB+PC", ip, [PA, PB, PC], [0.5, 1.0, 0.2])
run("points out of range", ip, [PA, PC], [3.0, 4.0])
run("points far out of range", ip, [PA, PB], [300.0, 400.0])
run("points+model", ip, [PA, LB], [1.0, 2.0], verbose=True)
run("points+model des branch", ip, [PA, LB], [1.0, 2.0], branch="des")
run("points low pressure", ip, [PA, PB], [1e-4, 2e-4])
run("points guess", ip, [PA, PB], [1.0, 2.0], adsorbed_mole_fraction_guess=[0.3, 0.7])

# fraction wrapper gives the point calculation
for y, pt in (([0.5, 0.5], 2.0), ([0.1, 0.9], 7.5), ([0.999, 0.001], 0.01)):
    run(f"fraction LA+LB {y} {pt}", ipf, [LA, LB], y, pt)
run("fraction ternary", ipf, [LA, LB, HA], [0.2, 0.3, 0.5], 4.0, verbose=True)
run("fraction one isotherm", ipf, [LA], [0.1], 1)
run("fraction mismatch", ipf, [LA, LB], [0.1], 1)
