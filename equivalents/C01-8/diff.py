"""Differential script for change 4 (Adsorbate saturation-line properties): canonical text of results."""
import itertools
import warnings

import numpy as np
import pandas as pd

warnings.simplefilter("ignore")

import pygaps
from pygaps.units.converter_mode import c_loading
from pygaps.units.converter_mode import c_pressure
from pygaps.units.converter_unit import _PRESSURE_UNITS
from pygaps.utilities.coolprop_utilities import thermodynamic_backend


def fmt(v):
    if isinstance(v, pd.Series):
        return "Series[" + ",".join(fmt(x) for x in v.tolist()) + "]idx" + repr(list(v.index))
    if isinstance(v, np.ndarray):
        return f"ndarray{v.shape}{v.dtype}[" + ",".join(fmt(x) for x in v.ravel().tolist()) + "]"
    if isinstance(v, (list, tuple)):
        return type(v).__name__ + "[" + ",".join(fmt(x) for x in v) + "]"
    if isinstance(v, (float, np.floating)):
        return type(v).__name__ + ":" + repr(float(v))
    return type(v).__name__ + ":" + repr(v)


def run(label, func, *args, **kwargs):
    try:
        res = func(*args, **kwargs)
        print(label, "->", fmt(res))
    except BaseException as e:  # noqa
        print(label, "-> EXC", type(e).__name__, str(e))


METHODS = [
    "saturation_pressure", "pressure_saturation", "surface_tension", "liquid_density", "liquid_molar_density",
    "gas_density", "gas_molar_density"
]


class FakeState:
    """Stands in for a CoolProp AbstractState, logging all calls."""
    def __init__(self, fail=None):
        self.log = []
        self.fail = fail

    def _do(self, name, val, *args):
        self.log.append((name, args))
        if self.fail == name:
            raise RuntimeError(f"fake failure in {name}")
        return val

    def update(self, *args):
        return self._do("update", None, *args)

    def p(self):
        return self._do("p", 123456.0)

    def surface_tension(self):
        return self._do("surface_tension", 0.0089)

    def rhomass(self):
        return self._do("rhomass", 806.5)

    def rhomolar(self):
        return self._do("rhomolar", 28790.0)

    def hmolar(self):
        return self._do("hmolar", 5000.0)

    def molar_mass(self):
        return self._do("molar_mass", 0.0280134)


# 1. every adsorbate of the library, a few relative positions between triple and critical point
names = sorted(a.name for a in pygaps.ADSORBATE_LIST)
print("n adsorbates", len(names))
for name in names:
    ads = pygaps.Adsorbate.find(name)
    try:
        tt, tc = ads.t_triple(), ads.t_critical()
    except BaseException as e:  # noqa
        print(f"[{name}] no triple/critical: {type(e).__name__} {e}")
        tt, tc = 100.0, 300.0
    print(f"[{name}] tt,tc", fmt(tt), fmt(tc))
    for frac in (0.05, 0.5, 0.97):
        temp = tt + frac * (tc - tt)
        for m in METHODS:
            run(f"[{name}] {m}@{frac}", getattr(ads, m), temp)

# 2. selected fluids: units, calculate flag, keyword forms, out-of-range temperatures
sel = ["nitrogen", "carbon dioxide", "water", "argon", "methane", "n-butane"]
temps = [77.344, 87.3, 150.0, 273.15, 298.15, 400.0, 0, -10.0, 1e4, None, "77", np.float64(90.0), float("nan")]
for name in sel:
    ads = pygaps.Adsorbate.find(name)
    for temp in temps:
        for m in METHODS:
            run(f"S[{name}] {m}({temp!r})", getattr(ads, m), temp)
            run(f"S[{name}] {m}(temp={temp!r}, calculate=False)", getattr(ads, m), temp=temp, calculate=False)
        for unit in list(_PRESSURE_UNITS) + [None, "", "psi"]:
            run(f"S[{name}] psat({temp!r}, {unit!r})", ads.saturation_pressure, temp, unit)
            run(f"S[{name}] psat alias({temp!r}, unit={unit!r})", ads.pressure_saturation, temp, unit=unit)
            run(f"S[{name}] psat nocalc({temp!r}, {unit!r})", ads.saturation_pressure, temp, unit, False)

# 3. dictionary-only adsorbates (backend cannot be built -> fallback), partially filled
full = pygaps.Adsorbate(
    "dict_fluid", saturation_pressure=51234.5, surface_tension=8.9, liquid_density=0.81, liquid_molar_density=0.029,
    gas_density=0.0046, gas_molar_density=1.6e-4, molar_mass=28.0
)
part = pygaps.Adsorbate("part_fluid", liquid_density=1.1, backend_name="not_a_fluid_xyz")
nothing = pygaps.Adsorbate("nothing_fluid")
mixed = pygaps.Adsorbate("mixed_fluid", backend_name="nitrogen", saturation_pressure=1.0, liquid_density=2.0)
for ads in (full, part, nothing, mixed):
    for temp in (77.344, 300.0, 0, None):
        for m in METHODS:
            for calc in (True, False):
                run(f"D[{ads.name}] {m}({temp!r}, calculate={calc})", getattr(ads, m), temp, calculate=calc)
        for unit in ("bar", "torr", None, "nope"):
            run(f"D[{ads.name}] psat({temp!r},{unit!r})", ads.saturation_pressure, temp, unit=unit)

# 4. order and arguments of backend calls (fake state)
for fail in (None, "update", "p", "rhomass", "rhomolar", "surface_tension"):
    for m in METHODS + ["enthalpy_vaporisation", "molar_mass"]:
        ads = pygaps.Adsorbate(
            "fake_fluid", backend_name="nitrogen", saturation_pressure=11.0, surface_tension=12.0, liquid_density=13.0,
            liquid_molar_density=14.0, gas_density=15.0, gas_molar_density=16.0, enthalpy_vaporisation=17.0,
            molar_mass=18.0
        )
        fake = FakeState(fail)
        ads._state = fake
        ads._backend_mode = thermodynamic_backend()
        if m == "molar_mass":
            run(f"K[fail={fail}] {m}", getattr(ads, m))
        else:
            run(f"K[fail={fail}] {m}", getattr(ads, m), 91.25)
        print("   calls", fake.log)
        print("   state kept", ads._state is fake, ads.backend is fake)

# 5. property conversions driven by these values
n2 = pygaps.Adsorbate.find("nitrogen")
co2 = pygaps.Adsorbate.find("carbon dioxide")
lsel = [("mass", "mg"), ("volume_gas", "L"), ("volume_liquid", "cm3"), ("molar", "cm3(STP)"), ("molar", "mmol")]
psel = [("absolute", "bar"), ("absolute", "torr"), ("relative", None), ("relative%", None)]
for ads, temp in [(n2, 77.344), (n2, 120.0), (co2, 230.0), (co2, 300.0), (full, 1.0), (part, 1.0), (mixed, 77.344),
                  (n2, 10.0)]:
    for (bf, uf), (bt, ut) in itertools.product(lsel, lsel):
        run(f"CL[{ads.name}@{temp}] {bf}/{uf}->{bt}/{ut}", c_loading, 1.25, bf, bt, uf, ut, ads, temp)
    for (mf, uf), (mt, ut) in itertools.product(psel, psel):
        run(f"CP[{ads.name}@{temp}] {mf}/{uf}->{mt}/{ut}", c_pressure, 0.3, mf, mt, uf, ut, ads, temp)
    for bt, ut in lsel:
        run(
            f"CF[{ads.name}@{temp}] ->percent from {bt}/{ut}", c_loading, np.array([0.5, 2.0]), bt, "percent", ut, None,
            ads, temp, "volume", "cm3"
        )

# 6. interleaving liquid / vapour queries on the shared state
for seq in itertools.permutations(["liquid_density", "gas_density", "saturation_pressure", "gas_molar_density"]):
    out = [getattr(n2, m)(77.344) for m in seq]
    print("SEQ", seq, fmt(out))

print("attrs", sorted(a for a in dir(pygaps.Adsorbate) if not a.startswith("_")))
print("to_dict", sorted(n2.to_dict()))
