"""Differential script for change 2: isosteric_enthalpy (guards, loading grid, pressure_at bookkeeping)."""
import sys, os
sys.path.insert(0, os.path.dirname(__file__))
import numpy as np
import pandas as pd
from scipy import constants
from _fmt import run, LogCapture

from pygaps.characterisation.isosteric_enth import isosteric_enthalpy
from pygaps.core.modelisotherm import ModelIsotherm
from pygaps.core.pointisotherm import PointIsotherm
from pygaps.modelling import get_isotherm_model

log = LogCapture()
R = constants.gas_constant

BASE_UNITS = dict(
    pressure_mode='absolute', pressure_unit='bar', material_basis='mass', material_unit='g',
    loading_basis='molar', loading_unit='mmol', temperature_unit='K',
)


def params_at(kind, dh, T):
    f = np.exp(dh * 1000 / R / T)
    if kind == 'Langmuir':
        return {'n_m': 5.0, 'K': 2e-6 * f / np.exp(dh * 1000 / R / 300) * 1e6 * 0.5}
    if kind == 'Toth':
        return {'n_m': 6.0, 'K': 3.0 * f / np.exp(dh * 1000 / R / 300), 't': 0.65}
    if kind == 'DSLangmuir':
        g = f / np.exp(dh * 1000 / R / 300)
        return {'n_m1': 3.0, 'K1': 4.0 * g, 'n_m2': 2.0, 'K2': 0.2 * g}
    raise ValueError(kind)


def model_iso(kind, dh, T, material='M1', adsorbate='N2', p_range=(1e-4, 20.0), **units):
    params = params_at(kind, dh, T)
    model = get_isotherm_model(kind, parameters=params, pressure_range=p_range, loading_range=(0.0, 0.0))
    lo, hi = model.loading(np.array(p_range))
    model.loading_range = (float(lo), float(hi))
    kw = dict(BASE_UNITS)
    kw.update(units)
    return ModelIsotherm(model=model, material=material, adsorbate=adsorbate, temperature=T, **kw)


def point_iso(kind, dh, T, n=120, material='M1', adsorbate='N2', desorption=False, **conv):
    miso = model_iso(kind, dh, T, material=material, adsorbate=adsorbate)
    p = np.geomspace(1e-4, 20.0, n)
    l = miso.model.loading(p)
    if desorption:
        p = np.concatenate([p, p[::-1][1:]])
        l = np.concatenate([l, 1.1 * l[::-1][1:]])
    iso = PointIsotherm(
        pressure=p, loading=l, material=material, adsorbate=adsorbate, temperature=T, **BASE_UNITS
    )
    if 'pressure' in conv:
        iso.convert_pressure(**conv['pressure'])
    if 'loading' in conv:
        iso.convert_loading(**conv['loading'])
    if 'material' in conv:
        iso.convert_material(**conv['material'])
    return iso


case = 0
temp_sets = [[300, 320], [320, 290, 305], [250, 400], [273.15, 283.15, 293.15, 303.15], [350, 260, 300, 280, 330]]

# 1. model isotherms, default grid and explicit loadings
for kind in ('Langmuir', 'Toth', 'DSLangmuir'):
    for i, temps in enumerate(temp_sets):
        dh = (5, 12.5, 28, 44, 60)[(i + len(kind)) % 5]
        isos = [model_iso(kind, dh, T) for T in temps]
        case += 1
        run(f"{case} model {kind} T={temps} dH={dh} grid=None", isosteric_enthalpy, isos, log=log)
        case += 1
        run(
            f"{case} model {kind} T={temps} dH={dh} explicit", isosteric_enthalpy, isos,
            loading_points=[0.2, 1.0, 2.2, 3.3], log=log
        )

# 2. model isotherms in other (common) units
unit_sets = [
    dict(pressure_unit='Pa'), dict(pressure_unit='kPa'), dict(pressure_unit='torr'),
    dict(pressure_mode='relative', pressure_unit=None),
    dict(loading_unit='mol'), dict(loading_unit='mol', material_unit='kg'),
    dict(loading_basis='mass', loading_unit='mg'),
    dict(loading_basis='volume_gas', loading_unit='cm3'),
]
for units in unit_sets:
    case += 1
    ad = 'CO2' if units.get('pressure_mode') == 'relative' else 'N2'
    temps = [260, 280, 270] if ad == 'CO2' else [300, 340, 320]
    try:
        isos = [model_iso('Toth', 30, T, adsorbate=ad, **units) for T in temps]
    except BaseException as err:
        print(f"--- {case} units {units}: construction EXC {type(err).__name__}: {err}")
        continue
    run(f"{case} model units {units} grid=None", isosteric_enthalpy, isos, log=log)
    lp = np.asarray(isos[0].loading(branch='ads'))
    lps = np.linspace(lp.min() * 1.5 + 1e-9, lp.max() * 0.5, 4)
    run(f"{case}b model units {units} explicit", isosteric_enthalpy, isos, loading_points=lps, log=log)

# 2b. model isotherms with different pressure units between them (first one decides)
isos = [model_iso('Langmuir', 20, 300), model_iso('Langmuir', 20, 320, pressure_unit='Pa'),
        model_iso('Langmuir', 20, 340, pressure_unit='torr')]
run("mixed pressure units grid=None", isosteric_enthalpy, isos, log=log)
run("mixed pressure units reversed", isosteric_enthalpy, isos[::-1], loading_points=[0.5, 1, 2], log=log)
isos = [model_iso('Langmuir', 20, 300), model_iso('Langmuir', 20, 320, loading_unit='mol', material_unit='kg')]
run("mixed loading units grid=None", isosteric_enthalpy, isos, log=log)
run("mixed loading units reversed explicit", isosteric_enthalpy, isos[::-1], loading_points=[0.5, 1, 2], log=log)

# 3. point isotherms
for kind, temps, dh, conv in [
    ('Langmuir', [300, 320], 18, {}),
    ('Toth', [280, 300, 320], 33, {}),
    ('DSLangmuir', [320, 300, 340, 280], 25, {}),
    ('Langmuir', [300, 330], 40, {'pressure': dict(unit_to='Pa')}),
    ('Toth', [300, 330, 360], 22, {'pressure': dict(unit_to='torr')}),
    ('Toth', [260, 280], 15, {'pressure': dict(mode_to='relative')}),
    ('Langmuir', [300, 310, 320], 9, {'loading': dict(unit_to='mol')}),
    ('Langmuir', [300, 310, 320], 55, {'loading': dict(basis_to='mass', unit_to='mg')}),
    ('Toth', [300, 310], 30, {'material': dict(unit_to='kg')}),
]:
    case += 1
    ad = 'CO2' if conv.get('pressure', {}).get('mode_to') == 'relative' else 'N2'
    try:
        isos = [point_iso(kind, dh, T, adsorbate=ad, **conv) for T in temps]
    except BaseException as err:
        print(f"--- {case} point {conv}: construction EXC {type(err).__name__}: {err}")
        continue
    run(f"{case} point {kind} T={temps} dH={dh} conv={conv} grid=None", isosteric_enthalpy, isos, log=log)
    lp = np.asarray(isos[0].loading(branch='ads'))
    run(
        f"{case}b point explicit", isosteric_enthalpy, isos,
        loading_points=list(np.linspace(lp.max() * 0.2, lp.max() * 0.6, 3)), log=log
    )

# 3b. desorption branch
isos = [point_iso('Langmuir', 27, T, desorption=True) for T in (300, 320, 340)]
run("point des branch grid=None", isosteric_enthalpy, isos, branch='des', log=log)
run("point ads branch of hysteretic", isosteric_enthalpy, isos, branch='ads', loading_points=[1.0, 2.0], log=log)
run("point des branch explicit", isosteric_enthalpy, isos, loading_points=[1.0, 2.0], branch='des', log=log)
# mixed point/model
mixed = [point_iso('Toth', 35, 300), model_iso('Toth', 35, 320), point_iso('Toth', 35, 340)]
run("mixed point/model grid=None", isosteric_enthalpy, mixed, log=log)
run("mixed model first", isosteric_enthalpy, mixed[1:] + mixed[:1], loading_points=np.array([1.0, 2.0, 3.0]), log=log)

# 4. guards and error paths
good = [model_iso('Langmuir', 20, 300), model_iso('Langmuir', 20, 320)]
run("empty list", isosteric_enthalpy, [], log=log)
run("one isotherm", isosteric_enthalpy, good[:1], log=log)
run("tuple of isotherms", isosteric_enthalpy, tuple(good), loading_points=[1.0], log=log)
run("different material", isosteric_enthalpy, [good[0], model_iso('Langmuir', 20, 320, material='M2')], log=log)
run("different material, not first", isosteric_enthalpy, good + [model_iso('Langmuir', 20, 340, material='M2')], log=log)
run("different loading basis", isosteric_enthalpy,
    [good[0], model_iso('Langmuir', 20, 320, loading_basis='mass', loading_unit='mg')], log=log)
run("different material basis", isosteric_enthalpy,
    [good[0], model_iso('Langmuir', 20, 320, material_basis='molar', material_unit='mol')], log=log)
run("different material AND basis (material wins)", isosteric_enthalpy,
    [good[0], model_iso('Langmuir', 20, 320, material='M2', loading_basis='mass', loading_unit='mg')], log=log)
run("different loading AND material basis (loading wins)", isosteric_enthalpy,
    [good[0], model_iso('Langmuir', 20, 320, loading_basis='mass', loading_unit='mg',
                        material_basis='molar', material_unit='mol')], log=log)
run("one isotherm, bad material irrelevant", isosteric_enthalpy, [good[0]], loading_points=[1], log=log)
run("model isotherm wrong branch", isosteric_enthalpy, good, branch='des', log=log)
run("model isotherm wrong branch explicit", isosteric_enthalpy, good, branch='des', loading_points=[1.0], log=log)
run("bad branch name", isosteric_enthalpy, good, branch='sideways', log=log)
run("same temperature twice", isosteric_enthalpy, [good[0], good[0]], loading_points=[1.0, 2.0], log=log)
run("empty loading points", isosteric_enthalpy, good, loading_points=[], log=log)
run("scalar loading point", isosteric_enthalpy, good, loading_points=1.0, log=log)
run("loading above capacity (model)", isosteric_enthalpy, good, loading_points=[1.0, 5.5], log=log)
run("zero loading (model)", isosteric_enthalpy, good, loading_points=[0.0, 1.0], log=log)
pts = [point_iso('Langmuir', 20, 300), point_iso('Langmuir', 20, 320)]
run("loading outside range (point)", isosteric_enthalpy, pts, loading_points=[1.0, 50.0], log=log)
run("point wrong branch", isosteric_enthalpy, pts, branch='des', log=log)
run("not isotherms", isosteric_enthalpy, [1, 2], log=log)
run("None", isosteric_enthalpy, None, log=log)

# 5. inputs are left untouched, result container layout
before = [(i.units, i.model.params, i.model.loading_range) for i in good]
res = isosteric_enthalpy(good)
after = [(i.units, i.model.params, i.model.loading_range) for i in good]
print("untouched", before == after, list(res.keys()), [type(v).__name__ for v in res.values()])
lp = [0.5, 1.5]
res = isosteric_enthalpy(good, loading_points=lp)
print("loading is the object passed", res['loading'] is lp)
