"""Differential script for change 3: explicit equations of BET, GAB (loading, spreading pressure)
and Wilson-VST (pressure), directly, through their inverses and through a ModelIsotherm."""
import warnings

import numpy

warnings.filterwarnings("ignore")
numpy.seterr(all="ignore")

import pygaps
from pygaps.modelling import get_isotherm_model

nan = numpy.nan
f64 = numpy.float64


def canon(v):
    """Canonical text of a result: type, shape, dtype, values to 17 significant digits."""
    if isinstance(v, numpy.ndarray):
        vals = ", ".join(f"{x:.17g}" if isinstance(x, float) else repr(x) for x in v.ravel().tolist())
        return f"ndarray{v.shape}:{v.dtype}[{vals}]"
    if isinstance(v, (float, numpy.floating)):
        return f"{type(v).__name__}:{float(v):.17g}"
    if isinstance(v, (list, tuple)):
        return type(v).__name__ + "(" + ", ".join(canon(x) for x in v) + ")"
    return f"{type(v).__name__}:{v!r}"


def run(label, fn, *args):
    try:
        res = canon(fn(*args))
    except Exception as err:  # noqa
        res = f"EXC {type(err).__name__}: {err}"
    print(f"{label} -> {res}")


# model, parameters, pressure scale (pole / validity limit), loading scale (saturation or monolayer)
MODELS = [
    ("BET", dict(n_m=1.0, C=100.0, N=0.01), 100.0, 3.0),
    ("BET", dict(n_m=5.3, C=35.7, N=0.9), 1 / 0.9, 16.0),
    ("BET", dict(n_m=0.02, C=1e4, N=1.0), 1.0, 0.06),
    ("BET", dict(n_m=12.0, C=0.5, N=0.5), 2.0, 36.0),  # C == N
    ("BET", dict(n_m=12.0, C=0.2, N=0.7), 1 / 0.7, 36.0),  # C < N
    ("BET", dict(n_m=3.0, C=0.0, N=0.3), 1 / 0.3, 9.0),  # lower bound of C
    ("BET", dict(n_m=0.0, C=10.0, N=0.3), 1 / 0.3, 1.0),  # lower bound of n_m
    ("BET", dict(n_m=2.0, C=10.0, N=0.0), 10.0, 2.0),  # lower bound of N (Langmuir limit)
    ("BET", dict(n_m=f64(2.5), C=f64(80.0), N=f64(0.04)), 25.0, 7.5),
    ("BET", dict(n_m=2, C=50, N=1), 1, 6),  # integer parameters
    ("BET", dict(n_m=nan, C=nan, N=nan), 1.0, 1.0),
    ("GAB", dict(n_m=1.0, C=100.0, K=0.01), 100.0, 3.0),
    ("GAB", dict(n_m=5.3, C=35.7, K=0.9), 1 / 0.9, 16.0),
    ("GAB", dict(n_m=8.0, C=1.0, K=0.5), 2.0, 24.0),  # C == 1
    ("GAB", dict(n_m=8.0, C=0.3, K=0.5), 2.0, 24.0),  # C < 1
    ("GAB", dict(n_m=8.0, C=0.0, K=0.5), 2.0, 24.0),
    ("GAB", dict(n_m=8.0, C=5.0, K=0.0), 2.0, 24.0),
    ("GAB", dict(n_m=f64(0.7), C=f64(2e3), K=f64(0.8)), 1.25, 2.0),
    ("GAB", dict(n_m=2, C=50, K=1), 1, 6),
    ("GAB", dict(n_m=nan, C=nan, K=nan), 1.0, 1.0),
    ("WVST", dict(n_m=4.0, K=2.0, L1v=1.0, Lv1=1.0), 10.0, 4.0),  # Langmuir limit
    ("WVST", dict(n_m=4.0, K=2.0, L1v=0.4, Lv1=1.7), 10.0, 4.0),
    ("WVST", dict(n_m=20.0, K=0.05, L1v=2.5, Lv1=0.3), 500.0, 20.0),
    ("WVST", dict(n_m=1.0, K=1.0, L1v=0.05, Lv1=0.05), 1.0, 1.0),
    ("WVST", dict(n_m=7.5, K=30.0, L1v=1.0, Lv1=3.0), 0.2, 7.5),
    ("WVST", dict(n_m=4.0, K=2.0, L1v=-0.5, Lv1=1.2), 5.0, 4.0),  # bounds are (-inf, inf): pole inside
    ("WVST", dict(n_m=4.0, K=2.0, L1v=0.0, Lv1=0.0), 5.0, 4.0),
    ("WVST", dict(n_m=4.0, K=0.0, L1v=1.5, Lv1=0.5), 5.0, 4.0),  # lower bound of K
    ("WVST", dict(n_m=0.0, K=1.0, L1v=1.5, Lv1=0.5), 5.0, 1.0),  # lower bound of n_m
    ("WVST", dict(n_m=f64(2.2), K=f64(7.0), L1v=f64(3.0), Lv1=f64(0.1)), 0.3, 2.2),
    ("WVST", dict(n_m=3, K=2, L1v=1, Lv1=2), 2, 3),
    ("WVST", dict(n_m=nan, K=nan, L1v=nan, Lv1=nan), 1.0, 1.0),
]
FUNCS = ("loading", "spreading_pressure")  # explicit functions taking a pressure


def arguments(top):
    """top: the pole / validity limit (pressure) or the saturation (loading)."""
    return [
        ("py0", 0.0),
        ("pyint0", 0),
        ("pyint1", 1),
        ("tiny", 1e-12 * top),
        ("low", 0.01 * top),
        ("mid", 0.35 * top),
        ("high", 0.95 * top),
        ("at-top", top),
        ("above", 1.7 * top),
        ("neg", -0.3 * top),
        ("np-scalar", f64(0.5 * top)),
        ("np-zero", f64(0.0)),
        ("0d", numpy.array(0.21 * top)),
        ("0d-zero", numpy.array(0.0)),
        ("1d-one", numpy.array([0.6 * top])),
        ("1d-zero", numpy.array([0.0])),
        ("1d", numpy.linspace(0, 0.9 * top, 7)),
        ("1d-nozero", numpy.linspace(0.05 * top, 0.9 * top, 6)),
        ("1d-log", numpy.logspace(-8, -0.02, 6) * top),
        ("1d-zero-and-top", numpy.array([0.0, top, 2 * top, -top])),
        ("1d-f32", numpy.linspace(0, 0.9 * top, 4).astype("float32")),
        ("1d-int", numpy.array([0, 1, 2, 3])),
        ("2d", numpy.array([[0.0, 0.2 * top], [0.3 * top, 0.4 * top]])),
        ("empty", numpy.array([])),
        ("list", [0.1 * top, 0.2 * top]),
        ("nan", nan),
        ("inf", numpy.inf),
        ("1d-nan-inf", numpy.array([0.1 * top, nan, numpy.inf, -numpy.inf])),
        ("none", None),
        ("str", "a"),
    ]


def fresh(val):
    """Copies: a function may work in place on its argument."""
    return val.copy() if isinstance(val, numpy.ndarray) else val


for mname, params, ptop, ltop in MODELS:
    model = get_isotherm_model(mname, parameters=params)
    tag = mname + "(" + ",".join(f"{k}={v!r}" for k, v in params.items()) + ")"
    for name, val in arguments(ptop):
        for func in FUNCS:
            run(f"{tag}.{func}({name})", getattr(model, func), fresh(val))
        run(f"{tag} p(n({name}))", lambda v: model.pressure(model.loading(v)), fresh(val))
    for name, val in arguments(ltop):
        arg = fresh(val)
        run(f"{tag}.pressure({name})", model.pressure, arg)
        if isinstance(val, numpy.ndarray):
            print("   argument untouched:", canon(arg) == canon(val))
        run(f"{tag} n(p({name}))", lambda v: model.loading(model.pressure(v)), fresh(val))

# type / ownership of the result where the nan handling kicked in and where it did not
for mname, params, ptop, ltop in MODELS[::5]:
    model = get_isotherm_model(mname, parameters=params)
    for name, val in [("arr-with-zero", numpy.array([0.0, 0.2 * ltop, 0.5 * ltop])), ("arr-no-zero", numpy.array([0.2 * ltop, 0.5 * ltop]))]:
        try:
            res = model.pressure(val)
            print(mname, name, type(res).__name__, res.flags.writeable, res.flags.owndata, canon(res))
        except Exception as err:  # noqa
            print(mname, name, f"EXC {type(err).__name__}: {err}")

# through a ModelIsotherm (unit conversions around the model)
for mname, params, ptop, ltop in MODELS[::4]:
    if any(v != v for v in params.values()):
        continue
    model = get_isotherm_model(mname, parameters=params)
    iso = pygaps.ModelIsotherm(
        model=model, material="m", adsorbate="nitrogen", temperature=77.0,
        pressure_mode="absolute", pressure_unit="bar",
        loading_basis="molar", loading_unit="mmol", material_basis="mass", material_unit="g",
    )
    tag = "iso " + mname + str(sorted(params.items()))
    pts = numpy.linspace(0, 0.9 * ptop, 6)
    run(tag + " loading_at", iso.loading_at, pts)
    run(tag + " loading_at scalar", iso.loading_at, float(pts[1]))
    run(tag + " loading_at cm3", lambda p: iso.loading_at(p, loading_basis="volume_gas", loading_unit="cm3"), pts)
    run(tag + " loading_at kPa", lambda p: iso.loading_at(p * 100, pressure_unit="kPa"), pts)
    run(tag + " loading_at relative", lambda p: iso.loading_at(p / 2, pressure_mode="relative"), pts)
    lds = numpy.linspace(0, 0.9 * ltop, 6)
    run(tag + " pressure_at", iso.pressure_at, lds)
    run(tag + " pressure_at scalar 0", iso.pressure_at, 0)
    run(tag + " pressure_at scalar", iso.pressure_at, float(lds[2]))
    run(tag + " pressure_at list", iso.pressure_at, list(lds))
    run(tag + " pressure_at mol/kg", lambda n: iso.pressure_at(n / 1000, loading_unit="mol", material_unit="kg", material_basis="mass"), lds)
    run(tag + " pressure_at ->kPa", lambda n: iso.pressure_at(n, pressure_unit="kPa"), lds)
    run(tag + " pressure_at ->relative", lambda n: iso.pressure_at(n, pressure_mode="relative"), lds)
    run(tag + " spreading_pressure_at", iso.spreading_pressure_at, pts)
