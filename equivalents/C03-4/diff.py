"""Differential script for change 4: ModelIsotherm.pressure / pressure_at output conversion of pressure."""
import numpy
from eqcommon import COUNT
from eqcommon import LOADING_REQ
from eqcommon import PRESSURE_REQ
from eqcommon import STORED
from eqcommon import kw
from eqcommon import model_iso
from eqcommon import run

import pygaps

MODELS = {
    "Langmuir": dict(model="Langmuir", parameters={
        "K": 6.0,
        "n_m": 6.5
    }),
    "Henry": dict(model="Henry", parameters={"K": 5.0}),
    "Virial": dict(model="Virial", parameters={
        "K": 10.0,
        "A": 0.1,
        "B": 0.01,
        "C": 0.0
    }),
    "Langmuir-des": dict(model="Langmuir", parameters={
        "K": 4.0,
        "n_m": 7.0
    }, branch="des"),
}
LIMITS = [
    None, (None, None), (0.2, None), (None, 0.5), (0.2, 0.6), [0.2, 0.6], (0.6, 0.2), (0, None), (None, 0), (),
    (None, ), (0.2, ),
    numpy.array([0.2, 0.6])
]

print("== pressure(): stored x requested")
for mname, margs in MODELS.items():
    for sname, stored in STORED.items():
        iso = model_iso(**margs, **stored)
        for req in PRESSURE_REQ:
            run(f"P[{mname}|{sname}|{kw(req)}]", lambda: iso.pressure(7, **req))
        run(f"P[{mname}|{sname}|default-points]", lambda: iso.pressure(pressure_unit="Pa"))
        run(f"P[{mname}|{sname}|indexed]", lambda: iso.pressure(5, pressure_mode="relative", indexed=True))
        for branch in (None, "ads", "des", "all", "bad", ""):
            run(f"P[{mname}|{sname}|branch={branch!r}]", lambda: iso.pressure(4, branch=branch, pressure_unit="kPa"))

print("== pressure(): limits in the requested representation")
for mname in ("Langmuir", "Virial"):
    iso = model_iso(**MODELS[mname])
    for lim in LIMITS:
        for indexed in (False, True):
            run(f"Plim[{mname}|{lim!r}|{indexed}]", lambda: iso.pressure(9, limits=lim, indexed=indexed))
    for req, lim in [
        (dict(pressure_unit="Pa"), (20000, 60000)),
        (dict(pressure_unit="Pa"), (None, 35000.0)),
        (dict(pressure_mode="relative"), (0.2, None)),
        (dict(pressure_mode="relative%"), (20, 70)),
        (dict(pressure_unit="torr"), (1e9, None)),
        (dict(pressure_unit="bad"), (1, 2)),
    ]:
        run(f"Plim[{mname}|{kw(req)}|{lim}]", lambda: iso.pressure(9, limits=lim, **req))

print("== pressure_at(): stored x requested output x foreign input")
L_IN = [
    ({}, [0.5, 1.0, 2.5, 5.5]),
    ({}, 2.0),
    ({}, []),
    (dict(loading_unit="mol"), [0.001, 0.004]),
    (dict(loading_basis="mass", loading_unit="mg"), [30.0, 90.0]),
    (dict(material_unit="kg"), [1000.0, 3000.0]),
    (dict(material_basis="volume", material_unit="cm3"), [2.0, 8.0]),
    (dict(loading_basis="percent", loading_unit="x"), [3.0, 9.0]),
    (dict(loading_basis="mass"), [1.0]),
    (dict(material_basis="volume"), [1.0]),
    (dict(loading_unit="bad"), [1.0]),
]
for mname, margs in MODELS.items():
    for sname, stored in STORED.items():
        iso = model_iso(**margs, **stored)
        l_nat = iso.loading(5)
        for req in PRESSURE_REQ:
            run(f"PA[{mname}|{sname}|{kw(req)}]", lambda: iso.pressure_at(l_nat, **req))
            run(f"PA[{mname}|{sname}|{kw(req)}|scalar]", lambda: iso.pressure_at(float(l_nat[2]), **req))
        for branch in (None, "ads", "des", "all", "bad", ""):
            run(f"PA[{mname}|{sname}|branch={branch!r}]", lambda: iso.pressure_at(l_nat[1:3], branch=branch, pressure_unit="Pa"))
    iso = model_iso(**margs)
    for l_req, vals in L_IN:
        for p_req in ({}, dict(pressure_unit="Pa"), dict(pressure_mode="relative"), dict(pressure_unit="bad")):
            run(f"PA[{mname}|in:{kw(l_req)}|out:{kw(p_req)}|{vals}]", lambda: iso.pressure_at(vals, **l_req, **p_req))

print("== round trips and neighbours (loading / loading_at unchanged)")
for mname, margs in MODELS.items():
    for sname in ("bar|mmol/g", "rel%|g/cm3", "kPa|frac/mol"):
        iso = model_iso(**margs, **STORED[sname])
        for req in LOADING_REQ[:12]:
            run(f"L[{mname}|{sname}|{kw(req)}]", lambda: iso.loading(5, **req))
        for req in PRESSURE_REQ[:8]:
            run(
                f"LA.of.P[{mname}|{sname}|{kw(req)}]", lambda: iso.
                loading_at(iso.pressure(5, **req), pressure_mode=req.get("pressure_mode"), pressure_unit=req.get("pressure_unit"))
            )
        run(f"spreading[{mname}|{sname}]", lambda: iso.spreading_pressure_at(iso.pressure(4)))

print("== supercritical / unknown adsorbate, permanent conversion comparison")
for ads, temp in (("N2", 300.0), ("no-such-gas", 77.0)):
    for mname in ("Langmuir", "Virial"):
        iso = model_iso(**MODELS[mname], adsorbate=ads, temperature=temp)
        for req in (dict(pressure_mode="relative"), dict(pressure_unit="Pa"), dict(pressure_mode="relative%")):
            run(f"P[{mname}|{ads}@{temp}|{kw(req)}]", lambda: iso.pressure(4, **req))
            run(f"PA[{mname}|{ads}@{temp}|{kw(req)}]", lambda: iso.pressure_at([1.0, 2.0], **req))
iso = model_iso(**MODELS["Langmuir"])
run("to_point", lambda: pygaps.PointIsotherm.from_modelisotherm(iso, pressure_points=[0.1, 0.4, 0.8]).data())
run(
    "to_point.converted", lambda: (
        lambda piso: (piso.convert_pressure(mode_to="relative"), piso.pressure())[1]
    )(pygaps.PointIsotherm.from_modelisotherm(iso, pressure_points=[0.1, 0.4, 0.8]))
)
run("to_point.direct", lambda: iso.pressure_at(iso.loading_at([0.1, 0.4, 0.8]), pressure_mode="relative"))
run("state-untouched", lambda: [iso.pressure_mode, iso.pressure_unit, iso.model.pressure_range, iso.model.loading_range])

print("cases:", COUNT[0])
