"""Differential script for change 4 (psd_bjh / psd_dollimore_heal step helpers and loops).

Runs the whole low-level sweep of diff3.py on the two cylinder-only methods, then the
high-level entry point on the example isotherms with both methods."""
import glob
import itertools
import os
import runpy
import sys

from eqfmt import run

sys.argv = [sys.argv[0], "cyl"]
runpy.run_path(os.path.join(os.path.dirname(os.path.abspath(__file__)), "diff3.py"), run_name="__main__")

import pygaps.characterisation.psd_meso as pmes  # noqa: E402
import pygaps.parsing as pgp  # noqa: E402

thick = ["Halsey", "Harkins/Jura", "SiO2 Jaroniec/Kruk/Olivier", "carbon black Kruk/Jaroniec/Gadkaree", "zero thickness"]
for f in sorted(glob.glob('docs/examples/data/characterisation/*.json')):
    iso = pgp.isotherm_from_json(f)
    name = f.split('/')[-1].split(' N2')[0]
    for model, branch, tm in itertools.product(['BJH', 'DH'], ['ads', 'des'], thick):
        run(f"meso {name} {model} {branch} {tm}", pmes.psd_mesoporous, iso, psd_model=model, branch=branch,
            thickness_model=tm)
    for model, lim in itertools.product(['BJH', 'DH'], [(None, None), (0.3, 0.95), (0.05, 0.5)]):
        run(f"meso {name} {model} KJS {lim}", pmes.psd_mesoporous, iso, psd_model=model, branch='ads',
            kelvin_model='Kelvin-KJS', p_limits=lim)
