"""Differential script for change 1: numerical inverses (root finding) of the models."""
import warnings

import numpy

warnings.filterwarnings("ignore")
numpy.seterr(all="ignore")

from pygaps.modelling import get_isotherm_model


def canon(v):
    """Canonical text of a result: type, shape, values to 12 significant digits."""
    if isinstance(v, numpy.ndarray):
        vals = ", ".join(f"{x:.17g}" for x in v.ravel().tolist())
        return f"ndarray{v.shape}:{v.dtype}[{vals}]"
    if isinstance(v, (float, numpy.floating)):
        return f"{type(v).__name__}:{float(v):.17g}"
    if isinstance(v, (list, tuple)):
        return type(v).__name__ + "(" + ", ".join(canon(x) for x in v) + ")"
    return f"{type(v).__name__}:{v!r}"


def run(label, fn, *args):
    try:
        res = canon(fn(*args))
    except Exception as err:  # noqa
        res = f"EXC {type(err).__name__}: {err}"
    print(f"{label} -> {res}")


def inputs(top):
    """Scalars, 0-d, 1-d arrays, lists, zero point, out of range, negative, nan."""
    return [
        ("py0", 0.0),
        ("pyint0", 0),
        ("py-small", 1e-9 * top),
        ("py-mid", 0.37 * top),
        ("py-high", 0.93 * top),
        ("np-scalar", numpy.float64(0.5 * top)),
        ("0d", numpy.array(0.21 * top)),
        ("0d-zero", numpy.array(0.0)),
        ("1d-one", numpy.array([0.6 * top])),
        ("1d", numpy.linspace(0, 0.9 * top, 7)),
        ("1d-log", numpy.logspace(-6, -0.05, 6) * top),
        ("list", [0.1 * top, 0.2 * top, 0.8 * top]),
        ("2d", numpy.array([[0.1 * top, 0.2 * top], [0.3 * top, 0.4 * top]])),
        ("empty", numpy.array([])),
        ("above", 1.5 * top),
        ("way-above", 50.0 * top),
        ("1d-with-above", numpy.array([0.1 * top, 3.0 * top])),
        ("negative", -0.2 * top),
        ("nan", numpy.nan),
        ("inf", numpy.inf),
        ("int-array", numpy.array([0, 1, 2])),
        ("none", None),
        ("str", "a"),
    ]


CASES = [
    # model, parameters, function that is a numerical inverse, scale of its argument
    ("TSLangmuir", dict(n_m1=2.0, K1=3.0, n_m2=1.5, K2=0.2, n_m3=0.7, K3=40.0), "pressure", 4.2),
    ("TSLangmuir", dict(n_m1=0.1, K1=1e-3, n_m2=10, K2=5.0, n_m3=3.0, K3=1e3), "pressure", 13.1),
    ("TSLangmuir", dict(n_m1=0.0, K1=0.0, n_m2=1.0, K2=1.0, n_m3=0.0, K3=0.0), "pressure", 1.0),
    ("TemkinApprox", dict(n_m=5.0, K=2.0, tht=0.0), "pressure", 5.0),
    ("TemkinApprox", dict(n_m=5.0, K=2.0, tht=-0.8), "pressure", 5.0),
    ("TemkinApprox", dict(n_m=0.3, K=150.0, tht=0.9), "pressure", 0.3),
    ("TemkinApprox", dict(n_m=12.0, K=0.01, tht=2.5), "pressure", 12.0),
    ("JensenSeaton", dict(K=10.0, a=3.0, b=0.05, c=1.0), "pressure", 3.0),
    ("JensenSeaton", dict(K=2.0, a=1.0, b=0.0, c=0.4), "pressure", 1.0),
    ("JensenSeaton", dict(K=500.0, a=8.0, b=0.3, c=3.0), "pressure", 8.0),
    ("FHVST", dict(n_m=4.0, K=2.0, a1v=0.0), "loading", 10.0),
    ("FHVST", dict(n_m=4.0, K=2.0, a1v=1.3), "loading", 10.0),
    ("FHVST", dict(n_m=0.5, K=300.0, a1v=-0.7), "loading", 0.05),
    ("WVST", dict(n_m=4.0, K=2.0, L1v=1.0, Lv1=1.0), "loading", 10.0),
    ("WVST", dict(n_m=4.0, K=2.0, L1v=0.4, Lv1=1.7), "loading", 10.0),
    ("WVST", dict(n_m=20.0, K=0.05, L1v=2.5, Lv1=0.3), "loading", 500.0),
    ("FHVST", dict(n_m=1.0, K=1.0, a1v=5.0), "loading", 1.0),
    ("FHVST", dict(n_m=100.0, K=1e-3, a1v=0.2), "loading", 1e4),
    ("FHVST", dict(n_m=numpy.float64(2.2), K=numpy.float64(7.0), a1v=numpy.float64(-0.99)), "loading", 0.3),
    ("FHVST", dict(n_m=3, K=2, a1v=1), "loading", 2),
    ("WVST", dict(n_m=1.0, K=1.0, L1v=0.05, Lv1=0.05), "loading", 1.0),
    ("WVST", dict(n_m=7.5, K=30.0, L1v=1.0, Lv1=3.0), "loading", 0.2),
    ("WVST", dict(n_m=3, K=2, L1v=1, Lv1=2), "loading", 2),
    ("WVST", dict(n_m=4.0, K=2.0, L1v=-0.5, Lv1=1.2), "loading", 5.0),
]

for name, params, func, top in CASES:
    model = get_isotherm_model(name, parameters=params)
    direct = "loading" if func == "pressure" else "pressure"
    for tag, val in inputs(top):
        label = f"{name}{sorted(params.items())}.{func}({tag})"
        run(label, getattr(model, func), val)
        # round trip through the explicit equation, where the inverse worked
        def roundtrip(v, model=model, func=func, direct=direct):
            return getattr(model, direct)(getattr(model, func)(v))
        run(label + " roundtrip", roundtrip, val)

# default (nan) parameters and models built without parameters
for name, func in [("TSLangmuir", "pressure"), ("TemkinApprox", "pressure"), ("JensenSeaton", "pressure"),
                   ("FHVST", "loading"), ("WVST", "loading")]:
    model = get_isotherm_model(name)
    run(f"{name} nan-params .{func}(1.0)", getattr(model, func), 1.0)
    run(f"{name} nan-params .{func}([0, 1])", getattr(model, func), numpy.array([0.0, 1.0]))

# through a ModelIsotherm with unit conversions
import pygaps

for name, params, func, top in CASES[::3]:
    model = get_isotherm_model(name, parameters=params)
    iso = pygaps.ModelIsotherm(
        model=model, material="m", adsorbate="nitrogen", temperature=77.0,
        pressure_mode="absolute", pressure_unit="bar",
        loading_basis="molar", loading_unit="mmol", material_basis="mass", material_unit="g",
    )
    pts = numpy.linspace(0, 0.9 * top, 5)
    if func == "pressure":
        run(f"iso {name} pressure_at", iso.pressure_at, pts)
        run(f"iso {name} pressure_at kPa/mol", lambda p: iso.pressure_at(p / 1000, pressure_unit="kPa", loading_unit="mol"), pts)
        run(f"iso {name} pressure_at too high", iso.pressure_at, 40 * top)
    else:
        run(f"iso {name} loading_at", iso.loading_at, pts)
        run(f"iso {name} loading_at kPa/mol", lambda p: iso.loading_at(p * 100, pressure_unit="kPa", loading_unit="mol"), pts)
        run(f"iso {name} loading_at relative", lambda p: iso.loading_at(p / 1000, pressure_mode="relative"), pts)
