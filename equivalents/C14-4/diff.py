"""Differential script for change 4: area_langmuir_raw (region selection) and langmuir_fit."""
import numpy

from eqcommon import bet_iso
from eqcommon import grid
from eqcommon import lang_iso
from eqcommon import run_case

import pygaps
from pygaps.characterisation.area_lang import area_langmuir
from pygaps.characterisation.area_lang import area_langmuir_raw
from pygaps.characterisation.area_lang import langmuir_fit
from pygaps.characterisation.area_lang import langmuir_transform

CS = 0.162

# ---- default window (5 % - 90 % of highest pressure) on exact Langmuir isotherms
n = 0
for nm in (1e-4, 4.7e-3, 1e-1):
    for k in (0.5, 8.0, 90.0, 500.0):
        for npts, kind, hi in ((5, "lin", 0.9), (12, "log", 1.0), (40, "lin", 0.5), (100, "rnd", 0.99)):
            n += 1
            p = grid(npts, 0.004, hi, kind, seed=n)
            run_case(f"auto nm={nm} k={k} n={npts} {kind}", area_langmuir_raw, p, lang_iso(p, nm, k), CS)

# ---- cross sections, list input
p = grid(30, 0.01, 0.9)
for cs in (0.1, 0.142, 0.21, 0.5):
    run_case(f"auto lists cs={cs}", area_langmuir_raw, list(p), list(lang_iso(p, 2e-3, 30)), cs)

# ---- non-Langmuir / degenerate data
run_case("bet data auto", area_langmuir_raw, p, bet_iso(p, 3e-3, 100), CS)
run_case("negative const", area_langmuir_raw, p, p / (p - 2), CS)
run_case("linear isotherm (zero slope)", area_langmuir_raw, p, 2.0 * p, CS)
loadn = lang_iso(p, 2e-3, 30).copy()
loadn[10] = numpy.nan
run_case("nan loading", area_langmuir_raw, p, loadn, CS)
load0 = lang_iso(p, 2e-3, 30).copy()
load0[5] = 0.0
run_case("zero loading inside", area_langmuir_raw, p, load0, CS)
run_case("zero first point", area_langmuir_raw, numpy.r_[0.0, p], numpy.r_[0.0, lang_iso(p, 2e-3, 30)], CS)
run_case("all-zero pressures", area_langmuir_raw, numpy.zeros(6), numpy.ones(6), CS)
run_case("integer arrays", area_langmuir_raw, numpy.arange(1, 30), numpy.arange(1, 30) * 2, CS)
run_case("pressure above one", area_langmuir_raw, p * 40, lang_iso(p * 40, 2e-3, 0.3), CS)

# ---- short / invalid input
run_case("empty", area_langmuir_raw, [], [], CS)
run_case("mismatch", area_langmuir_raw, [0.1, 0.2, 0.3], [1, 2], CS)
run_case("one point", area_langmuir_raw, [0.1], [1.0], CS)
run_case("two points", area_langmuir_raw, [0.1, 0.2], [1.0, 1.5], CS)
run_case("three points auto", area_langmuir_raw, [0.1, 0.2, 0.3], [1.0, 1.5, 1.8], CS)
run_case("three points all", area_langmuir_raw, [0.1, 0.2, 0.3], [1.0, 1.5, 1.8], CS, (None, None))
run_case("five points auto", area_langmuir_raw, [0.1, 0.2, 0.3, 0.4, 0.5], [1.0, 1.5, 1.8, 2.0, 2.1], CS)

# ---- manual limits
p = grid(50, 0.005, 0.95, "log")
load = lang_iso(p, 4.2e-3, 12)
for lim in (
    (0.05, 0.3), (None, 0.3), (0.05, None), (None, None), (0, 0.35), (0.05, 0), (0.0, 0.0),
    (0.2, 0.21), (0.3, 0.05), (0.9, 2), (-1, 0.2), (p[10], p[20]), (p[10], p[12]), (p[10], p[13]),
    [0.1, 0.4], (0.001, 0.0051), (0.1, ), (0.1, 0.5, 0.7),
):
    run_case(f"manual {lim}", area_langmuir_raw, p, load, CS, lim)
run_case("manual keyword", area_langmuir_raw, p, load, CS, p_limits=(0.06, 0.25))
lims = [0.1, 0.6]
run_case("manual list object", area_langmuir_raw, p, load, CS, lims)
print("list untouched:", lims)

# ---- langmuir_fit directly
for k in (0.5, 30, 500):
    pl = grid(15, 0.02, 0.8)
    run_case(f"fit k={k}", langmuir_fit, pl, langmuir_transform(pl, lang_iso(pl, 1e-2, k)))
run_case("fit lists", langmuir_fit, [0.1, 0.2, 0.4], [3.0, 4.1, 6.2])
run_case("fit identical x", langmuir_fit, [0.1, 0.1, 0.1], [3.0, 4.1, 6.2])
run_case("fit empty", langmuir_fit, [], [])
run_case("fit mismatch", langmuir_fit, [0.1, 0.2], [1.0])
run_case("fit two points", langmuir_fit, [0.1, 0.2], [1.0, 2.0])

# ---- isotherm entry point
for nm, k, lim in ((3e-3, 10, None), (8e-3, 200, None), (3e-3, 10, (0.05, 0.6)), (3e-3, 10, (0.2, 0.22))):
    pp = grid(35, 0.005, 0.93)
    iso = pygaps.PointIsotherm(
        pressure=pp,
        loading=lang_iso(pp, nm, k) * 1000,
        material="gen",
        adsorbate="N2",
        temperature=77.355,
        temperature_unit="K",
        pressure_unit="bar",
        pressure_mode="relative",
        loading_basis="molar",
        loading_unit="mmol",
        material_basis="mass",
        material_unit="g",
    )
    run_case(f"iso nm={nm} k={k} lim={lim}", area_langmuir, iso, p_limits=lim)
    run_case(f"iso des nm={nm} k={k} lim={lim}", area_langmuir, iso, branch="des", p_limits=lim)
