"""Differential script for change 4: initial_henry_slope (limit defaults / point-dropping fit loop)."""
import logging
import warnings
from pathlib import Path

import matplotlib
import numpy

import pygaps
import pygaps.parsing as pgp
from pygaps.characterisation import initial_henry as ih

warnings.filterwarnings("ignore")

ROOT = Path(__file__).resolve().parent.parent
DATA = ROOT / 'docs' / 'examples' / 'data' / 'characterisation'


class ListHandler(logging.Handler):
    def __init__(self):
        super().__init__()
        self.msgs = []

    def emit(self, record):
        self.msgs.append(f"{record.levelname}:{record.getMessage()}")


HANDLER = ListHandler()
pygaps.logger.addHandler(HANDLER)
pygaps.logger.propagate = False


def canon(obj):
    if isinstance(obj, dict):
        return "{" + ", ".join(f"{k!r}: {canon(v)}" for k, v in sorted(obj.items(), key=lambda kv: str(kv[0]))) + "}"
    if isinstance(obj, numpy.ndarray):
        return f"array<{obj.dtype}>[" + ", ".join(canon(v) for v in obj.tolist()) + "]"
    if isinstance(obj, (list, tuple)):
        return type(obj).__name__ + "(" + ", ".join(canon(v) for v in obj) + ")"
    if isinstance(obj, (bool, numpy.bool_)):
        return f"{type(obj).__name__}:{bool(obj)}"
    if isinstance(obj, (int, numpy.integer)):
        return f"{type(obj).__name__}:{int(obj)}"
    if isinstance(obj, (float, numpy.floating)):
        return f"{type(obj).__name__}:{float(obj):.12g}"
    return f"{type(obj).__name__}:{obj!r}"


def run(label, func, *args, **kwargs):
    HANDLER.msgs.clear()
    try:
        res = canon(func(*args, **kwargs))
    except Exception as err:  # noqa
        res = f"EXC {type(err).__name__}: {err}"
    print(f"--- {label}")
    print(res)
    for msg in HANDLER.msgs:
        print("   log:", msg)


matplotlib.use('Agg')
FILES = {p.stem.split(' N2')[0]: p for p in sorted(DATA.glob('*.json'))}
FILES.update({'BAX' + p.stem[-3:]: p for p in sorted((DATA.parent / 'isosteric').glob('*.json'))})


def load(name, **kw):
    iso = pgp.isotherm_from_json(FILES[name])
    if kw:
        iso.convert(**kw)
    return iso


isos = {name: load(name) for name in FILES}

# 1. defaults, every sample; tolerance sweep
for name, iso in isos.items():
    run(f"slope {name}", ih.initial_henry_slope, iso)
    for tol in [0.0, 1e-6, 0.001, 0.01, 0.05, 0.2, 1.0, 100, -1.0, numpy.nan, numpy.inf]:
        run(f"slope {name} max_adjrms={tol}", ih.initial_henry_slope, iso, max_adjrms=tol)
    run(f"slope {name} des", ih.initial_henry_slope, iso, branch='des')
    run(f"slope {name} bogus branch", ih.initial_henry_slope, iso, branch='bogus')

# 2. limits
plims = [None, (None, None), (0, 0.1), (0.01, 0.5), (None, 0.2), (0.05, None), [0, 1e-3], (0.5, 0.1), (10, 20), (), [], (0, 0)]
llims = [None, (None, None), (0, 5), (2, 8), (None, 3), (1, None), [0, 0.01], (100, 200), ()]
for name in ('MCM-41', 'Takeda 5A', 'BAX298'):
    for pl in plims:
        for ll in llims:
            run(f"slope {name} p_limits={pl} l_limits={ll}", ih.initial_henry_slope, isos[name], p_limits=pl, l_limits=ll)
    run(f"slope {name} des limits", ih.initial_henry_slope, isos[name], branch='des', p_limits=(0, 0.5), l_limits=(0, 10))

# 3. stored unit representations
conversions = [
    {'pressure_unit': 'Pa'},
    {'pressure_unit': 'torr'},
    {'pressure_mode': 'relative'},
    {'pressure_mode': 'relative%'},
    {'loading_unit': 'mol'},
    {'loading_basis': 'mass', 'loading_unit': 'g'},
    {'loading_basis': 'volume_gas', 'loading_unit': 'cm3'},
    {'loading_basis': 'volume_liquid', 'loading_unit': 'cm3'},
    {'loading_basis': 'percent'},
    {'loading_basis': 'fraction'},
    {'material_unit': 'kg'},
    {'pressure_unit': 'kPa', 'loading_basis': 'mass', 'loading_unit': 'mg', 'material_unit': 'kg'},
]
for name in FILES:
    for conv in conversions:
        try:
            iso = load(name, **conv)
        except Exception as err:  # noqa
            print(f"--- convert {name} {conv}: EXC {type(err).__name__}: {err}")
            continue
        run(f"slope {name} {conv}", ih.initial_henry_slope, iso)
        run(f"slope {name} {conv} tol", ih.initial_henry_slope, iso, max_adjrms=0.005)
        run(f"slope {name} {conv} lims", ih.initial_henry_slope, iso, l_limits=(None, 1e9), p_limits=(0, None))

# 4. synthetic point isotherms and model isotherms
common = dict(material='x', adsorbate='nitrogen', temperature=77.355)
synthetic = {
    'exact linear': ([1, 2, 3, 4, 5], [2, 4, 6, 8, 10]),
    'starts at zero': ([0, 1, 2, 3, 4], [0, 2, 4, 5, 5.5]),
    'zero pressure only': ([0, 1, 2, 3], [0.5, 2, 4, 5]),
    'zero loading only': ([0.5, 1, 2, 3], [0, 2, 4, 5]),
    'langmuir': (numpy.linspace(0.1, 5, 25), 5 * 2 * numpy.linspace(0.1, 5, 25) / (1 + 2 * numpy.linspace(0.1, 5, 25))),
    'two points': ([1, 2], [1, 3]),
    'one point': ([1], [2]),
    'one zero point': ([0], [0]),
    'two points from zero': ([0, 2], [0, 3]),
    'convex': (numpy.linspace(0.1, 2, 15), numpy.linspace(0.1, 2, 15)**2),
    'noisy': (numpy.linspace(0.1, 2, 30), 3 * numpy.linspace(0.1, 2, 30) * (1 + 0.1 * numpy.random.default_rng(15).standard_normal(30))),
    'constant loading': ([1, 2, 3, 4], [2, 2, 2, 2]),
    'hysteresis': ([1, 2, 3, 4, 3, 2, 1], [1, 2, 3, 4, 3.5, 2.8, 1.5]),
}
for name, (pr, ld) in synthetic.items():
    try:
        iso = pygaps.PointIsotherm(pressure=list(map(float, pr)), loading=list(map(float, ld)), **common)
    except Exception as err:  # noqa
        print(f"--- synthetic {name}: EXC {type(err).__name__}: {err}")
        continue
    for tol in (0.02, 0.0, 1e-4, 10):
        run(f"slope synthetic {name} tol={tol}", ih.initial_henry_slope, iso, max_adjrms=tol)
    run(f"slope synthetic {name} des", ih.initial_henry_slope, iso, branch='des')
    run(f"slope synthetic {name} lims", ih.initial_henry_slope, iso, p_limits=(0.5, 3.5))
    run(f"slope synthetic {name} l lims", ih.initial_henry_slope, iso, l_limits=(1.5, 4.5))
for model in ('Henry', 'Langmuir', 'DSLangmuir'):
    try:
        miso = pygaps.ModelIsotherm.from_pointisotherm(isos['BAX298'], model=model)
    except Exception as err:  # noqa
        print(f"--- model {model}: EXC {type(err).__name__}: {err}")
        continue
    run(f"slope model {model}", ih.initial_henry_slope, miso)
    run(f"slope model {model} tol", ih.initial_henry_slope, miso, max_adjrms=0.001)
    run(f"slope model {model} lims", ih.initial_henry_slope, miso, p_limits=(0, 2), l_limits=(0, 3))
    run(f"slope model {model} des", ih.initial_henry_slope, miso, branch='des')

# 5. verbose: the log reports the number of points kept (plotting may fail, the log is printed regardless)
for name in ('MCM-41', 'BAX298', 'SiO2'):
    for tol in (0.02, 0.001, 0.0, 5):
        run(f"slope verbose {name} tol={tol}", ih.initial_henry_slope, isos[name], max_adjrms=tol, verbose=True)
        matplotlib.pyplot.close('all')
    run(f"slope verbose {name} lims", ih.initial_henry_slope, isos[name], p_limits=(0, 0.3), verbose=True)
    matplotlib.pyplot.close('all')
for name in ('one point', 'two points', 'starts at zero'):
    pr, ld = synthetic[name]
    iso = pygaps.PointIsotherm(pressure=list(map(float, pr)), loading=list(map(float, ld)), **common)
    run(f"slope verbose synthetic {name}", ih.initial_henry_slope, iso, verbose=True)
    matplotlib.pyplot.close('all')

# 6. virial, for completeness
for name in ('MCM-41', 'BAX298'):
    run(f"virial {name}", ih.initial_henry_virial, isos[name])
