"""Differential script for change 3: numerically integrated spreading pressure (Toth, Jensen-Seaton, DR, DA)."""
import itertools
import warnings

import numpy

import pygaps
from pygaps.modelling import get_isotherm_model

warnings.simplefilter("ignore")


def fmt(x):
    if isinstance(x, (list, tuple)):
        return "[" + ", ".join(fmt(v) for v in x) + "]"
    if isinstance(x, numpy.ndarray):
        if x.ndim == 0:
            return "arr0(" + fmt(x.item()) + ")"
        return "arr[" + ", ".join(fmt(v) for v in x.tolist()) + "]"
    if isinstance(x, (float, numpy.floating)):
        return f"{float(x):.12g}"
    if isinstance(x, (int, numpy.integer)):
        return f"int:{int(x)}"
    return f"{type(x).__name__}:{x!r}"


def run(label, fun, *args, **kwargs):
    try:
        res = fun(*args, **kwargs)
        out = type(res).__name__ + " " + fmt(res)
    except Exception as err:  # noqa
        out = f"EXC {type(err).__name__}: {' '.join(str(err).split())}"
    print(f"{label} -> {out}")


GRID = {
    "Toth": dict(n_m=[0.0, 1.0, 7.5], K=[0.01, 1.0, 300.0], t=[0.2, 1.0, 3.0]),
    "JensenSeaton": dict(K=[0.5, 40.0], a=[0.1, 5.0], b=[0.0, 0.3, 4.0], c=[0.3, 1.0, 2.5]),
    "DR": dict(n_m=[0.0, 1.0, 12.0], e=[1.0, 6.0, 25.0]),
    "DA": dict(n_m=[1.0, 12.0], e=[1.0, 6.0, 25.0], m=[1.0, 2.0, 3.7]),
}
TEMPS = {"Toth": [77.0], "JensenSeaton": [77.0], "DR": [77.0, 298.15], "DA": [77.0, 298.15]}

PRESSURES = [
    0.0, 1e-12, 1e-6, 0.001, 0.05, 0.3, 0.5, 0.9, 0.999, 1.0, 2.0, 50.0, -0.1,
    numpy.float64(0.25), numpy.asarray(0.35), numpy.float32(0.125), 1, True
]

for name, grid in GRID.items():
    keys = list(grid)
    for temp in TEMPS[name]:
        for values in itertools.product(*(grid[k] for k in keys)):
            params = dict(zip(keys, values))
            model = get_isotherm_model(name, parameters=params)
            model.__init_parameters__({"temperature": temp})
            for p in PRESSURES:
                run(f"{name} T={temp} {params} sp({p!r})", model.spreading_pressure, p)
            # the integrand itself
            for p in (1e-6, 0.05, 0.5):
                run(f"{name} T={temp} {params} l({p!r})", model.loading, p)

# odd arguments
for name in GRID:
    params = {k: v[1] for k, v in GRID[name].items()}
    model = get_isotherm_model(name, parameters=params)
    model.__init_parameters__({"temperature": 77.0})
    for p in (None, "a", [0.1, 0.2], numpy.array([0.1, 0.2]), numpy.array([0.3]), float("nan"), float("inf"), 0.1 + 0.2j):
        run(f"{name} odd sp({p!r})", model.spreading_pressure, p)
    # unset parameters
    blank = get_isotherm_model(name)
    blank.__init_parameters__({"temperature": 77.0})
    run(f"{name} blank sp", blank.spreading_pressure, 0.3)
    # model without its derived constants
    bare = get_isotherm_model(name, parameters=params)
    run(f"{name} bare sp", bare.spreading_pressure, 0.3)
    # the class exposes the same public methods
    cls = type(model)
    print(name, "mro", [c.__name__ for c in cls.__mro__])
    print(name, "abstract", sorted(getattr(cls, "__abstractmethods__", ())))
    print(name, "sp defined on", [c.__name__ for c in cls.__mro__ if "spreading_pressure" in vars(c)])
    print(name, "doc", " ".join((cls.spreading_pressure.__doc__ or "").split()))

# through the isotherm interface, with pressure conversion
pygaps.MATERIAL_LIST.append(pygaps.Material("EQMAT", density=2.0, molar_mass=10.0))
BASE = dict(
    material="EQMAT",
    adsorbate="N2",
    temperature=77.0,
    material_basis="mass",
    material_unit="g",
    loading_basis="molar",
    loading_unit="mmol",
)
for name in GRID:
    params = {k: v[-1] for k, v in GRID[name].items()}
    for mode, unit in (("relative", None), ("absolute", "bar"), ("absolute", "kPa"), ("relative%", None)):
        model = get_isotherm_model(name, parameters=params, pressure_range=(0.01, 0.9), loading_range=(0.1, 8.0))
        iso = pygaps.ModelIsotherm(model=model, pressure_mode=mode, pressure_unit=unit, **BASE)
        for kw in (
            dict(), dict(pressure_unit="Pa"), dict(pressure_mode="relative"), dict(pressure_mode="relative%"),
            dict(pressure_mode="absolute", pressure_unit="torr")
        ):
            for p in (0.0, 0.02, 0.4, 0.95, 30.0, 4e4):
                run(f"{name} iso[{mode},{unit}] spa({p}) {kw}", iso.spreading_pressure_at, p, **kw)

# IAST uses the spreading pressure of the models
try:
    from pygaps.iast import pgiast
    isos = []
    for name, par in (("Toth", dict(n_m=5.0, K=8.0, t=0.6)), ("JensenSeaton", dict(K=40.0, a=5.0, b=0.3, c=0.8))):
        model = get_isotherm_model(name, parameters=par, pressure_range=(0.001, 5), loading_range=(0.0, 8.0))
        isos.append(
            pygaps.ModelIsotherm(
                model=model, pressure_mode="absolute", pressure_unit="bar", **{
                    **BASE, "adsorbate": ("N2" if name == "Toth" else "CO2"),
                    "temperature": 298.0
                }
            )
        )
    for y in (0.1, 0.5, 0.85):
        for ptot in (0.5, 2.0):
            run(f"iast y={y} p={ptot}", pgiast.iast_point_fraction, isos, [y, 1 - y], ptot)
except ImportError as err:
    print("no iast", err)
