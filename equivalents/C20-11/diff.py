"""Differential transcript for patch C20-3 (adsorbates_from_db property gathering, load_data)."""
import os
import shutil
import sqlite3
import tempfile

import pygaps
import pygaps.data
from pygaps import ADSORBATE_LIST
from pygaps import MATERIAL_LIST
from pygaps import Adsorbate
from pygaps.parsing import sqlite as pgsql
from pygaps.utilities.sqlite_db_creator import db_create
from pygaps.utilities.sqlite_db_pragmas import PRAGMAS
from pygaps.utilities.sqlite_utilities import db_execute_general

assert pygaps.__file__.startswith('/var/tmp/wt/eq3-10/'), pygaps.__file__
TMP = tempfile.mkdtemp(prefix='c20-3-')


def show(label, fn):
    try:
        res = fn()
        print(label, '->', repr(res))
    except BaseException as err:  # noqa
        print(label, '!!', type(err).__name__, str(err).replace(TMP, '<TMP>'), '| cause', type(err.__cause__).__name__)


def describe(adsorbates):
    return [(a.name, a.alias, [(k, v, type(v).__name__) for k, v in a.properties.items()]) for a in adsorbates]


# ---- what import-time loading produced
print('same list objects', pygaps.data.ADSORBATE_LIST is ADSORBATE_LIST, pygaps.data.MATERIAL_LIST is MATERIAL_LIST)
print('shipped adsorbates', len(ADSORBATE_LIST), 'materials', len(MATERIAL_LIST))
for entry in describe(ADSORBATE_LIST):
    print(entry)
print([m.to_dict() for m in MATERIAL_LIST])

# uniqueness of every name/alias over the list as loaded
owners = {}
for pos, ads in enumerate(ADSORBATE_LIST):
    for nm in set([ads.name.lower()] + ads.alias):
        owners.setdefault(nm, []).append(pos)
print('ambiguous names', sorted((k, v) for k, v in owners.items() if len(v) > 1))

# ---- reading the packaged database directly (keyword, positional, default, verbose)
default_copy = os.path.join(TMP, 'default_copy.db')
shutil.copy(str(pygaps.DATABASE), default_copy)
show('from copy == import-time', lambda: describe(pgsql.adsorbates_from_db(db_path=default_copy)) == describe(ADSORBATE_LIST))
show('positional path', lambda: describe(pgsql.adsorbates_from_db(default_copy, False)) == describe(ADSORBATE_LIST))
show('default path', lambda: describe(pgsql.adsorbates_from_db(verbose=False)) == describe(ADSORBATE_LIST))
show('verbose logs', lambda: len(pgsql.adsorbates_from_db(db_path=default_copy, verbose=True)))
conn = sqlite3.connect(default_copy)
show('with own cursor', lambda: len(pgsql.adsorbates_from_db(cursor=conn.cursor(), verbose=False)))
conn.row_factory = sqlite3.Row
show('with own Row cursor', lambda: describe(pgsql.adsorbates_from_db(cursor=conn.cursor(), verbose=False)) == describe(ADSORBATE_LIST))

def dict_factory(cur, row):
    return {col[0]: row[idx] for idx, col in enumerate(cur.description)}


conn.row_factory = dict_factory
show('with own dict cursor', lambda: describe(pgsql.adsorbates_from_db(cursor=conn.cursor(), verbose=False)))
conn.close()


# ---- hand-made databases
def make_db(name, adsorbates, props, schema=True, loose=False):
    path = os.path.join(TMP, name)
    if schema and not loose:
        for pragma in PRAGMAS:
            db_execute_general(pragma, path)
    conn = sqlite3.connect(path)
    if loose:  # no constraints and no column affinity: anything can be stored
        conn.execute('CREATE TABLE adsorbates (id, name)')
        conn.execute('CREATE TABLE adsorbate_properties (id INTEGER PRIMARY KEY, ads_id, type, value)')
    if schema:
        conn.executemany('INSERT INTO adsorbates (id, name) VALUES (?, ?)', adsorbates)
        conn.executemany('INSERT INTO adsorbate_properties (ads_id, type, value) VALUES (?, ?, ?)', props)
    conn.commit()
    conn.close()
    return path


empty = make_db('empty.db', [], [])
show('empty db', lambda: describe(pgsql.adsorbates_from_db(db_path=empty, verbose=True)))

bare = make_db('bare.db', [], [], schema=False)
show('db without tables', lambda: describe(pgsql.adsorbates_from_db(db_path=bare)))

varied = make_db(
    'varied.db',
    [(1, 'Solo'), (2, 'OneAlias'), (3, 'TwoAlias'), (4, 'ManyAlias'), (7, 'Gap in ids'), (8, 'Mixed Types'),
     (9, 'interleaved')],
    [
        (2, 'alias', 'first'),
        (3, 'alias', 'First'),
        (3, 'alias', 'SECOND'),
        (4, 'alias', 'a'),
        (4, 'formula', 'X_{2}'),
        (4, 'alias', 'B'),
        (4, 'alias', 'c'),
        (4, 'alias', 'manyalias'),
        (4, 'alias', 'D'),
        (4, 'backend_name', 'nitrogen'),
        (5, 'alias', 'orphan row for a missing adsorbate'),
        (7, 'molar_mass', 12.5),
        (7, 'molar_mass', 13),
        (8, 'alias', 'x'),
        (8, 'number', 1),
        (8, 'number', 2.5),
        (8, 'number', 'three'),
        (8, 'number', None),
        (8, 'blob', b'\x00\x01'),
        (8, 'blob', b'\x02'),
        (8, 'nothing', None),
        (9, 'p', 'p1'),
        (9, 'q', 'q1'),
        (9, 'p', 'p2'),
        (9, 'q', 'q2'),
        (9, 'p', 'p3'),
        (9, 'r', 'r1'),
    ],
    loose=True,
)
show('varied db', lambda: describe(pgsql.adsorbates_from_db(db_path=varied, verbose=True)))
show('varied db positional', lambda: describe(pgsql.adsorbates_from_db(varied)))
loaded = pgsql.adsorbates_from_db(db_path=varied, verbose=False)
print('in global list?', [a in ADSORBATE_LIST for a in loaded])
print('lookups on loaded', [(a.name, a == 'SECOND', a == 'manyalias', a == 'D') for a in loaded])

strict = make_db(
    'strict.db', [(1, 'Strict One'), (2, 'Strict Two')],
    [(1, 'alias', 'S1'), (1, 'alias', 's-one'), (2, 'molar_mass', 3), (2, 'alias', 7), (2, 'alias', 'seven')]
)
show('strict schema db', lambda: describe(pgsql.adsorbates_from_db(db_path=strict)))
clash = make_db('clash.db', [(1, 'clash')], [(1, 'name', 'other')])
show('property called name', lambda: describe(pgsql.adsorbates_from_db(db_path=clash)))
clash2 = make_db('clash2.db', [(1, 'stored')], [(1, 'store', 1), (1, 'alias', 'st')])
n0 = len(ADSORBATE_LIST)
show('property called store', lambda: describe(pgsql.adsorbates_from_db(db_path=clash2)))
print('list grew by', len(ADSORBATE_LIST) - n0)
del ADSORBATE_LIST[n0:]
nullkey = make_db('nullkey.db', [(1, 'nullkey')], [(1, None, 'v')], loose=True)
show('NULL property type', lambda: describe(pgsql.adsorbates_from_db(db_path=nullkey)))
intkey = make_db('intkey.db', [(1, 'intkey')], [(1, 5, 'v'), (1, 5, 'w')], loose=True)
show('integer property type', lambda: describe(pgsql.adsorbates_from_db(db_path=intkey)))
nullname = make_db('nullname.db', [(1, 'fine'), (2, 5)], [(1, 'alias', 'ok')], loose=True)
show('non-string name', lambda: describe(pgsql.adsorbates_from_db(db_path=nullname)))

# ---- round trip through adsorbate_to_db into a fresh database
fresh = os.path.join(TMP, 'fresh.db')
snapshot = ADSORBATE_LIST[:]
db_create(fresh)
ADSORBATE_LIST[:] = snapshot
show('fresh db == shipped', lambda: describe(pgsql.adsorbates_from_db(db_path=fresh, verbose=False)) == describe(ADSORBATE_LIST))
new_ads = Adsorbate('RoundTrip', alias=['rt-one', 'RT-two', 'rt-three'], formula='R_{1}', molar_mass=1.5, backend_name='argon')
show('upload', lambda: pgsql.adsorbate_to_db(new_ads, db_path=fresh, verbose=False))
ADSORBATE_LIST[:] = snapshot
show('read back', lambda: describe(pgsql.adsorbates_from_db(db_path=fresh, verbose=False))[-1])

# ---- load_data: fills both global lists, in order, from the module's DATABASE
print('before reload', len(ADSORBATE_LIST), len(MATERIAL_LIST))
show('load_data again', lambda: pygaps.data.load_data())
print('after reload', len(ADSORBATE_LIST), len(MATERIAL_LIST), ADSORBATE_LIST[:n0] == ADSORBATE_LIST[n0:])
show('find still first', lambda: Adsorbate.find('n2') is ADSORBATE_LIST[[a.name for a in ADSORBATE_LIST].index(Adsorbate.find('n2').name)])
del ADSORBATE_LIST[n0:]
m0 = len(MATERIAL_LIST) // 2
del MATERIAL_LIST[m0:]

original_db = pgsql.DATABASE
good = make_db(
    'good.db', [(1, 'Good One'), (2, 'Good Two'), (3, 'good three')],
    [(1, 'alias', 'G1'), (1, 'alias', 'g-one'), (2, 'molar_mass', 3), (2, 'alias', 'gtwo'), (1, 'formula', 'G_{1}')]
)
conn = sqlite3.connect(good)
conn.executemany('INSERT INTO materials (name) VALUES (?)', [('mat-b', ), ('mat-a', )])
conn.commit()
conn.close()
pgsql.DATABASE = good
show('load_data from good', lambda: pygaps.data.load_data())
print('lists', len(ADSORBATE_LIST) - n0, [m.name for m in MATERIAL_LIST[m0:]], describe(ADSORBATE_LIST[n0:]))
show('find loaded alias', lambda: Adsorbate.find('G-ONE') is ADSORBATE_LIST[n0])
del ADSORBATE_LIST[n0:]
del MATERIAL_LIST[m0:]
pgsql.DATABASE = varied
show('load_data from varied', lambda: pygaps.data.load_data())
print('lists', len(ADSORBATE_LIST) - n0, len(MATERIAL_LIST) - m0, describe(ADSORBATE_LIST[n0:]))
del ADSORBATE_LIST[n0:]
del MATERIAL_LIST[m0:]

pgsql.DATABASE = bare
show('load_data from db without tables', lambda: pygaps.data.load_data())
print('lists untouched', len(ADSORBATE_LIST) - n0, len(MATERIAL_LIST) - m0)

# materials table present, adsorbates table missing: materials are loaded before the failure
half = os.path.join(TMP, 'half.db')
for pragma in PRAGMAS:
    db_execute_general(pragma, half)
conn = sqlite3.connect(half)
conn.execute('INSERT INTO materials (name) VALUES (?)', ('half-material', ))
conn.execute('DROP TABLE adsorbate_properties')
conn.execute('DROP TABLE adsorbates')
conn.commit()
conn.close()
pgsql.DATABASE = half
show('load_data from half db', lambda: pygaps.data.load_data())
print('lists', len(ADSORBATE_LIST) - n0, [m.name for m in MATERIAL_LIST[m0:]])
del MATERIAL_LIST[m0:]
pgsql.DATABASE = original_db
print('module globals', sorted(k for k in vars(pygaps.data) if k.isupper()))

shutil.rmtree(TMP)
