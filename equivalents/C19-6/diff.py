"""Differential script for change 1: isosteric_enthalpy_raw."""
import numpy as np
from eqfmt import R, fmt, run  # noqa: F401

from pygaps.characterisation.isosteric_enth import isosteric_enthalpy_raw

rng = np.random.default_rng(1919)


def clausius(dH, temps, n_load=5, p0=1000.0, noise=0.0):
    """ln p = ln p_ref(n) - dH/R (1/T - 1/300): exact van 't Hoff pressures."""
    temps = np.asarray(temps, dtype=float)
    pref = p0 * np.linspace(1, 20, n_load)
    lnp = np.log(pref)[:, None] - dH * 1000 / R * (1 / temps[None, :] - 1 / 300.0)
    if noise:
        lnp = lnp + noise * rng.standard_normal(lnp.shape)
    return np.exp(lnp)


cases = []
# exact synthetic data, various number/order/spacing of temperatures
for i, (dH, temps) in enumerate([
    (5, [200, 400]),
    (60, [200, 210]),
    (12.5, [298, 308, 318]),
    (25, [400, 300, 200]),
    (33.3, [250, 210, 390, 305]),
    (47, [200, 250, 300, 350, 400]),
    (18, [273.15, 283.15, 293.15, 303.15, 313.15]),
    (9, [399.9, 200.1, 300.0]),
]):
    cases.append((f"exact{i}", clausius(dH, temps), temps))
# noisy data (non-trivial correlation / std error)
for i, (dH, temps, noise) in enumerate([
    (20, [280, 300, 320], 0.01),
    (40, [200, 260, 330, 400], 0.05),
    (8, [300, 305, 310, 315, 320], 0.2),
]):
    cases.append((f"noisy{i}", clausius(dH, temps, n_load=7, noise=noise), temps))
# container types
p3 = clausius(22, [290, 300, 310], n_load=3)
cases += [
    ("list-of-lists", p3.tolist(), [290, 300, 310]),
    ("tuple-of-tuples", tuple(map(tuple, p3.tolist())), (290, 300, 310)),
    ("int-temps-array", p3, np.array([290, 300, 310])),
    ("float32", p3.astype(np.float32), np.array([290, 300, 310], dtype=np.float32)),
    ("int-pressures", [[1, 2, 4], [10, 30, 90]], [200, 300, 400]),
    ("single-row", p3[:1], [290.0, 300.0, 310.0]),
    ("single-row-list", [[1.0, 2.0]], [300, 350]),
    ("fortran-order", np.asfortranarray(p3), [290, 300, 310]),
    ("transposed-view", clausius(22, [290, 300, 310], n_load=3).T.copy().T, [290, 300, 310]),
]
# degenerate numerical input
cases += [
    ("zero-pressure", [[0.0, 1.0, 2.0], [1.0, 2.0, 3.0]], [300, 310, 320]),
    ("negative-pressure", [[-1.0, 1.0, 2.0], [1.0, 2.0, 3.0]], [300, 310, 320]),
    ("nan-pressure", [[np.nan, 1.0, 2.0], [1.0, 2.0, 3.0]], [300, 310, 320]),
    ("inf-pressure", [[np.inf, 1.0, 2.0], [1.0, 2.0, 3.0]], [300, 310, 320]),
    ("constant-pressure", [[2.0, 2.0, 2.0]], [300, 310, 320]),
    ("zero-temperature", [[1.0, 2.0, 3.0]], [0.0, 310, 320]),
    ("zero-int-temperature", [[1.0, 2.0, 3.0]], [0, 310, 320]),
]
# error paths
cases += [
    ("len-mismatch", p3, [290, 300]),
    ("len-mismatch2", [[1.0, 2.0]], [290, 300, 310]),
    ("empty-pressures", [], [290, 300]),
    ("empty-array", np.empty((0, 2)), [290, 300]),
    ("empty-rows", [[], []], []),
    ("1d-pressures", [1.0, 2.0, 3.0], [290, 300, 310]),
    ("identical-temps", [[1.0, 2.0, 3.0]], [300, 300, 300]),
    ("one-temp", [[1.0], [2.0]], [300]),
    ("ragged", [[1.0, 2.0], [1.0, 2.0, 3.0]], [300, 310]),
    ("none-temps", [[1.0, 2.0]], None),
    ("none-pressures", None, [300, 310]),
    ("string-pressure", [["a", "b"]], [300, 310]),
]

for label, p, t in cases:
    run(label, isosteric_enthalpy_raw, p, t)

# keyword call + result element types
res = isosteric_enthalpy_raw(pressures=p3, temperatures=[290, 300, 310])
print("types", type(res).__name__, [type(r).__name__ for r in res], [type(r[0]).__name__ for r in res])
