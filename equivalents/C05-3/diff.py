"""Differential for change 3: IsothermBaseModel.__init__ / to_dict."""
import collections
import copy
import json

import numpy

import eqlib
from eqlib import attempt
from eqlib import emit

from pygaps.modelling import get_isotherm_model
from pygaps.modelling import model_from_dict
from pygaps.modelling.base_model import IsothermBaseModel


def show(label, model):
    if model is None:
        return
    attempt(f"{label}.to_dict", model.to_dict)
    attempt(f"{label}.vars", lambda: dict(vars(model)))
    attempt(f"{label}.params_type", lambda: type(model.params).__name__)
    attempt(f"{label}.bounds", lambda: model.param_bounds)
    attempt(f"{label}.bounds_type", lambda: type(model.param_bounds).__name__)
    attempt(f"{label}.str", lambda: str(model))
    attempt(f"{label}.repr", lambda: repr(model))
    attempt(f"{label}.json", lambda: json.dumps(model.to_dict(), sort_keys=True))
    attempt(f"{label}.params_is_to_dict", lambda: model.to_dict()['parameters'] is model.params)
    attempt(f"{label}.range_is_to_dict", lambda: model.to_dict()['pressure_range'] is model.pressure_range)
    attempt(f"{label}.rebuilt", lambda: model_from_dict(copy.deepcopy(model.to_dict())).to_dict())


for label, func in eqlib.all_models():
    show(label, attempt(f"{label}.build", func))


class Missing(dict):
    """Mapping that answers every key."""

    def __missing__(self, key):
        return f"made-{key}"


class Loud(dict):
    """Mapping that records the order in which it is consulted."""

    log = []

    def __getitem__(self, key):
        Loud.log.append(('get', key))
        return super().__getitem__(key)

    def items(self):
        Loud.log.append(('items', ))
        return super().items()


class NoItems:
    """Truthy object that is no mapping."""


def make(label, name='Langmuir', **kwargs):
    model = attempt(f"{label}.build", lambda: get_isotherm_model(name, **kwargs))
    show(label, model)
    return model


make("p.exact", parameters={'K': 1.5, 'n_m': 5.2})
make("p.reordered", parameters={'n_m': 5.2, 'K': 1.5})
make("p.extra", parameters={'n_m': 5.2, 'K': 1.5, 'junk': 0})
make("p.ints", parameters={'n_m': 5, 'K': 1})
make("p.none_values", parameters={'n_m': None, 'K': None})
make("p.numpy", parameters={'n_m': numpy.float64(5.2), 'K': numpy.float32(1.5)})
make("p.strings", parameters={'n_m': '5.2', 'K': 'x'})
make("p.empty", parameters={})
make("p.none", parameters=None)
make("p.missing_first", parameters={'n_m': 5.2})
make("p.missing_second", parameters={'K': 5.2})
make("p.missing_both", parameters={'other': 5.2})
make("p.defaulting_mapping", parameters=Missing(K=1))
make("p.ordered", parameters=collections.OrderedDict([('n_m', 1.0), ('K', 2.0)]))
make("p.list", parameters=[1, 2])
make("p.list_pairs", parameters=[('K', 1), ('n_m', 2)])
make("p.string", parameters='Kn_m')
make("p.number", parameters=5)
make("p.zero", parameters=0)
make("p.series", parameters=__import__('pandas').Series({'K': 1.5, 'n_m': 5.2, 'x': 1}))
Loud.log = []
make("p.loud", parameters=Loud(K=1, n_m=2), param_bounds=Loud(n_m=(0, 1), K=(1, 2)))
emit("p.loud.log", eqlib.canon(Loud.log))
make("p.henry_nothing", name='Henry')
make("p.toth3", name='Toth', parameters={'n_m': 1, 'K': 2, 't': 3})
make("p.toth3_missing_t", name='Toth', parameters={'n_m': 1, 'K': 2})

make("b.none", param_bounds=None)
make("b.empty", param_bounds={})
make("b.one", param_bounds={'K': (0.0, 10.0)})
make("b.both", param_bounds={'n_m': (1, 2), 'K': [0.0, 10.0]})
make("b.both_other_order", param_bounds={'K': [0.0, 10.0], 'n_m': (1, 2)})
make("b.invalid_only", param_bounds={'Q': (0, 1)})
make("b.invalid_first", param_bounds={'Q': (0, 1), 'K': (0, 1)})
make("b.invalid_last", param_bounds={'K': (0, 1), 'Q': (0, 1), 'R': (0, 1)})
make("b.two_invalid", param_bounds={'Z': (0, 1), 'Q': (0, 1)})
make("b.none_key", param_bounds={None: (0, 1)})
make("b.int_key", param_bounds={1: (0, 1)})
make("b.none_value", param_bounds={'K': None})
make("b.ordered", param_bounds=collections.OrderedDict([('n_m', (0, 1)), ('K', (0, 2))]))
make("b.list", param_bounds=[('K', (0, 1))])
make("b.noitems", param_bounds=NoItems())
make("b.string", param_bounds='K')
make("b.with_params", parameters={'n_m': 5.2, 'K': 1.5}, param_bounds={'K': (0, 3)})
make("b.bad_params_and_bounds", parameters={'n_m': 5.2}, param_bounds={'Q': (0, 3)})

make("o.ranges", pressure_range=(0.1, 2), loading_range=[1, 2.5], rmse=0.01)
make("o.rmse_none", rmse=None)
make("o.range_none", pressure_range=None, loading_range=None)
make("o.unknown_kw", bogus=1, parameters={'n_m': 5.2, 'K': 1.5})
make("o.all", parameters={'n_m': 5.2, 'K': 1.5}, param_bounds={'n_m': (0, 9)}, pressure_range=(1, 2),
     loading_range=(3, 4), rmse=0.5)


# kwargs dictionaries handed in must be consumed in the same way
def consumed(label, **kwargs):
    class Probe(IsothermBaseModel):
        name = 'Probe'
        param_names = ('a', 'b')
        param_default_bounds = ((0, 1), (2, 3))

    def run():
        given = dict(kwargs)
        model = Probe.__new__(Probe)
        IsothermBaseModel.__init__(model, **given)
        return model

    show(label, attempt(f"{label}.build", run))


consumed("probe.defaults")
consumed("probe.params", parameters={'b': 2, 'a': 1})
consumed("probe.params_missing", parameters={'a': 1})
consumed("probe.bounds", param_bounds={'b': (5, 6)})
consumed("probe.bounds_bad", param_bounds={'c': (5, 6)})


# a model with no parameters at all, and class/instance independence
class Bare(IsothermBaseModel):
    name = 'Bare'


show("bare", attempt("bare.build", Bare))
show("bare.params", attempt("bare.params.build", lambda: Bare(parameters={'x': 1})))
show("bare.bounds", attempt("bare.bounds.build", lambda: Bare(param_bounds={'x': 1})))
one = get_isotherm_model('Langmuir')
two = get_isotherm_model('Langmuir')
attempt("indep.params", lambda: one.params is two.params)
attempt("indep.bounds", lambda: one.param_bounds is two.param_bounds)
attempt("indep.class_params", lambda: type(one).params)
attempt("indep.nan_identity", lambda: one.params['K'] is numpy.nan)
given_bounds = {'K': (0, 1)}
three = get_isotherm_model('Langmuir', param_bounds=given_bounds)
attempt("alias.bounds_copy", lambda: three.param_bounds is given_bounds)
attempt("alias.bound_value", lambda: three.param_bounds['K'] is given_bounds['K'])
given_params = {'K': [1], 'n_m': 2}
four = get_isotherm_model('Langmuir', parameters=given_params)
attempt("alias.params_copy", lambda: four.params is given_params)
attempt("alias.param_value", lambda: four.params['K'] is given_params['K'])
attempt("alias.given_untouched", lambda: (given_params, given_bounds))

# and the isotherm level view
built = eqlib.build_all(deep=False)
eqlib.cross_equalities({k: v for k, v in built.items() if k.startswith('model.')})
eqlib.roundtrips({k: v for k, v in built.items() if k.startswith('model.')})
eqlib.flush()
