"""Differential script for change 3: ``material_to_db`` (upload / overwrite / property auto-insert)."""
import sqlite3

from _harness import canon, dump, finish, memory, new_db, pgsql, pygaps, run

MT = ['materials', 'material_properties', 'material_properties_type']


def state(label, path):
    dump(label, path, MT)
    run(f'{label}: from_db', pgsql.materials_from_db, db_path=path, verbose=False)
    run(f'{label}: types', pgsql.material_property_types_from_db, db_path=path)
    memory(label)


db = new_db('mat1.db')
db2 = new_db('mat2.db')


class Weird:
    def __repr__(self):
        return 'Weird()'


cases = [
    ('plain', pygaps.Material('m_plain')),
    ('scalars', pygaps.Material('m_scalars', density=2.5, comment='hello', count=3, flag=True, neg=-1e-30)),
    ('list', pygaps.Material('m_list', colours=['red', 'green', 'blue'], density=1)),
    ('tuple', pygaps.Material('m_tuple', sizes=(1, 2.5, '3'))),
    ('set', pygaps.Material('m_set', one={42}, nums={1, 2, 3})),
    ('empty list', pygaps.Material('m_emptylist', nothing=[], something=1)),
    ('empty str', pygaps.Material('m_emptystr', comment='')),
    ('one elem list', pygaps.Material('m_one', only=['x'])),
    ('repeat values', pygaps.Material('m_repeat', rep=['a', 'a', 'a'])),
    ('none value', pygaps.Material('m_none', good=1, missing=None, later=2)),
    ('none in list', pygaps.Material('m_nonelist', vals=[1, None, 3])),
    ('dict value', pygaps.Material('m_dict', good=1, nested={'a': 1})),
    ('nested list', pygaps.Material('m_nested', vals=[[1, 2], 3])),
    ('object value', pygaps.Material('m_obj', thing=Weird())),
    ('bytes value', pygaps.Material('m_bytes', blob=b'abc')),
    ('big int', pygaps.Material('m_bigint', big=2**70)),
    ('inf', pygaps.Material('m_inf', high=float('inf'))),
    ('nan', pygaps.Material('m_nan', bad=float('nan'))),
    ('numeric text', pygaps.Material('m_numtext', code='0012', sci='1e3')),
    ('shared types', pygaps.Material('m_shared', density=7, comment='again', colours='single')),
    ('unicode', pygaps.Material('m_ünï', **{'clé': 'värde', 'with space': 1, 'quote"d': 2})),
    ('name-like props', pygaps.Material('m_namelike', id=5, type='t', value='v', mat_id=9)),
    ('none name', pygaps.Material(None, a=1)),
    ('int name', pygaps.Material(15, a=1)),
]

print("== first uploads (auto insert of property types)")
for label, mat in cases:
    run(f'upload {label}', pgsql.material_to_db, mat, db_path=db)
state('after first uploads', db)

print("== duplicates are refused, nothing changes")
for label, mat in cases[:6]:
    run(f'duplicate {label}', pgsql.material_to_db, mat, db_path=db, verbose=False)
dump('after duplicates', db, MT)
memory('after duplicates')

print("== second file is independent")
dump('db2 untouched', db2, MT)
for label, mat in cases[:4]:
    run(f'db2 no autoinsert {label}', pgsql.material_to_db, mat, db_path=db2, autoinsert_properties=False)
dump('db2 after refused', db2, MT)
run('db2 type density', pgsql.material_property_type_to_db, {'type': 'density', 'unit': 'g/cm3'}, db_path=db2)
run('db2 no autoinsert list', pgsql.material_to_db, cases[2][1], db2, False)
run('db2 type colours', pgsql.material_property_type_to_db, {'type': 'colours', 'description': 'c'}, db_path=db2)
run('db2 no autoinsert list again', pgsql.material_to_db, cases[2][1], db2, False, False, False)
run('db2 autoinsert scalars', pgsql.material_to_db, cases[1][1], db2, True)
state('db2', db2)
memory('after db2')

print("== overwrite")
m_new = pygaps.Material('m_scalars', density=9.75, extra=['p', 'q'])
run('overwrite absent', pgsql.material_to_db, pygaps.Material('m_absent', a=1), db_path=db, overwrite=True)
run('overwrite absent no props', pgsql.material_to_db, pygaps.Material('m_absent2'), db_path=db, overwrite=True)
dump('after refused overwrites', db, MT)
memory('after refused overwrites')
run('overwrite scalars', pgsql.material_to_db, m_new, db_path=db, overwrite=True)
run('overwrite scalars again quiet', pgsql.material_to_db, m_new, db, True, True, False)
run('overwrite to no props', pgsql.material_to_db, pygaps.Material('m_list'), db_path=db, overwrite=True)
run('overwrite plain to props', pgsql.material_to_db, pygaps.Material('m_plain', fresh=1.25), db_path=db, overwrite=True)
run(
    'overwrite without autoinsert, unknown type (refused, old content stays)', pgsql.material_to_db,
    pygaps.Material('m_tuple', unknown_type=1), db_path=db, overwrite=True, autoinsert_properties=False
)
run(
    'overwrite without autoinsert, known type', pgsql.material_to_db, pygaps.Material('m_tuple', density=3),
    db_path=db, overwrite=True, autoinsert_properties=False
)
run(
    'overwrite failing half way (refused, old content stays)', pgsql.material_to_db,
    pygaps.Material('m_set', first=1, broken=None, last=3), db_path=db, overwrite=True
)
run(
    'overwrite unsupported value (error, old content stays)', pgsql.material_to_db,
    pygaps.Material('m_set', first=1, broken={'a': 1}), db_path=db, overwrite=True
)
run('overwrite in other file where absent', pgsql.material_to_db, pygaps.Material('m_set', z=1), db_path=db2, overwrite=True)
run('overwrite by name only object', pgsql.material_to_db, pygaps.Material('m_one'), db, overwrite=True)
state('after overwrites', db)

print("== delete and re-upload")
for name in ['m_scalars', 'm_list', 'm_absent', pygaps.Material('m_plain'), 'm_plain']:
    run(f'delete {name}', pgsql.material_delete_db, name, db_path=db)
run('re-upload scalars', pgsql.material_to_db, cases[1][1], db_path=db)
run('re-upload list', pgsql.material_to_db, cases[2][1], db)
state('after re-upload', db)

print("== explicit cursor (caller owns the transaction)")
con = sqlite3.connect(db2)
con.row_factory = sqlite3.Row
cur = con.cursor()
cur.execute('PRAGMA foreign_keys = ON')
run('cursor upload', pgsql.material_to_db, pygaps.Material('m_cursor', viacursor=1), cursor=cur)
run('cursor upload dup (raw sqlite error)', pgsql.material_to_db, pygaps.Material('m_cursor', viacursor=1), cursor=cur)
run('cursor overwrite absent (raw sqlite error)', pgsql.material_to_db, pygaps.Material('m_nocursor'), cursor=cur, overwrite=True)
run('cursor none value (raw sqlite error)', pgsql.material_to_db, pygaps.Material('m_cursor2', a=None), cursor=cur)
dump('db2 before caller commit', db2, MT)
con.commit()
dump('db2 after caller commit', db2, MT)
con.close()

print("== odd arguments")
run('string instead of material', pgsql.material_to_db, 'just a name', db_path=db)
run('none', pgsql.material_to_db, None, db_path=db)
run('missing table', pgsql.material_to_db, pygaps.Material('m_x', a=1), db_path=new_db('mat_empty.db', empty=True))
mutated = pygaps.Material('m_mutated', a=1)
mutated.properties['name'] = 'shadow'
mutated.properties[7] = 'int key'
run('mutated properties', pgsql.material_to_db, mutated, db_path=db)
mutated2 = pygaps.Material('m_mutated2')
mutated2.properties[7] = 'int key again'
run('int property key a second time', pgsql.material_to_db, mutated2, db_path=db)
mutated3 = pygaps.Material('m_mutated3')
mutated3.properties[7.5] = 'float key'
mutated3.properties[None] = 'none key'
run('float and none property keys', pgsql.material_to_db, mutated3, db_path=db)
run('float key only', pgsql.material_to_db, pygaps.Material('m_mutated4', **{'7.5': 1}), db_path=db)
state('end', db)
state('end db2', db2)
finish()
