"""Differential script for change 4: IsothermBaseModel.fit (model fitting writes parameters while iterating)."""
import warnings

import numpy

import pygaps
import pygaps.modelling as pgm
from pygaps.modelling import _MODELS
from pygaps.modelling import get_isotherm_model

warnings.simplefilter("ignore")
numpy.seterr(all="ignore")


def fmt(x):
    if isinstance(x, BaseException):
        return f"{type(x).__name__}: {' '.join(str(x).split())[:400]}"
    if x is None or isinstance(x, (str, bool)):
        return repr(x)
    if isinstance(x, dict):
        return "{" + ", ".join(f"{k}: {fmt(v)}" for k, v in x.items()) + "}"
    if isinstance(x, (tuple, list)):
        return "[" + ", ".join(fmt(v) for v in x) + "]"
    arr = numpy.asarray(x)
    if arr.ndim == 0:
        return f"{type(x).__name__}:{float(arr):.12g}"
    return f"{type(x).__name__}{arr.shape}:[" + ", ".join(f"{float(v):.12g}" for v in arr.ravel()) + "]"


def model_text(model):
    return (
        f"{model.name} params={fmt(model.params)} types={[type(v).__name__ for v in model.params.values()]} "
        f"rmse={fmt(model.rmse)} prange={fmt(model.pressure_range)} lrange={fmt(model.loading_range)} "
        f"bounds={fmt(model.param_bounds)}"
    )


def fingerprint(iso):
    return f"id={iso.iso_id} units={iso.units} data={fmt(iso.data_raw.to_numpy(dtype=float))} cache={iso.l_interpolator},{iso.p_interpolator}"


P_REL = numpy.array([0.002, 0.005, 0.01, 0.02, 0.04, 0.07, 0.1, 0.15, 0.2, 0.3, 0.4, 0.5, 0.6, 0.7, 0.8, 0.9])
DATASETS = {
    "langmuir": (P_REL * 10, 5.0 * 2.0 * P_REL * 10 / (1 + 2.0 * P_REL * 10)),
    "typeII": (P_REL, 2.0 * 50 * P_REL / ((1 - P_REL) * (1 + 49 * P_REL))),
    "toth": (P_REL * 5, 4.0 * 3.0 * P_REL * 5 / (1 + (3.0 * P_REL * 5)**0.6)**(1 / 0.6)),
    "linear": (P_REL, 3.0 * P_REL),
    "noisy": (P_REL * 10, 5.0 * 2.0 * P_REL * 10 / (1 + 2.0 * P_REL * 10) * (1 + 0.05 * numpy.sin(numpy.arange(16.0)))),
    "short": (numpy.array([0.1, 0.5, 0.9]), numpy.array([1.0, 2.0, 2.5])),
}


def make_iso(kind, **kw):
    pressure, loading = DATASETS[kind]
    params = dict(
        pressure=list(pressure), loading=list(loading), material="eqmat4", adsorbate="N2", temperature=77.0,
        temperature_unit="K", pressure_mode="absolute", pressure_unit="bar", loading_basis="molar",
        loading_unit="mmol", material_basis="mass", material_unit="g",
    )
    if kind in ("typeII", "linear", "short"):
        params.update(pressure_mode="relative", pressure_unit=None)
    params.update(kw)
    return pygaps.PointIsotherm(**params)


n = 0
# 1. every model on every data set through the ModelIsotherm constructor (first call on a fresh isotherm)
for kind in DATASETS:
    for model in _MODELS:
        if model in ("FHVST", "WVST", "Virial") and kind not in ("langmuir", "short"):
            continue
        n += 1
        iso = make_iso(kind)
        before = fingerprint(iso)
        try:
            res = model_text(pygaps.ModelIsotherm.from_pointisotherm(iso, model=model).model)
        except Exception as err:  # noqa
            res = fmt(err)
        print(f"fit {kind} {model} -> {res} | iso-unchanged={before == fingerprint(iso)}")

# 2. direct calls of IsothermBaseModel.fit with guesses / bounds / optimisation parameters / error paths
pressure, loading = DATASETS["langmuir"]


def direct(model_name, guess, opt=None, verbose=False, ctor=None, data=(pressure, loading)):
    global n
    n += 1
    try:
        model = get_isotherm_model(
            model_name,
            pressure_range=(float(min(data[0])), float(max(data[0]))),
            loading_range=(float(min(data[1])), float(max(data[1]))),
            **(ctor or {}),
        )
        model.__init_parameters__({"temperature": 77.0})
        if guess == "auto":
            guess = model.initial_guess(*data)
        out = model.fit(data[0], data[1], guess, opt, verbose)
        res = f"ret={out!r} {model_text(model)}"
    except Exception as err:  # noqa
        res = fmt(err)
        try:
            res += " | after-error " + fmt(model.params) + " rmse=" + fmt(model.rmse)
        except Exception:  # noqa
            pass
    print(f"direct {model_name} guess={guess if not isinstance(guess, dict) else fmt(guess)} opt={opt} -> {res}")


direct("Langmuir", "auto")
direct("Langmuir", "auto", verbose=True)
direct("Langmuir", {"n_m": 1.0, "K": 1.0})
direct("Langmuir", {"K": 0.1, "n_m": 20.0})
direct("Langmuir", {"n_m": 1.0})
direct("Langmuir", {"n_m": 1.0, "K": 1.0, "extra": 3.0})
direct("Langmuir", {"n_m": -1.0, "K": 1.0})
direct("Langmuir", {"n_m": numpy.nan, "K": 1.0})
direct("Langmuir", {"n_m": numpy.inf, "K": 1.0})
direct("Langmuir", "auto", opt=dict(max_nfev=1))
direct("Langmuir", "auto", opt=dict(max_nfev=3, method="dogbox"))
direct("Langmuir", "auto", opt=dict(method="lm"))
direct("Langmuir", "auto", opt=dict(bounds=(-numpy.inf, numpy.inf), method="lm"))
direct("Langmuir", "auto", opt=dict(x0=[1.0, 1.0]))
direct("Langmuir", "auto", opt=dict(x0=[1.0]))
direct("Langmuir", "auto", opt=dict(x0=[1.0, 1.0, 1.0]))
direct("Langmuir", "auto", opt=dict(loss="soft_l1", f_scale=0.1))
direct("Langmuir", "auto", opt=dict(bogus_option=1))
direct("Langmuir", "auto", opt=dict(args=(pressure[:5], loading[:5])))
direct("Langmuir", "auto", opt=[("max_nfev", 2)])
direct("Langmuir", "auto", ctor=dict(param_bounds={"n_m": (0.0, 3.0)}))
direct("Langmuir", "auto", ctor=dict(param_bounds={"n_m": (0.0, 3.0), "K": (0.0, 1.0)}))
direct("Langmuir", "auto", ctor=dict(param_bounds={"n_m": (3.0, 0.0), "K": (0.0, 1.0)}))
direct("Langmuir", "auto", ctor=dict(param_bounds={"n_m": (3.0, ), "K": (0.0, 1.0)}))
direct("Langmuir", "auto", ctor=dict(param_bounds={"bad": (0.0, 1.0)}))
direct("Toth", "auto")
direct("Toth", {"n_m": 5.0, "K": 1.0, "t": 1.0}, data=DATASETS["toth"])
direct("DSLangmuir", "auto", opt=dict(max_nfev=5))
direct("Henry", "auto", data=DATASETS["linear"])
direct("Henry", {"K": 0.0}, data=DATASETS["linear"])
direct("BET", "auto", data=DATASETS["typeII"])
direct("GAB", "auto", data=DATASETS["typeII"])
direct("Quadratic", "auto")
direct("TemkinApprox", "auto")
direct("JensenSeaton", "auto")
direct("Freundlich", "auto")
direct("DR", "auto", data=DATASETS["typeII"])
direct("DA", "auto", data=DATASETS["typeII"])
direct("WVST", "auto")
direct("FHVST", "auto")
direct("Langmuir", "auto", data=(pressure, loading[:5]))
direct("Langmuir", "auto", data=(numpy.array([]), numpy.array([])))
direct("Langmuir", "auto", data=(list(pressure), list(loading)))
direct("Langmuir", "auto", data=(numpy.array([1.0]), numpy.array([1.0])))
direct("Langmuir", "auto", data=(pressure, numpy.full_like(loading, numpy.nan)))


# a model declaring something else than loading / pressure
class Odd(pgm.IsothermBaseModel):
    name = "Odd"
    calculates = "nothing"
    param_names = ("a", )
    param_default_bounds = ((0., numpy.inf), )

    def loading(self, pressure):
        return self.params["a"] * pressure

    def pressure(self, loading):
        return loading / self.params["a"]

    def spreading_pressure(self, pressure):
        return self.params["a"] * pressure


for calc in ("nothing", None, "loading", "pressure"):
    n += 1
    Odd.calculates = calc
    odd = Odd(pressure_range=(0.0, 1.0), loading_range=(0.0, 3.0))
    try:
        res = f"ret={odd.fit(*DATASETS['linear'], {'a': 1.0})!r} {model_text(odd)}"
    except Exception as err:  # noqa
        res = fmt(err) + " | after-error " + fmt(odd.params) + " rmse=" + fmt(odd.rmse)
    print(f"odd calculates={calc!r} -> {res}")

# 3. histories: model_iso repeated / interleaved with other queries on the same PointIsotherm
iso = make_iso("langmuir")
start = fingerprint(make_iso("langmuir"))
HIST = [
    ("model", "Langmuir"), ("loading_at", 2.0), ("model", "Langmuir"), ("model", "Toth"), ("spreading", 3.0),
    ("model", ["Henry", "Langmuir", "Freundlich"]), ("model", "guess"), ("model", "Langmuir"), ("pressure_at", 4.0),
    ("model-des", "Langmuir"), ("model", "NotAModel"), ("model", "Langmuir"),
]
for what, arg in HIST:
    n += 1
    outs = []
    for target in (iso, make_iso("langmuir")):
        try:
            if what == "model":
                res = model_text(pgm.model_iso(target, model=arg).model)
            elif what == "model-des":
                res = model_text(pgm.model_iso(target, model=arg, branch="des").model)
            elif what == "loading_at":
                res = fmt(target.loading_at(arg))
            elif what == "pressure_at":
                res = fmt(target.pressure_at(arg))
            else:
                res = fmt(target.spreading_pressure_at(arg))
        except Exception as err:  # noqa
            res = fmt(err)
        outs.append(res)
    print(f"hist {what} {arg} -> {outs[0]} | fresh-equal={outs[0] == outs[1]}")
end = fingerprint(iso).split(" cache=")[0]
print("iso unchanged:", end == start.split(" cache=")[0])

# 4. a fitted model queried after fitting, re-fit of the same model object, initial_henry users of fit
mi = pgm.model_iso(make_iso("langmuir"), model="Langmuir")
print("query", fmt(mi.loading_at(1.0)), fmt(mi.pressure_at(2.0)), fmt(mi.spreading_pressure_at(1.0)))
first = model_text(mi.model)
mi.model.fit(pressure, loading, dict(mi.model.params))
print("refit same:", first == model_text(mi.model), model_text(mi.model))
for opt in (dict(max_nfev=4), dict(max_nfev=40), None):
    try:
        mi.model.fit(pressure[:8], loading[:8], {"n_m": 1.0, "K": 0.5}, opt)
        print("refit part:", opt, model_text(mi.model))
    except Exception as err:  # noqa
        print("refit part:", opt, fmt(err), "| after-error", model_text(mi.model))
from pygaps.characterisation.initial_henry import initial_henry_slope
from pygaps.characterisation.initial_henry import initial_henry_virial
for kind in ("langmuir", "linear", "typeII"):
    n += 1
    target = make_iso(kind)
    before = fingerprint(target)
    try:
        res = fmt(initial_henry_slope(target, max_adjrms=0.05))
    except Exception as err:  # noqa
        res = fmt(err)
    try:
        res2 = fmt(initial_henry_virial(target))
    except Exception as err:  # noqa
        res2 = fmt(err)
    print(f"henry {kind} -> slope {res} virial {res2} | iso-unchanged={before == fingerprint(target)}")
print("cases:", n)
