"""Differential transcript for alpha_s_raw / t_plot_raw and their *_parameters helpers."""
import logging
import warnings

import numpy

warnings.simplefilter("ignore")

import pygaps
from pygaps.characterisation import alphas_plots as ap
from pygaps.characterisation import t_plots as tp
from pygaps.characterisation.models_thickness import get_thickness_model


class ListHandler(logging.Handler):
    def __init__(self):
        super().__init__()
        self.msgs = []

    def emit(self, record):
        self.msgs.append(record.getMessage())


handler = ListHandler()
pygaps.logger.addHandler(handler)


def fmt(v):
    if v is None:
        return "None"
    if isinstance(v, dict):
        return "{" + ", ".join(f"{k}: {fmt(v[k])}" for k in v) + "}"
    if isinstance(v, (list, tuple)):
        return type(v).__name__ + "[" + ", ".join(fmt(x) for x in v) + "]"
    if isinstance(v, numpy.ndarray):
        return f"nd<{v.dtype},{v.shape}>[" + ", ".join(fmt(x) for x in v.ravel().tolist()) + "]"
    if isinstance(v, (float, numpy.floating)):
        return type(v).__name__ + ":" + float(v).hex()
    return type(v).__name__ + ":" + repr(v)


def run(label, fn, *args, **kwargs):
    handler.msgs.clear()
    copies = [numpy.array(a, copy=True) if isinstance(a, (list, numpy.ndarray)) else None for a in args]
    try:
        out = fmt(fn(*args, **kwargs))
    except Exception as e:  # noqa
        out = f"EXC {type(e).__name__}: {e}"
    print(f"== {label}")
    print(out)
    print("log:", handler.msgs)
    for a, c in zip(args, copies):
        if c is not None:
            same = numpy.array_equal(numpy.asarray(a), c, equal_nan=True) if c.dtype.kind == 'f' else numpy.array_equal(numpy.asarray(a), c)
            print("arg unchanged:", type(a).__name__, same)


rng = numpy.random.RandomState(3)
n = 40
p = numpy.linspace(0.01, 0.95, n)
ref = 2.0 * p / (0.05 + p) + 3 * p
load = 1.5 + 4.0 * ref + 0.02 * numpy.sin(30 * p)
load_k = numpy.concatenate([2.0 * ref[:15], 2.0 * ref[14] + 9.0 * (ref[15:] - ref[14])])
noisy = load + rng.normal(0, 0.3, n)

A = dict(alpha_s_point=1.7, reference_area=120.0, liquid_density=0.808, adsorbate_molar_mass=28.01)

run("alpha auto", ap.alpha_s_raw, load, ref, **A)
run("alpha auto kink", ap.alpha_s_raw, load_k, ref, **A)
run("alpha auto noisy", ap.alpha_s_raw, noisy, ref, **A)
run("alpha limits", ap.alpha_s_raw, load, ref, t_limits=(0.5, 1.5), **A)
run("alpha limits list", ap.alpha_s_raw, load.tolist(), ref.tolist(), t_limits=[0.2, 2.0], **A)
run("alpha limits steep", ap.alpha_s_raw, load_k, ref, t_limits=(1.2, 5.0), **A)
run("alpha limits none inside", ap.alpha_s_raw, load, ref, t_limits=(50, 60), **A)
run("alpha limits one inside", ap.alpha_s_raw, load[:5], ref[:5], t_limits=(0.3, 0.5), **A)
run("alpha limits short tuple", ap.alpha_s_raw, load, ref, t_limits=(0.5, ), **A)
run("alpha limits 3-tuple", ap.alpha_s_raw, load, ref, t_limits=(0.5, 1.5, 9), **A)
run("alpha limits str", ap.alpha_s_raw, load, ref, t_limits=("a", 1.0), **A)
run("alpha limits scalar", ap.alpha_s_raw, load, ref, t_limits=1.0, **A)
run("alpha empty", ap.alpha_s_raw, [], [], **A)
run("alpha mismatch", ap.alpha_s_raw, load, ref[:-1], **A)
run("alpha tiny auto", ap.alpha_s_raw, [1.0, 2.0], [0.5, 1.0], **A)
run("alpha tiny 1", ap.alpha_s_raw, [1.0], [0.5], **A)
run("alpha tiny limits", ap.alpha_s_raw, [1.0, 2.0, 3.5], [0.5, 1.0, 1.5], t_limits=(0, 10), **A)
run("alpha int lists", ap.alpha_s_raw, [1, 2, 3, 4, 5, 6], [1, 2, 3, 4, 5, 6], t_limits=(0, 10), **A)
run("alpha int lists auto", ap.alpha_s_raw, [1, 2, 3, 4, 5, 6, 7, 8], [1, 2, 3, 4, 5, 6, 7, 8], **A)
run("alpha nan", ap.alpha_s_raw, numpy.where(p > 0.5, numpy.nan, load), ref, t_limits=(0.1, 3), **A)
run("alpha 2d", ap.alpha_s_raw, numpy.vstack([load, load]), numpy.vstack([ref, ref]), t_limits=(0.5, 1.5), **A)
run("alpha zero point", ap.alpha_s_raw, load, ref, 0.0, 120.0, 0.8, 28.0, (0.5, 1.5))
run("alpha positional", ap.alpha_s_raw, load, ref, 1.7, 120.0, 0.808, 28.01, None)
run("alpha desorption-like", ap.alpha_s_raw, load[::-1], ref[::-1], **A)
run("alpha desorption-like limits", ap.alpha_s_raw, load[::-1], ref[::-1], t_limits=(0.5, 1.5), **A)

curve = ref / 1.7
run("alpha params list", ap.alpha_s_plot_parameters, curve, load, [3, 4, 5, 6, 7], 1.7, 120.0, 28.01, 0.808)
run("alpha params slice", ap.alpha_s_plot_parameters, curve, load, slice(5, 20), 1.7, 120.0, 28.01, 0.808)
run("alpha params steep", ap.alpha_s_plot_parameters, curve, load_k * 1, list(range(20, 30)), 1.7, 120.0, 28.01, 0.808)
run("alpha params empty", ap.alpha_s_plot_parameters, curve, load, [], 1.7, 120.0, 28.01, 0.808)
run("alpha params float area", ap.alpha_s_plot_parameters, curve, load, [1, 2, 3], 2, 100, 28.01, 0.808)
run("alpha params zero density", ap.alpha_s_plot_parameters, curve, load, [1, 2, 3], 2, 100, 28.01, 0)

hj = get_thickness_model("Harkins/Jura")
hs = get_thickness_model("Halsey")
T = dict(liquid_density=0.808, adsorbate_molar_mass=28.01)
tl = 0.2 + 30.0 * hj(p)
tl_k = numpy.concatenate([40.0 * hj(p[:18]), 40.0 * hj(p[17]) + 3.0 * (hj(p[18:]) - hj(p[17]))])

run("t auto HJ", tp.t_plot_raw, tl, p, hj, **T)
run("t auto Halsey", tp.t_plot_raw, tl, p, hs, **T)
run("t auto kink", tp.t_plot_raw, tl_k, p, hj, **T)
run("t limits", tp.t_plot_raw, tl, p, hj, t_limits=(0.35, 0.6), **T)
run("t limits list", tp.t_plot_raw, tl.tolist(), p.tolist(), hs, t_limits=[0.3, 1.0], **T)
run("t limits none inside", tp.t_plot_raw, tl, p, hj, t_limits=(10, 20), **T)
run("t limits one inside", tp.t_plot_raw, tl[:6], p[:6], hj, t_limits=(0.28, 0.30), **T)
run("t limits short", tp.t_plot_raw, tl, p, hj, t_limits=(0.3, ), **T)
run("t limits str", tp.t_plot_raw, tl, p, hj, t_limits=("a", "b"), **T)
run("t limits scalar", tp.t_plot_raw, tl, p, hj, t_limits=3, **T)
run("t empty", tp.t_plot_raw, [], [], hj, **T)
run("t mismatch", tp.t_plot_raw, tl, p[:-2], hj, **T)
run("t tiny auto", tp.t_plot_raw, [1.0, 2.0], [0.1, 0.2], hj, **T)
run("t tiny 1", tp.t_plot_raw, [1.0], [0.1], hj, **T)
run("t lambda model", tp.t_plot_raw, tl, p, lambda x: 2 * x, t_limits=(0.2, 1.5), **T)
run("t lambda model auto", tp.t_plot_raw, tl, p, lambda x: 2 * x + 1, **T)
run("t bad model", tp.t_plot_raw, tl, p, None, **T)
run("t 2d", tp.t_plot_raw, numpy.vstack([tl, tl]), numpy.vstack([p, p]), hj, t_limits=(0.35, 0.6), **T)
run("t pressure>1", tp.t_plot_raw, tl, p * 2, hj, t_limits=(0.35, 0.6), **T)
run("t desorption-like", tp.t_plot_raw, tl[::-1], p[::-1], hj, **T)
run("t desorption-like limits", tp.t_plot_raw, tl[::-1], p[::-1], hj, t_limits=(0.35, 0.6), **T)
run("t positional", tp.t_plot_raw, tl, p, hj, 0.808, 28.01, (0.35, 0.6))

tc = hj(p)
run("t params list", tp.t_plot_parameters, tc, tl, [3, 4, 5, 6], 28.01, 0.808)
run("t params slice", tp.t_plot_parameters, tc, tl, slice(2, 30), 28.01, 0.808)
run("t params steep", tp.t_plot_parameters, tc, tl_k * 1, list(range(3, 12)), 28.01, 0.808)
run("t params empty", tp.t_plot_parameters, tc, tl, [], 28.01, 0.808)
run("t params zero density", tp.t_plot_parameters, tc, tl, [3, 4, 5], 28.01, 0)
run("t params py lists", tp.t_plot_parameters, tc.tolist(), tl.tolist(), slice(2, 9), 28.01, 0.808)

# High-level entry points, adsorption and desorption branches, on a synthetic isotherm
try:
    pd_ = numpy.concatenate([p, p[::-1][1:]])
    ld_ = numpy.concatenate([tl, (tl * 1.05)[::-1][1:]])
    iso = pygaps.PointIsotherm(
        pressure=pd_, loading=ld_, material="m", adsorbate="N2", temperature=77.0,
        pressure_mode="relative", pressure_unit=None, loading_unit="mmol", material_unit="g",
    )
    ref_iso = pygaps.PointIsotherm(
        pressure=pd_, loading=numpy.concatenate([ref, (ref * 1.02)[::-1][1:]]), material="r", adsorbate="N2",
        temperature=77.0, pressure_mode="relative", pressure_unit=None, loading_unit="mmol", material_unit="g",
    )
    for branch in ("ads", "des"):
        for lim in (None, (0.35, 0.6)):
            run(f"t_plot {branch} {lim}", tp.t_plot, iso, branch=branch, t_limits=lim)
            run(f"alpha_s {branch} {lim}", ap.alpha_s, iso, ref_iso, reference_area="BET", branch=branch,
                t_limits=None if lim is None else (0.5, 1.5))
    run("alpha_s reducing 0.6", ap.alpha_s, iso, ref_iso, reference_area="langmuir", reducing_pressure=0.6)
    run("alpha_s ref float", ap.alpha_s, iso, ref_iso, reference_area=100.0)
    run("alpha_s bad branch", ap.alpha_s, iso, ref_iso, reference_area="BET", branch="x")
    run("t_plot model str", tp.t_plot, iso, thickness_model="Halsey", t_limits=(0.4, 0.8))
except Exception as e:  # noqa
    print("HIGH-LEVEL SETUP EXC", type(e).__name__, e)
