"""Differential script for change 4: iast_binary_vle / iast_binary_svp wrappers."""
import matplotlib

matplotlib.use("Agg")

import numpy  # noqa: E402

import _fixtures as fx  # noqa: E402
import pygaps.iast.pgiast as pgi  # noqa: E402

M = fx.models()
P = fx.points()
ch4, c2h6 = fx.real()
run = fx.run

# record what the plotting functions receive instead of drawing
PLOTS = []


def _rec(name):
    def plot(*args, **kwargs):
        PLOTS.append((name, tuple(args), dict(kwargs)))
    return plot


pgi.plot_iast_vle = _rec("vle")
pgi.plot_iast_svp = _rec("svp")


def with_plots(func, *args, **kwargs):
    PLOTS.clear()
    res = func(*args, **kwargs)
    return {"result": res, "plots": [(n, a, k) for n, a, k in PLOTS]}


def typed(res):
    """Expose container/element types of the returned dict."""
    return {
        k: (type(v).__name__, getattr(v, "dtype", None) and str(v.dtype), [type(e).__name__ for e in v][:3], v)
        for k, v in res.items()
    }


pairs = [
    ("H1", "H2"), ("L1", "L2"), ("L2", "L1"), ("DS", "L2"), ("TS", "Q"), ("BET", "L1"), ("TA", "L3"), ("JS", "L4"),
    ("L1", "L1")
]

# --- VLE
for pair in pairs:
    isos = [M[k] for k in pair]
    for pt in (0.1, 1.0, 15.0):
        for npts in (30, 5):
            run(f"vle {pair} {pt} {npts}", lambda: typed(pgi.iast_binary_vle(isos, pt, npoints=npts)))
run("vle default npoints", pgi.iast_binary_vle, [M["L1"], M["L2"]], 2.0)
for npts in (0, 1, 2, 3, numpy.int64(4), True, 2.0, -1, None, "3"):
    run(f"vle npoints={npts!r}", pgi.iast_binary_vle, [M["L1"], M["L2"]], 2.0, npoints=npts)
run("vle verbose", with_plots, pgi.iast_binary_vle, [M["L1"], M["L2"]], 2.0, npoints=4, verbose=True)
run("vle verbose ax", with_plots, pgi.iast_binary_vle, [M["L1"], M["L2"]], 2.0, npoints=4, verbose=True, ax="AX")
run("vle guess", pgi.iast_binary_vle, [M["L1"], M["L2"]], 2.0, npoints=4, adsorbed_mole_fraction_guess=[0.3, 0.7])
run("vle bad guess", pgi.iast_binary_vle, [M["L1"], M["L2"]], 2.0, npoints=4,
    adsorbed_mole_fraction_guess=[0.3, 0.8])
run("vle narrow warn", pgi.iast_binary_vle, [M["LN"], M["L1"]], 5.0, npoints=3)
run("vle narrow off", pgi.iast_binary_vle, [M["LN"], M["L1"]], 5.0, npoints=3, warningoff=True)
run("vle points", pgi.iast_binary_vle, [P["P1"], P["P2"]], 2.0, npoints=6)
run("vle real", pgi.iast_binary_vle, [ch4, c2h6], 2.0, npoints=9)
run("vle real high", pgi.iast_binary_vle, [ch4, c2h6], 45.0, npoints=9)
run("vle mix", pgi.iast_binary_vle, [P["P1"], M["L2"]], 2.0, npoints=6)
run("vle des", pgi.iast_binary_vle, [P["PD"], P["PD"]], 2.0, npoints=4, branch="des")
run("vle des model", pgi.iast_binary_vle, [M["LDES"], M["LDES"]], 2.0, npoints=4, branch="des")
run("vle ads on des", pgi.iast_binary_vle, [M["LDES"], M["L1"]], 2.0, npoints=4)
run("vle one", pgi.iast_binary_vle, [M["L1"]], 2.0)
run("vle three", pgi.iast_binary_vle, [M["L1"], M["L2"], M["L3"]], 2.0)
run("vle none", pgi.iast_binary_vle, [], 2.0)
run("vle relative", pgi.iast_binary_vle, [M["L1"], M["LREL"]], 2.0)
run("vle virial", pgi.iast_binary_vle, [M["VIR"], M["L1"]], 2.0, npoints=3)
run("vle zero pressure", pgi.iast_binary_vle, [M["L1"], M["L2"]], 0.0, npoints=3)
run("vle negative pressure", pgi.iast_binary_vle, [M["L1"], M["L2"]], -1.0, npoints=3)
run("vle nan pressure", pgi.iast_binary_vle, [M["L1"], M["L2"]], numpy.nan, npoints=3)
run("vle array pressure", pgi.iast_binary_vle, [M["L1"], M["L2"]], numpy.array([1.0, 2.0]), npoints=3)
run("vle toth", pgi.iast_binary_vle, [M["TO"], M["L1"]], 3.0, npoints=12)

# --- SVP
plists = [[0.1, 1.0, 10.0], [1.0], [], numpy.geomspace(0.01, 30.0, 9), (0.5, 0.25), [5, 1], [[1.0, 2.0]], 3.0,
          numpy.array(2.0), [0.0, 1.0], [-1.0], [numpy.nan, 1.0], range(1, 4)]
flists = [[0.5, 0.5], [0.25, 0.75], [0.875, 0.125], (0.5, 0.5), numpy.array([0.0625, 0.9375]), [1, 0], [0, 1],
          [1.0, 0.0], [0.1, 0.9], [0.3, 0.7], [0.6, 0.5], [1.5, -0.5], [0.5], [0.2, 0.3, 0.5], [[0.5, 0.5], [0.5, 0.5]]]
for pair in pairs[:6]:
    isos = [M[k] for k in pair]
    for y in flists[:5]:
        run(f"svp {pair} {y!r}", lambda: typed(pgi.iast_binary_svp(isos, y, plists[3])))
for pl in plists:
    run(f"svp plist {pl!r}", pgi.iast_binary_svp, [M["L1"], M["L2"]], [0.25, 0.75], pl)
    run(f"svp plist pts {pl!r}", pgi.iast_binary_svp, [P["P1"], P["P2"]], [0.25, 0.75], pl)
for y in flists:
    run(f"svp flist {y!r}", pgi.iast_binary_svp, [M["L1"], M["L2"]], y, [0.5, 5.0])
    run(f"svp flist henry {y!r}", pgi.iast_binary_svp, [M["H1"], M["H2"]], y, [0.5, 5.0])
run("svp verbose", with_plots, pgi.iast_binary_svp, [M["L1"], M["L2"]], [0.25, 0.75], [1.0, 2.0], verbose=True)
run("svp verbose ax", with_plots, pgi.iast_binary_svp, [M["L1"], M["L2"]], [0.25, 0.75], [1.0, 2.0], verbose=True,
    ax="AX")
run("svp guess", pgi.iast_binary_svp, [M["L1"], M["L2"]], [0.25, 0.75], [1.0, 2.0],
    adsorbed_mole_fraction_guess=[0.3, 0.7])
run("svp bad guess", pgi.iast_binary_svp, [M["L1"], M["L2"]], [0.25, 0.75], [1.0, 2.0],
    adsorbed_mole_fraction_guess=[0.3, 0.8])
run("svp narrow warn", pgi.iast_binary_svp, [M["LN"], M["L1"]], [0.5, 0.5], [0.5, 5.0, 50.0])
run("svp narrow off", pgi.iast_binary_svp, [M["LN"], M["L1"]], [0.5, 0.5], [0.5, 5.0, 50.0], warningoff=True)
run("svp real", pgi.iast_binary_svp, [ch4, c2h6], [0.5, 0.5], [0.5, 1.0, 2.0, 10.0])
run("svp real high", pgi.iast_binary_svp, [ch4, c2h6], [0.5, 0.5], [1.0, 90.0])
run("svp des", pgi.iast_binary_svp, [P["PD"], P["PD"]], [0.5, 0.5], [1.0, 2.0], branch="des")
run("svp ads on des", pgi.iast_binary_svp, [M["LDES"], M["L1"]], [0.5, 0.5], [1.0, 2.0])
run("svp one", pgi.iast_binary_svp, [M["L1"]], [1.0], [1.0])
run("svp three", pgi.iast_binary_svp, [M["L1"], M["L2"], M["L3"]], [0.25, 0.25, 0.5], [1.0])
run("svp relative", pgi.iast_binary_svp, [M["L1"], M["LREL"]], [0.5, 0.5], [1.0])
run("svp virial", pgi.iast_binary_svp, [M["VIR"], M["L1"]], [0.5, 0.5], [1.0])

# --- wrappers give exactly the point calculation
for pt in (0.3, 4.0):
    res = pgi.iast_binary_vle([M["DS"], M["L2"]], pt, npoints=5)
    for y, x in zip(res["y"][1:-1], res["x"][1:-1]):
        q = pgi.iast_point([M["DS"], M["L2"]], [y * pt, (1 - y) * pt])
        print("vle==point", pt, fx.fmt(y), bool(x == q[0] / (q[0] + q[1])))
    res = pgi.iast_binary_svp([M["DS"], M["L2"]], [0.25, 0.75], [pt, 2 * pt])
    for p, sel in zip(res["pressure"], res["selectivity"]):
        q = pgi.iast_point([M["DS"], M["L2"]], [0.25 * p, 0.75 * p])
        print("svp==point", fx.fmt(p), bool(sel == (q[0] / 0.25) / (q[1] / 0.75)))
