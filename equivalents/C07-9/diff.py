"""Differential transcript for C07-1 (csv.py: model section reader extracted)."""
import os
import re
import tempfile
import warnings

warnings.simplefilter("ignore")

import pygaps
from pygaps.core.baseisotherm import BaseIsotherm
from pygaps.modelling import model_from_dict
from pygaps.parsing.csv import isotherm_from_csv
from pygaps.parsing.csv import isotherm_to_csv


def scrub(text):
    """Memory addresses in messages differ between any two runs."""
    return re.sub(r"0x[0-9a-fA-F]+", "0x?", text)


def show(label, fn):
    try:
        res = fn()
        print(label, "->", scrub(repr(res)))
    except BaseException as err:  # noqa
        print(label, "!!", type(err).__name__, scrub(repr(str(err))))
        cause = err.__cause__
        if cause is not None:
            print("   cause:", type(cause).__name__, scrub(repr(str(cause))))


def describe(iso):
    out = [type(iso).__name__, repr(iso.to_dict())]
    model = getattr(iso, "model", None)
    if model is not None:
        out.append(
            repr((
                model.name, model.rmse, model.pressure_range, model.loading_range,
                list(model.params.items())
            ))
        )
    if hasattr(iso, "data_raw"):
        out.append(iso.data_raw.to_csv())
    return "\n".join(out)


META = dict(
    material="mat",
    adsorbate="N2",
    temperature=77.0,
    pressure_mode="absolute",
    pressure_unit="bar",
    loading_basis="molar",
    loading_unit="mmol",
    material_basis="mass",
    material_unit="g",
    temperature_unit="K",
)

MODELS = [
    dict(name="Henry", rmse=0.0, pressure_range=[0.0, 1.0], loading_range=[0.0, 3.0], parameters={"K": 3.0}),
    dict(
        name="Langmuir",
        rmse=0.123456789012,
        pressure_range=[0.01, 10.5],
        loading_range=[0.1, 5.25],
        parameters={"K": 1.5e-3, "n_m": 7.25}
    ),
    dict(
        name="DSLangmuir",
        rmse=1e-12,
        pressure_range=[1e-5, 1e5],
        loading_range=[0, 1e3],
        parameters={"n_m1": 1.0, "K1": 2.0, "n_m2": 3.0, "K2": 4.0}
    ),
    dict(
        name="BET",
        rmse=3,
        pressure_range=(0.05, 0.35),
        loading_range=(1, 2),
        parameters={"n_m": 2.0, "C": 100.0, "N": 1.0}
    ),
    dict(
        name="TemkinApprox",
        rmse=float("nan"),
        pressure_range=[0.0, float("inf")],
        loading_range=[0.0, 1.0],
        parameters={"n_m": 1.0, "K": 1.0, "tht": 0.0}
    ),
]

print("=== model round trips")
for sep in [",", ";", "\t", "|"]:
    for mdict in MODELS:
        md = {k: (dict(v) if isinstance(v, dict) else v) for k, v in mdict.items()}
        label = f"{md['name']} sep={sep!r}"

        def run():
            iso = pygaps.ModelIsotherm(
                model=model_from_dict(md),
                **META,
                extra_float=1.25,
                extra_bool=False,
                extra_list=[1, 2, 3],
                note="some text"
            )
            text = isotherm_to_csv(iso, separator=sep)
            print(text)
            back = isotherm_from_csv(text, separator=sep)
            print(describe(back))
            return back == iso

        show(label, run)

print("=== model round trip through a file, with material properties")


def file_trip():
    iso = pygaps.ModelIsotherm(
        model=model_from_dict({
            "name": "Toth",
            "rmse": 0.5,
            "pressure_range": [0.1, 2.0],
            "loading_range": [0.2, 4.0],
            "parameters": {
                "n_m": 5.0,
                "K": 2.0,
                "t": 0.7
            },
        }),
        **{
            **META, "material": {
                "name": "matprops",
                "density": 2.5,
                "batch": "b1"
            }
        },
    )
    with tempfile.TemporaryDirectory() as tmp:
        path = os.path.join(tmp, "iso.csv")
        print(repr(isotherm_to_csv(iso, path)))
        with open(path, encoding="utf-8") as f:
            print(f.read())
        back = isotherm_from_csv(path)
    print(describe(back))
    return back == iso


show("file", file_trip)

HEAD = "".join(f"{k},{v}\n" for k, v in META.items()) + "file_version,3.0\n"

HAND = {
    "ok":
    "model:[name and parameters]\nname,Langmuir\nrmse,0.1\npressure range,[0.0 1.0]\nloading range,[0.0 2.0]\nK,2.0\nn_m,3.0\n",
    "ok trailing blanks":
    "model:[name and parameters]  \nname,Langmuir   \nrmse,0.1 \npressure range,[0.0 1.0]\t\nloading range,[0.0 2.0]  \nK,2.0 \nn_m,3.0   \n\n\n",
    "no final newline":
    "model\nname,Henry\nrmse,1\npressure range,[0 1]\nloading range,[0 2]\nK,2",
    "params after blank ignored":
    "model\nname,Henry\nrmse,1\npressure range,[0 1]\nloading range,[0 2]\nK,2\n\nK,5\n",
    "blank before params":
    "model\nname,Henry\nrmse,1\npressure range,[0 1]\nloading range,[0 2]\n\nK,2\n",
    "duplicate param":
    "model\nname,Henry\nrmse,1\npressure range,[0 1]\nloading range,[0 2]\nK,2\nK,7\n",
    "extra fields in rows":
    "model\nname,Henry,junk\nrmse,1,junk\npressure range,[0 1],junk\nloading range,[0 2],junk\nK,2,junk\n",
    "tuple ranges":
    "model\nname,Henry\nrmse,1\npressure range,(0 1)\nloading range,(0 2)\nK,2\n",
    "none ranges":
    "model\nname,Henry\nrmse,1\npressure range,None\nloading range,None\nK,2\n",
    "rmse nan":
    "model\nname,Henry\nrmse,nan\npressure range,[0 1]\nloading range,[0 2]\nK,2\n",
    "labels are not checked":
    "model\nfoo,Henry\nbar,1\nbaz,[0 1]\nqux,[0 2]\nK,2\n",
    "truncated after header":
    "model\n",
    "truncated after name":
    "model\nname,Henry\n",
    "truncated after rmse":
    "model\nname,Henry\nrmse,1\n",
    "truncated after prange":
    "model\nname,Henry\nrmse,1\npressure range,[0 1]\n",
    "no params":
    "model\nname,Henry\nrmse,1\npressure range,[0 1]\nloading range,[0 2]\n",
    "name without separator":
    "model\nname Henry\nrmse,1\npressure range,[0 1]\nloading range,[0 2]\nK,2\n",
    "rmse not float":
    "model\nname,Henry\nrmse,abc\npressure range,[0 1]\nloading range,[0 2]\nK,2\n",
    "rmse empty":
    "model\nname,Henry\nrmse,\npressure range,[0 1]\nloading range,[0 2]\nK,2\n",
    "bad pressure range":
    "model\nname,Henry\nrmse,1\npressure range,[0 1\nloading range,[0 2]\nK,2\n",
    "bad loading range":
    "model\nname,Henry\nrmse,1\npressure range,[0 1]\nloading range,foo bar\nK,2\n",
    "param without value":
    "model\nname,Henry\nrmse,1\npressure range,[0 1]\nloading range,[0 2]\nK\n",
    "param not float":
    "model\nname,Henry\nrmse,1\npressure range,[0 1]\nloading range,[0 2]\nK,two\n",
    "unknown model":
    "model\nname,NoSuchModel\nrmse,1\npressure range,[0 1]\nloading range,[0 2]\nK,2\n",
    "wrong param name":
    "model\nname,Henry\nrmse,1\npressure range,[0 1]\nloading range,[0 2]\nZ,2\n",
    "missing param":
    "model\nname,Langmuir\nrmse,1\npressure range,[0 1]\nloading range,[0 2]\nK,2\n",
    "wrong separator in model rows":
    "model\nname;Henry\nrmse;1\npressure range;[0 1]\nloading range;[0 2]\nK;2\n",
    "metadata only":
    "",
    "data section":
    "data:[pressure,loading,branch,(otherdata)]\npressure,loading,branch\n0.1,1.0,ads\n0.2,2.0,ads\n0.15,1.8,des\n",
}

print("=== hand-written csv")
for name, body in HAND.items():

    def run(body=body):
        back = isotherm_from_csv(HEAD + body)
        return describe(back)

    show(name, run)

print("=== hand-written csv, other separator and overrides")
for name in ["ok", "extra fields in rows", "truncated after name"]:
    body = HAND[name].replace(",", ";")
    head = HEAD.replace(",", ";")

    def run(body=body, head=head):
        back = isotherm_from_csv(head + body, separator=";", temperature=100.0, newkey="x")
        return describe(back)

    show(name, run)

print("=== metadata errors before the model section")
show("three values", lambda: isotherm_from_csv("a,b,c\n" + HEAD + HAND["ok"]))
show("one value", lambda: isotherm_from_csv("lonely\n" + HEAD + HAND["ok"]))
show("old version", lambda: describe(isotherm_from_csv(HEAD.replace("3.0", "2.0") + HAND["ok"])))
show("no version", lambda: describe(isotherm_from_csv(HEAD.replace("file_version,3.0\n", "") + HAND["ok"])))
show("not a string", lambda: isotherm_from_csv(12345))
show("none", lambda: isotherm_from_csv(None))

print("=== point and base isotherm")


def point_trip():
    iso = pygaps.PointIsotherm(
        pressure=[0.1, 0.2, 0.3, 0.2, 0.1],
        loading=[1, 2, 3.123456789123, 2.5, 1.5],
        **{
            **META, "material": {
                "name": "mm",
                "density": 1.0
            }
        },
        flag=True
    )
    text = isotherm_to_csv(iso)
    print(text)
    back = isotherm_from_csv(text)
    print(describe(back))
    return back == iso


show("point", point_trip)


def base_trip():
    iso = BaseIsotherm(**META, comment="x y", n=3)
    text = isotherm_to_csv(iso)
    print(text)
    back = isotherm_from_csv(text)
    print(describe(back))
    return back == iso


show("base", base_trip)
