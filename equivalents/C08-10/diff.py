"""Differential transcript for the SQLite store (property C08).

Run with PYTHONPATH pointing at the tree under test.  Prints a deterministic
transcript: every call's repr()'d result or exception type + message, every
log record, and a full dump of the database tables after each operation.
"""
import itertools
import logging
import os
import shutil
import sqlite3
import sys
import tempfile

import numpy
import pandas

import pygaps
import pygaps.parsing.sqlite as pgsql
import pygaps.utilities.sqlite_utilities as squ
from pygaps.data import ADSORBATE_LIST
from pygaps.data import MATERIAL_LIST
from pygaps.utilities.sqlite_db_pragmas import PRAGMAS

# ---------------------------------------------------------------- logging
plog = logging.getLogger('pygaps')
for h in list(plog.handlers):
    plog.removeHandler(h)


class _Print(logging.Handler):
    def emit(self, record):
        print(f"  LOG[{record.levelname}] {record.getMessage()}")


plog.addHandler(_Print(level=logging.DEBUG))

TMP = tempfile.mkdtemp(prefix='c08diff')
TABLES = [
    'adsorbates', 'adsorbate_properties_type', 'adsorbate_properties', 'materials',
    'material_properties_type', 'material_properties', 'isotherm_type', 'isotherms',
    'isotherm_properties', 'isotherm_data'
]


def scrub(text):
    return str(text).replace(TMP, '<TMP>')


def chain(err):
    out = []
    seen = 0
    while err is not None and seen < 5:
        out.append(f"{type(err).__module__}.{type(err).__name__}: {scrub(err)!r}")
        nxt = err.__cause__
        tag = 'cause'
        if nxt is None and not err.__suppress_context__:
            nxt = err.__context__
            tag = 'context'
        if nxt is not None:
            out.append(tag)
        err = nxt
        seen += 1
    return ' | '.join(out)


def call(label, fn, *args, **kwargs):
    print(f"> {label}")
    try:
        res = fn(*args, **kwargs)
    except BaseException as err:  # noqa
        print(f"  RAISED {chain(err)}")
        return None
    print(f"  -> {show(res)}")
    return res


def show(obj):
    if isinstance(obj, pygaps.Adsorbate):
        return f"Adsorbate({obj.to_dict()!r})"
    if isinstance(obj, pygaps.Material):
        return f"Material({obj.to_dict()!r})"
    if isinstance(obj, pygaps.PointIsotherm):
        return (
            f"PointIsotherm(id={obj.iso_id}, {obj.to_dict()!r}, cols={list(obj.data_raw.columns)!r}, "
            f"dtypes={[str(d) for d in obj.data_raw.dtypes]!r}, data={obj.data_raw.values.tolist()!r})"
        )
    if isinstance(obj, pygaps.ModelIsotherm):
        return f"ModelIsotherm(id={obj.iso_id}, {obj.to_dict()!r})"
    if isinstance(obj, pygaps.core.baseisotherm.BaseIsotherm):
        return f"BaseIsotherm(id={obj.iso_id}, {obj.to_dict()!r})"
    if isinstance(obj, (list, tuple)):
        return type(obj).__name__ + '[' + ', '.join(show(o) for o in obj) + ']'
    return scrub(repr(obj))


def mk_db(name):
    pth = os.path.join(TMP, name)
    for pragma in PRAGMAS:
        squ.db_execute_general(pragma, pth)
    for tp in ('isotherm', 'pointisotherm', 'modelisotherm'):
        pgsql.isotherm_type_to_db({'type': tp}, db_path=pth, verbose=False)
    return pth


def dump(pth, tables=TABLES):
    conn = sqlite3.connect(pth)
    try:
        for tb in tables:
            rows = conn.execute(f'SELECT * FROM "{tb}" ORDER BY id').fetchall()
            print(f"  DB {tb}: {rows!r}")
    finally:
        conn.close()


def lists():
    names = [a.name for a in ADSORBATE_LIST[176:]]
    print(f"  LISTS ads={len(ADSORBATE_LIST)} extra={names!r} mats={[m.name for m in MATERIAL_LIST]!r}")


def section(title):
    print()
    print('=' * 10, title)


# ================================================================ utilities
section('builders')


class Odd:
    def __format__(self, spec):
        return f"odd<{spec}>"

    def __str__(self):
        return 'oddstr'


col_inputs = [
    [], ['a'], ['a', 'b'], ('x', 'y', 'z'), {'k1': 1, 'k2': 2}.keys(), {'k1': 1}, [1, 2.5, None],
    [Odd(), 'b'], 'abc', '*', None, 5
]
for ci, cj in itertools.product(range(len(col_inputs)), range(len(col_inputs))):
    a, b = col_inputs[ci], col_inputs[cj]
    call(f"build_update t {ci} {cj}", squ.build_update, 't', a, b)
    call(f"build_update kw prefix {ci} {cj}", squ.build_update, table='t"q', to_set=a, where=b, prefix='old_')
    call(f"build_update prefix='' {ci} {cj}", squ.build_update, 't', a, b, '')
    call(f"build_select {ci} {cj}", squ.build_select, 'tab', a, b)
    call(f"build_select_unnamed {ci} {cj}", squ.build_select_unnamed, 'tab', a, b)
    call(f"build_select_unnamed OR {ci} {cj}", squ.build_select_unnamed, 'tab', a, b, join='OR')
for ci, a in enumerate(col_inputs):
    call(f"build_insert {ci}", squ.build_insert, 'tb', a)
    call(f"build_insert kw {ci}", squ.build_insert, table=5, to_insert=a)
    call(f"build_delete {ci}", squ.build_delete, 'tb', a)
    call(f"build_select nowhere {ci}", squ.build_select, 'tb', a)
    call(f"build_select where=() {ci}", squ.build_select, 'tb', a, ())
# one-shot iterators, shared iterator
call("build_insert gen", squ.build_insert, 't', (c for c in 'abc'))
call("build_update gens", squ.build_update, 't', (c for c in 'ab'), (c for c in 'cd'), 'p')
shared = iter(['a', 'b', 'c'])
call("build_update shared iterator", squ.build_update, 't', shared, shared)
shared = iter(['a', 'b', 'c'])
call("build_select shared iterator", squ.build_select, 't', shared, shared)
call("build_select gen where", squ.build_select, 't', ['a'], (c for c in 'xy'))
call("build_delete gen", squ.build_delete, 't', (c for c in 'xy'))
call("build_update prefix int", squ.build_update, 't', ['a'], ['b'], 7)
call("build_update prefix 0", squ.build_update, 't', ['a'], ['b'], 0)

section('type helpers')


class EqWeird:
    def __eq__(self, other):
        print(f"    EqWeird.__eq__({other!r})")
        return 'yes' if other == 'FALSE' else ''

    __hash__ = None


vals = [
    'TRUE', 'FALSE', 'true', 'True', '', None, 0, 1, True, False, 1.5, b'TRUE', ['TRUE'], ('TRUE', ),
    numpy.str_('TRUE'), numpy.str_('FALSE'), float('nan'), EqWeird(), 'TRUE ', {'TRUE'},
]
for v in vals:
    call(f"check_SQL_bool({type(v).__name__})", squ.check_SQL_bool, v)
call("check_SQL_bool(ndarray)", squ.check_SQL_bool, numpy.array(['TRUE', 'FALSE']))
tvals = [
    True, 1, 1.0, 'a', None, numpy.float64(1.0), numpy.int64(1), numpy.bool_(True), numpy.str_('a'),
    numpy.float32(2), b'x', [1], (1, ), {}, 1j, numpy.nan, pandas.NA, object
]
for v in tvals:
    call(f"find_SQL_python_type({type(v).__name__})", squ.find_SQL_python_type, v)
for v in ['bool', 'int', 'float', 'str', 'dict', '', None, 5, bool, 'Float']:
    call(f"check_SQL_python_type({v!r})", squ.check_SQL_python_type, v)
saved = list(squ.SUPORTED_TYPES)
squ.SUPORTED_TYPES[:] = [str, float]
call("find type with patched SUPORTED_TYPES (int)", squ.find_SQL_python_type, 3)
call("find type with patched SUPORTED_TYPES (float)", squ.find_SQL_python_type, 3.0)
call("check type with patched SUPORTED_TYPES", squ.check_SQL_python_type, 'int')
squ.SUPORTED_TYPES[:] = saved

section('db_execute_general')
call("bad statement", squ.db_execute_general, "SELECT", os.path.join(TMP, 'x.db'))
call("bad path", squ.db_execute_general, "SELECT 1", "/")
call("bad statement verbose", squ.db_execute_general, "CREATE TABLE", os.path.join(TMP, 'x.db'), verbose=True)
call("ok statement", squ.db_execute_general, "CREATE TABLE q (a); INSERT INTO q VALUES (1);", os.path.join(TMP, 'x.db'))

# ================================================================ store
DB = mk_db('one.db')
DB2 = mk_db('two.db')

section('property types (adsorbate / material / isotherm / isotherm type)')
families = [
    (
        'adsorbate', pgsql.adsorbate_property_type_to_db, pgsql.adsorbate_property_types_from_db,
        pgsql.adsorbate_property_type_delete_db, ['adsorbate_properties_type']
    ),
    (
        'material', pgsql.material_property_type_to_db, pgsql.material_property_types_from_db,
        pgsql.material_property_type_delete_db, ['material_properties_type']
    ),
    (
        'isoprop', pgsql.isotherm_property_type_to_db, pgsql.isotherm_property_types_from_db,
        pgsql.isotherm_property_type_delete_db, ['isotherm_properties_type']
    ),
    ('isotype', pgsql.isotherm_type_to_db, pgsql.isotherm_types_from_db, pgsql.isotherm_type_delete_db, ['isotherm_type']),
]
for fam, up, get, rm, tbl in families:
    if fam == 'isoprop':
        # table is not part of the default schema
        call(f"{fam} get (no table)", get, db_path=DB)
        call(f"{fam} upload (no table)", up, {'type': 'x'}, db_path=DB)
        call(f"{fam} delete (no table)", rm, 'x', db_path=DB)
        squ.db_execute_general(
            """CREATE TABLE "isotherm_properties_type" (`id` INTEGER NOT NULL PRIMARY KEY AUTOINCREMENT UNIQUE,
            `type` TEXT NOT NULL UNIQUE, `unit` TEXT, `description` TEXT);""", DB
        )
    d1 = {'type': 'p1', 'unit': 'u1', 'description': 'first'}
    call(f"{fam} get empty", get, db_path=DB)
    call(f"{fam} upload p1", up, d1, db_path=DB)
    call(f"{fam} upload p1 again (dup)", up, d1, db_path=DB)
    dump(DB, tbl)
    call(f"{fam} upload p2 partial, quiet", up, {'type': 'p2'}, db_path=DB, verbose=False)
    call(f"{fam} upload extra keys positional path", up, {'type': 'p3', 'junk': 1, 'description': 'd3'}, DB)
    call(f"{fam} upload no type", up, {'unit': 'zz'}, db_path=DB)
    call(f"{fam} upload empty", up, {}, db_path=DB)
    call(f"{fam} upload bad value", up, {'type': ['l']}, db_path=DB)
    call(f"{fam} upload not a dict", up, None, db_path=DB)
    dump(DB, tbl)
    call(f"{fam} overwrite p1", up, {'type': 'p1', 'unit': 'u9', 'description': 'changed'}, db_path=DB, overwrite=True)
    call(f"{fam} overwrite p2 to nulls", up, {'type': 'p2'}, db_path=DB, overwrite=True)
    call(f"{fam} overwrite missing", up, {'type': 'nope', 'unit': 'u'}, db_path=DB, overwrite=True)
    dump(DB, tbl)
    call(f"{fam} get", get, db_path=DB)
    call(f"{fam} get positional", get, DB, False)
    call(f"{fam} get other db", get, db_path=DB2)
    call(f"{fam} delete p2", rm, 'p2', db_path=DB)
    call(f"{fam} delete p2 again", rm, 'p2', db_path=DB)
    call(f"{fam} delete none", rm, None, db_path=DB, verbose=False)
    call(f"{fam} delete int positional", rm, 5, DB)
    call(f"{fam} delete unbindable", rm, ['p1'], db_path=DB)
    dump(DB, tbl)
    call(f"{fam} get", get, db_path=DB)

section('adsorbates')
a1 = pygaps.Adsorbate('zzgas', formula='Z2', alias=['zed', 'zz'], molar_mass=3.5)
a2 = pygaps.Adsorbate('blankgas')
a3 = pygaps.Adsorbate('weird', formula=None, stuff=('t1', 't2'), sset={'only'}, num=4, flag=True)
ATB = ['adsorbates', 'adsorbate_properties_type', 'adsorbate_properties']
call("ads get empty", pgsql.adsorbates_from_db, db_path=DB)
call("ads upload a1 no autoinsert (unknown types)", pgsql.adsorbate_to_db, a1, db_path=DB, autoinsert_properties=False)
dump(DB, ATB)
lists()
call("ads upload a1", pgsql.adsorbate_to_db, a1, db_path=DB)
lists()
call("ads upload a1 dup", pgsql.adsorbate_to_db, a1, db_path=DB)
dump(DB, ATB)
lists()
call("ads upload a2 quiet positional", pgsql.adsorbate_to_db, a2, DB, True, False, False)
call("ads upload a3 (None property)", pgsql.adsorbate_to_db, a3, db_path=DB)
dump(DB, ATB)
a3.properties.pop('formula')
call("ads upload a3", pgsql.adsorbate_to_db, a3, db_path=DB)
a4 = pygaps.Adsorbate('unbindable', thing={'a': 1})
call("ads upload unbindable", pgsql.adsorbate_to_db, a4, db_path=DB)
a5 = pygaps.Adsorbate('unbindable2', thing=[1, [2]])
call("ads upload unbindable in list", pgsql.adsorbate_to_db, a5, db_path=DB)
dump(DB, ATB)
lists()
call("ads get", pgsql.adsorbates_from_db, db_path=DB)
call("ads get quiet positional", pgsql.adsorbates_from_db, DB, False)
call("ads get other db", pgsql.adsorbates_from_db, db_path=DB2)
a1.properties['formula'] = 'newform'
a1.properties['alias'] = ['zed']
call("ads overwrite a1", pgsql.adsorbate_to_db, a1, db_path=DB, overwrite=True)
call("ads overwrite missing", pgsql.adsorbate_to_db, pygaps.Adsorbate('ghost', formula='G'), db_path=DB, overwrite=True)
call("ads overwrite in other db", pgsql.adsorbate_to_db, a1, db_path=DB2, overwrite=True)
dump(DB, ATB)
dump(DB2, ATB)
lists()
got = call("ads get", pgsql.adsorbates_from_db, db_path=DB)
print("  a1 in got:", a1 in got, "; equal dicts:", [g.to_dict() == a1.to_dict() for g in got])
call("ads delete missing str", pgsql.adsorbate_delete_db, 'ghost', db_path=DB)
call("ads delete missing obj", pgsql.adsorbate_delete_db, pygaps.Adsorbate('ghost2'), db_path=DB)
call("ads delete a2 by str", pgsql.adsorbate_delete_db, 'blankgas', db_path=DB)
call("ads delete a3 by retrieved", pgsql.adsorbate_delete_db, [g for g in got if g.name == 'weird'][0], DB, False)
call("ads delete a3 again", pgsql.adsorbate_delete_db, a3, db_path=DB)
call("ads delete None", pgsql.adsorbate_delete_db, None, db_path=DB)
call("ads delete in other db", pgsql.adsorbate_delete_db, a1, db_path=DB2)
dump(DB, ATB)
lists()

section('materials')
m1 = pygaps.Material('mat1', density=1.2, batch='b1', tags=['x', 'y', 'z'])
m2 = pygaps.Material('blankmat')
m3 = pygaps.Material('matnone', thing=None)
m4 = pygaps.Material('matdict', thing={'a': 1})
MTB = ['materials', 'material_properties_type', 'material_properties']
call("mat get empty", pgsql.materials_from_db, db_path=DB)
call("mat upload m1 no autoinsert", pgsql.material_to_db, m1, db_path=DB, autoinsert_properties=False)
dump(DB, MTB)
call("mat upload m1", pgsql.material_to_db, m1, db_path=DB)
call("mat upload m1 dup", pgsql.material_to_db, m1, db_path=DB)
call("mat upload m2 positional quiet", pgsql.material_to_db, m2, DB, True, False, False)
call("mat upload m3 None prop", pgsql.material_to_db, m3, db_path=DB)
call("mat upload m4 dict prop", pgsql.material_to_db, m4, db_path=DB)
dump(DB, MTB)
lists()
call("mat get", pgsql.materials_from_db, db_path=DB)
call("mat get other", pgsql.materials_from_db, db_path=DB2)
m1.properties['density'] = 2.5
m1.properties['tags'] = ('q', )
m1.properties['new'] = 'prop'
call("mat overwrite m1", pgsql.material_to_db, m1, db_path=DB, overwrite=True)
call("mat overwrite m1 no autoinsert ok", pgsql.material_to_db, m1, db_path=DB, overwrite=True, autoinsert_properties=False)
call("mat overwrite missing", pgsql.material_to_db, pygaps.Material('ghost', a=1), db_path=DB, overwrite=True)
dump(DB, MTB)
lists()
mgot = call("mat get", pgsql.materials_from_db, DB)
print("  m1 in got:", m1 in mgot, [g.to_dict() == m1.to_dict() for g in mgot])
call("mat delete missing", pgsql.material_delete_db, 'ghost', db_path=DB)
call("mat delete m2 str", pgsql.material_delete_db, 'blankmat', db_path=DB)
call("mat delete m2 again obj", pgsql.material_delete_db, m2, db_path=DB)
call("mat delete other db", pgsql.material_delete_db, m1, db_path=DB2)
dump(DB, MTB)
lists()

section('isotherms')
ITB = ['isotherms', 'isotherm_properties', 'isotherm_data', 'materials', 'adsorbates']
common = dict(
    pressure_mode='absolute', pressure_unit='bar', material_basis='mass', material_unit='g', loading_basis='molar',
    loading_unit='mmol', temperature_unit='K'
)
df = pandas.DataFrame({
    'pressure': [0.1, 0.5, 1.0, 2.0, 1.0, 0.5],
    'loading': [0.11, 0.52, 0.9, 1.3, 1.1, 0.7],
    'enthalpy': [5.5, 5.0, 4.5, 4.0, 4.2, 4.9],
    'count': [1, 2, 3, 4, 5, 6],
    'note': ['a', 'b', 'c', 'd', 'e', 'f'],
})
pi = pygaps.PointIsotherm(
    isotherm_data=df, pressure_key='pressure', loading_key='loading',
    material='mat1', adsorbate='zzgas', temperature=77.5, comment='hello', is_real=True, lab=False, n=3, **common
)
pi_int = pi
pi = pygaps.PointIsotherm(
    isotherm_data=df.drop(columns=['count']), pressure_key='pressure', loading_key='loading',
    material='mat1', adsorbate='zzgas', temperature=77.5, comment='hello', is_real=True, lab=False, n=3, **common
)
pi_plain = pygaps.PointIsotherm(
    pressure=[1, 2, 3], loading=[1.5, 2.5, 3.5], material='newmat', adsorbate='N2', temperature=100, **common
)
mi = pygaps.ModelIsotherm(
    pressure=[0.1, 0.5, 1.0, 2.0, 3.0], loading=[0.11, 0.45, 0.7, 0.95, 1.05], model='Langmuir', material='mat1',
    adsorbate='zzgas', temperature=30, verbose=False, **common
)
bi = pygaps.core.baseisotherm.BaseIsotherm(material='mat1', adsorbate='newgas', temperature=5, flag=True, **common)
bi_ghost = pygaps.core.baseisotherm.BaseIsotherm(material='ghostmat', adsorbate='ghostgas', temperature=5, **common)

call("iso get empty", pgsql.isotherms_from_db, db_path=DB)
call("iso upload ghost, no autoinsert", pgsql.isotherm_to_db, bi_ghost, db_path=DB, autoinsert_material=False, autoinsert_adsorbate=False)
call("iso upload ghost, only material autoinsert", pgsql.isotherm_to_db, bi_ghost, db_path=DB, autoinsert_adsorbate=False)
call("iso upload ghost, only adsorbate autoinsert", pgsql.isotherm_to_db, bi_ghost, db_path=DB, autoinsert_material=False)
dump(DB, ITB)
lists()
call("iso upload not an isotherm", pgsql.isotherm_to_db, 'iso', db_path=DB)
call("iso upload pi with int column (refused half way)", pgsql.isotherm_to_db, pi_int, db_path=DB)
dump(DB, ITB)
call("iso upload pi", pgsql.isotherm_to_db, pi, db_path=DB)
call("iso upload pi dup", pgsql.isotherm_to_db, pi, db_path=DB)
call("iso upload mi positional", pgsql.isotherm_to_db, mi, DB, True, True, False)
call("iso upload bi", pgsql.isotherm_to_db, bi, db_path=DB)
call("iso upload pi_plain", pgsql.isotherm_to_db, pi_plain, db_path=DB)
call("iso upload pi to other db no autoinsert", pgsql.isotherm_to_db, pi, db_path=DB2, autoinsert_material=False)
dump(DB, ITB)
dump(DB2, ITB)
lists()
allgot = call("iso get all", pgsql.isotherms_from_db, db_path=DB)
for g in allgot or []:
    for ref in (pi, pi_plain, mi, bi):
        if g.iso_id == ref.iso_id:
            print("  equal to stored:", type(ref).__name__, g == ref, g.to_dict() == ref.to_dict())
for crit in [
    None, {}, {'material': 'mat1'}, {'material': 'mat1', 'adsorbate': 'zzgas'}, {'temperature': 30}, {'temperature': '30'},
    {'iso_type': 'pointisotherm'}, {'material': 'none'}, {'bogus': 1}, {'id': pi.iso_id}, {'material': ['l']}, 'material', 5,
]:
    call(f"iso get {crit!r}", pgsql.isotherms_from_db, crit, db_path=DB, verbose=False)
call("iso get positional", pgsql.isotherms_from_db, {'adsorbate': 'newgas'}, DB, True)
call("iso get other db", pgsql.isotherms_from_db, db_path=DB2)
call("mat delete m1 referenced", pgsql.material_delete_db, m1, db_path=DB)
call("ads delete a1 referenced", pgsql.adsorbate_delete_db, a1, db_path=DB)
dump(DB, ['materials', 'material_properties', 'adsorbates', 'adsorbate_properties'])
lists()
call("iso delete missing id", pgsql.isotherm_delete_db, 'nope', db_path=DB)
call("iso delete ghost obj", pgsql.isotherm_delete_db, bi_ghost, db_path=DB)
call("iso delete None", pgsql.isotherm_delete_db, None, db_path=DB)
call("iso delete in other db", pgsql.isotherm_delete_db, pi, db_path=DB2)
retrieved = [g for g in allgot if g.iso_id == pi.iso_id][0]
call("iso delete via retrieved", pgsql.isotherm_delete_db, retrieved, db_path=DB)
call("iso delete via retrieved again", pgsql.isotherm_delete_db, retrieved, db_path=DB)
call("iso delete mi by id positional", pgsql.isotherm_delete_db, mi.iso_id, DB, False)
dump(DB, ITB)
call("iso get all", pgsql.isotherms_from_db, db_path=DB)

section('corrupt / unusual isotherm rows')
conn = sqlite3.connect(DB)
conn.execute("INSERT INTO isotherm_type (type) VALUES ('strange')")
conn.execute("INSERT INTO isotherms VALUES ('m-nodata', 'modelisotherm', 'mat1', 'zzgas', 10)")
conn.commit()
conn.close()
call("iso get with model lacking data", pgsql.isotherms_from_db, db_path=DB)
conn = sqlite3.connect(DB)
conn.execute("DELETE FROM isotherms WHERE id = 'm-nodata'")
conn.execute("INSERT INTO isotherms VALUES ('p-nodata', 'pointisotherm', 'mat1', 'zzgas', 10)")
conn.commit()
conn.close()
call("iso get with point lacking data", pgsql.isotherms_from_db, db_path=DB)
conn = sqlite3.connect(DB)
conn.execute("DELETE FROM isotherms WHERE id = 'p-nodata'")
conn.execute("INSERT INTO isotherms VALUES ('s-1', 'strange', 'mat1', 'zzgas', 10)")
conn.execute("INSERT INTO isotherm_properties (iso_id, type, value) VALUES ('s-1', 'yes', 'TRUE')")
conn.execute("INSERT INTO isotherm_properties (iso_id, type, value) VALUES ('s-1', 'no', 'FALSE')")
conn.execute("INSERT INTO isotherm_properties (iso_id, type, value) VALUES ('s-1', 'yes', 'second wins')")
conn.execute("INSERT INTO isotherm_properties (iso_id, type, value) VALUES ('s-1', 'material', 'overridden')")
conn.execute("INSERT INTO isotherm_data (iso_id, type, dtype, data) VALUES ('s-1', 'pressure', 'float', '[1]')")
conn.commit()
conn.close()
call("iso get strange type", pgsql.isotherms_from_db, db_path=DB)
call("iso delete strange", pgsql.isotherm_delete_db, 's-1', db_path=DB)
dump(DB, ITB)

section('many isotherms (grouping by 100)')
DB3 = mk_db('three.db')
pgsql.material_to_db(pygaps.Material('bulk'), db_path=DB3, verbose=False)
pgsql.adsorbate_to_db(pygaps.Adsorbate('bulkgas'), db_path=DB3, verbose=False)
bulk = []
for i in range(205):
    kind = i % 3
    if kind == 0:
        iso = pygaps.core.baseisotherm.BaseIsotherm(material='bulk', adsorbate='bulkgas', temperature=i + 1, idx=i, **common)
    elif kind == 1:
        iso = pygaps.PointIsotherm(
            pressure=[1, 2, 3 + i], loading=[0.5, 1.0 + i / 7, 9.0], material='bulk', adsorbate='bulkgas', temperature=i + 1,
            odd=bool(i % 2), **common
        )
    else:
        iso = pygaps.ModelIsotherm(
            model=pygaps.modelling.get_isotherm_model(
                'Henry', parameters={'K': 1.0 + i / 3}, pressure_range=[0, 1], loading_range=[0, 1 + i]
            ), material='bulk', adsorbate='bulkgas', temperature=i + 1, **common
        )
    bulk.append(iso)
    pgsql.isotherm_to_db(iso, db_path=DB3, verbose=False, autoinsert_material=False, autoinsert_adsorbate=False)
gotbulk = call("bulk get", pgsql.isotherms_from_db, db_path=DB3)
byid = {g.iso_id: g for g in gotbulk}
print("  all equal:", all(byid[b.iso_id] == b for b in bulk), len(byid))
call("bulk get criteria", pgsql.isotherms_from_db, {'temperature': 101}, db_path=DB3)
for b in bulk[::2]:
    pgsql.isotherm_delete_db(byid[b.iso_id], db_path=DB3, verbose=False)
gotbulk = call("bulk get after deleting every other", pgsql.isotherms_from_db, db_path=DB3, verbose=False)
print("  remaining ids match:", sorted(g.iso_id for g in gotbulk) == sorted(b.iso_id for b in bulk[1::2]))

section('connection handling')
DEF = os.path.join(TMP, 'default_copy.db')
shutil.copy(DB2, DEF)
orig_default = pgsql.DATABASE
pgsql.DATABASE = DEF
try:
    call("default db: upload type", pgsql.material_property_type_to_db, {'type': 'indefault'})
    call("default db: db_path=None", pgsql.material_property_types_from_db, db_path=None)
    call("default db: db_path='' positional", pgsql.material_property_types_from_db, '')
    call("default db: db_path=0 kw", pgsql.material_property_types_from_db, db_path=0)
    call("default db: cursor=None", pgsql.material_property_types_from_db, cursor=None)
    call("explicit db unaffected", pgsql.material_property_types_from_db, db_path=DB2)
    call("default db: delete missing", pgsql.material_property_type_delete_db, 'zz')
    call("default db: dup", pgsql.material_property_type_to_db, {'type': 'indefault'})
    dump(DEF, ['material_properties_type'])
finally:
    pgsql.DATABASE = orig_default
call("nonexistent directory", pgsql.materials_from_db, db_path=os.path.join(TMP, 'no', 'such', 'dir.db'))
call("empty file (no tables)", pgsql.materials_from_db, db_path=os.path.join(TMP, 'empty.db'))
call("empty file upload", pgsql.material_to_db, pygaps.Material('e'), db_path=os.path.join(TMP, 'empty.db'))
call("path object", pgsql.materials_from_db, db_path=__import__('pathlib').Path(DB2))
call("bad path type", pgsql.materials_from_db, db_path=5.5)
call("too many positionals", pgsql.materials_from_db, DB2, False, 3)
call("unknown kw goes to kwargs", pgsql.materials_from_db, db_path=DB2, other=1)
call("db_path twice", pgsql.material_to_db, pygaps.Material('e'), DB2, db_path=DB2)

conn = sqlite3.connect(DB2)
conn.row_factory = sqlite3.Row
cur = conn.cursor()
cur.execute('PRAGMA foreign_keys = ON')
call("own cursor: upload", pgsql.material_to_db, pygaps.Material('viacursor', a=1), db_path='ignored', cursor=cur)
call("own cursor: dup raises raw sqlite error", pgsql.material_to_db, pygaps.Material('viacursor'), cursor=cur)
call("own cursor: delete missing raw", pgsql.material_delete_db, 'nobody', cursor=cur)
call("own cursor: get", pgsql.materials_from_db, cursor=cur, verbose=False)
print("  in_transaction:", conn.in_transaction)
conn.rollback()
conn.close()
call("after rollback nothing kept", pgsql.materials_from_db, db_path=DB2)
print("  wrapped names:", pgsql.isotherms_from_db.__name__, pgsql.material_to_db.__wrapped__.__name__)


def custom(a, db_path=None, **kwargs):
    cur = kwargs['cursor']
    return cur.execute('SELECT count(*) FROM materials').fetchone()[0], a


wrapped = pgsql.with_connection(custom)
call("custom positional", wrapped, 'x', DB)
call("custom keyword", wrapped, 'x', db_path=DB2)


def nodb(a, **kwargs):
    return kwargs['cursor'].execute('SELECT 1').fetchone()[0], a


pgsql.DATABASE = DEF
try:
    call("custom without db_path param", pgsql.with_connection(nodb), 'x', 'y')
    call("custom without db_path param ok", pgsql.with_connection(nodb), 'x')
finally:
    pgsql.DATABASE = orig_default


def raiser(kind, db_path=None, **kwargs):
    kwargs['cursor'].execute("INSERT INTO materials (name) VALUES ('should-vanish')")
    raise kind('boom')


for kind in (
    sqlite3.IntegrityError, sqlite3.InterfaceError, sqlite3.OperationalError, sqlite3.ProgrammingError, sqlite3.DatabaseError,
    sqlite3.Error, ValueError, KeyError
):
    call(f"raiser {kind.__name__}", pgsql.with_connection(raiser), kind, db_path=DB2)
call("after raisers", pgsql.materials_from_db, db_path=DB2, verbose=False)

section('private helpers through a raw cursor')
conn = sqlite3.connect(DB2)
conn.row_factory = sqlite3.Row
cur = conn.cursor()
call("_get_all_no_id wrong id column", pgsql._get_all_no_id, cur, 'isotherm_type', 'nocol', 'x', True)
call("_get_all_no_id name column", pgsql._get_all_no_id, cur, 'isotherm_type', 'type', 'x', True)
call("_get_all_no_id no table", pgsql._get_all_no_id, cur, 'missing_tbl', 'id', 'x', True)
call("_upload_one_all_columns tuple columns", pgsql._upload_one_all_columns, cur, 'isotherm_type', 'type', ('description', ), {}, False, 'X', True)
call("_upload_one_all_columns", pgsql._upload_one_all_columns, cur, 'isotherm_type', 'type', ['description'], {'type': 'tt', 'description': None}, False, 'X', True, extra=1)
call("_upload_one_all_columns overwrite", pgsql._upload_one_all_columns, cur, 'isotherm_type', 'type', ['description'], {'type': 'tt', 'description': 'dd'}, 1, 'X', 0)
call("_delete_by_id", pgsql._delete_by_id, cur, 'isotherm_type', 'type', 'tt', 'things', True)
call("_delete_by_id missing", pgsql._delete_by_id, cur, 'isotherm_type', 'type', 'tt', 'things', True)
call("_delete_by_id referenced", pgsql._delete_by_id, cur, 'isotherm_type', 'type', 'pointisotherm', 'things', True)
conn.rollback()
conn.close()

shutil.rmtree(TMP)
print("done")
