"""Differential transcript for C16-2 (psd_pygapsdh, psd_bjh, psd_dollimore_heal internals)."""
import warnings

warnings.simplefilter("ignore")

import numpy

from pygaps.characterisation import psd_meso
from pygaps.characterisation.models_kelvin import get_kelvin_model
from pygaps.characterisation.models_thickness import get_thickness_model
from pygaps.characterisation.psd_meso import psd_bjh
from pygaps.characterisation.psd_meso import psd_dollimore_heal
from pygaps.characterisation.psd_meso import psd_pygapsdh

numpy.seterr(all='ignore')

METHODS = (('pygaps-DH', psd_pygapsdh), ('BJH', psd_bjh), ('DH', psd_dollimore_heal))
GEOMETRIES = ('slit', 'cylinder', 'sphere')


def fmt(val):
    if isinstance(val, numpy.ndarray):
        return f"ndarray[{val.dtype},{val.shape}]{val.tolist()!r}"
    if isinstance(val, numpy.generic):
        return f"{type(val).__name__}({val.item()!r})"
    if isinstance(val, dict):
        return "{" + ", ".join(f"{k!r}: {fmt(v)}" for k, v in val.items()) + "}"
    if isinstance(val, (tuple, list)):
        return type(val).__name__ + "(" + ", ".join(fmt(v) for v in val) + ")"
    return repr(val)


def show(label, fn):
    try:
        res = fn()
        print(f"[{label}] OK {fmt(res)}")
        return res
    except BaseException as err:  # noqa
        print(f"[{label}] EXC {type(err).__name__}: {err!s} | args={err.args!r}")
        return None


def kelvin(meniscus, model='Kelvin'):
    return get_kelvin_model(
        model,
        meniscus_geometry=meniscus,
        temperature=77.355,
        liquid_density=0.8064,
        adsorbate_molar_mass=28.0134,
        adsorbate_surface_tension=8.876,
    )


def datasets():
    rng = numpy.random.RandomState(20240611)
    out = {}
    p = numpy.linspace(0.05, 0.95, 25)
    out['smooth'] = (p, 0.2 * p / (0.1 + p) + 0.3 / (1 + numpy.exp(-(p - 0.6) * 40)))
    out['single step'] = (p, numpy.where(p > 0.5, 0.5, 0.1) + 0.0 * p)
    out['linear'] = (p, 0.5 * p)
    out['constant'] = (p, numpy.full_like(p, 0.3))
    out['decreasing'] = (p, 0.5 - 0.4 * p)
    pr = numpy.sort(rng.uniform(0.01, 0.99, 30))
    out['random increasing'] = (pr, numpy.cumsum(rng.uniform(0, 0.05, 30)))
    out['random noisy'] = (pr, rng.uniform(0, 1, 30))
    out['dense high p'] = (1 - numpy.logspace(-3, -0.3, 20)[::-1], numpy.linspace(0.1, 0.9, 20))
    out['two points'] = (numpy.array([0.3, 0.6]), numpy.array([0.1, 0.2]))
    out['three points'] = (numpy.array([0.3, 0.6, 0.9]), numpy.array([0.1, 0.2, 0.5]))
    out['one point'] = (numpy.array([0.5]), numpy.array([0.1]))
    out['with p=1'] = (numpy.array([0.2, 0.5, 0.8, 1.0]), numpy.array([0.1, 0.2, 0.3, 0.4]))
    out['with p=0'] = (numpy.array([0.0, 0.5, 0.8, 0.9]), numpy.array([0.0, 0.2, 0.3, 0.4]))
    out['repeated p'] = (numpy.array([0.2, 0.5, 0.5, 0.9]), numpy.array([0.1, 0.2, 0.3, 0.4]))
    out['unsorted p'] = (numpy.array([0.5, 0.2, 0.9, 0.7]), numpy.array([0.1, 0.2, 0.3, 0.4]))
    out['p above 1'] = (numpy.array([0.5, 0.9, 1.2, 1.5]), numpy.array([0.1, 0.2, 0.3, 0.4]))
    out['lists'] = ([0.2, 0.4, 0.6, 0.8], [0.1, 0.2, 0.4, 0.5])
    out['ints'] = (numpy.array([0.2, 0.4, 0.6, 0.8]), numpy.array([1, 2, 4, 5]))
    out['float32'] = (numpy.linspace(0.1, 0.9, 9, dtype='float32'), numpy.linspace(0.1, 0.5, 9, dtype='float32'))
    out['big'] = (numpy.linspace(0.01, 0.99, 120), numpy.cumsum(rng.uniform(0, 0.01, 120)))
    return out


def main():
    thickness = {
        'HJ': get_thickness_model('Harkins/Jura'),
        'Halsey': get_thickness_model('Halsey'),
        'zero': get_thickness_model('zero thickness'),
        'linear': lambda p: 0.2 + 0.5 * numpy.asarray(p),
        'constant': lambda p: numpy.full(len(p), 0.35),
    }
    kelvins = {
        'hemispherical': kelvin('hemispherical'),
        'cylindrical': kelvin('cylindrical'),
        'hemicylindrical': kelvin('hemicylindrical'),
        'KJS': kelvin('cylindrical', 'Kelvin-KJS'),
        'custom': lambda p: 1.0 / (1.05 - numpy.asarray(p)),
    }
    data = datasets()

    print("=" * 20, "grid")
    for dname, (p, v) in data.items():
        for mname, method in METHODS:
            for geom in GEOMETRIES:
                if mname != 'pygaps-DH' and geom != 'cylinder':
                    continue
                for tname, tmod in thickness.items():
                    for kname, kmod in kelvins.items():
                        if dname in ('big', 'random noisy') and (tname not in ('HJ', 'zero') or kname != 'hemispherical'):
                            continue
                        p_before, v_before = fmt(p), fmt(v)
                        res = show(f"{dname} | {mname} {geom} t={tname} k={kname}",
                                   lambda: method(v, p, geom, tmod, kmod))
                        if (fmt(p), fmt(v)) != (p_before, v_before):
                            print("   INPUT MUTATED")
                        if res is not None:
                            print("   keys:", list(res), [type(x).__name__ for x in res.values()])
                            if tname == 'zero':
                                # volume conservation: the volumes are the successive differences
                                print("   sum of volumes:", fmt(numpy.sum(res['pore_volumes'])),
                                      "diffs equal:", bool(numpy.array_equal(res['pore_volumes'], numpy.diff(numpy.asarray(v)))))

    print("=" * 20, "argument errors")
    p, v = data['smooth']
    tmod, kmod = thickness['HJ'], kelvins['hemispherical']
    for mname, method in METHODS:
        for geom in ['slit', 'cylinder', 'sphere', 'halfopen-cylinder', 'Slit', '', None, 5, 2.0, ('slit',),
                     ['cylinder'], b'slit', numpy.array(['slit', 'cylinder']), numpy.array('sphere'),
                     numpy.str_('cylinder')]:
            show(f"{mname} geometry {geom!r}", lambda: sorted(method(v, p, geom, tmod, kmod)))
        show(f"{mname} empty", lambda: method(numpy.array([]), numpy.array([]), 'cylinder', tmod, kmod))
        show(f"{mname} empty lists", lambda: method([], [], 'cylinder', tmod, kmod))
        show(f"{mname} empty and bad geometry", lambda: method([], [], 'cube', tmod, kmod))
        show(f"{mname} mismatch", lambda: method(v[:-1], p, 'cylinder', tmod, kmod))
        show(f"{mname} mismatch and bad geometry", lambda: method(v[:-1], p, 'cube', tmod, kmod))
        show(f"{mname} empty volume only", lambda: method([], p, 'cylinder', tmod, kmod))
        show(f"{mname} None pressure", lambda: method(v, None, 'cylinder', tmod, kmod))
        show(f"{mname} scalar pressure", lambda: method(1.0, 0.5, 'cylinder', tmod, kmod))
        show(f"{mname} thickness None", lambda: method(v, p, 'cylinder', None, kmod))
        show(f"{mname} kelvin None", lambda: method(v, p, 'cylinder', tmod, None))
        show(f"{mname} scalar thickness", lambda: method(v, p, 'cylinder', lambda x: 0.3, kmod))
        show(f"{mname} short thickness", lambda: method(v, p, 'cylinder', lambda x: numpy.array([0.3]), kmod))
        show(f"{mname} short thickness 2", lambda: method(v, p, 'cylinder', lambda x: numpy.array([0.3, 0.2]), kmod))
        show(f"{mname} list thickness", lambda: method(v, p, 'cylinder', lambda x: [0.3] * len(x), kmod))
        show(f"{mname} 2d thickness", lambda: method(
            v[:4], p[:4], 'cylinder', lambda x: numpy.tile(numpy.asarray(x)[:, None], (1, 2)) * 0.1,
            lambda x: numpy.tile(numpy.asarray(x)[:, None], (1, 2)) + 1.0))
        show(f"{mname} scalar kelvin", lambda: method(v, p, 'cylinder', tmod, lambda x: 2.0))
        show(f"{mname} object arrays", lambda: method(
            v.astype(object), p, 'cylinder', lambda x: (0.1 + 0.2 * x).astype(object), lambda x: (1 / (1.1 - x)).astype(object)))
        show(f"{mname} keyword call", lambda: method(
            volume_adsorbed=v, relative_pressure=p, pore_geometry='cylinder', thickness_model=tmod,
            condensation_model=kmod))

    print("=" * 20, "order of model calls")
    calls = []

    def t_spy(x):
        calls.append(('thickness', fmt(x)))
        return thickness['HJ'](x)

    def k_spy(x):
        calls.append(('kelvin', fmt(x)))
        return kelvins['hemispherical'](x)

    for mname, method in METHODS:
        del calls[:]
        show(f"{mname} spied", lambda: method(v[:5], p[:5], 'cylinder', t_spy, k_spy))
        print("   calls:", calls)

    print("public names:", sorted(n for n in dir(psd_meso) if not n.startswith('_') and n.startswith('psd')))


if __name__ == '__main__':
    main()
