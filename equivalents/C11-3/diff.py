"""Differential script for change 3: numerically integrated spreading pressures (Toth, Jensen-Seaton, DR, DA)."""
import logging
import os
import warnings

import numpy

import pygaps
import pygaps.modelling as pgm

warnings.simplefilter("ignore")
logging.disable(logging.CRITICAL)

# 12 significant digits by default; EQ_DIGITS=17 compares bit for bit
DIGITS = int(os.environ.get("EQ_DIGITS", "12"))


def fmt(v):
    """Canonical text of a result."""
    if isinstance(v, (list, tuple)):
        return "[" + ", ".join(fmt(x) for x in v) + "]"
    if isinstance(v, numpy.ndarray):
        return f"ndarray{v.shape}" + fmt(v.ravel().tolist())
    if isinstance(v, (float, numpy.floating)):
        return f"{type(v).__name__}:{float(v):.{DIGITS}g}"
    if isinstance(v, (int, numpy.integer)):
        return f"{type(v).__name__}:{int(v)}"
    return f"{type(v).__name__}:{v!r}"


def run(label, func, *args, **kwargs):
    try:
        res = fmt(func(*args, **kwargs))
    except Exception as e:  # noqa
        res = f"EXC {type(e).__name__}: {' '.join(str(e).split())}"
    print(f"{label} -> {res}")


PARAMS = {
    'Toth': [
        {'n_m': 5.0, 'K': 2.0, 't': 1.0},
        {'n_m': 5.0, 'K': 2.0, 't': 1},
        {'n_m': 5.0, 'K': 2.0, 't': 0.7},
        {'n_m': 10.0, 'K': 20.0, 't': 0.3},
        {'n_m': 0.3, 'K': 1e-3, 't': 2.5},
        {'n_m': 2.0, 'K': 150.0, 't': 4.0},
        {'n_m': 0.0, 'K': 1.0, 't': 1.0},
        {'n_m': 1.0, 'K': 0.0, 't': 1.0},
        {'n_m': 1.0, 'K': 1.0, 't': 0.0},
        {'n_m': numpy.float64(3.0), 'K': numpy.float64(0.5), 't': numpy.float64(0.9)},
        {'n_m': 5.0, 'K': 2.0},
        {'K': 2.0, 't': 1.0},
        {'n_m': 5.0, 't': 1.0},
        {'n_m': float('nan'), 'K': 2.0, 't': 1.0},
        {'n_m': -1.0, 'K': 2.0, 't': 1.5},
    ],
    'JensenSeaton': [
        {'K': 2.0, 'a': 1.0, 'b': 1.0, 'c': 1.0},
        {'K': 2.0, 'a': 1, 'b': 1, 'c': 1},
        {'K': 10.0, 'a': 4.0, 'b': 0.05, 'c': 0.6},
        {'K': 0.1, 'a': 12.0, 'b': 0.0, 'c': 3.0},
        {'K': 300.0, 'a': 2.5, 'b': 2.0, 'c': 0.2},
        {'K': 0.0, 'a': 1.0, 'b': 1.0, 'c': 1.0},
        {'K': 1.0, 'a': 0.0, 'b': 1.0, 'c': 1.0},
        {'K': 1.0, 'a': 1.0, 'b': 1.0, 'c': 0.0},
        {'K': numpy.float64(3.0), 'a': numpy.float64(2.0), 'b': numpy.float64(0.1), 'c': numpy.float64(1.3)},
        {'K': 2.0, 'a': 1.0, 'b': 1.0},
        {'a': 1.0, 'b': 1.0, 'c': 1.0},
        {'K': 2.0, 'b': 1.0, 'c': 1.0},
        {'K': 2.0, 'a': 1.0, 'c': 1.0},
        {'K': float('nan'), 'a': 1.0, 'b': 1.0, 'c': 1.0},
        {'K': 2.0, 'a': -1.0, 'b': 1.0, 'c': 1.5},
    ],
    'DR': [
        {'n_m': 5.0, 'e': 2500.0},
        {'n_m': 5, 'e': 1000},
        {'n_m': 12.0, 'e': 8000.0},
        {'n_m': 0.4, 'e': 300.0},
        {'n_m': 3.0, 'e': 1e5},
        {'n_m': 0.0, 'e': 2500.0},
        {'n_m': 5.0, 'e': 0.0},
        {'n_m': numpy.float64(5.0), 'e': numpy.float64(2500.0)},
        {'n_m': 5.0},
        {'e': 2500.0},
        {'n_m': float('nan'), 'e': 2500.0},
        {'n_m': -5.0, 'e': -2500.0},
    ],
    'DA': [
        {'n_m': 5.0, 'e': 2500.0, 'm': 2.0},
        {'n_m': 5, 'e': 1000, 'm': 2},
        {'n_m': 5.0, 'e': 2500.0, 'm': 1.0},
        {'n_m': 12.0, 'e': 8000.0, 'm': 3.0},
        {'n_m': 0.4, 'e': 300.0, 'm': 1.5},
        {'n_m': 3.0, 'e': 1e5, 'm': 2.7},
        {'n_m': 0.0, 'e': 2500.0, 'm': 2.0},
        {'n_m': 5.0, 'e': 0.0, 'm': 2.0},
        {'n_m': 5.0, 'e': 2500.0, 'm': 0.0},
        {'n_m': 5.0, 'e': 2500.0},
        {'e': 2500.0, 'm': 2.0},
        {'n_m': 5.0, 'm': 2.0},
    ],
}

PRESSURES = [
    0.0, 1e-12, 1e-6, 1e-3, 0.013, 0.1, 0.5, 1.0, 1, 2.5, 10.0, 137.0, 1e4, 1e8,
    numpy.float64(0.75), numpy.float32(0.75), numpy.asarray(0.75), numpy.array([0.75]), numpy.int64(3),
    -1.0, -1e-3, float('nan'), float('inf'), None, '1.0', [0.5, 1.0], numpy.array([0.5, 1.0]), True,
]

# 1. the model functions directly
for mname, plist in PARAMS.items():
    for prm in plist:
        model = pgm.get_isotherm_model(mname)
        model.params = dict(prm)
        if mname in ('DR', 'DA') and plist.index(prm) % 2:
            model.__init_parameters__({'temperature': 77.0 + 20 * plist.index(prm)})
        for p in PRESSURES:
            run(f"[{mname} {prm}] sp({p!r})", model.spreading_pressure, p)
        # the loading must stay what it was, and the derivative fingerprint
        for p in (1e-3, 0.5, 7.0):
            run(f"[{mname} {prm}] loading({p!r})", model.loading, p)
            h = 1e-4 * p
            run(
                f"[{mname} {prm}] p*dsp/dp({p!r})", lambda q, d: q *
                (model.spreading_pressure(q + d) - model.spreading_pressure(q - d)) / (2 * d), p, h
            )
        # additivity fingerprint
        run(
            f"[{mname} {prm}] sp(3)-sp(1)", lambda: model.spreading_pressure(3.0) - model.spreading_pressure(1.0)
        )

# 2. through the isotherm, with conversions of the pressure argument
pygaps.ADSORBATE_LIST.append(
    pygaps.Adsorbate('TA', backend_name='NITROGEN', molar_mass=28.01348, saturation_pressure=101325.0)
)
pygaps.MATERIAL_LIST.append(pygaps.Material('TEST', density=2.0, molar_mass=10.0))
BASE = dict(
    material='TEST',
    adsorbate='TA',
    temperature=100.0,
    temperature_unit='K',
    loading_basis='molar',
    loading_unit='mmol',
    material_basis='mass',
    material_unit='g',
)
for mname, plist in PARAMS.items():
    for prm in plist[:5]:
        for iso_kw in (dict(pressure_mode='absolute', pressure_unit='bar'), dict(pressure_mode='relative',
                                                                                 pressure_unit=None)):
            model = pgm.get_isotherm_model(mname)
            model.params = dict(prm)
            iso = pygaps.ModelIsotherm(model=model, **BASE, **iso_kw)
            for kw in (dict(), dict(pressure_unit='kPa'), dict(pressure_mode='relative'),
                       dict(pressure_mode='relative%'), dict(pressure_mode='absolute', pressure_unit='torr')):
                for p in (0.0, 0.01, 0.4, 3.0, 60.0, [0.1, 0.2]):
                    run(f"[{mname} {prm} iso{iso_kw}] {kw} p={p!r}", iso.spreading_pressure_at, p, **kw)

# 3. fitted models (parameters as the optimiser leaves them)
p_data = numpy.array([0.02, 0.05, 0.1, 0.2, 0.5, 1.0, 2.0, 4.0, 8.0])
for mname, l_data in (
    ('Toth', 5 * 2 * p_data / (1 + (2 * p_data)**0.8)**(1 / 0.8)),
    ('JensenSeaton', 3 * p_data / (1 + (3 * p_data / (4 * (1 + 0.05 * p_data)))**0.9)**(1 / 0.9)),
    ('DR', 5 * numpy.exp(-(-8.314 * 100 * numpy.log(p_data / 10) / 2500)**2)),
    ('DA', 5 * numpy.exp(-(-8.314 * 100 * numpy.log(p_data / 10) / 2500)**1.5)),
):
    try:
        iso = pygaps.ModelIsotherm(
            pressure=p_data / 10 if mname in ('DR', 'DA') else p_data, loading=l_data, model=mname, pressure_mode='absolute', pressure_unit='bar', **BASE
        )
    except Exception as e:  # noqa
        print(f"FIT {mname} EXC {type(e).__name__}: {e}")
        continue
    print(f"FIT {mname} params {fmt([iso.model.params[k] for k in iso.model.param_names])}")
    for p in numpy.geomspace(1e-3, 0.8 if mname in ('DR', 'DA') else 8.0, 23):
        run(f"[fit {mname}] p={fmt(p)}", iso.spreading_pressure_at, p)
