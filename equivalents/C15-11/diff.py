import copy
import logging
import warnings
from pathlib import Path

import numpy
import pandas

import pygaps
import pygaps.parsing as pgp

warnings.simplefilter("ignore")
numpy.seterr(all="ignore")
LOG = logging.getLogger('pygaps')
for h in list(LOG.handlers):
    LOG.removeHandler(h)


class _H(logging.Handler):
    def emit(self, record):
        if record.levelno >= logging.INFO:
            print("  LOG", record.levelname, record.getMessage().replace("\n", "\n  | "))


LOG.addHandler(_H())

DATA = Path(pygaps.__file__).parent.parent.parent / 'docs' / 'examples' / 'data'


def dump(obj):
    """Exact, deterministic text of nested results."""
    if isinstance(obj, dict):
        return "{" + ", ".join(f"{k!r}: {dump(v)}" for k, v in obj.items()) + "}"
    if isinstance(obj, (list, tuple)):
        o, c = ("[", "]") if isinstance(obj, list) else ("(", ")")
        return o + ", ".join(dump(v) for v in obj) + c
    if isinstance(obj, numpy.ndarray):
        return f"array<{obj.dtype},{obj.shape}>" + dump(obj.tolist())
    if isinstance(obj, (pandas.Series, pandas.DataFrame)):
        return f"{type(obj).__name__}<{list(obj.index)}>" + dump(obj.values)
    if isinstance(obj, numpy.generic):
        return f"{type(obj).__name__}({obj.item()!r})"
    if isinstance(obj, float):
        return repr(obj)
    if callable(obj) and hasattr(obj, '__name__'):
        return f"<callable {obj.__name__}>"
    return repr(obj)


def show(label, fn):
    try:
        print(label, "->", dump(fn()))
    except BaseException as e:  # noqa
        print(label, "!!", type(e).__name__, str(e))


def load(rel):
    return pgp.isotherm_from_json(DATA / rel)


def clone(iso):
    return pygaps.PointIsotherm(
        isotherm_data=iso.data_raw.copy(), pressure_key=iso.pressure_key, loading_key=iso.loading_key, **iso.to_dict()
    )


def converted(iso, **kw):
    new = clone(iso)
    if kw:
        new.convert(**kw)
    return new


def trimmed(iso, pmin, pmax):
    """Points of a (relative pressure) isotherm with pmin <= p <= pmax."""
    data = iso.data_raw[(iso.data_raw[iso.pressure_key] >= pmin) & (iso.data_raw[iso.pressure_key] <= pmax)]
    return pygaps.PointIsotherm(
        isotherm_data=data.reset_index(drop=True), pressure_key=iso.pressure_key, loading_key=iso.loading_key, **iso.to_dict()
    )


def state(iso):
    """Observable state of an isotherm, to check that a calculation left it alone."""
    out = [iso.iso_id, dump(iso.units)]
    if hasattr(iso, 'data_raw'):
        out.append(dump(iso.data_raw.values))
        out.append(dump(list(iso.data_raw.columns)))
    return out

# ---------------------------------------------------------------- C15-3: psd_dft kernel units
import time

import pygaps.characterisation.psd_kernel as mod
import pygaps.graphing.calc_graphs as calc_graphs
import pygaps.graphing.isotherm_graphs as isotherm_graphs


class _FakeAx:
    def plot(self, *args, **kwargs):
        print("  ax.plot", dump(args), dump(kwargs))

    def set_title(self, *args, **kwargs):
        print("  ax.set_title", dump(args), dump(kwargs))


def _fake_plot_iso(isotherm, **params):
    print("  plot_iso", isotherm.iso_id, dump(list(params.items())))
    return _FakeAx()


def _fake_psd_plot(*args, **kwargs):
    print("  psd_plot", dump(args), dump(kwargs))


isotherm_graphs.plot_iso = _fake_plot_iso
calc_graphs.psd_plot = _fake_psd_plot

mcm = load('characterisation/MCM-41 N2 77.355.json')
takeda = load('characterisation/Takeda 5A N2 77.355.json')


def run(iso, **kw):
    before = state(iso)
    ku = kw.get('kernel_units')
    ku_before = dict(ku) if isinstance(ku, dict) else None
    try:
        return mod.psd_dft(iso, **kw)
    finally:
        if state(iso) != before:
            print("  !! isotherm state changed")
        if ku_before is not None and (dict(ku) != ku_before or list(ku) != list(ku_before)):
            print("  !! kernel_units changed")


VARIANTS = {
    'asis': {},
    'abs_kPa': dict(pressure_mode='absolute', pressure_unit='kPa'),
    'abs_torr': dict(pressure_mode='absolute', pressure_unit='torr'),
    'rel%': dict(pressure_mode='relative%'),
    'mol': dict(loading_unit='mol'),
    'mass_mg': dict(loading_basis='mass', loading_unit='mg'),
    'volgas': dict(loading_basis='volume_gas', loading_unit='cm3'),
    'volliq': dict(loading_basis='volume_liquid', loading_unit='cm3'),
    'percent': dict(loading_basis='percent'),
    'kg': dict(material_unit='kg'),
    'all': dict(pressure_mode='absolute', pressure_unit='mbar', loading_basis='mass', loading_unit='g', material_unit='mg'),
}
for src_name, src in (('takeda', takeda), ('mcm', mcm)):
    for name, kw in VARIANTS.items():
        iso = converted(src, **kw)
        show(f"stored[{src_name}|{name}]", lambda: run(iso))
        show(f"stored[{src_name}|{name}] des", lambda: run(iso, branch='des'))


class LoudDict(dict):
    """Records the order in which keys are asked for."""

    def get(self, key, default=None):
        print("  get", repr(key), repr(default))
        return super().get(key, default)


class Getter:
    """Not a dict at all, only has get()."""

    def get(self, key, default=None):
        print("  Getter.get", repr(key), repr(default))
        return default


KERNEL_UNITS = {
    'none': None,
    'empty': {},
    'defaults_explicit': dict(
        loading_basis='molar', loading_unit='mmol', material_basis='mass', material_unit='g', pressure_mode='relative',
        pressure_unit=None
    ),
    'reordered': dict(pressure_unit=None, material_unit='g', loading_unit='mmol', pressure_mode='relative'),
    'mol': dict(loading_unit='mol'),
    'kg': dict(material_unit='kg'),
    'mass_g': dict(loading_basis='mass', loading_unit='g'),
    'volgas': dict(loading_basis='volume_gas', loading_unit='cm3'),
    'basis_only': dict(loading_basis='mass'),
    'percent': dict(loading_basis='percent', loading_unit=None),
    'rel%': dict(pressure_mode='relative%'),
    'abs_bar': dict(pressure_mode='absolute', pressure_unit='bar'),
    'abs_nounit': dict(pressure_mode='absolute'),
    'unit_only': dict(pressure_unit='kPa'),
    'none_values': dict(loading_basis=None, loading_unit=None, pressure_mode=None),
    'extra_keys': dict(loading_unit='mmol', branch='des', colour='red'),
    'bad_lunit': dict(loading_unit='stone'),
    'bad_lbasis': dict(loading_basis='vibes'),
    'bad_munit': dict(material_unit='stone'),
    'bad_mbasis': dict(material_basis='vibes'),
    'mat_volume': dict(material_basis='volume', material_unit='cm3'),
    'bad_pmode': dict(pressure_mode='sideways'),
    'bad_punit': dict(pressure_mode='absolute', pressure_unit='psi2'),
    'int_keys': {1: 2},
    'loud': LoudDict(loading_unit='mol', pressure_mode='relative'),
    'loud_empty': LoudDict(),
    'getter': Getter(),
    'list': ['loading_unit', 'mmol'],
    'str': 'mmol',
    'false_int': 0,
    'false_tuple': (),
    'pairs': (('loading_unit', 'mol'), ),
    'series': pandas.Series({'loading_unit': 'mol'}),
}
tak_abs = converted(takeda, pressure_mode='absolute', pressure_unit='kPa', loading_basis='mass', loading_unit='mg')
for name, ku in KERNEL_UNITS.items():
    show(f"kernel_units[{name}]", lambda: run(takeda, kernel_units=ku))
    show(f"kernel_units[{name}] converted+verbose", lambda: run(tak_abs, kernel_units=ku, verbose=True, branch='des'))

# other options
kernel_file = str(mod.KERNELS['DFT-N2-77K-carbon-slit'])
for name, kw in {
    'kernel_none': dict(kernel=None),
    'kernel_bad': dict(kernel='no-such-kernel'),
    'kernel_path': dict(kernel=kernel_file),
    'kernel_int': dict(kernel=5),
    'branch_bad': dict(branch='sideways'),
    'branch_none': dict(branch=None),
    'limits': dict(p_limits=(0.01, 0.5)),
    'limits_low_none': dict(p_limits=(None, 0.5)),
    'limits_high_none': dict(p_limits=(0.01, None)),
    'limits_list': dict(p_limits=[0.1, 0.9]),
    'limits_narrow': dict(p_limits=(0.5, 0.5001)),
    'limits_rev': dict(p_limits=(0.9, 0.1)),
    'limits_one': dict(p_limits=(0.1, )),
    'limits_abs_units': dict(p_limits=(1, 50), kernel_units=dict(pressure_mode='absolute', pressure_unit='kPa')),
    'bspline0': dict(bspline_order=0),
    'bspline3': dict(bspline_order=3),
    'verbose': dict(verbose=True),
    'verbose_units': dict(verbose=True, kernel_units=dict(loading_unit='mol', pressure_mode='relative%'), p_limits=(1, 80)),
}.items():
    show(f"opt[{name}]", lambda: run(takeda, **kw))
    show(f"opt_conv[{name}]", lambda: run(tak_abs, **kw))

# model isotherm, scaling, export / re-import, non-isotherm input
model = pygaps.ModelIsotherm.from_pointisotherm(takeda, model='DSLangmuir', branch='ads')
show("model", lambda: mod.psd_dft(model))
show("model units", lambda: mod.psd_dft(model, kernel_units=dict(loading_unit='mol'), verbose=True))
scaled = pygaps.PointIsotherm(
    pressure=takeda.pressure(), loading=takeda.loading() * 2, branch=takeda.data_raw['branch'].tolist(), **takeda.to_dict()
)
show("scaled", lambda: run(scaled))
reimp = pgp.isotherm_from_json(tak_abs.to_json())
show("reimported", lambda: run(reimp))
show("iso None", lambda: mod.psd_dft(None))
show("iso None bad units", lambda: mod.psd_dft(None, kernel_units=5))
show("kernel None bad units", lambda: mod.psd_dft(takeda, kernel=None, kernel_units=5))
ads_only = pygaps.PointIsotherm(pressure=takeda.pressure(branch='ads'), loading=takeda.loading(branch='ads'), branch='ads', **takeda.to_dict())
show("adsonly des", lambda: run(ads_only, branch='des'))
