"""Differential script for change 3: saturated-state helper used by the temperature dependent property methods."""
import os
import sys

sys.path.insert(0, os.path.dirname(os.path.abspath(__file__)))
from eqcommon import call  # noqa: E402

import pygaps  # noqa: E402
from pygaps import Adsorbate  # noqa: E402
from pygaps.data import ADSORBATE_LIST  # noqa: E402
from pygaps.units.converter_unit import _PRESSURE_UNITS  # noqa: E402
from pygaps.utilities import coolprop_utilities as cpu  # noqa: E402

METHODS = [
    'saturation_pressure', 'pressure_saturation', 'surface_tension', 'liquid_density',
    'liquid_molar_density', 'gas_density', 'gas_molar_density'
]
UNITS = list(_PRESSURE_UNITS)
FRACTIONS = [0.02, 0.25, 0.5, 0.75, 0.98]

linked = [a for a in ADSORBATE_LIST if a.properties.get('backend_name') is not None]
unlinked = [a for a in ADSORBATE_LIST if a.properties.get('backend_name') is None]
print("linked", len(linked), "unlinked", len(unlinked))

# 1. every backend-linked adsorbate, temperatures across (Tt, Tc), all methods
for ads in linked:
    try:
        t_t, t_c = ads.t_triple(), ads.t_critical()
    except BaseException as err:  # noqa
        print(f"{ads.name}: no range {type(err).__name__}")
        continue
    for frac in FRACTIONS:
        temp = t_t + frac * (t_c - t_t)
        for meth in METHODS:
            call(f"{ads.name}.{meth}({frac})", getattr(ads, meth), temp)
    # the unit argument, all 8 units + bad ones
    temp = t_t + 0.6 * (t_c - t_t)
    for unit in UNITS:
        call(f"{ads.name}.saturation_pressure(0.6,{unit})", ads.saturation_pressure, temp, unit)
        call(f"{ads.name}.pressure_saturation(0.6,unit={unit})", ads.pressure_saturation, temp, unit=unit)
    # outside the two-phase region / edge temperatures -> backend failure -> fallback to dict
    for label, temp in (('below', 0.5 * t_t), ('above', 1.2 * t_c), ('at_tc', t_c), ('at_tt', t_t)):
        for meth in METHODS:
            call(f"{ads.name}.{meth}({label})", getattr(ads, meth), temp)

# 2. odd arguments on a few adsorbates
for name in ('nitrogen', 'water', 'carbon dioxide', 'n-butane', 'argon'):
    ads = Adsorbate.find(name)
    for meth in METHODS:
        fn = getattr(ads, meth)
        for temp in (None, 'abc', 0, 0.0, -5, float('nan'), float('inf'), True, [77], 1e-300, 1e300):
            call(f"{name}.{meth}({temp!r})", fn, temp)
        call(f"{name}.{meth}(no args)", fn)
        call(f"{name}.{meth}(100, calculate=False)", fn, 100, calculate=False)
        call(f"{name}.{meth}(temp=100, calculate=0)", fn, temp=100, calculate=0)
    for unit in ('', 'psi', 'BAR', 0, 5, None, 'bar'):
        call(f"{name}.saturation_pressure(100,{unit!r})", ads.saturation_pressure, 100, unit)
        call(f"{name}.saturation_pressure(1e4,{unit!r})", ads.saturation_pressure, 1e4, unit)
        call(f"{name}.saturation_pressure(100,{unit!r},False)", ads.saturation_pressure, 100, unit, False)

# 3. adsorbates without a backend (all shipped ones)
for ads in unlinked:
    for meth in METHODS:
        call(f"{ads.name}.{meth}(300)", getattr(ads, meth), 300)
    call(f"{ads.name}.saturation_pressure(300,bar)", ads.saturation_pressure, 300, 'bar')

# 4. user-created adsorbates: no backend, wrong backend, partial / full user properties
full = dict(
    saturation_pressure=2500.0,
    surface_tension=8.5,
    liquid_density=0.8,
    liquid_molar_density=0.03,
    gas_density=0.004,
    gas_molar_density=0.0001,
)
customs = {
    'bare': Adsorbate('eq-bare'),
    'user-full': Adsorbate('eq-full', **full),
    'user-partial': Adsorbate('eq-partial', saturation_pressure=1234, gas_density=0.1),
    'user-zero': Adsorbate('eq-zero', saturation_pressure=0, liquid_density=0.0, surface_tension=False),
    'user-str': Adsorbate('eq-str', saturation_pressure='12', liquid_density='x'),
    'bad-backend': Adsorbate('eq-badbackend', backend_name='NotAFluid', **full),
    'bad-backend-bare': Adsorbate('eq-badbackend2', backend_name='NotAFluid'),
    'backend-none': Adsorbate('eq-none', backend_name=None, **full),
    'backend-int': Adsorbate('eq-int', backend_name=5, surface_tension=1),
    'good-backend+user': Adsorbate('eq-n2', backend_name='Nitrogen', **full),
}
for label, ads in customs.items():
    for meth in METHODS:
        fn = getattr(ads, meth)
        for temp in (77.0, 100, 1000.0, None):
            call(f"{label}.{meth}({temp})", fn, temp)
            call(f"{label}.{meth}({temp},calculate=False)", fn, temp, calculate=False)
    for unit in UNITS + ['nope', '']:
        call(f"{label}.saturation_pressure(77,{unit})", ads.saturation_pressure, 77, unit)
        call(f"{label}.saturation_pressure(1000,{unit},calculate=False)", ads.saturation_pressure, 1000, unit, calculate=False)

# 5. backend switching (REFPROP is not installed) and missing CoolProp
n2 = Adsorbate('eq-n2-switch', backend_name='Nitrogen', **full)
call("switch.before", n2.liquid_density, 77)
cpu.backend_use_refprop()
for meth in METHODS:
    call(f"switch.refprop.{meth}", getattr(n2, meth), 77)
    call(f"switch.refprop.bare.{meth}", getattr(Adsorbate('eq-x', backend_name='Nitrogen'), meth), 77)
cpu.backend_use_coolprop()
for meth in METHODS:
    call(f"switch.back.{meth}", getattr(n2, meth), 77)

import pygaps.core.adsorbate as adsmod  # noqa: E402

saved = adsmod.CP
adsmod.CP = None
try:
    fresh = Adsorbate('eq-nocp', backend_name='Nitrogen', **full)
    for meth in METHODS:
        call(f"nocp.fresh.{meth}", getattr(fresh, meth), 77)
        call(f"nocp.cached-state.{meth}", getattr(n2, meth), 77)
        call(f"nocp.bare.{meth}", getattr(Adsorbate('eq-y'), meth), 77)
finally:
    adsmod.CP = saved

# 6. state sharing: interleaved calls on the same adsorbate must not interfere
ads = Adsorbate.find('nitrogen')
seq = [('gas_density', 77), ('liquid_density', 77), ('saturation_pressure', 90), ('gas_molar_density', 90),
       ('surface_tension', 65), ('liquid_molar_density', 120), ('gas_density', 500), ('liquid_density', 77)]
for meth, temp in seq:
    call(f"interleaved.{meth}({temp})", getattr(ads, meth), temp)
call("interleaved.state.T", lambda: ads.backend.T())
call("interleaved.state.Q", lambda: ads.backend.Q())
