"""Differential script for change 2 (isotherm_from_json reader)."""
import copy
import glob
import json
import pathlib

import eqcommon as c
from pygaps.core.material import Material
from pygaps.parsing.json import isotherm_from_json
from pygaps.parsing.json import isotherm_to_json

CASES = c.all_cases()
ROOT = pathlib.Path('/tmp/eq2/C06/docs/examples/data/parsing')


def roundtrip(make, tag):
    iso = make()
    keys = c.read_keys(iso)
    text = isotherm_to_json(iso)
    back = isotherm_from_json(text, **keys)
    path = c.tmpfile(tag.replace('/', '_') + '.json')
    isotherm_to_json(iso, path, indent=2)
    back_f = isotherm_from_json(path, **keys)
    back_p = isotherm_from_json(pathlib.Path(path), **keys)
    return {
        'equal': back == iso, 'equal_file': back_f == iso, 'same_doc': isotherm_to_json(back) == text,
        'back': back, 'back_file': back_f, 'back_path_same': c.canon(back_p) == c.canon(back_f),
    }


for name, make in CASES.items():
    c.run("roundtrip " + name, lambda m=make, n=name: roundtrip(m, n))

# sample files of the repository
for path in sorted(glob.glob(str(ROOT / 'json' / '*.json'))):
    c.run("sample " + pathlib.Path(path).name, lambda p=path: isotherm_from_json(p))
    c.run("sample as text " + pathlib.Path(path).name,
          lambda p=path: isotherm_from_json(pathlib.Path(p).read_text(encoding='utf-8')))
for path in sorted(glob.glob(str(ROOT / 'nist' / '*.json'))):
    c.run("nist " + pathlib.Path(path).name, lambda p=path: isotherm_from_json(p, fmt='NIST'))
    c.run("nist text + override " + pathlib.Path(path).name,
          lambda p=path: isotherm_from_json(pathlib.Path(p).read_text(), fmt='NIST', branch='ads', temperature=300))
    c.run("nist without fmt " + pathlib.Path(path).name, lambda p=path: isotherm_from_json(p))

# hand-written documents
DOC = dict(c.base_kwargs('std', 'nums', 'name'))
DOC['file_version'] = '3.0'
POINTS = [{'pressure': p, 'loading': l} for p, l in zip(c.P5, c.L5)]


def doc(**kw):
    res = copy.deepcopy(DOC)
    for key, val in kw.items():
        if val is KeyError:
            res.pop(key, None)
        else:
            res[key] = val
    return json.dumps(res)


def marked(marks, key='branch'):
    pts = copy.deepcopy(POINTS)
    for pnt, mark in zip(pts, marks):
        if mark is not KeyError:
            pnt[key] = mark
    return pts


N = KeyError
DOCS = {
    'base': doc(),
    'no version': doc(file_version=N),
    'old version': doc(file_version='2.0'),
    'numeric version': doc(file_version=3.0),
    'newer version': doc(file_version='3.1'),
    'empty version': doc(file_version=''),
    'bad version': doc(file_version='abc'),
    'points': doc(isotherm_data=POINTS),
    'points des marks': doc(isotherm_data=marked([N, N, 'des', 'des', N])),
    'points all des': doc(isotherm_data=marked(['des'] * 5)),
    'points int marks': doc(isotherm_data=marked([0, 1, 1, 0, 0])),
    'points bool marks': doc(isotherm_data=marked([False, True, N, True, False])),
    'points ads/des marks': doc(isotherm_data=marked(['ads', 'ads', 'des', 'des', 'ads'])),
    'points null marks': doc(isotherm_data=marked([None, None, 'des', None, 'des'])),
    'points + branch ads': doc(isotherm_data=POINTS, branch='ads'),
    'points + branch des': doc(isotherm_data=POINTS, branch='des'),
    'points + branch guess': doc(isotherm_data=POINTS, branch='guess'),
    'points + branch list': doc(isotherm_data=POINTS, branch=[0, 0, 1, 1, 1]),
    'points + branch bad': doc(isotherm_data=POINTS, branch='both'),
    'points marks + branch ads': doc(isotherm_data=marked([N, N, 'des', 'des', N]), branch='ads'),
    'points as columns': doc(isotherm_data={'pressure': c.P5, 'loading': c.L5}),
    'points extra cols': doc(isotherm_data=[dict(p, extra=i, txt=str(i)) for i, p in enumerate(POINTS)]),
    'points ragged': doc(isotherm_data=[POINTS[0], dict(POINTS[1], extra=1.5), {'pressure': 2.0}]),
    'points empty list': doc(isotherm_data=[]),
    'points empty + model': doc(isotherm_data=[], isotherm_model={'name': 'Henry', 'parameters': {'K': 2}}),
    'points null': doc(isotherm_data=None),
    'points + model': doc(isotherm_data=POINTS, isotherm_model={'name': 'Henry', 'parameters': {'K': 2}}),
    'model henry': doc(isotherm_model={'name': 'Henry', 'parameters': {'K': 2}, 'rmse': 0.1,
                                       'pressure_range': [0, 1], 'loading_range': [0, 2]}),
    'model minimal': doc(isotherm_model={'name': 'langmuir'}),
    'model unknown': doc(isotherm_model={'name': 'Nope', 'parameters': {}}),
    'model no name': doc(isotherm_model={'parameters': {'K': 1}}),
    'model missing param': doc(isotherm_model={'name': 'Langmuir', 'parameters': {'K': 1}}),
    'model empty dict': doc(isotherm_model={}),
    'model + branch des': doc(isotherm_model={'name': 'Henry', 'parameters': {'K': 2}}, branch='des'),
    'material dict': doc(material={'name': 'M', 'density': 1.5, 'x': [1, 2]}),
    'missing material': doc(material=N),
    'missing adsorbate': doc(adsorbate=N),
    'null temperature': doc(temperature=None),
    'missing unit': doc(pressure_unit=N, loading_basis=N),
    'bad unit': doc(pressure_unit='psi-ish'),
    'shorthands': doc(material=N, adsorbate=N, temperature=N, m='MM', a='CO2', t=10),
    'list document': json.dumps([1, 2, 3]),
    'string document': json.dumps("hello"),
    'number document': '12',
    'invalid json': '{"material": ',
    'empty string': '',
    'not a path': 'no/such/file.json',
    'long invalid': '{' + 'x' * 5000,
}

for label, text in DOCS.items():
    c.run("doc " + label, lambda t=text: isotherm_from_json(t))

c.run("doc custom keys", lambda: isotherm_from_json(
    doc(isotherm_data=[{'p': 1, 'n': 2, 'branch': 'des'}, {'p': 2, 'n': 3}]), pressure_key='p', loading_key='n'))
c.run("doc custom keys missing", lambda: isotherm_from_json(doc(isotherm_data=POINTS), pressure_key='p', loading_key='n'))
c.run("doc key None", lambda: isotherm_from_json(doc(isotherm_data=POINTS), pressure_key=None))
c.run("override material str", lambda: isotherm_from_json(DOCS['points'], material='other'))
def override_material_dict():
    iso = isotherm_from_json(DOCS['points'], material={'name': 'dm', 'density': 3})
    return [type(iso).__name__, type(iso.material).__name__, iso.material.name, iso.material.properties, iso.properties, iso.data_raw]


c.run("override material dict", override_material_dict)
c.run("override material obj", lambda: isotherm_from_json(DOCS['base'], material=Material('mo', density=1.0)))
c.run("override many", lambda: isotherm_from_json(
    DOCS['points des marks'], temperature=100, adsorbate='Ar', branch='des', comment='c', pressure_unit='kPa'))
c.run("override branch on unmarked", lambda: isotherm_from_json(DOCS['points'], branch='des'))
c.run("override isotherm_data", lambda: isotherm_from_json(DOCS['base'], isotherm_data=POINTS))
c.run("override isotherm_model", lambda: isotherm_from_json(DOCS['base'], isotherm_model={'name': 'Henry', 'parameters': {'K': 1}}))
c.run("override file_version kw", lambda: isotherm_from_json(DOCS['base'], file_version='1.0'))
c.run("fmt NIST on plain doc", lambda: isotherm_from_json(DOCS['points'], fmt='NIST'))
c.run("fmt NIST on base doc", lambda: isotherm_from_json(DOCS['base'], fmt='NIST'))
c.run("fmt other", lambda: isotherm_from_json(DOCS['points'], fmt='other'))
c.run("arg None", lambda: isotherm_from_json(None))
c.run("arg bytes", lambda: isotherm_from_json(DOCS['base'].encode()))
c.run("arg int", lambda: isotherm_from_json(123456))
c.run("arg directory", lambda: isotherm_from_json(c.TMPDIR))
c.run("arg nul byte", lambda: isotherm_from_json('{"a": "\0"}'))

bad_file = c.tmpfile('broken.json')
with open(bad_file, 'w', encoding='utf-8') as fil:
    fil.write('{"material": ')
c.run("file invalid json", lambda: isotherm_from_json(bad_file))
bin_file = c.tmpfile('binary.json')
with open(bin_file, 'wb') as fil:
    fil.write(b'\xff\xfe\x00{')
c.run("file not utf8", lambda: isotherm_from_json(bin_file))
empty_file = c.tmpfile('empty.json')
open(empty_file, 'w').close()
c.run("file empty", lambda: isotherm_from_json(empty_file))


def cause_chain():
    try:
        isotherm_from_json('{"material": ')
    except Exception as err:  # pylint: disable=broad-except
        ctx = err.__cause__.__context__
        return [type(err).__name__, type(err.__cause__).__name__, type(ctx).__name__, err.__suppress_context__]


c.run("exception chain", cause_chain)


def params_untouched():
    mat = {'name': 'dm', 'density': 3}
    params = {'material': mat, 'comment': 'x'}
    iso = isotherm_from_json(DOCS['points'], **params)
    return [params['comment'], type(params['material']).__name__, mat, iso.material.name, iso.properties]


c.run("caller kwargs", params_untouched)
