"""Differential script for change 1: interpolator cache of loading_at / pressure_at.

Every case is a HISTORY of read-only calls on one isotherm; the result of each call, the
state of the cache after it and the isotherm fingerprint are printed.
"""
import warnings

import numpy
import pandas

import pygaps

warnings.simplefilter("ignore")


def fmt(x):
    if isinstance(x, BaseException):
        return f"{type(x).__name__}: {' '.join(str(x).split())[:300]}"
    if x is None or isinstance(x, (str, bool)):
        return repr(x)
    if isinstance(x, (tuple, list)):
        return "[" + ", ".join(fmt(v) for v in x) + "]"
    if isinstance(x, dict):
        return "{" + ", ".join(f"{k}: {fmt(v)}" for k, v in x.items()) + "}"
    arr = numpy.asarray(x)
    if arr.dtype == object:
        return repr(x)
    if arr.ndim == 0:
        return f"{type(x).__name__}:{float(arr):.12g}"
    return f"{type(x).__name__}{arr.shape}:[" + ", ".join(f"{float(v):.12g}" for v in arr.ravel()) + "]"


def cache(iso):
    out = []
    for name in ("l_interpolator", "p_interpolator"):
        itp = getattr(iso, name)
        if itp is None:
            out.append(f"{name}=None")
        else:
            fun = itp.interp_fun
            out.append(
                f"{name}=({itp.interp_branch!r},{itp.interp_kind!r},{fmt(itp.interp_fill)},"
                f"x={fmt(fun.x)},y={fmt(fun.y)})"
            )
    return " ".join(out)


def fingerprint(iso):
    return (
        f"id={iso.iso_id} units={iso.units} cols={list(iso.data_raw.columns)} "
        f"data={fmt(iso.data_raw.to_numpy(dtype=float))} "
        f"ads={sorted(iso.adsorbate.properties.items(), key=str)!r:.200} "
        f"mat={sorted(iso.material.properties.items(), key=str)!r}"
    )


MAT = pygaps.Material("eqmat", density=1.5, molar_mass=80.0)


def make(kind="hyst", **kw):
    if kind == "hyst":
        pressure = [0.05, 0.1, 0.2, 0.4, 0.6, 0.8, 0.95, 0.7, 0.5, 0.3, 0.15]
        loading = [1.0, 1.8, 2.9, 4.1, 5.0, 6.2, 8.0, 7.0, 6.1, 4.9, 3.0]
    elif kind == "adsonly":
        pressure = [0.01, 0.1, 0.3, 0.5, 0.9]
        loading = [0.2, 1.1, 2.2, 2.8, 3.3]
    elif kind == "two":
        pressure = [0.1, 0.9]
        loading = [1.0, 2.0]
    params = dict(
        pressure=pressure,
        loading=loading,
        material=MAT,
        adsorbate="N2",
        temperature=77.0,
        pressure_mode="relative",
        pressure_unit=None,
        loading_basis="molar",
        loading_unit="mmol",
        material_basis="mass",
        material_unit="g",
    )
    params.update(kw)
    return pygaps.PointIsotherm(**params)


def run(label, iso, history):
    print(f"=== {label}")
    print("  start", fingerprint(iso))
    for meth, args, kwargs in history:
        try:
            res = getattr(iso, meth)(*args, **kwargs)
        except Exception as err:  # noqa
            res = err
        print(f"  {meth}{args}{kwargs} -> {fmt(res)}")
        print("     cache", cache(iso))
    print("  end  ", fingerprint(iso))


L = "loading_at"
P = "pressure_at"
S = "spreading_pressure_at"

HISTORIES = {
    "h01 first call": [(L, (0.3, ), {})],
    "h02 repeat same key": [(L, (0.3, ), {}), (L, ([0.1, 0.25, 0.9], ), {})],
    "h03 branch switch": [(L, (0.3, ), {}), (L, (0.3, ), dict(branch="des")), (L, (0.3, ), {})],
    "h04 kind switch": [
        (L, (0.3, ), {}),
        (L, (0.3, ), dict(interpolation_type="cubic")),
        (L, (0.3, ), dict(interpolation_type="nearest")),
        (L, (0.3, ), dict(interpolation_type="slinear")),
        (L, (0.3, ), dict(interpolation_type="zero")),
        (L, (0.3, ), dict(interpolation_type="quadratic")),
        (L, (0.3, ), {}),
    ],
    "h05 fill switch": [
        (L, (0.99, ), {}),
        (L, (0.99, ), dict(interp_fill=8.0)),
        (L, (0.99, ), dict(interp_fill=(0.0, 8.0))),
        (L, (0.99, ), dict(interp_fill="extrapolate")),
        (L, (0.99, ), {}),
        (L, (0.001, ), dict(interp_fill=(0.0, 8.0))),
    ],
    "h06 out of bounds errors": [(L, (2.0, ), {}), (L, (0.3, ), {}), (P, (100.0, ), {}), (P, (3.0, ), {})],
    "h07 pressure_at basics": [
        (P, (3.0, ), {}),
        (P, ([1.5, 3.0, 7.5], ), {}),
        (P, (5.0, ), dict(branch="des")),
        (P, (5.0, ), dict(branch="des", interpolation_type="cubic")),
        (P, (9.0, ), dict(branch="des", interp_fill="extrapolate")),
        (P, (3.0, ), {}),
    ],
    "h08 interleaved": [
        (L, (0.3, ), dict(branch="des")),
        (P, (3.0, ), {}),
        (L, (0.3, ), {}),
        (P, (5.0, ), dict(branch="des")),
        (L, (0.3, ), dict(branch="des", interpolation_type="cubic")),
        (P, (3.0, ), dict(interp_fill=0.5)),
    ],
    "h09 bad branch": [
        (L, (0.3, ), dict(branch="bad")),
        (L, (0.3, ), {}),
        (P, (3.0, ), dict(branch="bad")),
        (P, (3.0, ), {}),
        (L, (0.3, ), dict(branch=None)),
        (P, (3.0, ), dict(branch="all")),
    ],
    "h10 bad kind": [(L, (0.3, ), dict(interpolation_type="bogus")), (L, (0.3, ), {}),
                     (P, (3.0, ), dict(interpolation_type="bogus")), (P, (3.0, ), {})],
    "h11 units in/out loading_at": [
        (L, (10000.0, ), dict(pressure_unit="Pa", pressure_mode="absolute")),
        (L, (0.1, ), dict(pressure_unit="bar", pressure_mode="absolute")),
        (L, (30.0, ), dict(pressure_mode="relative%")),
        (L, (0.3, ), dict(loading_unit="mol")),
        (L, (0.3, ), dict(loading_basis="mass", loading_unit="g")),
        (L, (0.3, ), dict(loading_basis="volume_gas", loading_unit="cm3(STP)")),
        (L, (0.3, ), dict(material_unit="kg")),
        (L, (0.3, ), dict(material_basis="volume", material_unit="cm3")),
        (L, (0.3, ), dict(material_basis="molar", material_unit="mol")),
        (L, (0.3, ), dict(loading_basis="percent", loading_unit=None)),
        (L, (0.3, ), dict(pressure_mode="absolute")),
        (L, (0.3, ), {}),
    ],
    "h12 units in/out pressure_at": [
        (P, (3.0, ), dict(pressure_unit="Pa", pressure_mode="absolute")),
        (P, (3.0, ), dict(pressure_mode="relative%")),
        (P, (0.003, ), dict(loading_unit="mol")),
        (P, (0.1, ), dict(loading_basis="mass", loading_unit="g")),
        (P, (3000.0, ), dict(material_unit="kg")),
        (P, (4.0, ), dict(material_basis="volume", material_unit="cm3")),
        (P, (3.0, ), dict(material_basis="volume")),
        (P, (3.0, ), dict(loading_basis="mass")),
        (P, (3.0, ), dict(pressure_unit="nope", pressure_mode="absolute")),
        (P, (3.0, ), {}),
    ],
    "h13 spreading pressure then loading": [
        (S, (0.5, ), {}),
        (L, (0.5, ), {}),
        (S, (0.5, ), dict(branch="des")),
        (L, (0.5, ), {}),
        (S, (0.97, ), {}),
        (S, (0.97, ), dict(interp_fill=8.0)),
        (L, (0.97, ), {}),
        (S, (0.01, ), {}),
    ],
    "h14 arrays and shapes": [
        (L, ([], ), {}),
        (L, ([[0.1, 0.2], [0.3, 0.4]], ), {}),
        (L, (numpy.array(0.3), ), {}),
        (P, ([], ), {}),
        (P, (pandas.Series([2.0, 4.0]), ), {}),
        (L, (float("nan"), ), {}),
        (P, (float("nan"), ), {}),
    ],
    "h15 array fill value": [
        (L, (0.99, ), dict(interp_fill=numpy.array(8.0))),
        (L, (0.99, ), dict(interp_fill=numpy.array(8.0))),
        (L, (0.99, ), dict(interp_fill=(numpy.array(1.0), numpy.array(8.0)))),
        (L, (0.99, ), dict(interp_fill=(numpy.array(1.0), numpy.array(8.0)))),
        (L, (0.99, ), dict(interp_fill=numpy.array([7.0, 8.0]))),
        (L, (0.99, ), dict(interp_fill=numpy.array([7.0, 8.0]))),
        (L, (0.99, ), {}),
    ],
}

for name, hist in HISTORIES.items():
    run(name, make(), hist)

# same histories on other shapes of isotherm
run("a01 ads only, des queries", make("adsonly"), [
    (L, (0.2, ), {}),
    (L, (0.2, ), dict(branch="des")),
    (L, (0.2, ), {}),
    (P, (1.0, ), dict(branch="des")),
    (P, (1.0, ), {}),
])
run("a02 two points cubic", make("two"), [
    (L, (0.5, ), dict(interpolation_type="cubic")),
    (L, (0.5, ), {}),
    (P, (1.5, ), dict(interpolation_type="quadratic")),
    (P, (1.5, ), {}),
])
run("a03 all desorption", make("adsonly", branch="des"), [
    (L, (0.2, ), {}),
    (L, (0.2, ), dict(branch="des")),
    (P, (1.0, ), dict(branch="des")),
])
run("a04 absolute bar isotherm", make("hyst", pressure_mode="absolute", pressure_unit="bar"), [
    (L, (0.3, ), {}),
    (L, (30000.0, ), dict(pressure_unit="Pa")),
    (L, (0.3, ), dict(pressure_mode="relative")),
    (P, (3.0, ), dict(pressure_mode="relative")),
    (P, (3.0, ), dict(pressure_unit="torr")),
])

# conversions reset the cache, queries rebuild it
iso = make()
run("c01 before conversion", iso, [(L, (0.3, ), {}), (P, (3.0, ), {})])
iso.convert_pressure(mode_to="absolute", unit_to="bar")
print("after convert_pressure:", cache(iso))
run("c02 after convert_pressure", iso, [(L, (0.3, ), {}), (P, (3.0, ), {})])
iso.convert_loading(basis_to="mass", unit_to="g")
print("after convert_loading:", cache(iso))
run("c03 after convert_loading", iso, [(P, (0.05, ), {}), (L, (0.3, ), {})])
iso.convert_material(basis_to="volume", unit_to="cm3")
print("after convert_material:", cache(iso))
run("c04 after convert_material", iso, [(L, (0.3, ), dict(branch="des")), (P, (0.05, ), dict(branch="des"))])

# history independence: a query after a long history equals the same query on a fresh isotherm
long_hist = [c for h in HISTORIES.values() for c in h]
used = make()
for meth, args, kwargs in long_hist:
    try:
        getattr(used, meth)(*args, **kwargs)
    except Exception:
        pass
for meth, args, kwargs in long_hist:
    outs = []
    for target in (used, make()):
        try:
            outs.append(fmt(getattr(target, meth)(*args, **kwargs)))
        except Exception as err:  # noqa
            outs.append(fmt(err))
    print("indep", meth, kwargs, outs[0] == outs[1], outs[0])
print("used fingerprint", fingerprint(used))
