"""Differential script for C19-1 (isosteric_enth.py refactoring).

Prints a deterministic transcript; run on the untouched and the patched tree.
"""
import logging
import warnings

import matplotlib
matplotlib.use('Agg')
import numpy
import pandas

import pygaps
import pygaps.modelling as pgm
from pygaps.characterisation.isosteric_enth import isosteric_enthalpy
from pygaps.characterisation.isosteric_enth import isosteric_enthalpy_raw

R = 8.314462618


class Capture(logging.Handler):
    def emit(self, record):
        print(f"    LOG {record.levelname}: {record.getMessage()!r}")


pygaps.logger.handlers[:] = [Capture()]
pygaps.logger.setLevel(logging.DEBUG)


def show_warning(message, category, filename, lineno, file=None, line=None):
    print(f"    PYWARN {category.__name__}: {message}")


warnings.showwarning = show_warning
warnings.simplefilter('always')


def full(x):
    """Exact, deterministic rendering."""
    if isinstance(x, dict):
        return '{' + ', '.join(f"{k!r}: {full(v)}" for k, v in x.items()) + '}'
    if isinstance(x, numpy.ndarray):
        return f"ndarray{x.shape}{x.dtype}" + full(x.tolist())
    if isinstance(x, (list, tuple)):
        o, c = ('[', ']') if isinstance(x, list) else ('(', ')')
        return o + ', '.join(full(v) for v in x) + c
    if isinstance(x, (float, numpy.floating)):
        return f"{type(x).__name__}:{float(x)!r}:{float(x).hex()}"
    return f"{type(x).__name__}:{x!r}"


def run(label, fn, *args, **kwargs):
    print(f"CALL {label}")
    try:
        print(f"    RET {full(fn(*args, **kwargs))}")
    except BaseException as err:  # noqa
        print(f"    EXC {type(err).__module__}.{type(err).__name__}: {err!r}")


def langmuir_iso(temp, dH=-15000.0, n_m=5.0, K0=2e-4, points=None, material='mat', adsorbate='nitrogen',
                 desorption=False, raw=None, **units):
    """Langmuir isotherm in bar / mmol/g whose affinity follows van 't Hoff, then converted."""
    K = K0 * numpy.exp(-dH / (R * temp))
    pressure = numpy.asarray(points if points is not None else numpy.geomspace(1e-3, 20, 40))
    loading = n_m * K * pressure / (1 + K * pressure)
    if desorption:
        pressure = numpy.concatenate([pressure, pressure[::-1][1:]])
        loading = numpy.concatenate([loading, 1.05 * loading[::-1][1:]])
    base_units = dict(
        pressure_mode='absolute', pressure_unit='bar', material_basis='mass', material_unit='g',
        loading_basis='molar', loading_unit='mmol', temperature_unit='K',
    )
    base_units.update(raw or {})
    iso = pygaps.PointIsotherm(
        pressure=pressure, loading=loading, material=material, adsorbate=adsorbate, temperature=temp,
        **base_units
    )
    if 'pressure_unit' in units or 'pressure_mode' in units:
        iso.convert_pressure(mode_to=units.get('pressure_mode', 'absolute'), unit_to=units.get('pressure_unit'))
    if 'loading_unit' in units or 'loading_basis' in units:
        iso.convert_loading(basis_to=units.get('loading_basis', 'molar'), unit_to=units.get('loading_unit'))
    if 'material_unit' in units or 'material_basis' in units:
        iso.convert_material(basis_to=units.get('material_basis', 'mass'), unit_to=units.get('material_unit'))
    return iso


def model_iso(temp, dH=-15000.0, n_m=5.0, K0=2e-4, name='Langmuir', t=None):
    K = K0 * numpy.exp(-dH / (R * temp))
    params = {'n_m': n_m, 'K': K}
    if t is not None:
        params['t'] = t
    model = pgm.get_isotherm_model(name, parameters=params, pressure_range=(1e-3, 20), loading_range=(0.01, 4.9))
    return pygaps.ModelIsotherm(
        model=model, material='mat', adsorbate='nitrogen', temperature=temp, pressure_mode='absolute',
        pressure_unit='bar', material_basis='mass', material_unit='g', loading_basis='molar',
        loading_unit='mmol', temperature_unit='K',
    )


print("== isosteric_enthalpy_raw")
T3 = [280.0, 300.0, 330.0]
P3 = [[numpy.exp(-2000.0 / t + 0.1 * i) for t in T3] for i in range(5)]
run("lists", isosteric_enthalpy_raw, P3, T3)
run("arrays", isosteric_enthalpy_raw, numpy.array(P3), numpy.array(T3))
run("tuple rows", isosteric_enthalpy_raw, tuple(tuple(r) for r in P3), tuple(T3))
run("int temperatures", isosteric_enthalpy_raw, [[1, 2, 4], [2, 3, 9]], [100, 200, 400])
run("two temperatures", isosteric_enthalpy_raw, [[1.0, 2.0], [3.0, 3.5]], [77, 87])
run("single row", isosteric_enthalpy_raw, [[1.0, 2.0, 2.5]], [77, 87, 97])
run("unordered temperatures", isosteric_enthalpy_raw, [[r[2], r[0], r[1]] for r in P3], [330.0, 280.0, 300.0])
run("keyword args", lambda: isosteric_enthalpy_raw(temperatures=T3, pressures=P3))
run("mismatch", isosteric_enthalpy_raw, P3, [1, 2])
run("mismatch more", isosteric_enthalpy_raw, P3, [1, 2, 3, 4])
run("1-d pressures", isosteric_enthalpy_raw, [1.0, 2.0], [1, 2])
run("empty", isosteric_enthalpy_raw, [], [])
run("empty row", isosteric_enthalpy_raw, [[]], [])
run("empty array rows", isosteric_enthalpy_raw, numpy.empty((0, 3)), T3)
run("ragged", isosteric_enthalpy_raw, [[1.0, 2.0], [1.0]], [1, 2])
run("identical temperatures", isosteric_enthalpy_raw, [[1.0, 2.0, 3.0]], [300, 300, 300])
run("one temperature", isosteric_enthalpy_raw, [[1.0]], [300])
run("zero temperature", isosteric_enthalpy_raw, [[1.0, 2.0]], [0, 300])
run("zero int temperature array", isosteric_enthalpy_raw, [[1.0, 2.0]], numpy.array([0, 300]))
run("negative pressure", isosteric_enthalpy_raw, [[-1.0, 2.0, 3.0], [1.0, 2.0, 3.0]], T3)
run("zero pressure", isosteric_enthalpy_raw, [[0.0, 2.0, 3.0], [1.0, 2.0, 3.0]], T3)
run("nan pressure", isosteric_enthalpy_raw, [[1.0, 2.0, 3.0], [numpy.nan, 2.0, 3.0]], T3)
run("inf pressure", isosteric_enthalpy_raw, [[1.0, numpy.inf, 3.0]], T3)
run("huge slopes", isosteric_enthalpy_raw, [[1e-300, 1e300], [1e300, 1e-300]], [1e-3, 1.0000001e-3])
run("constant pressures", isosteric_enthalpy_raw, [[2.0, 2.0, 2.0]], T3)
run("strings", isosteric_enthalpy_raw, [['a', 'b']], [1, 2])
run("None", isosteric_enthalpy_raw, None, None)
run("dict pressures", isosteric_enthalpy_raw, {0: [1.0, 2.0]}, [1, 2])
run("dataframe", isosteric_enthalpy_raw, pandas.DataFrame(P3).values, pandas.Series(T3))
run("3-d", isosteric_enthalpy_raw, numpy.ones((2, 3, 2)), T3)
rng = numpy.random.default_rng(7)
for k in range(5):
    n_t = int(rng.integers(2, 7))
    temps = rng.uniform(70, 500, n_t)
    press = numpy.exp(rng.normal(0, 3, (int(rng.integers(1, 6)), n_t)))
    run(f"random {k}", isosteric_enthalpy_raw, press, temps)
    run(f"random {k} lists", isosteric_enthalpy_raw, press.tolist(), temps.tolist())

print("== isosteric_enthalpy on consistent synthetic data")
for temps in ([280, 300], [280, 300, 330], [330, 280, 300], [77.0, 82.5, 87.0, 120.0, 200.0], [300, 301]):
    for dH in (-15000.0, -4000.0, -40000.0):
        isos = [langmuir_iso(t, dH=dH) for t in temps]
        run(f"T={temps} dH={dH} default points", isosteric_enthalpy, isos)
        run(f"T={temps} dH={dH} given points", isosteric_enthalpy, isos, [0.5, 1.0, 2.0])

temps = [280, 300, 330]
UNITS = [
    dict(pressure_unit='Pa'), dict(pressure_unit='kPa'), dict(pressure_unit='torr'),
    dict(pressure_mode='relative'), dict(pressure_mode='relative%'),
    dict(loading_unit='mol'), dict(loading_unit='cm3(STP)'), dict(loading_basis='mass', loading_unit='g'),
    dict(material_unit='kg'), dict(pressure_unit='Pa', loading_unit='mol', material_unit='kg'),
    dict(loading_basis='percent', loading_unit=None),
]
for units in UNITS:
    run(f"common units {units}", lambda: isosteric_enthalpy([langmuir_iso(t, **units) for t in temps]))
    run(f"common units {units} given points", lambda: isosteric_enthalpy(
        [langmuir_iso(t, **units) for t in temps],
        loading_points=None if 'loading_basis' in units else numpy.array([0.4, 1.1]) * (
            1e-3 if units.get('loading_unit') == 'mol' else 22.414 if units.get('loading_unit') == 'cm3(STP)' else 1
        ) * (1e3 if units.get('material_unit') == 'kg' else 1)))
    run(f"first differs {units}", lambda: isosteric_enthalpy(
        [langmuir_iso(temps[0], **units)] + [langmuir_iso(t) for t in temps[1:]]))
    run(f"last differs {units}", lambda: isosteric_enthalpy(
        [langmuir_iso(t) for t in temps[:-1]] + [langmuir_iso(temps[-1], **units)]))

print("== argument forms")
isos = [langmuir_iso(t) for t in temps]
run("tuple of isotherms", isosteric_enthalpy, tuple(isos))
run("array of loading points", isosteric_enthalpy, isos, numpy.array([0.5, 1.5]))
run("tuple of loading points", isosteric_enthalpy, isos, (0.5, 1.5))
run("single loading point list", isosteric_enthalpy, isos, [1.0])
run("scalar loading point", isosteric_enthalpy, isos, 1.0)
run("empty loading points", isosteric_enthalpy, isos, [])
run("loading points out of range high", isosteric_enthalpy, isos, [1.0, 100.0])
run("loading points out of range low", isosteric_enthalpy, isos, [-1.0, 1.0])
run("keywords", lambda: isosteric_enthalpy(isotherms=isos, loading_points=[1.0, 2.0], branch='ads', verbose=False))
run("branch des without data", isosteric_enthalpy, isos, None, 'des')
run("branch nonsense", isosteric_enthalpy, isos, None, 'sideways')
run("branch None", isosteric_enthalpy, isos, None, None)
des = [langmuir_iso(t, desorption=True) for t in temps]
run("branch des", isosteric_enthalpy, des, None, 'des')
run("branch ads of hysteretic", isosteric_enthalpy, des, None, 'ads')
run("branch des given points", isosteric_enthalpy, des, [1.0, 2.0], 'des')
run("verbose plot", lambda: {k: v for k, v in isosteric_enthalpy(isos, [1.0, 2.0], verbose=True).items()})
run("verbose plot default", lambda: sorted(isosteric_enthalpy(isos, verbose=True)))
matplotlib.pyplot.close('all')
run("different point grids", isosteric_enthalpy, [
    langmuir_iso(280, points=numpy.linspace(0.01, 10, 15)),
    langmuir_iso(300, points=numpy.geomspace(0.002, 30, 60)),
    langmuir_iso(330, points=[0.01, 0.1, 1, 5, 10, 50]),
])
run("no common range", isosteric_enthalpy, [
    langmuir_iso(280, points=[0.001, 0.002]), langmuir_iso(400, points=[10, 20])])

print("== model isotherms")
run("langmuir models", isosteric_enthalpy, [model_iso(t) for t in temps])
run("langmuir models given points", isosteric_enthalpy, [model_iso(t) for t in temps], [0.5, 1, 2, 4])
run("toth models", isosteric_enthalpy, [model_iso(t, name='Toth', t=0.7) for t in temps], [0.5, 1, 2])
run("mixed model and point", isosteric_enthalpy, [model_iso(280), langmuir_iso(300), model_iso(330)], [0.5, 1, 2])
run("mixed point first", isosteric_enthalpy, [langmuir_iso(280), model_iso(300)], None)

print("== refusals")
run("no isotherms", isosteric_enthalpy, [])
run("one isotherm", isosteric_enthalpy, isos[:1])
run("None", isosteric_enthalpy, None)
run("generator", isosteric_enthalpy, (i for i in isos))
run("dict of isotherms", isosteric_enthalpy, {'a': isos[0], 'b': isos[1]})
run("dict keyed by int", isosteric_enthalpy, {0: isos[0], 1: isos[1]})
run("different material", isosteric_enthalpy, [langmuir_iso(280), langmuir_iso(300, material='other')])
run("different material first", isosteric_enthalpy, [langmuir_iso(280, material='other'), langmuir_iso(300), langmuir_iso(330)])
run("different loading basis", isosteric_enthalpy, [langmuir_iso(280), langmuir_iso(300, loading_basis='mass', loading_unit='g')])
MOLAR = dict(material_basis='molar', material_unit='mol')
run("different material basis", isosteric_enthalpy, [langmuir_iso(280), langmuir_iso(300, raw=MOLAR)])
run("both bases differ", isosteric_enthalpy, [
    langmuir_iso(280), langmuir_iso(300, loading_basis='mass', loading_unit='g', raw=MOLAR)])
run("common molar material basis", isosteric_enthalpy, [langmuir_iso(t, raw=MOLAR) for t in temps], [1.0, 2.0])
run("common volume material basis", isosteric_enthalpy, [
    langmuir_iso(t, raw=dict(material_basis='volume', material_unit='cm3')) for t in temps])
cold = [70.0, 77.0, 85.0]
for mode in ('relative', 'relative%'):
    run(f"subcritical, all {mode}", lambda: isosteric_enthalpy(
        [langmuir_iso(t, dH=-5000.0, K0=1e-3, points=numpy.geomspace(1e-4, 0.3, 30), pressure_mode=mode) for t in cold]))
    run(f"subcritical, first {mode}", lambda: isosteric_enthalpy(
        [langmuir_iso(cold[0], dH=-5000.0, K0=1e-3, points=numpy.geomspace(1e-4, 0.3, 30), pressure_mode=mode)] +
        [langmuir_iso(t, dH=-5000.0, K0=1e-3, points=numpy.geomspace(1e-4, 0.3, 30)) for t in cold[1:]], [0.2, 1.0]))
    run(f"subcritical, last {mode}", lambda: isosteric_enthalpy(
        [langmuir_iso(t, dH=-5000.0, K0=1e-3, points=numpy.geomspace(1e-4, 0.3, 30)) for t in cold[:-1]] +
        [langmuir_iso(cold[-1], dH=-5000.0, K0=1e-3, points=numpy.geomspace(1e-4, 0.3, 30), pressure_mode=mode)], [0.2, 1.0]))
run("same temperature twice", isosteric_enthalpy, [langmuir_iso(300), langmuir_iso(300)])
run("different adsorbate", isosteric_enthalpy, [langmuir_iso(280), langmuir_iso(300, adsorbate='argon')], [1.0])
run("not isotherms", isosteric_enthalpy, [1, 2])
run("strings", isosteric_enthalpy, 'ab')
print("== inputs not modified")
before = [(i.pressure_unit, i.loading_unit, i.material_unit, i.pressure().tolist(), i.loading().tolist()) for i in isos]
pts = [0.5, 1.5]
isosteric_enthalpy(isos, pts)
print(before == [(i.pressure_unit, i.loading_unit, i.material_unit, i.pressure().tolist(), i.loading().tolist()) for i in isos], pts)
