"""Differential transcript for C12-1: IsothermBaseModel.fit / fit_leastsq."""
import logging
import sys
import warnings

import numpy
import pandas

import pygaps
from pygaps import logger
from pygaps.core.material import Material
from pygaps.core.modelisotherm import ModelIsotherm
from pygaps.core.pointisotherm import PointIsotherm

warnings.simplefilter("ignore")
numpy.seterr(all="ignore")


class Capture(logging.Handler):
    """Print every log record of the library into the transcript."""
    def emit(self, record):
        print(f"    LOG {record.levelname}: {record.getMessage()!r}")


for h in list(logger.handlers):
    logger.removeHandler(h)
logger.addHandler(Capture(level=logging.DEBUG))


def hx(v):
    try:
        return float(v).hex()
    except (TypeError, ValueError):
        return repr(v)


def hexes(seq):
    return [hx(v) for v in numpy.ravel(numpy.asarray(seq, dtype=object))]


def snap(iso):
    print("    labels:", repr({k: iso.__dict__.get(k) for k in iso._unit_params}))
    print("    _temperature:", float(iso._temperature).hex())
    if hasattr(iso, "data_raw"):
        print("    columns:", list(iso.data_raw.columns), "index:", list(iso.data_raw.index))
        for col in iso.data_raw.columns:
            print(f"    {col} [{iso.data_raw[col].dtype}]:", hexes(iso.data_raw[col]))
        print("    interpolators:", iso.l_interpolator is None, iso.p_interpolator is None)
    print("    properties:", repr(iso.properties))
    print("    material:", repr(iso.material), repr(iso.material.properties))
    print("    keys:", list(vars(iso)))


def attempt(label, fn):
    print(f"  > {label}")
    try:
        res = fn()
        print("    returned:", repr(res))
        return res
    except BaseException as err:  # noqa
        print(f"    raised {type(err).__name__}: {str(err)!r}")
        cause = err.__cause__
        while cause is not None:
            print(f"    cause {type(cause).__name__}: {str(cause)!r}")
            cause = cause.__cause__
        return None


UNITS = dict(
    pressure_mode="absolute",
    pressure_unit="bar",
    loading_basis="molar",
    loading_unit="mmol",
    material_basis="mass",
    material_unit="g",
    temperature_unit="K",
)


def make_point(adsorbate="N2", temperature=77.355, material="TestMat", **kw):
    params = dict(UNITS, material=material, adsorbate=adsorbate, temperature=temperature,
                  comment="a comment", number=7)
    params.update(kw)
    data = pandas.DataFrame({
        "p": [0.01, 0.05, 0.1, 0.3, 0.6, 0.9, 0.5, 0.2],
        "l": [0.5, 1.1, 1.9, 3.2, 4.4, 5.0, 4.6, 3.5],
        "extra": [9.0, 8.0, 7.0, 6.0, 5.0, 4.0, 3.0, 2.0],
        "zeta": list("abcdefgh"),
    })
    return PointIsotherm(isotherm_data=data, pressure_key="p", loading_key="l", **params)


# ---------------------------------------------------------------- C12-1 body
from pygaps.modelling import _MODELS
from pygaps.modelling import get_isotherm_model
from pygaps.modelling import model_iso
from pygaps.modelling.base_model import IsothermBaseModel

print("fit defined on:", [c.__name__ for c in IsothermBaseModel.__subclasses__() if "fit" in vars(c)])


def show_model(model):
    print("    name:", model.name, "calculates:", model.calculates)
    print("    params:", [(k, hx(v)) for k, v in model.params.items()])
    print("    param types:", [type(v).__name__ for v in model.params.values()])
    print("    rmse:", hx(model.rmse), type(model.rmse).__name__)
    print("    ranges:", hexes(model.pressure_range), hexes(model.loading_range))
    print("    bounds:", repr(model.param_bounds))


P_ABS = numpy.array([0.02, 0.05, 0.1, 0.2, 0.4, 0.7, 1.0, 1.5, 2.0, 3.0])
L_LANG = 5.0 * 1.7 * P_ABS / (1 + 1.7 * P_ABS)
P_REL = numpy.array([0.01, 0.03, 0.06, 0.1, 0.15, 0.2, 0.3, 0.4, 0.5, 0.6, 0.7])
L_BET = 3.0 * 60 * P_REL / ((1 - P_REL) * (1 + 59 * P_REL))
L_NOISY = L_LANG * (1 + 0.03 * numpy.cos(numpy.arange(len(P_ABS)) * 2.1))

DATASETS = {
    "langmuir": (P_ABS, L_LANG, dict(UNITS)),
    "noisy": (P_ABS, L_NOISY, dict(UNITS)),
    "bet": (P_REL, L_BET, dict(UNITS, pressure_mode="relative")),
}

for dname, (pp, ll, units) in DATASETS.items():
    for mname in _MODELS:
        print(f"== fit {mname} on {dname}")
        iso = attempt("ModelIsotherm", lambda: ModelIsotherm(
            pressure=pp, loading=ll, model=mname, material="TestMat", adsorbate="N2", temperature=77.355,
            optimization_params=dict(add_point=True) if mname == "Virial" else None, **units))
        if iso is None:
            continue
        show_model(iso.model)
        if iso.model.calculates == "loading":
            resid = iso.model.loading(pp) - ll
            rng = iso.model.loading_range[1] - iso.model.loading_range[0]
        else:
            resid = iso.model.pressure(ll) - pp
            rng = iso.model.pressure_range[1] - iso.model.pressure_range[0]
        print("    recomputed rmse:", hx(numpy.sqrt(numpy.sum(resid**2) / len(ll)) / rng))
        # generate points from the model and fit again
        pts = attempt("from_modelisotherm", lambda: PointIsotherm.from_modelisotherm(iso, pressure_points=pp))
        if pts is None or mname == "Virial":
            continue
        print("    points:", hexes(pts.loading()))
        again = attempt("model_iso again", lambda: model_iso(pts, model=mname, verbose=False))
        if again is not None:
            show_model(again.model)

# direct calls of IsothermBaseModel.fit with guesses / options / failures
print("== direct fit calls")
CASES = [
    ("Langmuir", dict(K=1.0, n_m=4.0), None, False),
    ("Langmuir", dict(K=1.0, n_m=4.0), {}, True),
    ("Langmuir", dict(K=50.0, n_m=0.1), dict(max_nfev=1), True),
    ("Langmuir", dict(K=1.0, n_m=4.0), dict(max_nfev=3), False),
    ("Langmuir", dict(K=1.0, n_m=4.0), dict(loss="soft_l1", f_scale=0.5), False),
    ("Langmuir", dict(K=1.0, n_m=4.0), dict(method="dogbox", xtol=1e-12), False),
    ("Langmuir", dict(K=1.0, n_m=4.0), dict(x0=[1.0]), False),
    ("Langmuir", dict(K=1.0, n_m=4.0), dict(x0=[1.0, 2.0, 3.0], bounds=(-numpy.inf, numpy.inf)), False),
    ("Langmuir", dict(K=1.0, n_m=4.0), dict(x0=[2.0, 3.0]), True),
    ("Langmuir", dict(K=1.0, n_m=4.0), dict(nonsense=1), False),
    ("Langmuir", dict(K=1.0, n_m=4.0), [("max_nfev", 2)], False),
    ("Langmuir", dict(K=-1.0, n_m=4.0), None, False),
    ("Langmuir", dict(K=1.0), None, False),
    ("Langmuir", dict(K=1.0, n_m=4.0, zzz=3.0), None, False),
    ("Langmuir", [1.0, 4.0], None, False),
    ("Langmuir", dict(K=numpy.nan, n_m=4.0), None, False),
    ("Henry", dict(K=1.0), None, True),
    ("Toth", dict(n_m=4.0, K=1.0, t=1.0), None, True),
    ("DSLangmuir", dict(n_m1=2.0, K1=0.5, n_m2=2.0, K2=3.0), dict(max_nfev=2), True),
    ("FHVST", dict(n_m=6.0, K=8.0, a1v=0.0), None, True),
    ("WVST", dict(n_m=6.0, K=8.0, L1v=1.0, Lv1=1.0), dict(max_nfev=4), False),
]
for mname, guess, opt, verbose in CASES:
    print(f"-- {mname} guess={guess!r} opt={opt!r} verbose={verbose}")
    model = get_isotherm_model(
        mname, pressure_range=(float(P_ABS.min()), float(P_ABS.max())),
        loading_range=(float(L_NOISY.min()), float(L_NOISY.max())))
    model.__init_parameters__({"temperature": 77.355})
    opt_before = repr(opt)
    attempt("fit", lambda: model.fit(P_ABS, L_NOISY, guess, opt, verbose))
    print("    opt unchanged:", repr(opt) == opt_before)
    show_model(model)

# custom bounds, degenerate ranges, lists instead of arrays, a single point
print("== bounds / ranges / shapes")
m = get_isotherm_model("Langmuir", pressure_range=(0.02, 3.0), loading_range=(0.1, 4.0),
                       param_bounds=dict(K=(0.0, 1.0), n_m=(0.0, 3.0)))
attempt("tight bounds", lambda: m.fit(P_ABS, L_LANG, dict(K=0.5, n_m=2.0)))
show_model(m)
m = get_isotherm_model("Langmuir", pressure_range=(0.02, 3.0), loading_range=(0.1, 4.0),
                       param_bounds=dict(K=(0.0, 1.0)))
attempt("partial bounds", lambda: m.fit(P_ABS, L_LANG, dict(K=0.5, n_m=2.0)))
show_model(m)
m = get_isotherm_model("Langmuir", pressure_range=(0.02, 3.0), loading_range=(2.0, 2.0))
attempt("zero range", lambda: m.fit(P_ABS, L_LANG, dict(K=0.5, n_m=2.0)))
show_model(m)
m = get_isotherm_model("Langmuir")
attempt("default nan ranges", lambda: m.fit(P_ABS, L_LANG, dict(K=0.5, n_m=2.0)))
show_model(m)
m = get_isotherm_model("Langmuir", pressure_range=None, loading_range=None)
attempt("None ranges", lambda: m.fit(P_ABS, L_LANG, dict(K=0.5, n_m=2.0)))
show_model(m)
m = get_isotherm_model("Langmuir", pressure_range=(0.02, 3.0), loading_range=(0.1, 4.0))
attempt("guess out of bounds", lambda: m.fit(P_ABS, L_LANG, dict(K=0.5, n_m=-2.0)))
show_model(m)
m = get_isotherm_model("Langmuir", pressure_range=(0.02, 3.0), loading_range=(0.1, 4.0))
attempt("python lists", lambda: m.fit(list(P_ABS), list(L_LANG), dict(K=0.5, n_m=2.0)))
show_model(m)
m = get_isotherm_model("Langmuir", pressure_range=(0.02, 3.0), loading_range=(0.1, 4.0))
attempt("single point", lambda: m.fit(numpy.array([0.5]), numpy.array([2.0]), dict(K=0.5, n_m=2.0)))
show_model(m)
m = get_isotherm_model("Langmuir", pressure_range=(0.02, 3.0), loading_range=(0.1, 4.0))
attempt("empty data", lambda: m.fit(numpy.array([]), numpy.array([]), dict(K=0.5, n_m=2.0)))
show_model(m)
m = get_isotherm_model("Langmuir", pressure_range=(0.02, 3.0), loading_range=(0.1, 4.0))
m.calculates = "neither"
attempt("unknown calculates", lambda: m.fit(P_ABS, L_LANG, dict(K=0.5, n_m=2.0)))
show_model(m)
m = get_isotherm_model("Langmuir", pressure_range=(0.02, 3.0), loading_range=(0.1, 4.0))
attempt("nan data", lambda: m.fit(P_ABS, numpy.where(P_ABS > 1, numpy.nan, L_LANG), dict(K=0.5, n_m=2.0)))
show_model(m)

# fit_leastsq directly
print("== fit_leastsq")
m = get_isotherm_model("Henry")
res = attempt("ok", lambda: m.fit_leastsq(dict(fun=lambda x: x - 3.0, x0=numpy.array([1.0]))))
print("   ", hexes(res.x), res.success)
attempt("no success", lambda: m.fit_leastsq(dict(fun=lambda x: numpy.exp(x) - 3.0, x0=numpy.array([10.0]), max_nfev=1)))
attempt("value error", lambda: m.fit_leastsq(dict(fun=lambda x: x, x0=numpy.array([1.0]), bounds=([2.0], [1.0]))))
attempt("type error", lambda: m.fit_leastsq(dict(fun=lambda x: x, x0=numpy.array([1.0]), nope=1)))
attempt("no x0 key on failure", lambda: m.fit_leastsq(dict(fun=lambda x: numpy.exp(x) - 3.0, max_nfev=1)))
