"""Differential script for change 4: pygaps.utilities.math_utilities.bspline."""
import os
import sys

sys.path.insert(0, os.path.dirname(os.path.abspath(__file__)))

import numpy
import pandas
from common import run

from pygaps.data import KERNELS
from pygaps.utilities.math_utilities import bspline

rng = numpy.random.default_rng(1234)

widths = numpy.asarray(
    pandas.read_csv(KERNELS['DFT-N2-77K-carbon-slit'], index_col=0).columns, dtype='float64'
)

# 1 - grid over small sizes / degrees / periodic / n
for count in (0, 1, 2, 3, 4, 5, 8):
    xs = numpy.linspace(0.4, 0.4 + 0.3 * count, count)
    ys = numpy.cos(xs * 3.0)**2
    for degree in (-1, 0, 1, 2, 3, 5, 100):
        for periodic in (False, True):
            for n in (0, 1, 2, 7):
                run(
                    f"grid count={count} degree={degree} periodic={periodic} n={n}",
                    bspline, xs, ys, n=n, degree=degree, periodic=periodic, full=True
                )

# 2 - property-like inputs: the 77 kernel widths with dense / sparse distributions
for case in range(8):
    dense = rng.random(len(widths)) * 0.05
    sparse = numpy.zeros(len(widths))
    idx = rng.choice(len(widths), size=1 + case, replace=False)
    sparse[idx] = rng.random(len(idx))
    for name, weights in (("dense", dense), ("sparse", sparse)):
        dist = weights / numpy.ediff1d(widths, to_begin=widths[0])
        for degree in (0, 1, 2, 3):
            run(f"kernel77 {name}{case} degree={degree}", bspline, widths, dist, degree=degree)
        run(f"kernel77 {name}{case} default", bspline, widths, dist)
        run(f"kernel77 {name}{case} periodic", bspline, widths, dist, degree=3, periodic=True)
        run(f"kernel77 {name}{case} n=500", bspline, widths, dist, 500, 2)

# 3 - input container / dtype variations
run("lists", bspline, [1, 2, 3, 4, 5], [1.0, 4.0, 9.0, 16.0, 25.0], n=11, full=True)
run("int arrays", bspline, numpy.arange(6), numpy.arange(6)**2, n=11, degree=3, full=True)
run("mixed int/float", bspline, numpy.arange(6), numpy.sqrt(numpy.arange(6)), n=9, full=True)
run("series", bspline, pandas.Series([1., 2., 3., 4.]), pandas.Series([2., 1., 2., 1.]), n=9, full=True)
run("tuple", bspline, (0.0, 1.0, 2.0), (0.0, 1.0, 0.0), n=5, degree=1, full=True)
run("nan value", bspline, [0.0, 1.0, 2.0, 3.0], [0.0, numpy.nan, 1.0, 2.0], n=7, full=True)
run("inf value", bspline, [0.0, 1.0, 2.0, 3.0], [0.0, numpy.inf, 1.0, 2.0], n=7, full=True)
run("unsorted x", bspline, [3.0, 1.0, 2.0, 0.0], [0.0, 1.0, 1.0, 2.0], n=7, full=True)
run("repeated x", bspline, [1.0, 1.0, 1.0, 2.0], [0.0, 1.0, 1.0, 2.0], n=7, degree=3, full=True)
run("numpy int degree", bspline, numpy.arange(6.), numpy.arange(6.)**2, n=5, degree=numpy.int64(2), full=True)
run("bool periodic int", bspline, numpy.arange(6.), numpy.arange(6.)**2, n=5, degree=2, periodic=1, full=True)

# 4 - error paths
run("length mismatch", bspline, [1, 2, 3], [1, 2])
run("length mismatch degree0", bspline, [1, 2, 3], [1, 2], degree=0)
run("ys no len", bspline, [1, 2, 3], 4)
run("xs no len", bspline, 4, [1, 2, 3])
run("float degree", bspline, numpy.arange(6.), numpy.arange(6.)**2, n=5, degree=2.0)
run("None degree", bspline, numpy.arange(6.), numpy.arange(6.)**2, n=5, degree=None)
run("str degree", bspline, numpy.arange(6.), numpy.arange(6.)**2, n=5, degree="2")
run("negative n", bspline, numpy.arange(6.), numpy.arange(6.)**2, n=-3)
run("strings", bspline, ["a", "b", "c"], ["d", "e", "f"])
run("empty periodic", bspline, [], [], periodic=True)
run("empty degree0", bspline, [], [], degree=0)

# 5 - degree 0 returns the very same objects
xs0, ys0 = numpy.arange(4.), numpy.arange(4.)
out = bspline(xs0, ys0, degree=0)
print("degree0 identity:", out[0] is xs0, out[1] is ys0, type(out).__name__)
out = bspline(xs0, ys0, degree=2)
print(
    "result kinds:", type(out).__name__, len(out), [type(o).__name__ for o in out],
    [o.dtype.name for o in out], [o.shape for o in out], [o.flags.writeable for o in out],
    [o.flags.c_contiguous for o in out], [o.base is None for o in out]
)
