"""Differential script for change 3: c_material basis-constant selection."""
import itertools
import warnings

import numpy as np
import pandas as pd

import pygaps
from pygaps.core.material import Material
from pygaps.units.converter_mode import c_material

warnings.simplefilter("ignore")


def canon(x):
    if isinstance(x, pd.Series):
        return f"Series(index={list(x.index)!r}, values={[repr(float(v)) for v in x.values]}, name={x.name!r})"
    if isinstance(x, np.ndarray):
        return f"ndarray(dtype={x.dtype}, shape={x.shape}, values={[repr(v) for v in x.ravel().tolist()]})"
    if isinstance(x, (float, np.floating)):
        return f"{type(x).__name__}:{float(x)!r}"
    return f"{type(x).__name__}:{x!r}"


def run(label, func, *args, **kwargs):
    try:
        res = func(*args, **kwargs)
        print(f"{label} -> {canon(res)}")
    except BaseException as err:  # noqa
        print(f"{label} !! {type(err).__name__}: {err}")


class FakeMaterial:
    """Records attribute access (names and order)."""
    def __init__(self, density=2.2, molar_mass=380.0, fail=()):
        object.__setattr__(self, "log", [])
        object.__setattr__(self, "_vals", {"density": density, "molar_mass": molar_mass})
        object.__setattr__(self, "_fail", fail)

    def __getattr__(self, name):
        self.log.append(name)
        if name in self._fail:
            raise RuntimeError(f"fake failure in {name}")
        try:
            return self._vals[name]
        except KeyError:
            raise AttributeError(name) from None


MOLAR = ["mmol", "mol", "kmol", "cm3(STP)", "mL(STP)", "cc(STP)", "L(STP)"]
MASS = ["amu", "mg", "cg", "dg", "g", "kg"]
VOL = ["cm3", "mL", "cc", "dm3", "L", "m3"]
MAT = [("molar", u) for u in MOLAR] + [("mass", u) for u in MASS] + [("volume", u) for u in VOL]
assert len(MAT) == 19

MATERIALS = [
    ("both", Material("eq_both", density=1.37, molar_mass=1234.5)),
    ("light", Material("eq_light", density=0.0123, molar_mass=1.00784)),
    ("heavy", Material("eq_heavy", density=21.45, molar_mass=9.87e5)),
    ("intprops", Material("eq_int", density=2, molar_mass=100)),
    ("strprops", Material("eq_str", density="1.5", molar_mass="60")),
]
PARTIAL = [
    ("dens_only", Material("eq_dens", density=0.8)),
    ("mm_only", Material("eq_mm", molar_mass=250.0)),
    ("nothing", Material("eq_nothing")),
    ("zero", Material("eq_zero", density=0, molar_mass=0)),
    ("none", None),
    ("string", "eq_both"),
]

VALUES = [
    ("one", 1.0),
    ("int", 7),
    ("zero", 0.0),
    ("neg", -0.3),
    ("huge", 1.7e308),
    ("inf", float("inf")),
    ("nan", float("nan")),
    ("np32", np.float32(0.1)),
    ("arr", np.array([0.0, 0.1, 1.0, 1e-5, 33.3, 1e6])),
    ("intarr", np.array([[1, 2], [3, 4]])),
    ("empty", np.array([])),
    ("series", pd.Series([0.01, 0.2, 3.0], index=["a", "b", "c"], name="l")),
    ("list", [1.0]),
]

print("# section 1: all ordered pairs of the 19 material representations, all materials, all values")
for mname, mat in MATERIALS:
    for (bf, uf), (bt, ut) in itertools.product(MAT, MAT):
        for vname, val in VALUES:
            run(f"S1 {mname} {bf}/{uf}->{bt}/{ut} {vname}", c_material, val, bf, bt, uf, ut, mat)

print("# section 2: materials with missing / unusable properties")
for mname, mat in PARTIAL:
    for (bf, uf), (bt, ut) in itertools.product(MAT[::3], MAT[::3]):
        run(f"S2 {mname} {bf}/{uf}->{bt}/{ut}", c_material, 2.0, bf, bt, uf, ut, mat)
    run(f"S2 {mname} default-arg same", c_material, 2.0, "mass", "mass", "g", "kg")
for (bf, uf), (bt, ut) in itertools.product(MAT[::4], MAT[::4]):
    run(f"S2 default-arg {bf}/{uf}->{bt}/{ut}", c_material, 2.0, bf, bt, uf, ut)

print("# section 3: attribute access on the material: which, how often, in what order")
for (bf, uf), (bt, ut) in itertools.product(MAT[::2], MAT[::2]):
    fake = FakeMaterial()
    run(f"S3 {bf}/{uf}->{bt}/{ut}", c_material, 2.5, bf, bt, uf, ut, fake)
    print(f"   access={fake.log!r}")
for failing in [("density", ), ("molar_mass", ), ("density", "molar_mass")]:
    for (bf, uf), (bt, ut) in itertools.permutations([("mass", "g"), ("volume", "cm3"), ("molar", "mol")], 2):
        fake = FakeMaterial(fail=failing)
        run(f"S3 fail={failing} {bf}/{uf}->{bt}/{ut}", c_material, 2.5, bf, bt, uf, ut, fake)
        print(f"   access={fake.log!r}")
for dens, mm in [(None, 5.0), (5.0, None), (None, None), (0.0, 1.0), (1.0, 0.0), (0, 0), (np.float64(0.0), 1.0),
                 (np.array([1.0, 2.0]), 3.0), ("a", "b")]:
    for (bf, uf), (bt, ut) in itertools.permutations([("mass", "g"), ("volume", "cm3"), ("molar", "mol")], 2):
        fake = FakeMaterial(density=dens, molar_mass=mm)
        run(f"S3 dens={dens!r} mm={mm!r} {bf}/{uf}->{bt}/{ut}", c_material, 2.5, bf, bt, uf, ut, fake)
        print(f"   access={fake.log!r}")

print("# section 4: bad / missing bases and units")
BASES = ["mass", "molar", "volume", "fraction", "percent", "volume_gas", "volume_liquid", None, "", "bad", "Mass", 0]
mat = MATERIALS[0][1]
for bf, bt in itertools.product(BASES, repeat=2):
    run(f"S4 basis {bf!r}->{bt!r}", c_material, 3.0, bf, bt, "g", "g", mat)
    run(f"S4 basis {bf!r}->{bt!r} nounits", c_material, 3.0, bf, bt, None, None, mat)
    run(f"S4 basis {bf!r}->{bt!r} nomat", c_material, 3.0, bf, bt, "g", "cm3")
for bf, bt in itertools.product(BASES[:3], repeat=2):
    for uf, ut in [(None, None), ("", "g"), ("g", ""), ("bad", "mmol"), ("mmol", "bad"), ("mL", "mL"), ("mmol", "mol"),
                   ("G", "g"), ("cm3(STP)", "cm3"), ("cm3", "cm3(STP)"), ("g", None), (None, "g"), ("g", "kg"),
                   ("cm3", "g"), ("mol", "cm3")]:
        run(f"S4 {bf}/{uf!r}->{bt}/{ut!r}", c_material, 3.0, bf, bt, uf, ut, mat)
        run(f"S4 {bf}/{uf!r}->{bt}/{ut!r} nomat", c_material, 3.0, bf, bt, uf, ut, None)

print("# section 5: chains: there-and-back and through an intermediate")
for mname, mat in MATERIALS[:3]:
    for a, b, c in itertools.permutations(MAT[::2], 3):
        x = c_material(0.37, a[0], b[0], a[1], b[1], mat)
        y = c_material(x, b[0], c[0], b[1], c[1], mat)
        z = c_material(y, c[0], a[0], c[1], a[1], mat)
        d = c_material(0.37, a[0], c[0], a[1], c[1], mat)
        print(f"S5 {mname} {a}->{b}->{c}->a {x!r} {y!r} {z!r} direct={d!r}")

print("# section 6: through the isotherm API")
pygaps.MATERIAL_LIST.append(pygaps.Material("eq_mat", density=1.3, molar_mass=455.0))
pygaps.MATERIAL_LIST.append(pygaps.Material("eq_mat_nodens", molar_mass=455.0))
for matname in ["eq_mat", "eq_mat_nodens", "eq_unknown"]:
    iso = pygaps.PointIsotherm(
        pressure=[0.1, 0.2, 0.5, 1.0],
        loading=[1.0, 2.0, 3.0, 3.5],
        material=matname,
        adsorbate="nitrogen",
        temperature=77.355,
        loading_basis="molar",
        loading_unit="mmol",
        material_basis="mass",
        material_unit="g",
    )
    for basis, unit in MAT:
        run(f"S6 {matname} loading(material {basis},{unit})", iso.loading, material_basis=basis, material_unit=unit)
    for basis, unit in [("mass", "kg"), ("volume", "cm3"), ("molar", "mmol"), ("volume", "m3"), ("mass", "g")]:
        run(f"S6 {matname} convert_material({basis},{unit})", iso.convert_material, basis_to=basis, unit_to=unit)
        run("S6   ->", iso.loading)
        run("S6   state", lambda: (iso.material_basis, iso.material_unit))
    run(f"S6 {matname} convert bad basis", iso.convert_material, basis_to="percent", unit_to="g")
    run(f"S6 {matname} convert bad unit", iso.convert_material, basis_to="mass", unit_to="bad")
