"""Differential script for C09-1 (with_connection refactoring).

Prints a deterministic transcript; run on the untouched and the patched tree.
"""
import logging
import os
import shutil
import sqlite3
import sys
import tempfile

import pygaps
from pygaps.parsing import sqlite as pgsql
from pygaps.utilities.exceptions import ParsingError
from pygaps.utilities.sqlite_db_pragmas import PRAGMAS
from pygaps.utilities.sqlite_utilities import db_execute_general

TMP = tempfile.mkdtemp(prefix='c09_1_')


def norm(text):
    return str(text).replace(TMP, '<TMP>')


class Capture(logging.Handler):
    def emit(self, record):
        print(f"    LOG {record.levelname}: {norm(record.getMessage())!r}")


pygaps.logger.handlers[:] = [Capture()]
pygaps.logger.setLevel(logging.DEBUG)


def dump(path):
    """Full content of a database, deterministic."""
    con = sqlite3.connect(path)
    try:
        tables = [
            r[0] for r in
            con.execute("SELECT name FROM sqlite_master WHERE type='table' ORDER BY name")
        ]
        for tb in tables:
            if tb == 'sqlite_sequence':
                continue
            rows = con.execute(f'SELECT * FROM "{tb}"').fetchall()
            if rows:
                print(f"    TABLE {tb}: {sorted(rows, key=repr)!r}")
    finally:
        con.close()


def new_db(name):
    path = os.path.join(TMP, name)
    for pragma in PRAGMAS:
        db_execute_general(pragma, path)
    for tp in ('isotherm', 'pointisotherm', 'modelisotherm'):
        pgsql.isotherm_type_to_db({'type': tp}, db_path=path, verbose=False)
    return path


def chain(err):
    out = []
    while err is not None:
        out.append(f"{type(err).__module__}.{type(err).__name__}: {norm(err)!r}")
        nxt = err.__cause__
        if nxt is None and not err.__suppress_context__:
            nxt = err.__context__
        err = nxt
    return ' <- '.join(out)


def run(label, fn, *args, **kwargs):
    print(f"CALL {label}")
    try:
        ret = fn(*args, **kwargs)
        print(f"    RET {norm(repr(ret))}")
    except BaseException as err:  # noqa
        print(f"    EXC {chain(err)}")


# ------------------------------------------------------------------ setup
DB = new_db('main.db')
DEFAULT = new_db('default.db')
# every fall-back to the "internal" database goes to a scratch copy
pgsql.DATABASE = DEFAULT

print("== metadata preserved by the decorator")
for name in ('adsorbate_to_db', 'isotherm_delete_db', 'materials_from_db'):
    f = getattr(pgsql, name)
    print(name, f.__name__, f.__qualname__, f.__module__, hasattr(f, '__wrapped__'),
          (f.__doc__ or '')[:40].strip().splitlines()[0])

# ------------------------------------------------------------------ custom decorated functions


@pgsql.with_connection
def ins_kw(name, db_path=None, fail=None, **kwargs):
    """Insert a material then maybe fail."""
    cur = kwargs['cursor']
    cur.execute('INSERT INTO materials (name) VALUES (?)', (name, ))
    if fail is not None:
        raise fail
    return ('ok', name, norm(db_path), sorted(kwargs))


@pgsql.with_connection
def ins_pos(db_path, name, *more, **kwargs):
    cur = kwargs['cursor']
    cur.execute('INSERT INTO materials (name) VALUES (?)', (name, ))
    return ('ok', name, norm(db_path), more, sorted(kwargs))


@pgsql.with_connection
def no_path(name, **kwargs):
    cur = kwargs['cursor']
    cur.execute('INSERT INTO materials (name) VALUES (?)', (name, ))
    return [tuple(r) for r in cur.execute('SELECT name FROM materials ORDER BY name')]


@pgsql.with_connection
def kwonly(name, *, db_path=None, **kwargs):
    cur = kwargs['cursor']
    cur.execute('INSERT INTO materials (name) VALUES (?)', (name, ))
    return (name, norm(db_path))


@pgsql.with_connection
def fk_state(db_path=None, **kwargs):
    cur = kwargs['cursor']
    return (
        tuple(cur.execute('PRAGMA foreign_keys').fetchone()),
        type(cur.execute('SELECT 1 AS one').fetchone()).__name__,
    )


print("== db_path by keyword / positional / absent / falsy")
run("kw path", ins_kw, 'kw1', db_path=DB)
run("positional path (2nd)", ins_kw, 'pos1', DB)
run("positional path + fail positional", ins_kw, 'pos2', DB, None)
run("no path at all -> default", ins_kw, 'def1')
run("db_path=None kw -> default", ins_kw, 'def2', db_path=None)
run("db_path='' kw -> default", ins_kw, 'def3', db_path='')
run("db_path=None positional -> default", ins_kw, 'def4', None)
run("db_path='' positional -> default", ins_kw, 'def5', '')
run("db_path=0 positional -> default", ins_kw, 'def6', 0)
run("first positional path", ins_pos, DB, 'first1')
run("first positional path + extra", ins_pos, DB, 'first2', 1, 2, x=3)
run("first positional None", ins_pos, None, 'first3')
run("no db_path parameter", no_path, 'nop1')
run("no db_path parameter but kw given", no_path, 'nop2', db_path=DB)
run("kw-only path", kwonly, 'ko1', db_path=DB)
run("kw-only no path", kwonly, 'ko2')
run("kw-only positional overflow", kwonly, 'ko3', DB)
run("missing args", ins_pos)
run("pathlib path", ins_kw, 'plib', db_path=__import__('pathlib').Path(DB))
run("bytes-ish bad path", ins_kw, 'bad', db_path=os.path.join(TMP, 'nodir', 'x.db'))
run("path of wrong type", ins_kw, 'bad2', db_path=3.5)
run("fk + row factory", fk_state, db_path=DB)
run("fk + row factory default", fk_state)
print("-- main"); dump(DB)
print("-- default"); dump(DEFAULT)

print("== failure classes: rollback, translation, propagation")
fails = [
    sqlite3.IntegrityError('integrity boom'),
    sqlite3.InterfaceError('interface boom'),
    sqlite3.OperationalError('operational boom'),
    sqlite3.ProgrammingError('programming boom'),
    sqlite3.DatabaseError('database boom'),
    sqlite3.Error('plain boom'),
    sqlite3.Warning('warn boom'),
    ParsingError('parsing boom'),
    ValueError('value boom'),
    KeyError('key boom'),
    KeyboardInterrupt('kbd'),
    SystemExit(3),
]


class SubIntegrity(sqlite3.IntegrityError):
    pass


class Both(sqlite3.InterfaceError, ValueError):
    pass


fails += [SubIntegrity('sub'), Both('both')]
for i, f in enumerate(fails):
    run(f"fail {type(f).__name__} kw", ins_kw, f'f{i}', db_path=DB, fail=f)
    run(f"fail {type(f).__name__} pos", ins_kw, f'g{i}', DB, f)
    run(f"fail {type(f).__name__} default", ins_kw, f'h{i}', fail=f)
print("-- main"); dump(DB)
print("-- default"); dump(DEFAULT)

print("== real statement failures")
run("duplicate insert", ins_kw, 'kw1', db_path=DB)
run("duplicate insert positional", ins_kw, 'kw1', DB)
run("null insert", ins_kw, None, db_path=DB)
run("unbindable", ins_kw, object(), db_path=DB)
run("repeat after failure", ins_kw, 'after', db_path=DB)
print("-- main"); dump(DB)

print("== cursor passed through (no connection handling)")
con = sqlite3.connect(DB)
con.row_factory = sqlite3.Row
cur = con.cursor()
run("cursor given", ins_kw, 'cur1', db_path=DB, cursor=cur)
run("cursor given, fail integrity", ins_kw, 'cur2', db_path=DB, cursor=cur,
    fail=sqlite3.IntegrityError('inner'))
run("cursor given, other path ignored", ins_kw, 'cur3', db_path=DEFAULT, cursor=cur)
print("in transaction:", con.in_transaction)
con.rollback()
con.close()
run("cursor=None kw", ins_kw, 'cur4', db_path=DB, cursor=None)
run("cursor=0 kw", ins_kw, 'cur5', cursor=0)
print("-- main"); dump(DB)
print("-- default"); dump(DEFAULT)

print("== library entry points")
mat = pygaps.Material('m1', density=2.5, tags=['a', 'b'])
ads = pygaps.Adsorbate('myads', formula='X2', aliases=['q'])
iso = pygaps.PointIsotherm(
    pressure=[1, 2, 3], loading=[1.5, 2.5, 3.5], material='m1', adsorbate='myads',
    temperature=77, extra=True,
)
iso2 = pygaps.PointIsotherm(
    pressure=[1, 2, 3], loading=[1.5, 2.5, 3.5], material='m2', adsorbate='other',
    temperature=77,
)
run("material kw", pgsql.material_to_db, mat, db_path=DB)
run("material positional", pgsql.material_to_db, pygaps.Material('m1p'), DB)
run("material duplicate", pgsql.material_to_db, mat, db_path=DB)
run("material duplicate positional", pgsql.material_to_db, mat, DB)
run("material overwrite missing", pgsql.material_to_db, pygaps.Material('zz'), DB, True, True)
run("material bad property", pgsql.material_to_db, pygaps.Material('m3', weird=object()), DB)
run("adsorbate kw", pgsql.adsorbate_to_db, ads, db_path=DB)
run("adsorbate duplicate", pgsql.adsorbate_to_db, ads, DB)
run("adsorbate bad property", pgsql.adsorbate_to_db, pygaps.Adsorbate('a3', weird=object()), DB)
run("adsorbate no autoinsert", pgsql.adsorbate_to_db, pygaps.Adsorbate('a4', newprop=1), DB, False)
run("isotherm", pgsql.isotherm_to_db, iso, db_path=DB)
run("isotherm dup", pgsql.isotherm_to_db, iso, DB)
run("isotherm no autoinsert", pgsql.isotherm_to_db, iso2, DB, False, False)
run("isotherm autoinsert positional", pgsql.isotherm_to_db, iso2, DB)
run("isotherms back", lambda: [i.iso_id == j.iso_id for i, j in zip(
    sorted(pgsql.isotherms_from_db(db_path=DB), key=lambda x: x.iso_id),
    sorted([iso, iso2], key=lambda x: x.iso_id))])
run("isotherms back positional", lambda: len(pgsql.isotherms_from_db(None, DB)))
run("isotherms back criteria", lambda: len(pgsql.isotherms_from_db({'material': 'm2'}, DB)))
run("isotherms default db", lambda: len(pgsql.isotherms_from_db()))
run("delete material in use", pgsql.material_delete_db, mat, DB)
run("delete adsorbate in use", pgsql.adsorbate_delete_db, ads, db_path=DB)
run("delete isotherm", pgsql.isotherm_delete_db, iso, DB)
run("delete isotherm again", pgsql.isotherm_delete_db, iso, DB)
run("delete isotherm by id default db", pgsql.isotherm_delete_db, iso2.iso_id)
run("delete material", pgsql.material_delete_db, mat, DB)
run("delete adsorbate", pgsql.adsorbate_delete_db, ads, db_path=DB)
run("type upload", pgsql.isotherm_property_type_to_db, {'type': 't1', 'unit': 'u'}, DB)
run("type upload dup", pgsql.isotherm_property_type_to_db, {'type': 't1'}, DB)
run("type overwrite", pgsql.isotherm_property_type_to_db, {'type': 't1', 'unit': 'v'}, DB, True)
run("type list", pgsql.isotherm_property_types_from_db, DB)
run("type delete", pgsql.isotherm_property_type_delete_db, 't1', DB)
run("type delete again", pgsql.isotherm_property_type_delete_db, 't1', DB)
run("bad db file", pgsql.materials_from_db, os.path.join(TMP, 'nodir', 'x.db'))
open(os.path.join(TMP, 'garbage.db'), 'w').write('not a database' * 100)
run("garbage db file", pgsql.materials_from_db, os.path.join(TMP, 'garbage.db'))
print("-- main"); dump(DB)
print("-- default"); dump(DEFAULT)
print("MATERIAL_LIST tail", [m.name for m in pygaps.MATERIAL_LIST][-6:])
print("ADSORBATE_LIST tail", [a.name for a in pygaps.ADSORBATE_LIST][-6:])

shutil.rmtree(TMP, ignore_errors=True)
