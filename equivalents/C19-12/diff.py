"""Differential script for C19-3 (initial_enth.py refactoring).

Prints a deterministic transcript; run on the untouched and the patched tree.
"""
import logging
import warnings

import matplotlib
matplotlib.use('Agg')
import numpy
import pandas

import pygaps
import pygaps.graphing.calc_graphs as calc_graphs
import pygaps.modelling as pgm
from pygaps.characterisation.initial_enth import initial_enthalpy_comp
from pygaps.characterisation.initial_enth import initial_enthalpy_point


class Capture(logging.Handler):
    def emit(self, record):
        print(f"    LOG {record.levelname}: {record.getMessage()!r}")


pygaps.logger.handlers[:] = [Capture()]
pygaps.logger.setLevel(logging.DEBUG)


def show_warning(message, category, filename, lineno, file=None, line=None):
    print(f"    PYWARN {category.__name__}: {message}")


warnings.showwarning = show_warning
warnings.simplefilter('always')


def full(x):
    """Exact, deterministic rendering."""
    if isinstance(x, dict):
        return '{' + ', '.join(f"{k!r}: {full(v)}" for k, v in x.items()) + '}'
    if isinstance(x, numpy.ndarray):
        return f"ndarray{x.shape}{x.dtype}" + full(x.tolist())
    if isinstance(x, (list, tuple)):
        o, c = ('[', ']') if isinstance(x, list) else ('(', ')')
        return o + ', '.join(full(v) for v in x) + c
    if isinstance(x, (float, numpy.floating)):
        return f"{type(x).__name__}:{float(x)!r}:{float(x).hex()}"
    if type(x).__name__ == 'generator':
        return 'generator:<exhausted>' if not list(x) else 'generator:<not exhausted>'
    return f"{type(x).__name__}:{x!r}"


def run(label, fn, *args, **kwargs):
    print(f"CALL {label}")
    try:
        print(f"    RET {full(fn(*args, **kwargs))}")
    except BaseException as err:  # noqa
        print(f"    EXC {type(err).__module__}.{type(err).__name__}: {err!r}")


REAL_PLOT = calc_graphs.initial_enthalpy_plot


def fake_plot(*args, **kwargs):
    print(f"    PLOT args={full(list(args))} kwargs={full(kwargs)}")
    if len(args) > 2 and isinstance(args[2], list) and args[2]:
        print(f"    PLOT flat line elements all the same object: {all(v is args[2][0] for v in args[2])}")


calc_graphs.initial_enthalpy_plot = fake_plot


def make_iso(pressure, loading, enthalpy, key='enthalpy', adsorbate='nitrogen', temp=77.0, extra=None, **units):
    data = {'pressure': pressure, 'loading': loading, key: enthalpy}
    if extra:
        data.update(extra)
    base_units = dict(
        pressure_mode='absolute', pressure_unit='bar', material_basis='mass', material_unit='g',
        loading_basis='molar', loading_unit='mmol', temperature_unit='K',
    )
    base_units.update(units)
    return pygaps.PointIsotherm(
        isotherm_data=pandas.DataFrame(data), pressure_key='pressure', loading_key='loading',
        material='mat', adsorbate=adsorbate, temperature=temp, **base_units
    )


P_ADS = [0.01, 0.05, 0.1, 0.3, 0.6, 1.0]
L_ADS = [0.5, 1.2, 1.8, 2.6, 3.1, 3.4]
P_HYS = P_ADS + [0.7, 0.4, 0.2, 0.05]
L_HYS = L_ADS + [3.3, 3.0, 2.4, 1.5]
E_ADS = [31.5, 24.0, 18.25, 14.0, 12.5, 11.0]
E_HYS = E_ADS + [12.0, 13.5, 16.0, 21.75]

print("== initial_enthalpy_point: first measured enthalpy of the chosen branch")
iso_ads = make_iso(P_ADS, L_ADS, E_ADS)
iso_hys = make_iso(P_HYS, L_HYS, E_HYS)
for label, iso in (('ads only', iso_ads), ('hysteretic', iso_hys)):
    for branch in ('ads', 'des', None, 'all', 'sideways', 0):
        for verbose in (False, True, 0, 1, None, 'yes', ''):
            run(f"{label} branch={branch!r} verbose={verbose!r}", initial_enthalpy_point, iso, 'enthalpy', branch, verbose)
run("defaults", initial_enthalpy_point, iso_hys, 'enthalpy')
run("keywords", lambda: initial_enthalpy_point(isotherm=iso_hys, enthalpy_key='enthalpy', branch='des', verbose=True))
run("missing key", initial_enthalpy_point, iso_hys, 'nope')
run("missing key verbose", initial_enthalpy_point, iso_hys, 'nope', 'ads', True)
run("key None", initial_enthalpy_point, iso_hys, None)
run("key is pressure column", initial_enthalpy_point, iso_hys, 'pressure')
run("key is branch column", initial_enthalpy_point, iso_hys, 'branch')
run("other key name", initial_enthalpy_point, make_iso(P_ADS, L_ADS, E_ADS, key='dH (kJ/mol)'), 'dH (kJ/mol)', 'ads', True)
run("second extra column", initial_enthalpy_point, make_iso(P_ADS, L_ADS, E_ADS, extra={'zz': [9, 8, 7, 6, 5, 4]}), 'zz', 'ads', True)
run("integer enthalpies", initial_enthalpy_point, make_iso(P_ADS, L_ADS, [30, 20, 15, 12, 11, 10]), 'enthalpy', 'ads', True)
run("nan first", initial_enthalpy_point, make_iso(P_ADS, L_ADS, [numpy.nan] + E_ADS[1:]), 'enthalpy', 'ads', True)
run("negative first", initial_enthalpy_point, make_iso(P_ADS, L_ADS, [-5.0] + E_ADS[1:]), 'enthalpy', 'ads', True)
run("huge first", initial_enthalpy_point, make_iso(P_ADS, L_ADS, [1e300] + E_ADS[1:]), 'enthalpy', 'ads', True)
run("string enthalpies", initial_enthalpy_point, make_iso(P_ADS, L_ADS, list('abcdef')), 'enthalpy', 'ads', False)
run("string enthalpies verbose", initial_enthalpy_point, make_iso(P_ADS, L_ADS, list('abcdef')), 'enthalpy', 'ads', True)
run("single point", initial_enthalpy_point, make_iso([0.1], [1.0], [42.0]), 'enthalpy', 'ads', True)
run("single point des", initial_enthalpy_point, make_iso([0.1], [1.0], [42.0]), 'enthalpy', 'des', True)
for units in (dict(loading_unit='mol'), dict(loading_unit='cm3(STP)'), dict(loading_basis='mass', loading_unit='g'),
              dict(material_unit='kg'), dict(pressure_unit='Pa'), dict(material_basis='volume', material_unit='cm3')):
    run(f"units {units}", initial_enthalpy_point, make_iso(P_HYS, L_HYS, E_HYS, **units), 'enthalpy', 'des', True)
run("unknown adsorbate verbose", initial_enthalpy_point, make_iso(P_ADS, L_ADS, E_ADS, adsorbate='unobtainium'), 'enthalpy', 'ads', True)
run("unknown adsorbate mass loading", initial_enthalpy_point,
    make_iso(P_ADS, L_ADS, E_ADS, adsorbate='unobtainium', loading_basis='mass', loading_unit='g'), 'enthalpy', 'ads', True)
run("unknown adsorbate mass loading quiet", initial_enthalpy_point,
    make_iso(P_ADS, L_ADS, E_ADS, adsorbate='unobtainium', loading_basis='mass', loading_unit='g'), 'enthalpy', 'ads', False)

model = pygaps.ModelIsotherm(
    model=pgm.get_isotherm_model('Henry', parameters={'K': 2.0}, pressure_range=(0, 1), loading_range=(0, 2)),
    material='mat', adsorbate='nitrogen', temperature=77, pressure_mode='absolute', pressure_unit='bar',
    material_basis='mass', material_unit='g', loading_basis='molar', loading_unit='mmol', temperature_unit='K')
run("model isotherm", initial_enthalpy_point, model, 'enthalpy')
run("None isotherm", initial_enthalpy_point, None, 'enthalpy')


class Duck:
    """Duck-typed isotherm, traces the calls made on it."""
    material = 'duck-mat'
    adsorbate = 'duck-ads'
    temperature = 77

    def __init__(self, enth, load=(1.0, 2.0, 3.0)):
        self.enth = enth
        self.load = load

    def other_data(self, *args, **kwargs):
        print(f"    DUCK other_data {args!r} {kwargs!r}")
        return self.enth

    def loading(self, *args, **kwargs):
        print(f"    DUCK loading {args!r} {kwargs!r}")
        return self.load


for enth in (None, [7.5, 3.0], (9, ), [], numpy.array([]), numpy.array([4.25, 1.0]), {0: 'zero'}, 'text', 5, [None]):
    for verbose in (False, True):
        run(f"duck enthalpy={enth!r} verbose={verbose}", initial_enthalpy_point, Duck(enth), 'k', 'b', verbose)
run("duck generator loading", initial_enthalpy_point, Duck([1.5], (x for x in (1, 2, 3))), 'k', 'b', True)
run("duck None loading", initial_enthalpy_point, Duck([1.5], None), 'k', 'b', True)
obj = object()
res = initial_enthalpy_point(Duck([obj, 1]), 'k')
print("same object returned:", res['initial_enthalpy'] is obj, type(res).__name__, list(res))

print("== initial_enthalpy_point with the real plot")
calc_graphs.initial_enthalpy_plot = REAL_PLOT
run("real plot ads", initial_enthalpy_point, iso_hys, 'enthalpy', 'ads', True)
run("real plot des", initial_enthalpy_point, iso_hys, 'enthalpy', 'des', True)
print("    figures:", len(matplotlib.pyplot.get_fignums()))
matplotlib.pyplot.close('all')
calc_graphs.initial_enthalpy_plot = fake_plot

print("== initial_enthalpy_comp (shares the column reader, falls back on the point method)")


def comp_iso(n, enth_fn, des=False):
    load = numpy.linspace(0.1, 4.0, n)
    pres = load / (4.5 - load) * 0.1
    enth = numpy.array([enth_fn(x) for x in load / load.max()])
    if des:
        load = numpy.concatenate([load, load[::-1][1:]])
        pres = numpy.concatenate([pres, pres[::-1][1:] * 0.9])
        enth = numpy.concatenate([enth, enth[::-1][1:] + 2.0])
    return make_iso(pres, load, enth)


smooth = comp_iso(30, lambda x: 12 + 15 / (1 + numpy.exp(12 * (x - 0.2))) + 3 * x**2)
run("comp smooth", initial_enthalpy_comp, smooth, 'enthalpy')
run("comp smooth des branch missing", initial_enthalpy_comp, smooth, 'enthalpy', 'des')
run("comp missing key", initial_enthalpy_comp, smooth, 'nope')
run("comp user bounds", lambda: initial_enthalpy_comp(smooth, 'enthalpy', const_min=5, const_max=20, preexp_max=60))
hyst = comp_iso(20, lambda x: 10 + 20 * numpy.exp(-8 * x), des=True)
run("comp hysteretic ads", initial_enthalpy_comp, hyst, 'enthalpy', 'ads')
run("comp hysteretic des", initial_enthalpy_comp, hyst, 'enthalpy', 'des')
spike = comp_iso(50, lambda x: 390.0 if x < 0.03 else 10.0)
run("comp offshoot -> point fallback", initial_enthalpy_comp, spike, 'enthalpy')
run("comp offshoot -> point fallback verbose", initial_enthalpy_comp, spike, 'enthalpy', 'ads', True)
spike_des = comp_iso(50, lambda x: 390.0 if x < 0.03 else 10.0, des=True)
run("comp offshoot des", initial_enthalpy_comp, spike_des, 'enthalpy', 'des')
outliers = comp_iso(25, lambda x: -3.0 if 0.4 < x < 0.45 else (500.0 if 0.7 < x < 0.75 else 20 - 5 * x))
run("comp with outliers removed", initial_enthalpy_comp, outliers, 'enthalpy')
run("comp supercritical (liquefaction warning)", initial_enthalpy_comp,
    make_iso(smooth.pressure(), smooth.loading(), smooth.other_data('enthalpy'), temp=298.0), 'enthalpy')
run("comp duck None enthalpy", initial_enthalpy_comp, Duck(None, numpy.array([1.0, 2.0, 3.0])), 'k', 'b')
run("comp model isotherm", initial_enthalpy_comp, model, 'enthalpy')
matplotlib.pyplot.close('all')
print("== inputs not modified")
print(iso_hys.other_data('enthalpy').tolist() == E_HYS, iso_hys.loading().tolist() == L_HYS)
