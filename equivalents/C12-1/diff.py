"""Differential script for change 1: IsothermBaseModel.fit / initial_guess_bounds."""
import copy
import logging
import warnings

import numpy

warnings.simplefilter("ignore")

import pygaps  # noqa: E402
from pygaps.modelling import get_isotherm_model  # noqa: E402

LOG = []


class _H(logging.Handler):
    def emit(self, record):
        LOG.append(record.getMessage())


pygaps.logger.addHandler(_H())
pygaps.logger.setLevel(logging.DEBUG)


def fmt(v):
    if isinstance(v, dict):
        return "{" + ", ".join(f"{k!r}: {fmt(x)}" for k, x in v.items()) + "}"
    if isinstance(v, (list, tuple)):
        return "[" + ", ".join(fmt(x) for x in v) + "]"
    if isinstance(v, numpy.ndarray):
        return "arr[" + ", ".join(fmt(x) for x in v.ravel().tolist()) + "]"
    if isinstance(v, (float, numpy.floating)):
        return f"{type(v).__name__}:{float(v):.12g}"
    if isinstance(v, (int, numpy.integer)) and not isinstance(v, bool):
        return f"{type(v).__name__}:{int(v)}"
    return repr(v)


def case(label, fn):
    del LOG[:]
    try:
        res = fn()
        print(f"[{label}] OK {fmt(res)}")
    except Exception as err:  # noqa: BLE001
        print(f"[{label}] EXC {type(err).__name__}: {err}")
    for msg in LOG:
        print(f"[{label}] LOG {msg}")


GEN = {
    "Henry": {"K": 2.5},
    "Langmuir": {"K": 3.0, "n_m": 5.0},
    "DSLangmuir": {"K1": 3.0, "n_m1": 5.0, "K2": 0.2, "n_m2": 2.0},
    "TSLangmuir": {"K1": 3.0, "n_m1": 5.0, "K2": 0.2, "n_m2": 2.0, "K3": 20.0, "n_m3": 0.5},
    "BET": {"n_m": 3.0, "C": 40.0, "N": 0.8},
    "GAB": {"n_m": 3.0, "C": 40.0, "K": 0.7},
    "Freundlich": {"K": 2.0, "m": 2.5},
    "DR": {"n_m": 6.0, "e": 4000.0},
    "DA": {"n_m": 6.0, "e": 4000.0, "m": 2.5},
    "Quadratic": {"n_m": 4.0, "Ka": 2.0, "Kb": 0.5},
    "TemkinApprox": {"n_m": 5.0, "K": 3.0, "tht": 0.1},
    "Toth": {"n_m": 5.0, "K": 3.0, "t": 0.7},
    "JensenSeaton": {"K": 20.0, "a": 5.0, "b": 0.1, "c": 1.2},
    "FHVST": {"n_m": 6.0, "K": 4.0, "a1v": 0.5},
    "WVST": {"n_m": 6.0, "K": 4.0, "L1v": 1.2, "Lv1": 0.9},
}


def make(name, npts=20, hi=0.9, noise=0.0, seed=0, bounds=None, temperature=77.0):
    gen = get_isotherm_model(name, parameters=dict(GEN[name]))
    gen.__init_parameters__({"temperature": temperature})
    if gen.calculates == "loading":
        pressure = numpy.linspace(0.01, hi, npts)
        loading = numpy.asarray(gen.loading(pressure), dtype=float)
    else:
        loading = numpy.linspace(0.05, 0.8 * GEN[name]["n_m"], npts)
        pressure = numpy.asarray(gen.pressure(loading), dtype=float)
    if noise:
        rng = numpy.random.default_rng(seed)
        loading = loading * (1 + noise * rng.standard_normal(npts))
    model = get_isotherm_model(
        name,
        pressure_range=(float(min(pressure)), float(max(pressure))),
        loading_range=(float(min(loading)), float(max(loading))),
        param_bounds=bounds,
    )
    model.__init_parameters__({"temperature": temperature})
    return model, pressure, loading


def run_fit(name, guess=None, opt=None, verbose=False, **kw):
    model, pressure, loading = make(name, **kw)
    keys_before = list(model.params)
    if guess is None:
        guess = model.initial_guess(pressure, loading)
    guess_in = copy.deepcopy(guess)
    opt_in = copy.deepcopy(opt)
    ret = model.fit(pressure, loading, guess, opt, verbose)
    # residual identity: the stored rmse against a recomputation with the fitted params
    if model.calculates == "loading":
        resid = model.loading(pressure) - loading
        rng = model.loading_range[1] - model.loading_range[0]
    else:
        resid = model.pressure(loading) - pressure
        rng = model.pressure_range[1] - model.pressure_range[0]
    return {
        "ret": ret,
        "guess": guess,
        "guess_unchanged": guess == guess_in,
        "opt_unchanged": opt == opt_in,
        "keys": list(model.params),
        "keys_same": list(model.params) == keys_before,
        "params": model.params,
        "ptypes": [type(v).__name__ for v in model.params.values()],
        "rmse": model.rmse,
        "rmse_type": type(model.rmse).__name__,
        "recomputed": numpy.sqrt(numpy.sum(resid**2) / len(loading)) / rng,
        "pr": model.pressure_range,
        "lr": model.loading_range,
        "bounds": model.param_bounds,
    }


# 1. every model, exact data, default guess/bounds
for nm in GEN:
    case(f"exact-{nm}", lambda nm=nm: run_fit(nm))

# 2. several grids / noise levels
for nm in ("Henry", "Langmuir", "DSLangmuir", "BET", "Freundlich", "DR", "DA", "TemkinApprox", "Toth",
           "JensenSeaton", "Quadratic", "FHVST"):
    for npts, noise, seed in ((8, 0.0, 0), (33, 0.02, 1), (60, 0.1, 2)):
        case(f"grid-{nm}-{npts}-{noise}", lambda nm=nm, npts=npts, noise=noise, seed=seed:
             run_fit(nm, npts=npts, noise=noise, seed=seed))

# 3. user bounds (active, inactive, partially specified, inverted, degenerate)
case("bounds-langmuir-active", lambda: run_fit("Langmuir", bounds={"K": (0, 1.0), "n_m": (0, 100.0)}))
case("bounds-langmuir-inactive", lambda: run_fit("Langmuir", bounds={"K": (0, 1e6), "n_m": (0, 1e6)}))
case("bounds-langmuir-upper-nm", lambda: run_fit("Langmuir", bounds={"K": (0, numpy.inf), "n_m": (0, 4.0)}))
case("bounds-langmuir-partial", lambda: run_fit("Langmuir", bounds={"K": (0, 1.0)}))
case("bounds-langmuir-inverted", lambda: run_fit("Langmuir", bounds={"K": (5.0, 1.0), "n_m": (0, 10.0)}))
case("bounds-langmuir-equal", lambda: run_fit("Langmuir", bounds={"K": (1.0, 1.0), "n_m": (0, 10.0)}))
case("bounds-langmuir-lists", lambda: run_fit("Langmuir", bounds={"K": [0.5, 2.0], "n_m": [1.0, 4.5]}))
case("bounds-unknown-param", lambda: run_fit("Langmuir", bounds={"Q": (0, 1.0)}))
case("bounds-toth", lambda: run_fit("Toth", bounds={"n_m": (0, 4.0), "K": (0, 10.0), "t": (0.2, 0.6)}))
case("bounds-dr", lambda: run_fit("DR", bounds={"n_m": (0, 5.0), "e": (1000.0, 3000.0)}))
case("bounds-fhvst", lambda: run_fit("FHVST", bounds={"n_m": (0, 10.0), "K": (0, 2.0), "a1v": (-1, 1)}))
case("bounds-henry-low", lambda: run_fit("Henry", bounds={"K": (3.0, 10.0)}, noise=0.05, seed=4))

# 4. user guesses (inside, outside bounds, wrong keys, extra keys, int values, nan)
case("guess-langmuir", lambda: run_fit("Langmuir", guess={"K": 1.0, "n_m": 1.0}))
case("guess-langmuir-order", lambda: run_fit("Langmuir", guess={"n_m": 2, "K": 7}))
case("guess-langmuir-extra", lambda: run_fit("Langmuir", guess={"K": 1.0, "n_m": 1.0, "zz": 3.0}))
case("guess-langmuir-missing", lambda: run_fit("Langmuir", guess={"K": 1.0}))
case("guess-langmuir-infeasible", lambda: run_fit("Langmuir", guess={"K": -1.0, "n_m": 1.0}))
case("guess-langmuir-nan", lambda: run_fit("Langmuir", guess={"K": numpy.nan, "n_m": 1.0}))
case("guess-toth", lambda: run_fit("Toth", guess={"n_m": 4.0, "K": 1.0, "t": 1.0}, noise=0.03, seed=5))
case("guess-wvst", lambda: run_fit("WVST", guess={"n_m": 7.0, "K": 2.0, "L1v": 1.0, "Lv1": 1.0}))
case("guess-list-not-dict", lambda: run_fit("Langmuir", guess=[1.0, 1.0]))

# 5. optimisation parameters
case("opt-maxnfev", lambda: run_fit("Toth", opt={"max_nfev": 2}, noise=0.05, seed=6))
case("opt-method-dogbox", lambda: run_fit("DSLangmuir", opt={"method": "dogbox"}, noise=0.02, seed=7))
case("opt-loss", lambda: run_fit("Langmuir", opt={"loss": "soft_l1", "f_scale": 0.1}, noise=0.05, seed=8))
case("opt-x0-override", lambda: run_fit("Langmuir", opt={"x0": numpy.array([1.0, 2.0])}))
case("opt-bad-key", lambda: run_fit("Langmuir", opt={"nonsense": 1}))
case("opt-bad-method", lambda: run_fit("Langmuir", opt={"method": "lm"}))
case("opt-empty", lambda: run_fit("Langmuir", opt={}))

# 6. verbose path (log lines)
case("verbose-langmuir", lambda: run_fit("Langmuir", verbose=True, noise=0.01, seed=9))
case("verbose-fhvst", lambda: run_fit("FHVST", verbose=True))
case("verbose-fail", lambda: run_fit("Toth", opt={"max_nfev": 1}, verbose=True, noise=0.05, seed=6))

# 7. temperature enters DR/DA constants
for temp in (77.0, 298.15, 400.0):
    case(f"temp-DR-{temp}", lambda temp=temp: run_fit("DR", temperature=temp, noise=0.01, seed=3))
    case(f"temp-DA-{temp}", lambda temp=temp: run_fit("DA", temperature=temp, noise=0.01, seed=3))


# 8. direct calls with odd data (lists, zeros, nan, single point, length mismatch)
def direct(name, pressure, loading, guess=None, bounds=None, pr=(0.0, 1.0), lr=(0.0, 2.0)):
    model = get_isotherm_model(name, pressure_range=pr, loading_range=lr, param_bounds=bounds)
    model.__init_parameters__({"temperature": 77.0})
    if guess is None:
        guess = model.initial_guess(pressure, loading)
    model.fit(pressure, loading, guess)
    return {"guess": guess, "params": model.params, "rmse": model.rmse}


case("direct-lists", lambda: direct("Langmuir", [0.1, 0.2, 0.4, 0.8], [0.5, 0.8, 1.1, 1.3]))
case("direct-zero-start", lambda: direct("Langmuir", numpy.array([0.0, 0.2, 0.4, 0.8]), numpy.array([0.0, 0.8, 1.1, 1.3])))
case("direct-nan", lambda: direct("Langmuir", numpy.array([0.1, numpy.nan, 0.4, 0.8]), numpy.array([0.5, 0.8, 1.1, 1.3])))
case("direct-single", lambda: direct("Henry", numpy.array([0.5]), numpy.array([1.0])))
case("direct-mismatch", lambda: direct("Henry", numpy.array([0.5, 0.6]), numpy.array([1.0, 1.1, 1.2]), guess={"K": 1.0}))
case("direct-empty", lambda: direct("Henry", numpy.array([]), numpy.array([]), guess={"K": 1.0}))
case("direct-zero-range", lambda: direct("Henry", numpy.array([0.1, 0.5]), numpy.array([1.0, 1.0]), lr=(1.0, 1.0)))
case("direct-nan-range", lambda: direct("Henry", numpy.array([0.1, 0.5]), numpy.array([0.2, 1.0]), lr=(numpy.nan, numpy.nan)))
case("direct-2col", lambda: direct("Langmuir", numpy.array([[0.1, 0.2], [0.4, 0.8]]), numpy.array([[0.5, 0.8], [1.1, 1.3]]),
                                   guess={"K": 1.0, "n_m": 1.0}))


# 9. initial_guess_bounds on its own
def igb(name, guess, bounds=None):
    model = get_isotherm_model(name, param_bounds=bounds)
    before = dict(guess)
    out = model.initial_guess_bounds(guess)
    return {"same_obj": out is guess, "out": out, "before": before,
            "types": [type(v).__name__ for v in out.values()]}


case("igb-inside", lambda: igb("Langmuir", {"K": 1.0, "n_m": 2.0}))
case("igb-below", lambda: igb("Langmuir", {"K": -1.0, "n_m": -2}))
case("igb-above", lambda: igb("Langmuir", {"K": 10.0, "n_m": 20.0}, {"K": (0, 5), "n_m": (1.0, 7.5)}))
case("igb-edge", lambda: igb("Langmuir", {"K": 0, "n_m": 7.5}, {"K": (0, 5), "n_m": (1.0, 7.5)}))
case("igb-nan", lambda: igb("Langmuir", {"K": numpy.nan, "n_m": numpy.inf}))
case("igb-neginf", lambda: igb("Toth", {"n_m": -numpy.inf, "K": numpy.float64(3), "t": 0.5}))
case("igb-inverted-both", lambda: igb("Langmuir", {"K": 3.0, "n_m": 1.0}, {"K": (5.0, 1.0), "n_m": (0, 2)}))
case("igb-inverted-low", lambda: igb("Langmuir", {"K": 0.5, "n_m": 1.0}, {"K": (5.0, 1.0), "n_m": (0, 2)}))
case("igb-inverted-high", lambda: igb("Langmuir", {"K": 9.0, "n_m": 1.0}, {"K": (5.0, 1.0), "n_m": (0, 2)}))
case("igb-partial-bounds", lambda: igb("Langmuir", {"K": 9.0, "n_m": 1.0}, {"K": (0, 1.0)}))
case("igb-unknown-key", lambda: igb("Langmuir", {"Q": 9.0}))
case("igb-subset", lambda: igb("Langmuir", {"n_m": -9.0}))
case("igb-empty", lambda: igb("Langmuir", {}))
case("igb-long-bounds", lambda: igb("Langmuir", {"K": 9.0, "n_m": 1.0}, {"K": (0, 1.0, 5.0), "n_m": (0, 5, 7)}))
case("igb-str-value", lambda: igb("Langmuir", {"K": "a", "n_m": 1.0}))
case("igb-tem", lambda: igb("TemkinApprox", {"n_m": 3.0, "K": 2.0, "tht": 5.0}))
