"""Differential script for change 1: area_BET_raw (Rouquerol window selection)."""
import numpy

from eqcommon import bet_iso
from eqcommon import grid
from eqcommon import lang_iso
from eqcommon import run_case

import pygaps
from pygaps.characterisation.area_bet import area_BET
from pygaps.characterisation.area_bet import area_BET_raw

CS = 0.162

# ---- automatic (Rouquerol) window on exact BET isotherms
n = 0
for nm in (1e-4, 3.3e-3, 1e-1):
    for c in (2, 17.5, 150, 2000):
        for npts, kind in ((5, "lin"), (12, "log"), (40, "lin"), (100, "rnd")):
            n += 1
            p = grid(npts, 0.005, 0.97, kind, seed=n)
            run_case(f"auto nm={nm} c={c} n={npts} {kind}", area_BET_raw, p, bet_iso(p, nm, c), CS)

# ---- other cross sections, list inputs
p = grid(30, 0.01, 0.9)
for cs in (0.1, 0.142, 0.21, 0.5):
    run_case(f"auto lists cs={cs}", area_BET_raw, list(p), list(bet_iso(p, 2e-3, 80)), cs)

# ---- shapes of the Rouquerol curve
p = numpy.linspace(0.05, 0.9, 18)
run_case("roq monotonic (langmuir, strong)", area_BET_raw, p, lang_iso(p, 5e-3, 400) / (1 - p), CS)
run_case("roq never decreasing", area_BET_raw, p, (1 + p) / (1 - p), CS)
run_case("roq constant (plateau, ties)", area_BET_raw, p, 1 / (1 - p), CS)
run_case("roq decreasing from first point", area_BET_raw, p, (2 - p) / (1 - p), CS)
load = (1 + p) / (1 - p)
load[-1] = load[-2] * 0.1
run_case("roq decreases only at last pair", area_BET_raw, p, load, CS)
load = bet_iso(p, 3e-3, 100).copy()
load[6] = numpy.nan
run_case("nan in loading", area_BET_raw, p, load, CS)
load = bet_iso(p, 3e-3, 100).copy()
load[3] = load[2]
run_case("tie then decrease", area_BET_raw, p, load, CS)
load = bet_iso(p, 3e-3, 100).copy()
load[4] = load[3] * 0.5
run_case("early dip -> too few points", area_BET_raw, p, load, CS)
run_case("integer arrays", area_BET_raw, numpy.arange(1, 9), numpy.arange(1, 9)[::-1] * 3, CS)
run_case("zero pressure first", area_BET_raw, numpy.r_[0.0, p], numpy.r_[0.0, bet_iso(p, 3e-3, 100)], CS)

# ---- short / invalid inputs
run_case("empty", area_BET_raw, [], [], CS)
run_case("length mismatch", area_BET_raw, [0.1, 0.2, 0.3], [1, 2], CS)
run_case("one point", area_BET_raw, [0.1], [1.0], CS)
run_case("two points", area_BET_raw, [0.1, 0.2], [1.0, 1.5], CS)
run_case("three points", area_BET_raw, [0.05, 0.1, 0.2], list(bet_iso(numpy.array([0.05, 0.1, 0.2]), 1e-3, 50)), CS)
run_case("four points", area_BET_raw, [0.02, 0.05, 0.1, 0.2], list(bet_iso(numpy.array([0.02, 0.05, 0.1, 0.2]), 1e-3, 50)), CS)

# ---- manual limits
p = grid(50, 0.005, 0.95, "log")
load = bet_iso(p, 4.2e-3, 120)
for lim in (
    (0.05, 0.3), (None, 0.3), (0.05, None), (None, None), (0, 0.35), (0.05, 0), (0.0, 0.0),
    (0.2, 0.21), (0.3, 0.05), (0.9, 2), (-1, 0.2), (p[10], p[20]), [0.1, 0.4], (0.001, 0.0051),
):
    run_case(f"manual {lim}", area_BET_raw, p, load, CS, lim)
run_case("manual keyword", area_BET_raw, p, load, CS, p_limits=(0.06, 0.25))

# ---- isotherm entry point
for nm, c, lim in ((3e-3, 100, None), (8e-3, 20, None), (3e-3, 100, (0.05, 0.3)), (3e-3, 100, (0.2, 0.22))):
    pp = grid(35, 0.005, 0.93)
    iso = pygaps.PointIsotherm(
        pressure=pp,
        loading=bet_iso(pp, nm, c) * 1000,
        material="gen",
        adsorbate="N2",
        temperature=77.355,
        temperature_unit="K",
        pressure_unit="bar",
        pressure_mode="relative",
        loading_basis="molar",
        loading_unit="mmol",
        material_basis="mass",
        material_unit="g",
    )
    run_case(f"iso nm={nm} c={c} lim={lim}", area_BET, iso, p_limits=lim)
