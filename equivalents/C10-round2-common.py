"""Shared canonical formatting for the differential scripts."""
import os
import warnings

import numpy

# significant digits of the canonical text (12 as delivered; EQ_PREC=17 gives a bit-exact comparison)
PREC = int(os.environ.get("EQ_PREC", "12"))

warnings.simplefilter('ignore')
numpy.seterr(all='ignore')


def fmt(val):
    """Canonical text of a result value."""
    if isinstance(val, BaseException):
        return f"EXC {type(val).__name__}: {val}"
    if isinstance(val, numpy.ndarray):
        flat = ", ".join(fmt_num(v) for v in val.ravel().tolist())
        return f"ndarray shape={val.shape} dtype={val.dtype} [{flat}]"
    if isinstance(val, numpy.generic):
        return f"{type(val).__name__} {fmt_num(val.item())}"
    if isinstance(val, (float, int, complex, bool)):
        return f"{type(val).__name__} {fmt_num(val)}"
    if isinstance(val, dict):
        return "{" + ", ".join(f"{k!r}: {fmt(v)}" for k, v in val.items()) + "}"
    if isinstance(val, (list, tuple)):
        return type(val).__name__ + "(" + ", ".join(fmt(v) for v in val) + ")"
    try:
        import pandas
        if isinstance(val, pandas.Series):
            return f"Series index={list(val.index)} " + fmt(val.to_numpy())
    except ImportError:
        pass
    return f"{type(val).__name__} {val!r}"


def fmt_num(v):
    if isinstance(v, bool):
        return repr(v)
    if isinstance(v, (int, )):
        return repr(v)
    if isinstance(v, complex):
        return f"({v.real:.{PREC}g}{v.imag:+.{PREC}g}j)"
    if isinstance(v, float):
        return f"{v:.{PREC}g}"
    return repr(v)


def run(label, func, *args, **kwargs):
    """Run and print one case."""
    try:
        res = func(*args, **kwargs)
    except BaseException as err:  # noqa
        res = err
    print(f"{label} -> {fmt(res)}")
    return res
