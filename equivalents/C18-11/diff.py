"""Differential transcript for DFT kernel fitting (property C18).

Run with PYTHONPATH pointing at the tree under test.  Prints a deterministic
transcript: full-precision repr() of every returned array / value, or the
exception type + message (+ cause chain), plus the state of the kernel cache.
"""
import logging
import os
import pathlib
import shutil
import sys
import tempfile

import matplotlib

matplotlib.use('Agg')

import numpy
import pandas

import pygaps
import pygaps.characterisation.psd_kernel as psdk
import pygaps.parsing as pgp
from pygaps.data import KERNELS

plog = logging.getLogger('pygaps')
for h in list(plog.handlers):
    plog.removeHandler(h)


class _Print(logging.Handler):
    def emit(self, record):
        print(f"  LOG[{record.levelname}] {record.getMessage()}")


plog.addHandler(_Print(level=logging.DEBUG))

TMP = tempfile.mkdtemp(prefix='c18diff')
REPO = pathlib.Path(psdk.__file__).resolve().parents[3]
DATA = REPO / 'docs' / 'examples' / 'data' / 'characterisation'


def scrub(text):
    return str(text).replace(TMP, '<TMP>').replace(str(REPO), '<REPO>')


def chain(err):
    out = []
    seen = 0
    while err is not None and seen < 5:
        out.append(f"{type(err).__module__}.{type(err).__name__}: {scrub(err)!r}")
        nxt = err.__cause__
        tag = 'cause'
        if nxt is None and not err.__suppress_context__:
            nxt = err.__context__
            tag = 'context'
        if nxt is not None:
            out.append(tag)
        err = nxt
        seen += 1
    return ' | '.join(out)


def show(obj):
    if isinstance(obj, numpy.ndarray):
        return f"ndarray(dtype={obj.dtype}, shape={obj.shape}, {obj.tolist()!r})"
    if isinstance(obj, dict):
        return '{' + ', '.join(f"{k!r}: {show(v)}" for k, v in obj.items()) + '}'
    if isinstance(obj, (tuple, list)):
        return type(obj).__name__ + '(' + ', '.join(show(o) for o in obj) + ')'
    if isinstance(obj, (numpy.generic, )):
        return f"{type(obj).__name__}({obj!r})"
    return scrub(repr(obj))


def call(label, fn, *args, **kwargs):
    print(f"> {label}")
    try:
        res = fn(*args, **kwargs)
    except BaseException as err:  # noqa
        print(f"  RAISED {chain(err)}")
        return None
    print(f"  -> {show(res)}")
    return res


def cache_state():
    print(f"  CACHE keys={[scrub(k) for k in psdk._LOADED]!r} sizes={[list(v.keys()) for v in psdk._LOADED.values()]!r}")


def section(title):
    print()
    print('=' * 10, title)


def write_kernel(name, pressures, widths, func, header=None):
    pth = os.path.join(TMP, name)
    with open(pth, 'w', encoding='utf8') as fp:
        fp.write(',' + ','.join(header or [repr(w) for w in widths]) + '\n')
        for p in pressures:
            fp.write(repr(p) + ',' + ','.join(repr(func(p, w)) for w in widths) + '\n')
    return pth


def langmuir_like(p, w):
    # narrower pores fill at lower pressure, wider hold more
    k = 50.0 / (w * w)
    return float(w * 3.0 * k * p / (1.0 + k * p))


P_K = [1e-5, 1e-4, 1e-3, 5e-3, 0.01, 0.03, 0.06, 0.1, 0.15, 0.2, 0.3, 0.4, 0.5, 0.6, 0.7, 0.8, 0.9, 0.95]
W_K = [0.5, 0.7, 1.0, 1.5, 2.2, 3.0]
K_SMALL = write_kernel('small.csv', P_K, W_K, langmuir_like)
K_ONE = write_kernel('one.csv', P_K, [1.25], langmuir_like)
K_TWO = write_kernel('two.csv', P_K, [0.8, 1.6], langmuir_like)
K_SHORT = write_kernel('short.csv', [0.1, 0.2, 0.3], W_K, langmuir_like)  # too few points for a cubic interpolator
K_NAMES = write_kernel('names.csv', P_K, [1.0, 2.0], langmuir_like, header=['a', 'b'])  # widths not numbers
K_DUP = write_kernel('dup.csv', P_K, [1.0, 1.0, 2.0], langmuir_like, header=['1.0', '1.0', '2.0'])
K_EMPTY = os.path.join(TMP, 'empty.csv')
open(K_EMPTY, 'w').close()
K_NOCOL = os.path.join(TMP, 'nocol.csv')
with open(K_NOCOL, 'w') as fp:
    fp.write('\n0.1\n0.2\n0.3\n0.4\n0.5\n')

# ================================================================ _load_kernel
section('_load_kernel')
cache_state()
probe = numpy.array([0.0, 1e-6, 2e-5, 0.0123, 0.1, 0.33, 0.777, 0.95])
for name, pth in [
    ('small', K_SMALL), ('small again', K_SMALL), ('one', K_ONE), ('two', K_TWO), ('short', K_SHORT), ('names', K_NAMES), ('dup', K_DUP),
    ('empty', K_EMPTY), ('nocol', K_NOCOL), ('missing', os.path.join(TMP, 'missing.csv')), ('dir', TMP), ('Path', pathlib.Path(K_SMALL)),
    ('None', None), ('float', 1.5), ('list', [K_SMALL]),
]:
    print(f"> load {name}")
    try:
        k = psdk._load_kernel(pth)
    except BaseException as err:  # noqa
        print(f"  RAISED {chain(err)}")
    else:
        print(f"  type={type(k).__name__} keys={list(k.keys())!r} key types={[type(x).__name__ for x in k]!r}")
        for size, interp in k.items():
            print(f"    {size!r}: kind={getattr(interp, '_kind', None)!r} x={show(numpy.asarray(interp.x))} y={show(numpy.asarray(interp.y))}")
            call(f"    {size!r} at probe", interp, probe)
        print(f"  cached is same object: {psdk._load_kernel(pth) is k}")
    cache_state()
internal = call("load internal kernel (summary)", lambda: sorted(psdk._load_kernel(KERNELS['DFT-N2-77K-carbon-slit']).keys(), key=float)[:5])
k_int = psdk._load_kernel(KERNELS['DFT-N2-77K-carbon-slit'])
print("  internal:", len(k_int), show(numpy.asarray([k_int[s](probe[:-1] * 0.9) for s in list(k_int)[::17]])))
# pre-seeded cache entry is returned untouched
sentinel = {'7': lambda p: numpy.asarray(p) * 2.0}
psdk._LOADED['sentinel-path'] = sentinel
print("  sentinel:", psdk._load_kernel('sentinel-path') is sentinel)
call("fit with sentinel kernel", psdk.psd_dft_kernel_fit, [0.1, 0.2, 0.3], [0.2, 0.4, 0.6], 'sentinel-path', 0)
del psdk._LOADED['sentinel-path']

# ================================================================ psd_dft_kernel_fit
section('psd_dft_kernel_fit')
kern = psdk._load_kernel(K_SMALL)
p_exp = numpy.array([2e-5, 1e-4, 5e-4, 2e-3, 0.008, 0.02, 0.05, 0.09, 0.14, 0.22, 0.35, 0.48, 0.61, 0.75, 0.88, 0.94])
weights = [
    [1, 0, 0, 0, 0, 0], [0, 0, 0, 0, 0, 1], [0.2, 0, 0.5, 0, 0.1, 0], [0.1, 0.1, 0.1, 0.1, 0.1, 0.1], [0, 0, 0, 0, 0, 0],
    [0, 0.33, 0, 0.67, 0, 2.5]
]
for wi, wt in enumerate(weights):
    load = numpy.sum([w * kern[s](p_exp) for w, s in zip(wt, kern)], axis=0)
    for order in (0, 1, 2, 3):
        res = call(f"exact combination {wi} order {order}", psdk.psd_dft_kernel_fit, p_exp, load, K_SMALL, order)
        if res is not None:
            widths, dist, cum, fitted = res
            print(
                f"  checks: nonneg={bool((dist >= 0).all())} cum_monotone={bool((numpy.diff(cum) >= 0).all())} "
                f"maxdev={float(numpy.max(numpy.abs(fitted - load)))!r}"
            )
    call(f"exact combination {wi} default order, lists", psdk.psd_dft_kernel_fit, p_exp.tolist(), load.tolist(), K_SMALL)
    call(f"exact combination {wi} keyword args", psdk.psd_dft_kernel_fit, pressure=p_exp, loading=load, kernel_path=K_SMALL, bspline_order=1)

noisy = numpy.array([0.3, 0.5, 0.9, 1.4, 2.0, 2.6, 3.4, 4.1, 4.6, 5.3, 6.2, 6.9, 7.5, 8.0, 8.5, 8.7])
for kname, kp in [('small', K_SMALL), ('one', K_ONE), ('two', K_TWO), ('Path small', pathlib.Path(K_SMALL))]:
    for order in (0, 2, 5, 10, -1, 2.5, None, '2'):
        call(f"noisy on {kname} order {order!r}", psdk.psd_dft_kernel_fit, p_exp, noisy, kp, order)
call("negative loading", psdk.psd_dft_kernel_fit, p_exp, -noisy, K_SMALL, 0)
call("unsorted pressure", psdk.psd_dft_kernel_fit, p_exp[::-1], noisy, K_SMALL, 0)
call("single point", psdk.psd_dft_kernel_fit, [0.1], [1.0], K_SMALL, 0)
call("two points", psdk.psd_dft_kernel_fit, [0.1, 0.5], [1.0, 2.0], K_SMALL, 2)
call("zero pressure point", psdk.psd_dft_kernel_fit, [0.0, 0.1, 0.5], [0.0, 1.0, 2.0], K_SMALL, 0)
call("empty", psdk.psd_dft_kernel_fit, [], [], K_SMALL)
call("empty arrays", psdk.psd_dft_kernel_fit, numpy.array([]), numpy.array([]), K_SMALL)
call("length mismatch", psdk.psd_dft_kernel_fit, [0.1, 0.2], [1.0], K_SMALL)
call("empty pressure only", psdk.psd_dft_kernel_fit, [], [1.0], K_SMALL)
call("no len", psdk.psd_dft_kernel_fit, 0.1, 1.0, K_SMALL)
call("pressure above kernel", psdk.psd_dft_kernel_fit, [0.1, 0.5, 0.96], [1.0, 2.0, 3.0], K_SMALL)
call("pressure below kernel", psdk.psd_dft_kernel_fit, [-0.01, 0.5, 0.9], [1.0, 2.0, 3.0], K_SMALL)
call("pressure at kernel edge", psdk.psd_dft_kernel_fit, [0.0, 0.5, 0.95], [0.0, 2.0, 3.0], K_SMALL, 0)
call("nan pressure", psdk.psd_dft_kernel_fit, [0.1, float('nan'), 0.9], [1.0, 2.0, 3.0], K_SMALL, 0)
call("nan loading", psdk.psd_dft_kernel_fit, [0.1, 0.5, 0.9], [1.0, float('nan'), 3.0], K_SMALL, 0)
call("inf loading", psdk.psd_dft_kernel_fit, [0.1, 0.5, 0.9], [1.0, float('inf'), 3.0], K_SMALL, 0)
call("string pressures", psdk.psd_dft_kernel_fit, ['a', 'b'], [1.0, 2.0], K_SMALL)
call("2d pressure", psdk.psd_dft_kernel_fit, [[0.1, 0.2], [0.3, 0.4]], [[1.0, 2.0], [3, 4]], K_SMALL, 0)
call("missing kernel", psdk.psd_dft_kernel_fit, [0.1, 0.5], [1.0, 2.0], os.path.join(TMP, 'missing.csv'))
call("names kernel", psdk.psd_dft_kernel_fit, [0.1, 0.5, 0.7], [1.0, 2.0, 2.5], K_NAMES)
call("short kernel", psdk.psd_dft_kernel_fit, [0.1, 0.2, 0.3], [1.0, 2.0, 2.5], K_SHORT)
call("nocol kernel", psdk.psd_dft_kernel_fit, [0.1, 0.2, 0.3], [1.0, 2.0, 2.5], K_NOCOL)
call("None kernel", psdk.psd_dft_kernel_fit, [0.1, 0.2, 0.3], [1.0, 2.0, 2.5], None)
call("series input", psdk.psd_dft_kernel_fit, pandas.Series(p_exp), pandas.Series(noisy), K_SMALL, 1)
cache_state()

# ================================================================ psd_dft
section('psd_dft')
common = dict(
    pressure_mode='relative', pressure_unit=None, material_basis='mass', material_unit='g', loading_basis='molar', loading_unit='mmol',
    temperature_unit='K'
)
p_full = numpy.concatenate([p_exp, p_exp[::-1][1:6] * 0.97])
l_full = numpy.concatenate([noisy, noisy[::-1][1:6] * 1.05])
iso = pygaps.PointIsotherm(pressure=p_full, loading=l_full, material='m', adsorbate='N2', temperature=77.355, **common)
iso_ads = pygaps.PointIsotherm(pressure=p_exp, loading=noisy, material='m', adsorbate='N2', temperature=77.355, **common)
iso_abs = pygaps.PointIsotherm(
    pressure=p_exp, loading=noisy * 22.4, material='m', adsorbate='N2', temperature=77.355, pressure_mode='absolute',
    pressure_unit='bar', material_basis='mass', material_unit='kg', loading_basis='volume_gas', loading_unit='cm3', temperature_unit='K'
)
iso_model = pygaps.ModelIsotherm(
    model=pygaps.modelling.get_isotherm_model(
        'Langmuir', parameters={'K': 30.0, 'n_m': 8.0}, pressure_range=[0.0001, 0.9], loading_range=[0.0, 8.0]
    ), material='m', adsorbate='N2', temperature=77.355, **common
)

call("default kernel name but custom data", psdk.psd_dft, iso_ads)
call("kernel None", psdk.psd_dft, iso, kernel=None)
call("kernel missing name", psdk.psd_dft, iso, kernel='no-such-kernel')
call("bad branch", psdk.psd_dft, iso, kernel=K_SMALL, branch='test')
call("branch None", psdk.psd_dft, iso, kernel=K_SMALL, branch=None)
call("des branch of ads-only", psdk.psd_dft, iso_ads, kernel=K_SMALL, branch='des')
for br in ('ads', 'des'):
    for order in (0, 2):
        call(f"small kernel branch {br} order {order}", psdk.psd_dft, iso, kernel=K_SMALL, branch=br, bspline_order=order)
call("positional", psdk.psd_dft, iso, K_SMALL, 'ads', None, None, 1, False)
lims = [
    None, (None, None), [None, None], (0.001, None), (None, 0.5), (0.001, 0.5), [0.01, 0.3], (0, 0), (0.0, 1.0), (0.1, 0.2), (0.5, 0.1),
    (0.02, 0.02), (1e-9, 10), (0.94, None), (None, 2e-5), (2e-5, 0.94), (0.05, 0.35), (-1, 0.5), (), (0.1, ), (0.1, 0.5, 0.9), 'ab', 0.5,
    (numpy.float64(0.008), numpy.float64(0.61)), ('0.1', '0.5'), (True, None), (float('nan'), 0.5),
]
for lim in lims:
    for br in ('ads', 'des'):
        call(f"p_limits {lim!r} branch {br}", psdk.psd_dft, iso, kernel=K_SMALL, branch=br, p_limits=lim, bspline_order=0)
# only points inside the limits influence the result
r_full = psdk.psd_dft(iso_ads, kernel=K_SMALL, p_limits=(0.001, 0.5), bspline_order=0)
iso_mod = pygaps.PointIsotherm(
    pressure=p_exp, loading=numpy.where((p_exp < 0.001) | (p_exp > 0.5), noisy * 3, noisy), material='m', adsorbate='N2',
    temperature=77.355, **common
)
r_mod = psdk.psd_dft(iso_mod, kernel=K_SMALL, p_limits=(0.001, 0.5), bspline_order=0)
print("  outside points ignored:", all(numpy.array_equal(r_full[k], r_mod[k]) for k in r_full))
units = [
    None, {}, {'loading_unit': 'mol'}, {'loading_basis': 'mass', 'loading_unit': 'g'}, {'material_unit': 'kg'},
    {'pressure_mode': 'relative%'}, {'pressure_mode': 'absolute', 'pressure_unit': 'bar'},
    {'pressure_mode': 'absolute', 'pressure_unit': 'kPa'}, {'pressure_mode': 'absolute'}, {'loading_unit': 'bogus'},
    {'material_basis': 'volume'}, {'unknown': 1}, {'pressure_mode': None}, [], 'x', 0,
]
for un in units:
    call(f"kernel_units {un!r}", psdk.psd_dft, iso_ads, kernel=K_SMALL, kernel_units=un, bspline_order=0)
    call(f"kernel_units {un!r} absolute-mode isotherm", psdk.psd_dft, iso_abs, kernel=K_SMALL, kernel_units=un, bspline_order=0)


class SpyUnits(dict):
    def get(self, key, default=None):
        print(f"    units.get({key!r}, {default!r})")
        return super().get(key, default)


call("kernel_units spy", psdk.psd_dft, iso_ads, kernel=K_SMALL, kernel_units=SpyUnits(loading_unit='mol'), bspline_order=0)
call("kernel_units spy, failing before the fit", psdk.psd_dft, iso_ads, kernel=None, kernel_units=SpyUnits())
call("model isotherm", psdk.psd_dft, iso_model, kernel=K_SMALL, bspline_order=0)
call("model isotherm limits", psdk.psd_dft, iso_model, kernel=K_SMALL, p_limits=(0.01, 0.6))
call("model isotherm des", psdk.psd_dft, iso_model, kernel=K_SMALL, branch='des')
call("base isotherm", psdk.psd_dft, pygaps.core.baseisotherm.BaseIsotherm(material='m', adsorbate='N2', temperature=77, **common), kernel=K_SMALL)
call("not an isotherm", psdk.psd_dft, None, kernel=K_SMALL)
call("out of kernel range", psdk.psd_dft, pygaps.PointIsotherm(pressure=[0.1, 0.5, 0.99], loading=[1, 2, 3], material='m', adsorbate='N2', temperature=77, **common), kernel=K_SMALL)
call("two-point isotherm", psdk.psd_dft, pygaps.PointIsotherm(pressure=[0.1, 0.5], loading=[1, 2], material='m', adsorbate='N2', temperature=77, **common), kernel=K_SMALL)
call("three-point isotherm", psdk.psd_dft, pygaps.PointIsotherm(pressure=[0.1, 0.5, 0.9], loading=[1, 2, 3], material='m', adsorbate='N2', temperature=77, **common), kernel=K_SMALL)
call("kernel as Path", psdk.psd_dft, iso_ads, kernel=pathlib.Path(K_TWO), bspline_order=0)
call("kernel unhashable", psdk.psd_dft, iso_ads, kernel=[K_TWO])
call("verbose (graphs)", psdk.psd_dft, iso_ads, kernel=K_SMALL, verbose=True)
call("verbose truthy", psdk.psd_dft, iso_ads, kernel=K_SMALL, verbose='yes', kernel_units={'loading_unit': 'mol'})
import matplotlib.pyplot as plt
print("  open figures:", len(plt.get_fignums()))
plt.close('all')
cache_state()

section('real isotherms with the internal kernel')
for fname in sorted(os.listdir(DATA)):
    if not fname.endswith('.json'):
        continue
    real = pgp.isotherm_from_json(DATA / fname)
    res = call(f"{fname} default", psdk.psd_dft, real)
    if res is not None:
        dist, widths, cum = res['pore_distribution'], res['pore_widths'], res['pore_volume_cumulative']
        running = numpy.cumsum(dist * numpy.ediff1d(widths, to_begin=widths[0]))
        print(f"  checks: nonneg={bool((dist >= 0).all())} monotone={bool((numpy.diff(cum) >= 0).all())} running_equal={bool(numpy.array_equal(running, cum))}")
    call(f"{fname} des, limits, order 0", psdk.psd_dft, real, branch='des', p_limits=(0.01, 0.8), bspline_order=0)
cache_state()

shutil.rmtree(TMP)
print("done")
