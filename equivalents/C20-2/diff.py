"""Differential script for change 2: Adsorbate.enthalpy_liquefaction / enthalpy_vaporisation."""
import os
import sys

sys.path.insert(0, os.path.dirname(os.path.abspath(__file__)))
from eqcommon import call  # noqa: E402

import pygaps  # noqa: E402
from pygaps import Adsorbate  # noqa: E402
from pygaps.data import ADSORBATE_LIST  # noqa: E402
from pygaps.utilities import coolprop_utilities as cpu  # noqa: E402

FRACTIONS = [0.02, 0.25, 0.5, 0.75, 0.98]
linked = [a for a in ADSORBATE_LIST if a.properties.get('backend_name') is not None]
unlinked = [a for a in ADSORBATE_LIST if a.properties.get('backend_name') is None]
print("linked", len(linked), "unlinked", len(unlinked))

# 1. all backend-linked adsorbates: temperature and pressure routes
for ads in linked:
    try:
        t_t, t_c = ads.t_triple(), ads.t_critical()
        p_t, p_c = ads.p_triple(), ads.p_critical()
    except BaseException as err:  # noqa
        print(f"{ads.name}: no range {type(err).__name__}")
        continue
    for frac in FRACTIONS:
        temp = t_t + frac * (t_c - t_t)
        call(f"{ads.name}.liq(T {frac})", ads.enthalpy_liquefaction, temp)
        call(f"{ads.name}.vap(T {frac})", ads.enthalpy_vaporisation, temp)
        call(f"{ads.name}.liq(temp= {frac})", ads.enthalpy_liquefaction, temp=temp)
        press = p_t + frac * (p_c - p_t)
        call(f"{ads.name}.liq(P {frac})", ads.enthalpy_liquefaction, press=press)
        call(f"{ads.name}.vap(P {frac})", ads.enthalpy_vaporisation, None, press)
        # saturation pressure at temp -> should be the same state
        try:
            psat = ads.saturation_pressure(temp)
        except BaseException:  # noqa
            psat = None
        call(f"{ads.name}.liq(Psat {frac})", ads.enthalpy_liquefaction, press=psat)
        call(f"{ads.name}.liq(T and P {frac})", ads.enthalpy_liquefaction, temp, press)
    for label, temp in (('below', 0.5 * t_t), ('above', 1.2 * t_c), ('at_tc', t_c), ('at_tt', t_t)):
        call(f"{ads.name}.liq(T {label})", ads.enthalpy_liquefaction, temp)
    for label, press in (('below', 0.5 * p_t), ('above', 1.2 * p_c), ('at_pc', p_c), ('at_pt', p_t)):
        call(f"{ads.name}.liq(P {label})", ads.enthalpy_liquefaction, press=press)
    call(f"{ads.name}.liq()", ads.enthalpy_liquefaction)
    call(f"{ads.name}.liq(calculate=False)", ads.enthalpy_liquefaction, 100, calculate=False)

# 2. adsorbates without a backend
for ads in unlinked:
    call(f"{ads.name}.liq(300)", ads.enthalpy_liquefaction, 300)
    call(f"{ads.name}.vap(press=1e5)", ads.enthalpy_vaporisation, press=1e5)

# 3. odd arguments
ODD = [None, 0, 0.0, False, True, -5, 'abc', '', float('nan'), float('inf'), [77], [], 1e-300, 1e300, 77, 77.0, 1e5]
for name in ('nitrogen', 'water', 'carbon dioxide'):
    ads = Adsorbate.find(name)
    for t in ODD:
        call(f"{name}.liq(temp={t!r})", ads.enthalpy_liquefaction, t)
        call(f"{name}.liq(press={t!r})", ads.enthalpy_liquefaction, press=t)
        call(f"{name}.liq(temp={t!r}, calculate=False)", ads.enthalpy_liquefaction, t, calculate=False)
        for p in (None, 0, 1e5, 'x', False):
            call(f"{name}.liq(temp={t!r},press={p!r})", ads.enthalpy_liquefaction, t, p)
            call(f"{name}.vap(temp={t!r},press={p!r},calculate=False)", ads.enthalpy_vaporisation, t, p, False)

# 4. user-created adsorbates
customs = {
    'bare': Adsorbate('eq-bare'),
    'user': Adsorbate('eq-user', enthalpy_liquefaction=5.5),
    'user-vap-only': Adsorbate('eq-user2', enthalpy_vaporisation=6.5),
    'user-zero': Adsorbate('eq-zero', enthalpy_liquefaction=0),
    'user-str': Adsorbate('eq-str', enthalpy_liquefaction='7'),
    'bad-backend': Adsorbate('eq-bad', backend_name='NotAFluid', enthalpy_liquefaction=5.5),
    'bad-backend-bare': Adsorbate('eq-bad2', backend_name='NotAFluid'),
    'backend-none': Adsorbate('eq-none', backend_name=None, enthalpy_liquefaction=1),
    'good+user': Adsorbate('eq-n2', backend_name='Nitrogen', enthalpy_liquefaction=5.5),
}
for label, ads in customs.items():
    for t, p in ((77, None), (None, 1e5), (77, 1e5), (None, None), (0, 0), (1000, None), (None, 1e9), ('a', None),
                 (None, 'b'), (0, 1e5), (77, 0)):
        call(f"{label}.liq({t!r},{p!r})", ads.enthalpy_liquefaction, t, p)
        call(f"{label}.vap({t!r},{p!r})", ads.enthalpy_vaporisation, t, p)
        call(f"{label}.liq({t!r},{p!r},calculate=False)", ads.enthalpy_liquefaction, t, p, calculate=False)

# 5. backend switching / missing CoolProp
n2 = Adsorbate('eq-n2-switch', backend_name='Nitrogen', enthalpy_liquefaction=5.5)
call("switch.before", n2.enthalpy_liquefaction, 77)
cpu.backend_use_refprop()
call("switch.refprop.T", n2.enthalpy_liquefaction, 77)
call("switch.refprop.P", n2.enthalpy_liquefaction, press=1e5)
call("switch.refprop.none", n2.enthalpy_liquefaction)
call("switch.refprop.both", n2.enthalpy_liquefaction, 77, 1e5)
call("switch.refprop.bare.T", Adsorbate('eq-x', backend_name='Nitrogen').enthalpy_liquefaction, 77)
call("switch.refprop.bare.none", Adsorbate('eq-x', backend_name='Nitrogen').enthalpy_liquefaction)
cpu.backend_use_coolprop()
call("switch.back.T", n2.enthalpy_liquefaction, 77)
call("switch.back.P", n2.enthalpy_liquefaction, press=1e5)

import pygaps.core.adsorbate as adsmod  # noqa: E402

saved = adsmod.CP
adsmod.CP = None
try:
    fresh = Adsorbate('eq-nocp', backend_name='Nitrogen', enthalpy_liquefaction=5.5)
    for t, p in ((77, None), (None, 1e5), (77, 1e5), (None, None)):
        call(f"nocp.fresh({t},{p})", fresh.enthalpy_liquefaction, t, p)
        call(f"nocp.cached-state({t},{p})", n2.enthalpy_liquefaction, t, p)
        call(f"nocp.bare({t},{p})", Adsorbate('eq-y').enthalpy_liquefaction, t, p)
    # state object is None after a failed creation: every branch once more
    for order in (((None, None), (77, None), (None, 1e5), (77, None)), ((None, 1e5), (None, None), (77, None)),
                  ((77, 1e5), (0, 0), (77.0, 0), (0, 2e5))):
        broken = Adsorbate('eq-nocp-seq', backend_name='Nitrogen', enthalpy_liquefaction=4.25)
        for t, p in order:
            call(f"nocp.sequence({t},{p})", broken.enthalpy_liquefaction, t, p)
            call(f"nocp.sequence.vap({t},{p})", broken.enthalpy_vaporisation, t, p)
finally:
    adsmod.CP = saved

# 6. state left behind (other methods reuse the same state object)
ads = Adsorbate.find('nitrogen')
call("state.liq(77)", ads.enthalpy_liquefaction, 77)
call("state.Q", lambda: ads.backend.Q())
call("state.T", lambda: ads.backend.T())
call("state.liq(P=2e5)", ads.enthalpy_liquefaction, press=2e5)
call("state.Q", lambda: ads.backend.Q())
call("state.p", lambda: ads.backend.p())
call("state.liq(T=1000) fails", ads.enthalpy_liquefaction, 1000)
call("state.gas_density(77)", ads.gas_density, 77)
