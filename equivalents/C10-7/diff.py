"""Differential script for change 3: output pressure conversion of ModelIsotherm.pressure_at / pressure()."""
import itertools

import numpy

from common import run

import pygaps
from pygaps.modelling import get_isotherm_model

MODELS = {
    "Langmuir": dict(K=20.0, n_m=4.0),
    "BET": dict(n_m=2.0, C=50.0, N=0.9),
    "Henry": dict(K=3.0),
    "Toth": dict(n_m=3.0, K=10.0, t=0.7),
    "Virial": dict(K=50.0, A=0.2, B=0.01, C=0.001),
    "FHVST": dict(n_m=5.0, K=30.0, a1v=0.5),
}

ISO_UNITS = [
    dict(pressure_mode="absolute", pressure_unit="bar", temperature=77.0),
    dict(pressure_mode="absolute", pressure_unit="Pa", temperature=77.0),
    dict(pressure_mode="relative", pressure_unit=None, temperature=77.0),
    dict(pressure_mode="relative", pressure_unit="kPa", temperature=77.0),
    dict(pressure_mode="relative%", pressure_unit=None, temperature=77.0),
    dict(pressure_mode="absolute", pressure_unit="torr", temperature=300.0),  # above critical
]

MODES = [None, "", "absolute", "relative", "relative%", "bad"]
UNITS = [None, "", "bar", "Pa", "kPa", "torr", "atm", "bad"]


def make(name, units):
    model = get_isotherm_model(
        name,
        parameters=dict(MODELS[name]),
        pressure_range=(0.001, 0.9),
        loading_range=(0.01, 1.5),
    )
    return pygaps.ModelIsotherm(
        material="m",
        adsorbate="N2",
        model=model,
        loading_basis="molar",
        loading_unit="mmol",
        material_basis="mass",
        material_unit="g",
        **units,
    )


for name in MODELS:
    for iu, units in enumerate(ISO_UNITS):
        if iu > 1 and name in ("Henry", "Toth"):
            continue
        try:
            iso = make(name, units)
        except Exception as err:  # noqa
            print(f"{name}/{iu} construction EXC {type(err).__name__}: {err}")
            continue
        tag = f"{name}/{iu}"
        for mode, unit in itertools.product(MODES, UNITS):
            run(
                f"{tag}.pressure_at(mode={mode!r}, unit={unit!r})",
                iso.pressure_at, [0.0, 0.2, 1.1],
                pressure_mode=mode, pressure_unit=unit,
            )
        for mode, unit in itertools.product(MODES, UNITS[:5]):
            run(
                f"{tag}.pressure(mode={mode!r}, unit={unit!r})",
                iso.pressure, 5,
                pressure_mode=mode, pressure_unit=unit,
            )
        # scalars, 0-d, passthrough type when nothing is requested
        run(f"{tag}.pressure_at(scalar)", iso.pressure_at, 0.7)
        run(f"{tag}.pressure_at(scalar,Pa)", iso.pressure_at, 0.7, pressure_unit="Pa")
        run(f"{tag}.pressure_at(0-d,rel)", iso.pressure_at, numpy.asarray(0.7), pressure_mode="relative")
        run(f"{tag}.pressure_at(int)", iso.pressure_at, 1, pressure_mode="absolute", pressure_unit="kPa")
        run(f"{tag}.pressure_at(empty)", iso.pressure_at, [], pressure_unit="Pa")
        # other arguments of the two callers
        run(f"{tag}.pressure_at(ads)", iso.pressure_at, 0.5, branch="ads", pressure_unit="Pa")
        run(f"{tag}.pressure_at(des)", iso.pressure_at, 0.5, branch="des", pressure_unit="Pa")
        run(f"{tag}.pressure_at(mol,Pa)", iso.pressure_at, [1e-4], loading_unit="mol", pressure_unit="Pa")
        run(
            f"{tag}.pressure_at(kg,rel%)", iso.pressure_at, [100.0], material_unit="kg",
            pressure_mode="relative%"
        )
        run(f"{tag}.pressure(all)", iso.pressure, 4, branch="all", pressure_unit="Pa")
        run(f"{tag}.pressure(des)", iso.pressure, 4, branch="des", pressure_unit="Pa")
        run(f"{tag}.pressure(limits)", iso.pressure, 9, pressure_unit="Pa", limits=(None, 5e4))
        run(f"{tag}.pressure(limits2)", iso.pressure, 9, limits=(0.1, None))
        run(
            f"{tag}.pressure(indexed)", iso.pressure, 4, pressure_mode="relative", pressure_unit="bar",
            indexed=True
        )
        run(f"{tag}.pressure(0 points)", iso.pressure, 0, pressure_unit="Pa")
        run(f"{tag}.loading(5)", iso.loading, 5)
        run(f"{tag}.loading_at(Pa)", iso.loading_at, [100.0, 5000.0], pressure_unit="Pa", pressure_mode="absolute")
        # isotherm attributes are untouched by the calls
        run(f"{tag}.units", lambda: (iso.pressure_mode, iso.pressure_unit, iso.temperature))
