import hashlib
import io
import logging
import sys
import warnings
from functools import partial

import numpy as np

import pygaps
import pygaps.characterisation.models_kelvin as km
import pygaps.characterisation.models_thickness as mt
import pygaps.characterisation.psd_meso as pm
import pygaps.parsing as pgp

assert pygaps.__file__.startswith("/tmp/eq2/C16/src/"), pygaps.__file__

OUT = []


def emit(*parts):
    OUT.append(" ".join(str(p) for p in parts))


# ---------------------------------------------------------------- canonical text
def fnum(x):
    """One number: 12 significant digits."""
    if isinstance(x, (bool, np.bool_)):
        return repr(bool(x))
    if isinstance(x, (int, np.integer)):
        return f"{type(x).__name__}:{int(x)}"
    if isinstance(x, (float, np.floating)):
        return format(float(x), ".12g")
    if isinstance(x, (complex, np.complexfloating)):
        return f"({format(x.real, '.12g')},{format(x.imag, '.12g')}j)"
    return f"{type(x).__name__}:{x!r}"


def canon(x):
    """Canonical text of a result (value, array, tuple, dict)."""
    if isinstance(x, dict):
        return "{" + ", ".join(f"{k!r}: {canon(v)}" for k, v in x.items()) + "}"
    if isinstance(x, tuple):
        return "tuple(" + ", ".join(canon(v) for v in x) + ")"
    if isinstance(x, list):
        return "list[" + ", ".join(canon(v) for v in x) + "]"
    if isinstance(x, np.ndarray):
        bits = hashlib.sha1(np.ascontiguousarray(x).tobytes()).hexdigest()[:12]
        flat = ", ".join(fnum(v) for v in x.ravel().tolist()) if x.dtype != object else repr(x.tolist())
        return f"ndarray<{x.dtype},{x.shape},bits={bits}>[{flat}]"
    if isinstance(x, np.generic):
        bits = hashlib.sha1(x.tobytes()).hexdigest()[:12]
        return f"{type(x).__name__}<bits={bits}>({fnum(x)})"
    if isinstance(x, float):
        return f"float<{x.hex()}>({fnum(x)})"
    if isinstance(x, (int, bool, str, type(None))):
        return f"{type(x).__name__}:{x!r}"
    if callable(x):
        return f"callable:{getattr(x, '__name__', type(x).__name__)}"
    return f"{type(x).__name__}:{x!r}"


class _LogGrab(logging.Handler):
    def __init__(self):
        super().__init__(level=logging.DEBUG)
        self.records = []

    def emit(self, record):
        self.records.append(f"{record.levelname}:{record.getMessage()}")


def run(label, func, *args, **kwargs):
    """Run one case; print result or exception, plus warnings and log records."""
    grab = _LogGrab()
    pygaps.logger.addHandler(grab)
    try:
        with warnings.catch_warnings(record=True) as caught:
            warnings.simplefilter("always")
            try:
                res = func(*args, **kwargs)
                text = "OK " + canon(res)
            except BaseException as err:  # noqa
                text = f"EXC {type(err).__module__}.{type(err).__name__} args={err.args!r} str={str(err)!r}" \
                       f" cause={type(err.__cause__).__name__} context={type(err.__context__).__name__}"
    finally:
        pygaps.logger.removeHandler(grab)
    wtxt = sorted({f"{w.category.__name__}:{w.message}" for w in caught})
    ltxt = [r for r in grab.records if "Thermodynamic backend failed" not in r]
    emit(f"[{label}] {text}")
    if wtxt:
        emit(f"    warnings={wtxt}")
    if ltxt:
        emit(f"    log={ltxt}")


# ---------------------------------------------------------------- inputs
def grids():
    """(name, relative pressure, liquid volume adsorbed) on increasing branches + edge cases."""
    rng = np.random.default_rng(20160)
    out = []
    p = np.linspace(0.05, 0.95, 19)
    out.append(("lin19", p, np.cumsum(np.linspace(0.01, 0.1, 19))))
    for n in (3, 4, 7, 12, 40, 120):
        p = np.sort(rng.uniform(0.001, 0.999, n))
        v = np.cumsum(rng.uniform(0.0, 0.05, n))
        out.append((f"rand{n}", p, v))
    # single condensation step
    p = np.linspace(0.1, 0.9, 17)
    v = np.where(p > 0.52, 0.61, 0.11)
    out.append(("step", p, v))
    # two steps + plateau
    v = np.where(p > 0.3, 0.3, 0.05) + np.where(p > 0.7, 0.4, 0.0)
    out.append(("twostep", p, v))
    # constant loading (all increments zero)
    out.append(("flat", p, np.full_like(p, 0.25)))
    # BET-like smooth curve, dense
    p = np.linspace(0.01, 0.995, 60)
    v = 0.1 * p / ((1 - p) * (1 + 49 * p)) * 50 / 10
    out.append(("bet60", p, v))
    # pressures very near 0 and 1
    p = np.array([1e-9, 1e-6, 1e-3, 0.1, 0.5, 0.9, 0.999, 1 - 1e-9])
    out.append(("extreme", p, np.cumsum(np.full(8, 0.02))))
    # p == 1 included (log -> 0, division by zero warning)
    out.append(("withone", np.array([0.2, 0.5, 0.8, 1.0]), np.array([0.1, 0.2, 0.4, 0.5])))
    # noisy, non monotonic loading
    p = np.linspace(0.1, 0.9, 9)
    out.append(("noisy", p, np.array([0.1, 0.12, 0.11, 0.2, 0.19, 0.4, 0.45, 0.44, 0.5])))
    # duplicate pressures
    out.append(("dupe", np.array([0.2, 0.4, 0.4, 0.6, 0.8]), np.array([0.1, 0.2, 0.25, 0.3, 0.5])))
    # tiny
    out.append(("len2", np.array([0.3, 0.6]), np.array([0.1, 0.4])))
    out.append(("len1", np.array([0.3]), np.array([0.1])))
    # integer volumes
    out.append(("intvol", np.array([0.2, 0.4, 0.6, 0.8]), np.array([1, 2, 4, 7])))
    # python lists
    out.append(("lists", [0.2, 0.4, 0.6, 0.8], [0.1, 0.2, 0.4, 0.7]))
    # float32
    out.append(("f32", np.array([0.2, 0.4, 0.6, 0.8], dtype="float32"), np.array([0.1, 0.2, 0.4, 0.7], dtype="float32")))
    return out


def bad_grids():
    return [
        ("empty", np.array([]), np.array([])),
        ("emptylists", [], []),
        ("mismatch", np.array([0.1, 0.2, 0.3]), np.array([0.1, 0.2])),
        ("emptyp", np.array([]), np.array([0.1])),
        ("nonep", None, np.array([0.1])),
        ("nonev", np.array([0.1]), None),
    ]


PROPS = {
    "N2@77": dict(temperature=77.355, liquid_density=0.806, adsorbate_molar_mass=28.0134, adsorbate_surface_tension=8.876),
    "Ar@87": dict(temperature=87.3, liquid_density=1.3954, adsorbate_molar_mass=39.948, adsorbate_surface_tension=12.5),
    "H2O@298": dict(temperature=298.15, liquid_density=0.997, adsorbate_molar_mass=18.01528, adsorbate_surface_tension=71.97),
    "odd": dict(temperature=300, liquid_density=2, adsorbate_molar_mass=100, adsorbate_surface_tension=1),
}
MENISCI = ["hemicylindrical", "cylindrical", "hemispherical"]


def kelvin_models():
    out = []
    for pname, props in PROPS.items():
        for men in MENISCI:
            out.append((f"Kelvin/{men}/{pname}", km.get_kelvin_model("Kelvin", meniscus_geometry=men, **props)))
    out.append(("KJS/cylindrical/N2@77", km.get_kelvin_model("Kelvin-KJS", meniscus_geometry="cylindrical", **PROPS["N2@77"])))
    out.append(("custom", lambda p: 1.0 / (1.0 - np.asarray(p, dtype=float))))
    return out


def _power_thickness(p):
    return 0.4 * np.asarray(p, dtype=float)**0.5


def _const_thickness(p):
    return np.full(np.shape(p), 0.35)


def thickness_models():
    names = ["Halsey", "Harkins/Jura", "zero thickness", "SiO2 Jaroniec/Kruk/Olivier", "carbon black Kruk/Jaroniec/Gadkaree"]
    out = [(n, mt.get_thickness_model(n)) for n in names]
    out.append(("power", _power_thickness))
    out.append(("const", _const_thickness))
    return out


def make_adsorbate(name, molar_mass, liquid_density, surface_tension):
    return pygaps.Adsorbate(
        name,
        molar_mass=molar_mass,
        liquid_density=liquid_density,
        liquid_molar_density=liquid_density / molar_mass,
        surface_tension=surface_tension,
        saturation_pressure=1.0,
        store=False,
    )


def make_isotherm(p_ads, l_ads, p_des=None, l_des=None, adsorbate=None, temperature=77.355):
    """PointIsotherm in relative pressure, loading in cm3 liquid / g."""
    pressure = list(p_ads)
    loading = list(l_ads)
    branch = [False] * len(pressure)
    if p_des is not None:
        pressure += list(p_des)
        loading += list(l_des)
        branch += [True] * len(p_des)
    logging.disable(logging.CRITICAL)
    try:
        iso = pygaps.PointIsotherm(
            pressure=pressure,
            loading=loading,
            branch=branch,
            material="synthetic",
            adsorbate="N2",
            temperature=temperature,
            temperature_unit="K",
            pressure_mode="relative",
            pressure_unit=None,
            loading_basis="volume_liquid",
            loading_unit="cm3",
            material_basis="mass",
            material_unit="g",
        )
    finally:
        logging.disable(logging.NOTSET)
    if adsorbate is not None:
        iso._adsorbate = adsorbate
    return iso


def finish():
    sys.stdout.write("\n".join(OUT) + "\n")


# ================================================================ change 4: models_kelvin (meniscus table, model getter)
class StrSub(str):
    pass


def user_kelvin(pressure, **kwargs):
    return 1.0 / -np.log(pressure) + len(kwargs)


def describe_partial(fn):
    """Canonical text of what get_kelvin_model returns."""
    if isinstance(fn, partial):
        return f"partial(func={getattr(fn.func, '__qualname__', type(fn.func).__name__)}, args={fn.args!r}, " \
               f"keywords={sorted(fn.keywords.items())!r})"
    return canon(fn)


def main():
    branches = ["ads", "des", "all", "ADS", "", None, 0, 1, True, b"ads", ("ads", ), ["ads"], {"ads": 1}, {"des"},
                StrSub("des"), np.str_("ads"), float("nan"), object]
    pores = ["slit", "cylinder", "halfopen-cylinder", "sphere", "Slit", "cyl", "", None, 0, 2.5, b"slit", ("slit", ),
             ["slit"], {"slit": 1}, {"sphere"}, StrSub("sphere"), np.str_("cylinder"), float("nan"), object,
             "hemispherical"]
    # 1. the whole table and everything which must be refused (with the order of the two checks)
    for b in branches:
        for g in pores:
            run(f"meniscus|{b!r}|{g!r}", km.get_meniscus_geometry, b, g)
    run("meniscus|kw", km.get_meniscus_geometry, branch="des", pore_geometry="cylinder")
    run("meniscus|missing", km.get_meniscus_geometry, "ads")
    res = km.get_meniscus_geometry("ads", "sphere")
    emit(f"[meniscus|type] {type(res).__name__}")

    # 2. the model getter
    for model in ("Kelvin", "Kelvin-KJS", "kelvin", "", "Kelvin-XYZ", StrSub("Kelvin"), np.str_("Kelvin-KJS"), None, 3,
                  user_kelvin, km.kelvin_radius, np.log, ["Kelvin"], b"Kelvin"):
        for args in ({}, dict(meniscus_geometry="cylindrical"), PROPS["N2@77"],
                     dict(meniscus_geometry="hemispherical", **PROPS["Ar@87"])):
            grab = []

            def call(model=model, args=args):
                fn = km.get_kelvin_model(model, **args)
                grab.append(fn)
                return describe_partial(fn)

            run(f"getter|{canon(model)}|{sorted(args)}", call)
            if grab:
                run(f"getter-call|{canon(model)}|{sorted(args)}", grab[0], np.array([0.1, 0.4, 0.9]))
                run(f"getter-call-scalar|{canon(model)}|{sorted(args)}", grab[0], 0.5)
    run("getter|positional-extra", km.get_kelvin_model, "Kelvin", "cylindrical")
    run("getter|no-args", km.get_kelvin_model)

    # 3. Kelvin radii from the bound models, each meniscus / property set / pressure grid
    pgrids = [np.array([0.1, 0.4, 0.9]), np.linspace(0.01, 0.99, 50), np.array([1e-300, 1e-12, 1 - 1e-12]),
              np.array([0.0, 1.0, 1.5, -0.5, np.nan]), [0.2, 0.6], 0.3, np.float32(0.3), np.array([], dtype=float)]
    for pname, props in PROPS.items():
        for men in MENISCI + ["flat", None]:
            for name in ("Kelvin", "Kelvin-KJS"):
                fn = km.get_kelvin_model(name, meniscus_geometry=men, **props)
                for i, pg in enumerate(pgrids):
                    run(f"radius|{name}|{men}|{pname}|grid{i}", fn, pg)

    # 4. as used by the PSD entry point: inferred meniscus for each branch / pore geometry
    iso = pgp.isotherm_from_json("docs/examples/data/characterisation/MCM-41 N2 77.355.json")
    ads = make_adsorbate("fluidX", 44.0, 1.1, 16.5)
    p = np.linspace(0.02, 0.98, 33)
    v = 0.05 + 0.6 / (1 + np.exp(-(p - 0.55) * 40)) + 0.05 * p
    iso2 = make_isotherm(p, v, p[::-1], (v + 0.02 * np.sin(np.pi * p))[::-1], adsorbate=ads, temperature=195.0)
    for iname, isotherm in (("MCM-41", iso), ("synthetic", iso2)):
        for geom in ("slit", "cylinder", "halfopen-cylinder", "sphere", "cube"):
            for branch in ("ads", "des", "both"):
                for kmodel in ("Kelvin", "Kelvin-KJS", user_kelvin):
                    for men in (None, "hemicylindrical"):
                        run(f"api|{iname}|{geom}|{branch}|{canon(kmodel)}|{men}", pm.psd_mesoporous, isotherm,
                            pore_geometry=geom, branch=branch, kelvin_model=kmodel, meniscus_geometry=men,
                            thickness_model="zero thickness", p_limits=(None, None))
    finish()


main()
