"""Differential script for change 1: numerical inverses of TSLangmuir / TemkinApprox / JensenSeaton."""
import numpy

from common import run

import pygaps
from pygaps.modelling import get_isotherm_model

MODELS = {
    "TSLangmuir": [
        dict(n_m1=1.0, n_m2=2.0, n_m3=0.5, K1=0.3, K2=4.0, K3=25.0),
        dict(n_m1=5.0, n_m2=0.0, n_m3=0.0, K1=1.0, K2=1.0, K3=1.0),
        dict(n_m1=0.2, n_m2=0.2, n_m3=0.2, K1=100.0, K2=1e-3, K3=7.0),
        dict(n_m1=0.0, n_m2=0.0, n_m3=0.0, K1=0.0, K2=0.0, K3=0.0),
    ],
    "TemkinApprox": [
        dict(n_m=3.0, K=2.0, tht=0.0),
        dict(n_m=3.0, K=2.0, tht=0.7),
        dict(n_m=0.4, K=50.0, tht=-1.5),
        dict(n_m=10.0, K=0.01, tht=3.0),
        dict(n_m=1.0, K=1.0, tht=5.0),
    ],
    "JensenSeaton": [
        dict(K=2.0, a=3.0, b=0.1, c=1.0),
        dict(K=10.0, a=1.0, b=0.0, c=2.5),
        dict(K=0.5, a=8.0, b=2.0, c=0.4),
        dict(K=1.0, a=1.0, b=1.0, c=1.0),
    ],
}

PRESSURES = [0.0, 1e-9, 1e-3, 0.05, 0.5, 1.0, 7.5, 120.0]

for name, plist in MODELS.items():
    for ip, params in enumerate(plist):
        model = get_isotherm_model(name, parameters=dict(params))
        tag = f"{name}[{ip}]"
        # forward values, then the numerical inverse composed with them
        fwd = run(f"{tag}.loading(array)", model.loading, numpy.array(PRESSURES))
        for p in PRESSURES:
            n = model.loading(p)
            run(f"{tag}.pressure(loading({p!r}))", model.pressure, n)
        if isinstance(fwd, numpy.ndarray):
            run(f"{tag}.pressure(1-d)", model.pressure, fwd)
            run(f"{tag}.pressure(1-d[1:5])", model.pressure, fwd[1:5])
            run(f"{tag}.pressure(list)", model.pressure, fwd[2:5].tolist())
            run(f"{tag}.pressure(0-d)", model.pressure, numpy.asarray(fwd[4]))
            run(f"{tag}.pressure(2-d)", model.pressure, fwd[:4].reshape(2, 2))
            run(f"{tag}.pressure(float32)", model.pressure, fwd[2:5].astype("float32"))
        # direct inputs, incl. int, zero, beyond saturation, negative, nan, inf, empty
        for val in (0, 0.0, 1, 0.1, 0.75, 2, 3.4, 1e3, -0.2, float("nan"), float("inf")):
            run(f"{tag}.pressure({val!r})", model.pressure, val)
        run(f"{tag}.pressure(int array)", model.pressure, numpy.array([0, 1, 2]))
        run(f"{tag}.pressure(empty)", model.pressure, numpy.array([]))
        run(f"{tag}.pressure(mixed fail)", model.pressure, numpy.array([0.1, 1e6]))
        run(f"{tag}.pressure(None)", model.pressure, None)
        run(f"{tag}.pressure('a')", model.pressure, "a")
        # model state must not be altered by the call
        run(f"{tag}.to_dict", model.to_dict)

# through a ModelIsotherm with unit conversions
for name, plist in MODELS.items():
    params = plist[1] if name != "TSLangmuir" else plist[0]
    iso = pygaps.ModelIsotherm(
        material="m",
        adsorbate="N2",
        temperature=77.0,
        model=get_isotherm_model(name, parameters=dict(params)),
        pressure_mode="absolute",
        pressure_unit="bar",
        loading_basis="molar",
        loading_unit="mmol",
        material_basis="mass",
        material_unit="g",
    )
    tag = f"iso:{name}"
    run(f"{tag}.pressure_at(0.3)", iso.pressure_at, 0.3)
    run(f"{tag}.pressure_at([..])", iso.pressure_at, [0.0, 0.1, 0.3])
    run(f"{tag}.pressure_at(Pa)", iso.pressure_at, [0.1, 0.3], pressure_unit="Pa")
    run(f"{tag}.pressure_at(rel)", iso.pressure_at, 0.2, pressure_mode="relative")
    run(f"{tag}.pressure_at(mol)", iso.pressure_at, [1e-4, 2e-4], loading_unit="mol")
    run(f"{tag}.pressure_at(kg)", iso.pressure_at, [100.0, 200.0], material_unit="kg")
    run(f"{tag}.pressure_at(too high)", iso.pressure_at, 1e5)
    run(f"{tag}.pressure_at(des)", iso.pressure_at, 0.3, branch="des")
    run(f"{tag}.loading_at", iso.loading_at, [0.0, 0.1, 1.0])
