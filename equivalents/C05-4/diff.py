"""Differential for change 4: BaseIsotherm.__init__ (shorthands, unit label bookkeeping, guards)."""
import itertools

import numpy

import eqlib
from eqlib import UNITS
from eqlib import attempt
from eqlib import emit

import pygaps
from pygaps.core.baseisotherm import BaseIsotherm
from pygaps.units.converter_mode import _LOADING_MODE
from pygaps.units.converter_mode import _MATERIAL_MODE

import logging  # noqa: E402

logging.disable(logging.NOTSET)
RECORDS = []


class Capture(logging.Handler):
    def emit(self, record):
        RECORDS.append(f"{record.levelname}|{record.getMessage()}")


for handler in list(pygaps.logger.handlers):
    pygaps.logger.removeHandler(handler)
pygaps.logger.addHandler(Capture())
pygaps.logger.setLevel(logging.DEBUG)
pygaps.logger.propagate = False

built = eqlib.build_all(deep=True)
emit("corpus.log", eqlib.canon(RECORDS))
eqlib.cross_equalities(built)


def make(label, *args, cls=BaseIsotherm, **kwargs):
    before = eqlib.canon(kwargs)
    del RECORDS[:]
    try:
        iso = cls(*args, **kwargs)
    except Exception as err:  # noqa: BLE001
        emit(f"{label}.build", f"EXC {type(err).__name__}: {err}")
        iso = None
    else:
        emit(f"{label}.build", "ok")
        eqlib.describe(label, iso, deep=False)
    emit(f"{label}.log", eqlib.canon(RECORDS))
    emit(f"{label}.kwargs_after", f"{before == eqlib.canon(kwargs)} {eqlib.canon(kwargs)}")
    return iso


# every loading basis x unit, every material basis x unit, absolute/relative
for lbasis, lunits in _LOADING_MODE.items():
    for lunit in list(lunits or [None]) + ['bogus', None]:
        make(f"L[{lbasis}|{lunit}]", 'c', 'N2', 77, **{**UNITS, 'loading_basis': lbasis, 'loading_unit': lunit})
for mbasis, munits in _MATERIAL_MODE.items():
    for munit in list(munits or [None]) + ['bogus', None]:
        make(f"M[{mbasis}|{munit}]", 'c', 'N2', 77, **{**UNITS, 'material_basis': mbasis, 'material_unit': munit})
for lbasis, mbasis in itertools.product(['percent', 'fraction', 'molar'], ['mass', 'volume', 'molar', 'bogus']):
    make(f"LM[{lbasis}|{mbasis}]", 'c', 'N2', 77,
         **{**UNITS, 'loading_basis': lbasis, 'material_basis': mbasis, 'material_unit': 'kg', 'loading_unit': 'mol'})
for pmode, punit in itertools.product(['absolute', 'relative', 'relative%', 'relativeX', 'rel', '', 'Absolute'],
                                      ['bar', 'Pa', 'torr', 'bogus', None, '']):
    make(f"P[{pmode}|{punit}]", 'c', 'N2', 77, **{**UNITS, 'pressure_mode': pmode, 'pressure_unit': punit})
for tunit in ['K', '°C', 'C', 'degC', 'F', None, '']:
    make(f"T[{tunit}]", 'c', 'N2', 25, **{**UNITS, 'temperature_unit': tunit})

# which defaults get filled (all 2^7 subsets would be slow to read, take singles, pairs and complements)
names = list(UNITS)
subsets = [()] + [(n, ) for n in names] + list(itertools.combinations(names, 2))
subsets += [tuple(n for n in names if n not in s) for s in subsets[1:8]]
alt = dict(pressure_mode='relative', pressure_unit='kPa', material_basis='molar', material_unit='mol',
           loading_basis='mass', loading_unit='mg', temperature_unit='°C')
for sub in subsets:
    make(f"given[{','.join(sub)}]", 'c', 'N2', 77, **{n: alt[n] for n in sub})

# shorthands
for i, (m, a, t) in enumerate(itertools.product(['M', '', None, 0], ['CO2', '', None], [300, 0, None, '280', 0.0])):
    make(f"short[{i}|{m!r},{a!r},{t!r}]", 'zeolite', 'N2', 77, m=m, a=a, t=t, **UNITS)
make("short.only", m='M', a='CO2', t=300, **UNITS)
make("short.partial", 'zeolite', m='M', a='CO2', t=300, **UNITS)
make("short.missing_t", m='M', a='CO2', **UNITS)
make("short.positional_clash", 'zeolite', 'N2', 77, material='other', **UNITS)
make("short.array_t", 'zeolite', 'N2', 77, t=numpy.array([1, 2]), **UNITS)
make("short.array_m", 'zeolite', 'N2', 77, m=numpy.array([1, 2]), t=numpy.array([1, 2]), **UNITS)
make("short.dict_m", 'zeolite', 'N2', 77, m={'name': 'dm', 'density': 2}, **UNITS)
make("short.obj", 'zeolite', 'N2', 77, m=pygaps.Material('om', x=1), **UNITS)
make("short.ads_obj", 'zeolite', 'N2', 77, a=pygaps.Adsorbate.find('CO2'), **UNITS)
make("short.point", cls=pygaps.PointIsotherm, pressure=[1, 2], loading=[3, 4], m='M', a='CO2', t=300, **UNITS)
make("short.point_nodefaults", cls=pygaps.PointIsotherm, pressure=[1, 2], loading=[3, 4], m='M', a='CO2', t=300)

# required values
make("req.none_T", 'c', 'N2', None, **UNITS)
make("req.zero_T", 'c', 'N2', 0, **UNITS)
make("req.empty_mat", '', 'N2', 77, **UNITS)
make("req.empty_ads", 'c', '', 77, **UNITS)
make("req.int_mat", 5, 'N2', 77, **UNITS)
make("req.int_ads", 'c', 5, 77, **UNITS)
make("req.list_T", 'c', 'N2', [77], **UNITS)
make("req.bool_T", 'c', 'N2', True, **UNITS)
make("req.nan_T", 'c', 'N2', float('nan'), **UNITS)
make("req.ads_obj", 'c', pygaps.Adsorbate.find('N2'), 77, **UNITS)

# odd unit values
make("odd.unit_int", 'c', 'N2', 77, **{**UNITS, 'loading_unit': 5})
make("odd.unit_list", 'c', 'N2', 77, **{**UNITS, 'loading_unit': ['mmol']})
make("odd.punit_list", 'c', 'N2', 77, **{**UNITS, 'pressure_unit': ['bar']})
make("odd.pmode_int", 'c', 'N2', 77, **{**UNITS, 'pressure_mode': 5})
make("odd.mbasis_list", 'c', 'N2', 77, **{**UNITS, 'material_basis': ['mass']})
make("odd.mbasis_none", 'c', 'N2', 77, **{**UNITS, 'material_basis': None})
make("odd.lbasis_none", 'c', 'N2', 77, **{**UNITS, 'loading_basis': None})
make("odd.tunit_list", 'c', 'N2', 77, **{**UNITS, 'temperature_unit': ['K']})
make("odd.extra_unitlike", 'c', 'N2', 77, pressure_units='bar', loading_key='x', **UNITS)

# class level defaults stay what they were
attempt("class.unit_params", lambda: BaseIsotherm._unit_params)
attempt("class.point_unit_params", lambda: pygaps.PointIsotherm._unit_params is BaseIsotherm._unit_params)

# the deprecated 'volume' class default branch
saved = dict(BaseIsotherm._unit_params)
BaseIsotherm._unit_params['loading_basis'] = 'volume'
make("dep.volume_default_first", 'c', 'N2', 77)
attempt("dep.class_after_first", lambda: BaseIsotherm._unit_params)
make("dep.volume_default_second", 'c', 'N2', 77, loading_unit='cm3')
make("dep.volume_default_given", 'c', 'N2', 77, **UNITS)
BaseIsotherm._unit_params.clear()
BaseIsotherm._unit_params.update(saved)
attempt("dep.class_restored", lambda: BaseIsotherm._unit_params)

eqlib.flush()
