# ---------------------------------------------------------------- harness
# (shared, embedded verbatim in every diffN.py so that each script is self-contained)
import gc
import hashlib
import logging
import os
import re
import shutil
import sqlite3
import sys
import tempfile
import warnings

warnings.filterwarnings("ignore")

import numpy
import pandas

import pygaps
import pygaps.parsing.sqlite as pgsql
from pygaps.data import ADSORBATE_LIST
from pygaps.data import MATERIAL_LIST
from pygaps.utilities.sqlite_db_pragmas import PRAGMAS
from pygaps.utilities.sqlite_utilities import db_execute_general

assert pgsql.__file__.startswith('/tmp/eq/C09/src/'), pgsql.__file__

TMP = tempfile.mkdtemp(prefix='eqC09_')
OUT = []
EVENTS = []  # trace of the current case


def emit(*parts):
    line = " ".join(str(p) for p in parts)
    OUT.append(line.replace(TMP, '<TMP>'))


def sig(x):
    """Canonical text of a value (floats to 12 significant digits)."""
    if isinstance(x, float):
        return repr(float(f"{x:.12g}"))
    if isinstance(x, (numpy.floating, )):
        return sig(float(x))
    if isinstance(x, dict):
        return "{" + ", ".join(f"{sig(k)}: {sig(v)}" for k, v in x.items()) + "}"
    if isinstance(x, (list, tuple)):
        o, c = ("[", "]") if isinstance(x, list) else ("(", ")")
        return o + ", ".join(sig(v) for v in x) + c
    if isinstance(x, sqlite3.Row):
        return "Row" + sig(tuple(x))
    if isinstance(x, numpy.ndarray):
        return "nd" + sig(x.tolist())
    if isinstance(x, (sqlite3.Cursor, sqlite3.Connection)):
        return f"<{type(x).__name__}>"
    if x is None or isinstance(x, (str, int, bool, bytes)):
        return repr(x)
    if isinstance(x, type({}.keys())):
        return "keys" + sig(list(x))
    r = repr(x)
    # no memory addresses in the canonical text
    return re.sub(r" at 0x[0-9a-f]+", "", r)


def exc_text(err):
    cause = err.__cause__
    return (
        f"{type(err).__module__}.{type(err).__name__}: {err} "
        f"| cause={type(cause).__name__ if cause is not None else None}"
        f"{(': ' + str(cause)) if cause is not None else ''} "
        f"| suppress_context={err.__suppress_context__}"
    )


# --- log capture
class _ListHandler(logging.Handler):
    def emit(self, record):
        EVENTS.append(f"log[{record.levelname}] {record.getMessage()}")


for _h in list(pygaps.logger.handlers):
    pygaps.logger.removeHandler(_h)
pygaps.logger.addHandler(_ListHandler())


# --- tracing / fault injecting connection
class Fault:
    """Raise `exc` (or die with os._exit) at a given point of the next operation.

    point: ('exec', k) before the k-th traced execute (1-based, PRAGMA included),
           ('after_exec', k) after the k-th execute ran for real,
           ('cursor',), ('commit',), ('after_commit',), ('rollback',), ('close',)
    """
    def __init__(self, point=None, exc=None, die=False):
        self.point, self.exc, self.die = point, exc, die
        self.n_exec = 0

    def hit(self, *point):
        if self.point == point:
            if self.die:
                os._exit(77)
            EVENTS.append(f"FAULT at {point}: {type(self.exc).__name__}")
            raise self.exc


FAULT = Fault()


class TCursor(sqlite3.Cursor):
    def execute(self, sql, params=()):
        FAULT.n_exec += 1
        k = FAULT.n_exec
        EVENTS.append(f"exec#{k} {' '.join(sql.split())} <- {sig(params)}")
        FAULT.hit('exec', k)
        ret = super().execute(sql, params)
        FAULT.hit('after_exec', k)
        return ret


class TConn(sqlite3.Connection):
    def __setattr__(self, name, value):
        EVENTS.append(f"conn.{name} = {getattr(value, '__name__', value)}")
        super().__setattr__(name, value)

    def cursor(self, *a, **kw):
        EVENTS.append("conn.cursor()")
        FAULT.hit('cursor')
        return super().cursor(TCursor)

    def commit(self):
        EVENTS.append("conn.commit()")
        FAULT.hit('commit')
        super().commit()
        FAULT.hit('after_commit')

    def rollback(self):
        EVENTS.append("conn.rollback()")
        FAULT.hit('rollback')
        super().rollback()

    def close(self):
        EVENTS.append("conn.close()")
        FAULT.hit('close')
        super().close()


_real_connect = sqlite3.connect


def _tracing_connect(database, *a, **kw):
    EVENTS.append(f"sqlite3.connect({database!r})".replace(TMP, '<TMP>'))
    return _real_connect(database, *a, factory=TConn, **kw)


sqlite3.connect = _tracing_connect


# --- databases
def make_template():
    """Empty pyGAPS schema plus the standard isotherm types (no tracing)."""
    pth = os.path.join(TMP, 'template.db')
    sqlite3.connect = _real_connect
    try:
        for pragma in PRAGMAS:
            db_execute_general(pragma, pth)
        con = _real_connect(pth)
        for tp in ('isotherm', 'pointisotherm', 'modelisotherm'):
            con.execute("INSERT INTO isotherm_type (type) VALUES (?)", (tp, ))
        con.commit()
        con.close()
    finally:
        sqlite3.connect = _tracing_connect
    return pth


TEMPLATE = make_template()
_n_db = [0]


def fresh_db(src=None):
    _n_db[0] += 1
    pth = os.path.join(TMP, f"db{_n_db[0]:03d}.db")
    shutil.copy(src or TEMPLATE, pth)
    return pth


TABLES = [
    'adsorbates', 'adsorbate_properties_type', 'adsorbate_properties', 'materials',
    'material_properties_type', 'material_properties', 'isotherm_type', 'isotherms',
    'isotherm_properties', 'isotherm_data'
]


def dump_db(pth, full=True):
    """Canonical text of the complete committed content of a database file."""
    con = _real_connect(pth)
    lines = []
    for tb in TABLES:
        rows = con.execute(f'SELECT * FROM "{tb}" ORDER BY 1').fetchall()
        lines.append(f"  {tb}[{len(rows)}]: " + "; ".join(sig(tuple(r)) for r in rows))
    ic = con.execute("PRAGMA integrity_check").fetchall()
    fk = con.execute("PRAGMA foreign_key_check").fetchall()
    lines.append(f"  integrity={ic} fk_violations={fk}")
    con.close()
    leftovers = sorted(
        f[len(os.path.basename(pth)):] for f in os.listdir(os.path.dirname(pth))
        if f.startswith(os.path.basename(pth)) and f != os.path.basename(pth)
    )
    lines.append(f"  side files: {leftovers}")
    text = "\n".join(lines)
    if full:
        return text
    return "  db sha1 " + hashlib.sha1(text.encode()).hexdigest() + "\n" + lines[-2]


def lists_text():
    now = {id(a) for a in ADSORBATE_LIST}
    added = [a for a in ADSORBATE_LIST if id(a) not in _ADS0_IDS]
    removed = [a.name for a in _ADS0 if id(a) not in now]
    return (
        f"  MATERIAL_LIST={[str(m.name) + ':' + sig(m.properties) for m in MATERIAL_LIST]} "
        f"ADSORBATE_LIST[{len(ADSORBATE_LIST)}] added="
        f"{[str(a.name) + ':' + sig(a.properties) for a in added]} removed={removed}"
    )


def reset_lists():
    del MATERIAL_LIST[:]
    ADSORBATE_LIST[:] = _ADS0


_ADS0 = list(ADSORBATE_LIST)
_ADS0_IDS = {id(a) for a in _ADS0}


def run(label, call, db=None, fault=None, full=True, show_ret=True):
    """Run one case: trace, result/exception, committed db content, module lists."""
    global FAULT
    del EVENTS[:]
    FAULT = fault or Fault()
    emit(f"=== {label}")
    try:
        ret = call()
        res = f"  -> returned {sig(ret) if show_ret else type(ret).__name__}"
    except BaseException as err:  # noqa
        res = f"  -> raised {exc_text(err)}"
    if FAULT.exc is not None:
        FAULT.exc.__traceback__ = None
    FAULT = Fault()
    # frames kept alive by a traceback keep cursors (hence open statements) alive: drop them now,
    # not whenever the collector happens to run
    gc.collect()
    for ev in EVENTS:
        emit("   ", ev)
    emit(res)
    if db is not None:
        emit(dump_db(db, full=full))
    emit(lists_text())


def run_death(label, call, db, fault):
    """Run the call in a forked child that dies abruptly at the fault point."""
    global FAULT
    emit(f"=== {label}")
    sys.stdout.flush()
    sys.stderr.flush()
    pid = os.fork()
    if pid == 0:
        try:
            FAULT = fault
            call()
        except BaseException:  # noqa
            os._exit(55)
        os._exit(0)
    _, status = os.waitpid(pid, 0)
    emit(f"  child exit code {os.WEXITSTATUS(status)}")
    emit(dump_db(db))
    # the survivor can repeat the operation on the same file
    FAULT = Fault()
    del EVENTS[:]
    try:
        ret = call()
        emit(f"  repeat -> returned {sig(ret)}")
    except BaseException as err:  # noqa
        emit(f"  repeat -> raised {exc_text(err)}")
    gc.collect()
    emit(dump_db(db))
    reset_lists()


def finish():
    sqlite3.connect = _real_connect
    shutil.rmtree(TMP, ignore_errors=True)
    sys.stdout.write("\n".join(OUT) + "\n")


# --- objects
def mk_material(name='M1', **props):
    return pygaps.Material(name, **props)


def mk_adsorbate(name='A1', **props):
    return pygaps.Adsorbate(name, **props)


ISO_PARAMS = dict(
    material='M1', adsorbate='A1', temperature=77.0, date='26/06/92', lab='TL', is_real=True,
    flag=False, n_runs=3, frac=0.25
)


def mk_point(**over):
    p = dict(ISO_PARAMS)
    p.update(over)
    cols = p.pop('_cols', None) or {
        'pressure': [1.0, 2.0, 3.0, 4.0],
        'loading': [0.5, 1.0, 1.4, 1.6],
        'enthalpy': [5.2, 5.1, 5.0, 4.9],
        'text_data': ['a', 'b', 'c', 'd'],
    }
    return pygaps.PointIsotherm(
        isotherm_data=pandas.DataFrame(cols), pressure_key='pressure', loading_key='loading', **p
    )


def mk_model(**over):
    p = dict(ISO_PARAMS)
    p.update(over)
    return pygaps.ModelIsotherm(
        pressure=[1.0, 2.0, 3.0, 4.0], loading=[0.5, 1.0, 1.5, 2.0], model='Henry', **p
    )


def mk_base(**over):
    p = dict(ISO_PARAMS)
    p.update(over)
    return pygaps.core.baseisotherm.BaseIsotherm(**p)


EXCS = {
    'Integrity': lambda: sqlite3.IntegrityError("injected integrity"),
    'Interface': lambda: sqlite3.InterfaceError("injected interface"),
    'Operational': lambda: sqlite3.OperationalError("injected disk I/O error"),
}
# ---------------------------------------------------------------- end of harness
# ---------------------------------------------------------------- cases: adsorbate_delete_db
def seeded():
    """A database with some prior content."""
    db = fresh_db()
    pgsql.material_to_db(mk_material('M0', density=1.5, comment='old'), db_path=db, verbose=False)
    pgsql.adsorbate_to_db(mk_adsorbate('A0', formula='X2', alias=['a0', 'a-zero']), db_path=db, verbose=False)
    pgsql.adsorbate_to_db(mk_adsorbate('Afree', formula='F2', alias=['af', 'free'], molar_mass=38.0), db_path=db, verbose=False)
    pgsql.adsorbate_to_db(mk_adsorbate('Abare'), db_path=db, verbose=False)
    pgsql.adsorbate_to_db(mk_adsorbate('nitrogen', formula='N2', alias=['n2']), db_path=db, verbose=False)
    pgsql.adsorbate_to_db(mk_adsorbate('MiXed Case', formula='mc'), db_path=db, verbose=False)
    pgsql.isotherm_to_db(mk_point(material='M0', adsorbate='A0'), db_path=db, verbose=False)
    reset_lists()
    return db


SEED = seeded()
emit("seed content")
emit(dump_db(SEED))

TARGETS = {
    'object, has properties': lambda: mk_adsorbate('Afree'),
    'object with other properties than stored': lambda: mk_adsorbate('Afree', formula='different', extra=1),
    'name string': lambda: 'Afree',
    'alias string (names only are looked up)': lambda: 'af',
    'lower-case spelling of the name': lambda: 'afree',
    'object, no properties': lambda: mk_adsorbate('Abare'),
    'string, no properties': lambda: 'Abare',
    'object referenced by an isotherm': lambda: mk_adsorbate('A0'),
    'string referenced by an isotherm': lambda: 'A0',
    'object missing': lambda: mk_adsorbate('Anone'),
    'string missing': lambda: 'Anone',
    'empty string': lambda: '',
    'None': lambda: None,
    'int': lambda: 5,
    'a Material of that name': lambda: mk_material('Afree'),
    'library adsorbate by name': lambda: 'nitrogen',
    'library adsorbate object': lambda: pygaps.Adsorbate.find('N2'),
    'library adsorbate by alias (not found in db)': lambda: 'N2',
    'mixed case name': lambda: 'MiXed Case',
    'mixed case object': lambda: mk_adsorbate('MiXed Case'),
}

# --- 1. every kind of argument, with the item present / absent in ADSORBATE_LIST
for label, make in TARGETS.items():
    for in_list in (False, True):
        for verbose in (True, False):
            db = fresh_db(SEED)
            target = make()
            if in_list:
                ADSORBATE_LIST.append(mk_adsorbate('Afree', alias=['af', 'free']))
                ADSORBATE_LIST.append(mk_adsorbate('Abare'))
                ADSORBATE_LIST.append(mk_adsorbate('A0'))
                ADSORBATE_LIST.append(mk_adsorbate('MiXed Case'))
            run(f"delete [{label}] listed={in_list} verbose={verbose}", lambda: pgsql.adsorbate_delete_db(target, db_path=db, verbose=verbose), db, full=(verbose and not in_list))
            reset_lists()

# --- 2. sequences
db = fresh_db(SEED)
run("delete twice (1)", lambda: pgsql.adsorbate_delete_db('Afree', db), db, full=False)
run("delete twice (2)", lambda: pgsql.adsorbate_delete_db('Afree', db), db, full=False)
run("upload again after delete", lambda: pgsql.adsorbate_to_db(mk_adsorbate('Afree', formula='again'), db_path=db, verbose=False), db, full=False)
run("positional path and verbose", lambda: pgsql.adsorbate_delete_db(mk_adsorbate('Afree'), db, False), db)
run("referenced: delete isotherm first, then adsorbate", lambda: [pgsql.isotherm_delete_db(i, db_path=db, verbose=False) for i in pgsql.isotherms_from_db(db_path=db, verbose=False)] and pgsql.adsorbate_delete_db('A0', db_path=db), db)
run("read back", lambda: [(a.name, a.alias, a.properties) for a in pgsql.adsorbates_from_db(db_path=db, verbose=False)], db, full=False)
reset_lists()

# outer cursor: nothing is committed or rolled back by the call itself
db = fresh_db(SEED)


def outer(fn, commit):
    con = _real_connect(db)
    con.row_factory = sqlite3.Row
    cur = con.cursor(TCursor)
    cur.execute('PRAGMA foreign_keys = ON')
    try:
        ret = fn(cur)
        if commit:
            con.commit()
        return ret
    finally:
        con.close()


run("outer cursor, not committed", lambda: outer(lambda c: pgsql.adsorbate_delete_db('Afree', cursor=c), False), db, full=False)
run("outer cursor, referenced -> raw error", lambda: outer(lambda c: pgsql.adsorbate_delete_db('A0', cursor=c), True), db, full=False)
run("outer cursor, missing -> raw error", lambda: outer(lambda c: pgsql.adsorbate_delete_db('zzz', cursor=c), True), db, full=False)
run("outer cursor, committed", lambda: outer(lambda c: pgsql.adsorbate_delete_db('Afree', cursor=c), True), db)
reset_lists()

# --- 3. a fault of every kind at every statement
ops = {
    'delete with properties': lambda db: pgsql.adsorbate_delete_db(mk_adsorbate('Afree'), db_path=db, verbose=False),
    'delete bare by name': lambda db: pgsql.adsorbate_delete_db('Abare', db, False),
    'delete referenced': lambda db: pgsql.adsorbate_delete_db('A0', db_path=db, verbose=False),
}
extra = {
    'ProgrammingError': lambda: sqlite3.ProgrammingError('injected programming'),
    'DatabaseError': lambda: sqlite3.DatabaseError('injected database'),
    'sqlite3.Error': lambda: sqlite3.Error('injected base'),
    'ValueError': lambda: ValueError('injected value'),
    'MyIntegrity': lambda: type('MyIntegrity', (sqlite3.IntegrityError, ), {})('injected sub'),
}
kinds = dict(EXCS)
kinds.update(extra)
N = 4  # PRAGMA, SELECT, DELETE properties, DELETE adsorbate
for opname, op in ops.items():
    for kind, mk in kinds.items():
        for k in range(1, N + 1):
            for when in ('exec', 'after_exec'):
                db = fresh_db(SEED)
                ADSORBATE_LIST.append(mk_adsorbate('Afree'))
                run(f"{opname}: {kind} {when} {k}", lambda: op(db), db, fault=Fault((when, k), mk()), full=False)
                run("   repeat", lambda: op(db), db, full=False)
                reset_lists()
        for point in (('commit', ), ('after_commit', ), ('cursor', ), ('close', )):
            db = fresh_db(SEED)
            run(f"{opname}: {kind} at {point}", lambda: op(db), db, fault=Fault(point, mk()), full=False)
            reset_lists()
    for k in range(1, N + 1):
        db = fresh_db(SEED)
        run_death(f"{opname}: process dies before statement {k}", lambda: op(db), db, Fault(('exec', k), die=True))
    for point in (('after_exec', N), ('commit', ), ('after_commit', )):
        db = fresh_db(SEED)
        run_death(f"{opname}: process dies at {point}", lambda: op(db), db, Fault(point, die=True))

finish()
