"""Differential script for change 3: enthalpy_sorption_whittaker."""
import sys, os
sys.path.insert(0, os.path.dirname(__file__))
import numpy as np
from scipy import constants
from _fmt import run, fmt, LogCapture

from pygaps.characterisation.enth_sorp_whittaker import enthalpy_sorption_whittaker as whittaker
from pygaps.core.adsorbate import Adsorbate
from pygaps.core.modelisotherm import ModelIsotherm
from pygaps.core.pointisotherm import PointIsotherm
from pygaps.modelling import get_isotherm_model

log = LogCapture()

UNITS = dict(
    pressure_mode='absolute', pressure_unit='Pa', material_basis='mass', material_unit='g',
    loading_basis='molar', loading_unit='mmol', temperature_unit='K',
)


def model_iso(kind, params, T, adsorbate, p_range=(1.0, 5e4), **units):
    model = get_isotherm_model(kind, parameters=params, pressure_range=p_range, loading_range=(0.0, 0.0))
    lo, hi = model.loading(np.array(p_range, dtype=float))
    model.loading_range = (float(lo), float(hi))
    kw = dict(UNITS)
    kw.update(units)
    name = adsorbate if isinstance(adsorbate, str) else 'N2'
    iso = ModelIsotherm(model=model, material='M', adsorbate=name, temperature=T, **kw)
    if not isinstance(adsorbate, str):
        iso._adsorbate = adsorbate  # custom Adsorbate object (constructor only takes names)
    return iso


def closed_form(iso, n):
    """Independent closed form, printed next to the result."""
    R, T = constants.R, iso.temperature
    p = iso.model.params
    t = p.get('t', 1)
    ads = iso.adsorbate
    psat = ads.saturation_pressure(T)
    th = (n / p['n_m'])**t
    lam = R * T * np.log(psat * p['K'] * (th / (1 - th))**((t - 1) / t))
    pr = max(float(iso.pressure_at(n)), ads.p_triple())
    return (lam + ads.enthalpy_vaporisation(press=pr) * 1000 + R * T) / 1000


case = 0
systems = [
    ('N2', 77.0, 1e-3), ('N2', 90.0, 2e-4), ('Ar', 87.0, 5e-4), ('CO2', 250.0, 3e-5), ('CO2', 298.0, 4e-6),
    ('CH4', 120.0, 1e-4), ('C4H10', 273.0, 2e-4), ('H2O', 298.0, 1e-3), ('NH3', 260.0, 1e-5), ('Kr', 120.0, 1e-4),
]
loads = [0, 0.01, 0.5, 1, 2.5, 4.0, 4.9, 4.999999, 5.0, 5.5, -1.0]
for ads, T, K in systems:
    for kind, params in (
        ('Langmuir', {'n_m': 5.0, 'K': K}),
        ('Toth', {'n_m': 5.0, 'K': K, 't': 0.55}),
        ('Toth', {'n_m': 5.0, 'K': K * 3, 't': 1.0}),
        ('Toth', {'n_m': 5.0, 'K': K / 2, 't': 1.7}),
    ):
        case += 1
        iso = model_iso(kind, params, T, ads)
        run(f"{case} {ads} {T}K {kind} {params} explicit", whittaker, iso, loading=loads, log=log)
        if case % 4 == 1:
            run(f"{case}b default loading", whittaker, iso, log=log)
        if case % 4 == 2:
            run(f"{case}c numpy loading + model arg ignored", whittaker, iso, 'Henry', np.array([0.0, 1.0, 2.0]), log=log)
        if case % 8 == 3:
            try:
                print("closed form", fmt([closed_form(iso, n) for n in (0.5, 1, 2.5)]))
            except BaseException as err:
                print("closed form EXC", type(err).__name__, err)
        log.pop()

# supercritical adsorbates: pseudo-saturation pressure path
for ads, T in (('CH4', 298.0), ('N2', 200.0), ('H2', 77.0), ('CO2', 320.0), ('Ar', 160.0)):
    for kind, params in (('Langmuir', {'n_m': 4.0, 'K': 1e-6}), ('Toth', {'n_m': 4.0, 'K': 5e-6, 't': 0.8})):
        case += 1
        iso = model_iso(kind, params, T, ads, p_range=(10.0, 1e6))
        run(f"{case} supercritical {ads} {T}K {kind}", whittaker, iso, loading=[0, 0.1, 1, 2, 3.5, 3.99], log=log)

# pressures between / beyond the triple, saturation and critical pressures
iso = model_iso('Langmuir', {'n_m': 5.0, 'K': 1e-7}, 250.0, 'CO2', p_range=(1e3, 1e7))
run("CO2 weak affinity: below triple -> above p_sat", whittaker, iso,
    loading=[1e-3, 0.05, 0.1, 0.2, 0.5, 0.7, 0.75, 0.8, 1, 2, 3, 4], log=log)
iso = model_iso('Toth', {'n_m': 5.0, 'K': 1e-7, 't': 0.9}, 300.0, 'CO2', p_range=(1e3, 1e7))
run("CO2 300K: p_sat close to p_c", whittaker, iso, loading=list(np.linspace(0.1, 4.9, 25)), log=log)
iso = model_iso('Langmuir', {'n_m': 2.0, 'K': 10.0}, 77.0, 'N2', p_range=(1e-3, 1.0))
run("N2 strong affinity, all below triple pressure", whittaker, iso, loading=[0.1, 1.0, 1.9, 1.999], log=log)

# guards
iso_bar = model_iso('Langmuir', {'n_m': 5.0, 'K': 10.0}, 77.0, 'N2', pressure_unit='bar')
run("model isotherm in bar", whittaker, iso_bar, loading=[1.0], log=log)
iso_rel = model_iso('Langmuir', {'n_m': 5.0, 'K': 10.0}, 77.0, 'N2', pressure_mode='relative', pressure_unit=None)
run("model isotherm relative", whittaker, iso_rel, loading=[1.0], log=log)
iso_henry = model_iso('Henry', {'K': 1e-4}, 77.0, 'N2')
run("Henry model isotherm", whittaker, iso_henry, loading=[1.0], log=log)
iso_dsl = model_iso('DSLangmuir', {'n_m1': 3.0, 'K1': 1e-3, 'n_m2': 2.0, 'K2': 1e-5}, 77.0, 'N2')
run("DSLangmuir model isotherm", whittaker, iso_dsl, loading=[1.0], log=log)
iso_bet = model_iso('BET', {'n_m': 3.0, 'C': 100.0, 'N': 1e-5}, 77.0, 'N2', p_range=(1.0, 5e4))
run("BET model isotherm", whittaker, iso_bet, loading=[1.0], log=log)
good = model_iso('Toth', {'n_m': 5.0, 'K': 1e-3, 't': 0.6}, 77.0, 'N2')
run("empty loading", whittaker, good, loading=[], log=log)
run("scalar loading", whittaker, good, loading=1.0, log=log)
run("nan loading", whittaker, good, loading=[np.nan, 1.0], log=log)
run("string loading", whittaker, good, loading=['a'], log=log)
run("not an isotherm", whittaker, "iso", loading=[1.0], log=log)
run("not an isotherm, bad model", whittaker, "iso", model='BET', loading=[1.0], log=log)
run("model None on model isotherm", whittaker, good, None, [1.0], log=log)
custom = Adsorbate('fancygas', store=False)
iso_custom = model_iso('Langmuir', {'n_m': 5.0, 'K': 1e-3}, 77.0, custom)
run("adsorbate without backend", whittaker, iso_custom, loading=[1.0], log=log)
custom2 = Adsorbate('fancygas2', store=False, p_critical=34.0, p_triple=0.125, t_critical=126.2,
                    saturation_pressure=101325.0, enthalpy_liquefaction=5.57)
iso_custom2 = model_iso('Toth', {'n_m': 5.0, 'K': 1e-3, 't': 0.7}, 77.0, custom2)
run("adsorbate with stored properties only", whittaker, iso_custom2, loading=[0, 0.5, 1.0, 4.0], log=log)
custom3 = Adsorbate('fancygas3', store=False, p_critical=34.0, p_triple=0.125, t_critical=126.2)
iso_custom3 = model_iso('Toth', {'n_m': 5.0, 'K': 1e-3, 't': 0.7}, 77.0, custom3)
run("adsorbate without stored saturation pressure (pseudo)", whittaker, iso_custom3, loading=[0.5, 1.0], log=log)

# point isotherms: fitted inside, caller's isotherm stays untouched
def point_iso(kind, params, T, ads, unit='Pa', n=60, noise=0.0):
    miso = model_iso(kind, params, T, ads)
    p = np.geomspace(1.0, 5e4, n)
    l = miso.model.loading(p) * (1 + noise * np.sin(np.arange(n)))
    iso = PointIsotherm(pressure=p, loading=l, material='M', adsorbate=ads, temperature=T, **UNITS)
    if unit == 'relative':
        iso.convert_pressure(mode_to='relative')
    elif unit != 'Pa':
        iso.convert_pressure(unit_to=unit)
    return iso

for kind, params, T, ads, unit, model in [
    ('Langmuir', {'n_m': 5.0, 'K': 1e-3}, 77.0, 'N2', 'Pa', 'Langmuir'),
    ('Langmuir', {'n_m': 5.0, 'K': 1e-3}, 77.0, 'N2', 'bar', 'Toth'),
    ('Toth', {'n_m': 5.0, 'K': 1e-3, 't': 0.6}, 77.0, 'N2', 'torr', 'Toth'),
    ('Toth', {'n_m': 5.0, 'K': 1e-3, 't': 0.6}, 87.0, 'Ar', 'relative', 'Langmuir'),
    ('Toth', {'n_m': 4.0, 'K': 3e-5, 't': 0.8}, 273.0, 'CO2', 'kPa', 'Toth'),
    ('Langmuir', {'n_m': 5.0, 'K': 1e-3}, 77.0, 'N2', 'bar', 'Henry'),
    ('Langmuir', {'n_m': 5.0, 'K': 1e-3}, 77.0, 'N2', 'bar', 'langmuir'),
    ('Langmuir', {'n_m': 5.0, 'K': 1e-3}, 77.0, 'N2', 'bar', 'DSLangmuir'),
]:
    case += 1
    iso = point_iso(kind, params, T, ads, unit, noise=0.002)
    before = (dict(iso.units), iso.data_raw.copy())
    run(f"{case} point {kind} {ads} {unit} model={model} explicit", whittaker, iso, model=model,
        loading=[0, 0.3, 1.0, 2.0, 3.5], log=log)
    run(f"{case}b point default loading", whittaker, iso, model=model, log=log)
    print("caller isotherm untouched", before[0] == iso.units, before[1].equals(iso.data_raw))

res = whittaker(good, loading=[0, 1.0, 7.0])
print("types", type(res).__name__, list(res), [type(v).__name__ for v in res.values()],
      type(res['loading'][0]).__name__, type(res['enthalpy_sorption'][0]).__name__,
      res['model_params'] is good.model.params)

# verbose path: record what is handed to the plotting function instead of drawing
import pygaps.graphing.calc_graphs as cg


def fake_plot(*args, **kwargs):
    print("PLOT", fmt(list(args)), fmt(kwargs))


cg.isosteric_enthalpy_plot = fake_plot
run("verbose model isotherm", whittaker, good, loading=[0, 1.0, 2.0, 9.0], verbose=True, log=log)
run("verbose empty loading", whittaker, good, loading=[], verbose=True, log=log)
run("verbose Langmuir default loading", whittaker, model_iso('Langmuir', {'n_m': 3.0, 'K': 2e-4}, 87.0, 'Ar'),
    verbose=True, log=log)
