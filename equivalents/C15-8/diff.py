"""Differential script for change 4: psd_mesoporous region selection, model dispatch, cumulative volume."""
import numpy

from eqcommon import N77_NAMES, load_n77, run

import pygaps
import pygaps.characterisation.psd_meso as pmes

CONVERSIONS = [
    {},
    {"pressure_unit": "Pa"},
    {"pressure_unit": "torr"},
    {"pressure_mode": "relative"},
    {"pressure_mode": "relative%"},
    {"loading_unit": "mol"},
    {"loading_basis": "mass", "loading_unit": "g"},
    {"loading_basis": "volume_gas", "loading_unit": "cm3"},
    {"loading_basis": "volume_liquid", "loading_unit": "cm3"},
    {"material_unit": "kg"},
    {"pressure_unit": "kPa", "loading_basis": "mass", "loading_unit": "mg", "material_unit": "mg"},
]
MODELS = ["pygaps-DH", "BJH", "DH"]
GEOMETRIES = ["slit", "cylinder", "halfopen-cylinder", "sphere"]


def psd(name, conv=None, scale=None, **kwargs):
    iso = load_n77(name)
    if conv:
        iso.convert(**conv)
    if scale:
        iso = pygaps.PointIsotherm(
            pressure=iso.pressure(),
            loading=iso.loading() * scale,
            branch=iso.data_raw["branch"].values if "branch" in iso.data_raw else None,
            **iso.to_dict(),
        )
    res = pmes.psd_mesoporous(iso, **kwargs)
    return list(res), res  # key order + content


def main():
    # 1. every model x representation on measured isotherms
    for name in N77_NAMES:
        for model in MODELS:
            for conv in CONVERSIONS:
                run(f"psd {name} {model} {conv}", psd, name, conv, psd_model=model)

    # 2. geometry / branch / sub-model options
    for name in ("MCM-41", "SiO2"):
        for model in MODELS:
            for geom in GEOMETRIES:
                for branch in ("ads", "des"):
                    run(
                        f"psd {name} {model} geom={geom} branch={branch}", psd, name, psd_model=model,
                        pore_geometry=geom, branch=branch
                    )
            for kw in [
                {"thickness_model": "Halsey"},
                {"thickness_model": "Harkins/Jura", "kelvin_model": "Kelvin-KJS"},
                {"meniscus_geometry": "hemispherical"},
                {"meniscus_geometry": "cylindrical", "branch": "ads"},
                {"meniscus_geometry": "hemicylindrical", "pore_geometry": "slit"},
                {"thickness_model": lambda p: 0.5 * numpy.asarray(p)**0.3},
            ]:
                run(f"psd {name} {model} {sorted(kw)} {[v for v in kw.values() if isinstance(v, str)]}", psd, name,
                    psd_model=model, **kw)

    # 3. pressure limits (incl. falsy / degenerate / wrong ones)
    limits = [
        None, (0.1, 0.99), (None, None), (0, 0), (0.3, None), (None, 0.8), (0.4, 0.9), [0.2, 0.95], (0.0, 1.0),
        (0.9, 0.1), (0.5, 0.5), (0.99, 0.999), (1e-9, 1e-8), (2, 3), (-1, 0.5), (0.3,), (0.3, 0.9, 0.95), 0.5, "ab",
        (numpy.float64(0.2), numpy.float64(0.9)), (numpy.nan, 0.9), (0.2, numpy.inf),
    ]
    for name in ("MCM-41", "Takeda 5A"):
        for model in MODELS:
            for lim in limits:
                for branch in ("ads", "des"):
                    run(f"psd {name} {model} p_limits={lim!r} {branch}", psd, name, psd_model=model, p_limits=lim,
                        branch=branch)

    # 4. scaled loadings
    for name in ("MCM-41", "UiO-66(Zr)"):
        for model in MODELS:
            for k in (1e-3, 0.5, 3.0, 1e3):
                run(f"psd {name} {model} scale={k}", psd, name, scale=k, psd_model=model)

    # 5. model isotherm input
    for name in ("MCM-41", "SiO2"):
        try:
            miso = pygaps.ModelIsotherm.from_pointisotherm(load_n77(name), model="BET")
        except Exception as err:  # noqa
            print(f"## model fit {name} !! {type(err).__name__}")
            continue
        for model in MODELS:
            run(f"psd model-iso {name} {model} ads", pmes.psd_mesoporous, miso, psd_model=model, branch="ads")
            run(f"psd model-iso {name} {model} des", pmes.psd_mesoporous, miso, psd_model=model, branch="des")

    # 6. parameter errors
    for kw in [
        {"psd_model": None},
        {"psd_model": "bjh"},
        {"psd_model": "DFT"},
        {"psd_model": ["BJH"]},
        {"psd_model": 3},
        {"pore_geometry": "cube"},
        {"pore_geometry": None},
        {"meniscus_geometry": "flat"},
        {"branch": None},
        {"branch": "both"},
        {"thickness_model": "nothing"},
        {"thickness_model": None},
        {"kelvin_model": "nothing"},
    ]:
        run(f"psd errors {kw}", psd, "MCM-41", **kw)


if __name__ == "__main__":
    main()
