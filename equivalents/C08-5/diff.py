import logging
import os
import shutil
import sqlite3
import sys
import tempfile
import warnings

import numpy
import pandas

warnings.simplefilter("ignore")

import pygaps
import pygaps.parsing.sqlite as pgsql
from pygaps.core.baseisotherm import BaseIsotherm
from pygaps.data import ADSORBATE_LIST
from pygaps.data import MATERIAL_LIST
from pygaps.utilities import sqlite_utilities as squ
from pygaps.utilities.sqlite_db_creator import db_create
from pygaps.utilities.sqlite_db_pragmas import PRAGMAS

assert pgsql.__file__.startswith(os.getcwd()), pgsql.__file__

OUT = []


def emit(*parts):
    OUT.append(" ".join(str(p) for p in parts))


class _Capture(logging.Handler):
    def emit(self, record):
        msg = record.getMessage()
        if "was not specified, assumed as" in msg:
            return
        emit("  LOG", record.levelname, repr(msg))


_logger = logging.getLogger("pygaps")
for _h in list(_logger.handlers):
    _logger.removeHandler(_h)
_logger.addHandler(_Capture())
_logger.propagate = False

# ---------------------------------------------------------------- canonical text


def safe_id(iso):
    try:
        return repr(iso.iso_id)
    except Exception as err:  # noqa
        return "<no id: " + type(err).__name__ + ": " + str(err) + ">"


def canon(obj):
    """Canonical, deterministic text of any result."""
    if isinstance(obj, (bool, numpy.bool_)):
        return repr(bool(obj))
    if isinstance(obj, (int, numpy.integer)):
        return repr(int(obj))
    if isinstance(obj, (float, numpy.floating)):
        return "f" + format(float(obj), ".12g")
    if obj is None or isinstance(obj, (str, bytes)):
        return repr(obj)
    if isinstance(obj, pygaps.Adsorbate):
        return "Adsorbate(" + canon(obj.to_dict()) + ")"
    if isinstance(obj, pygaps.Material):
        return "Material(" + canon(obj.to_dict()) + ")"
    if isinstance(obj, pygaps.PointIsotherm):
        return (
            "PointIsotherm(" + safe_id(obj) + ", " + canon(obj.to_dict()) + ", cols=" +
            canon(list(obj.data_raw.columns)) + ", data=" +
            canon({c: obj.data_raw[c].tolist()
                   for c in obj.data_raw.columns}) + ", other_keys=" + canon(list(obj.other_keys)) +
            ")"
        )
    if isinstance(obj, pygaps.ModelIsotherm):
        return (
            "ModelIsotherm(" + safe_id(obj) + ", " + canon(obj.to_dict()) + ", model=" +
            canon(obj.model.to_dict()) + ")"
        )
    if isinstance(obj, BaseIsotherm):
        return "BaseIsotherm(" + safe_id(obj) + ", " + canon(obj.to_dict()) + ")"
    if isinstance(obj, dict):
        return "{" + ", ".join(
            canon(k) + ": " + canon(v) for k, v in sorted(obj.items(), key=lambda kv: repr(kv[0]))
        ) + "}"
    if isinstance(obj, (list, tuple)):
        return type(obj).__name__ + "[" + ", ".join(canon(o) for o in obj) + "]"
    if isinstance(obj, numpy.ndarray):
        return "array" + canon(obj.tolist())
    if isinstance(obj, sqlite3.Row):
        return "Row" + canon(tuple(obj))
    return type(obj).__name__ + ":" + repr(obj)


def call(label, func, *args, **kwargs):
    """Run one operation, print result or error type + message (+ cause chain)."""
    emit("CALL", label)
    try:
        res = func(*args, **kwargs)
    except BaseException as err:  # noqa
        chain = []
        cur = err
        while cur is not None and len(chain) < 4:
            chain.append(type(cur).__module__ + "." + type(cur).__name__ + ": " + repr(str(cur)))
            cur = cur.__cause__
        emit("  RAISED", " <- ".join(chain))
        return None
    emit("  RESULT", canon(res))
    return res


# ---------------------------------------------------------------- databases

TABLES = [
    "adsorbates", "adsorbate_properties", "adsorbate_properties_type", "materials",
    "material_properties", "material_properties_type", "isotherm_type", "isotherms",
    "isotherm_properties", "isotherm_data", "sqlite_sequence"
]

WORK = tempfile.mkdtemp(prefix="c08diff_", dir=os.path.join(os.getcwd(), "_eq"))
_counter = [0]
BASELINE = {}


def _rows(path, table):
    con = sqlite3.connect(path)
    try:
        return con.execute(f'SELECT * FROM "{table}" ORDER BY rowid').fetchall()
    finally:
        con.close()


def make_empty_template():
    """Schema + the three standard isotherm types only."""
    path = os.path.join(WORK, "template_empty.db")
    for pragma in PRAGMAS:
        squ.db_execute_general(pragma, path)
    for tp in ("isotherm", "pointisotherm", "modelisotherm"):
        pgsql.isotherm_type_to_db({"type": tp}, db_path=path, verbose=False)
    return path


def make_full_template():
    """The database db_create makes (all library adsorbates)."""
    path = os.path.join(WORK, "template_full.db")
    n_before = len(ADSORBATE_LIST)
    db_create(path)
    emit("db_create appended to ADSORBATE_LIST:", len(ADSORBATE_LIST) - n_before)
    return path


def fresh(template):
    _counter[0] += 1
    path = os.path.join(WORK, f"db{_counter[0]:03d}.db")
    shutil.copyfile(template, path)
    BASELINE[path] = {t: set(_rows(template, t)) for t in TABLES}
    return path


def dump(path, label=""):
    """Raw table contents through an independent connection (rows beyond the template)."""
    emit("DUMP", label)
    for table in TABLES:
        rows = _rows(path, table)
        base = BASELINE.get(path, {}).get(table, set())
        new = [r for r in rows if r not in base]
        gone = len(base - set(rows))
        emit(f"  {table}: n={len(rows)} removed_from_template={gone}")
        for r in new:
            emit("    +", canon(r))
    con = sqlite3.connect(path)
    emit("  fk_check:", canon(con.execute("PRAGMA foreign_key_check").fetchall()))
    con.close()


def lists(label=""):
    emit(
        "LISTS", label, "ads:", len(ADSORBATE_LIST), canon([a.name for a in ADSORBATE_LIST[-4:]]),
        "mat:", len(MATERIAL_LIST), canon([m.name for m in MATERIAL_LIST[-4:]])
    )


# ---------------------------------------------------------------- objects

UNITS = dict(
    material_basis="mass",
    material_unit="g",
    loading_basis="molar",
    loading_unit="mmol",
    pressure_mode="absolute",
    pressure_unit="bar",
    temperature_unit="K",
)


def mk_params(material="TEST", adsorbate="TA", temperature=100.0, **extra):
    par = dict(material=material, adsorbate=adsorbate, temperature=temperature)
    par.update(UNITS)
    par.update(extra)
    return par


def mk_data(n=8, **cols):
    p = [round(0.5 + 0.75 * i, 6) for i in range(n)]
    frame = {"pressure": p, "loading": [round(2.0 * x / (1.0 + 0.3 * x), 9) for x in p]}
    frame.update(cols)
    return pandas.DataFrame(frame)


def mk_base(**kw):
    return BaseIsotherm(**mk_params(**kw))


def mk_point(data=None, **kw):
    return pygaps.PointIsotherm(
        isotherm_data=mk_data() if data is None else data,
        pressure_key="pressure",
        loading_key="loading",
        **mk_params(**kw)
    )


def mk_model(model="Henry", data=None, **kw):
    return pygaps.ModelIsotherm(
        isotherm_data=mk_data() if data is None else data,
        pressure_key="pressure",
        loading_key="loading",
        model=model,
        **mk_params(**kw)
    )


ADS_DATA = {
    "name": "TA",
    "alias": ["ta1", "ta2", "ta"],
    "formula": "TA21",
    "backend_name": "NITROGEN",
    "molar_mass": 28.01348,
    "cross_sectional_area": 0.162,
    "dipole_moment": 0.0,
    "saturation_pressure": 101325,
}
MAT_DATA = {
    "name": "TEST",
    "batch": "TB",
    "struct": "MOF-1",
    "comment": "test comment",
    "density": 2.0,
    "poresize": 14,
    "molar_mass": 10.0,
}


def finish():
    shutil.rmtree(WORK, ignore_errors=True)
    sys.stdout.write("\n".join(OUT) + "\n")


# ---------------------------------------------------------------- shared history scenarios


def common_histories(EMPTY, FULL):
    """Interleaved histories over several database files (run by every diff script)."""
    # H1: property types: upload, duplicate, overwrite, overwrite-absent, get, delete, delete again
    db = fresh(EMPTY)
    for fam, to_db, from_db, del_db, cols in (
        (
            "ads", pgsql.adsorbate_property_type_to_db, pgsql.adsorbate_property_types_from_db,
            pgsql.adsorbate_property_type_delete_db, True
        ),
        (
            "mat", pgsql.material_property_type_to_db, pgsql.material_property_types_from_db,
            pgsql.material_property_type_delete_db, True
        ),
        (
            "isoprop", pgsql.isotherm_property_type_to_db, pgsql.isotherm_property_types_from_db,
            pgsql.isotherm_property_type_delete_db, True
        ),
        (
            "isotype", pgsql.isotherm_type_to_db, pgsql.isotherm_types_from_db,
            pgsql.isotherm_type_delete_db, False
        ),
    ):
        td = {"type": "prop", "unit": "u", "description": "d"}
        call(f"H1 {fam} upload", to_db, td, db_path=db)
        call(f"H1 {fam} duplicate", to_db, td, db_path=db)
        call(f"H1 {fam} upload type only", to_db, {"type": "only"}, db_path=db, verbose=False)
        call(f"H1 {fam} upload no type", to_db, {"unit": "x"}, db_path=db)
        call(f"H1 {fam} upload empty", to_db, {}, db_path=db)
        call(
            f"H1 {fam} overwrite", to_db, {
                "type": "prop",
                "unit": "u2",
                "description": None
            },
            db_path=db,
            overwrite=True
        )
        call(f"H1 {fam} overwrite absent", to_db, {"type": "absent", "unit": "q"}, db, True)
        call(f"H1 {fam} get", from_db, db_path=db)
        call(f"H1 {fam} get positional", from_db, db, False)
        call(f"H1 {fam} delete", del_db, "prop", db_path=db)
        call(f"H1 {fam} delete again", del_db, "prop", db_path=db)
        call(f"H1 {fam} delete None", del_db, None, db_path=db)
        call(f"H1 {fam} delete positional quiet", del_db, "only", db, False)
        call(f"H1 {fam} get after", from_db, db_path=db, verbose=False)
    dump(db, "H1")

    # H2: adsorbates on two files; second file must be unaffected
    db1, db2 = fresh(EMPTY), fresh(EMPTY)
    ads = pygaps.Adsorbate(**ADS_DATA)
    blank = pygaps.Adsorbate("blank")
    lists("H2 start")
    call("H2 ads upload db1", pgsql.adsorbate_to_db, ads, db_path=db1)
    call("H2 ads blank upload db1", pgsql.adsorbate_to_db, blank, db_path=db1)
    call("H2 ads duplicate db1", pgsql.adsorbate_to_db, ads, db_path=db1)
    call("H2 ads get db1", pgsql.adsorbates_from_db, db_path=db1)
    call("H2 ads get db2", pgsql.adsorbates_from_db, db_path=db2)
    call("H2 ads overwrite absent db2", pgsql.adsorbate_to_db, ads, db_path=db2, overwrite=True)
    call("H2 ads upload db2 no autoinsert", pgsql.adsorbate_to_db, ads, db2, False)
    dump(db2, "H2 db2 after refused")
    ads.properties["formula"] = "newform"
    ads.properties["extra_list"] = [1.5, 2.5, "three"]
    call("H2 ads overwrite db1", pgsql.adsorbate_to_db, ads, db_path=db1, overwrite=True)
    call("H2 ads get db1 after overwrite", pgsql.adsorbates_from_db, db_path=db1, verbose=False)
    lists("H2 mid")
    dump(db1, "H2 db1")
    call("H2 ads delete obj db1", pgsql.adsorbate_delete_db, ads, db_path=db1)
    call("H2 ads delete str db1", pgsql.adsorbate_delete_db, "blank", db_path=db1)
    call("H2 ads delete again db1", pgsql.adsorbate_delete_db, ads, db_path=db1)
    call("H2 ads delete absent str db2", pgsql.adsorbate_delete_db, "blank", db2, False)
    call("H2 ads overwrite after delete db1", pgsql.adsorbate_to_db, ads, db1, True, True)
    call("H2 ads re-upload db1", pgsql.adsorbate_to_db, ads, db_path=db1, verbose=False)
    call("H2 ads get db1 end", pgsql.adsorbates_from_db, db_path=db1)
    lists("H2 end")
    dump(db1, "H2 db1 end")
    dump(db2, "H2 db2 end")

    # H3: materials
    db1, db2 = fresh(EMPTY), fresh(EMPTY)
    mat = pygaps.Material(**MAT_DATA)
    lists("H3 start")
    call("H3 mat upload db1", pgsql.material_to_db, mat, db_path=db1)
    call("H3 mat blank upload db1", pgsql.material_to_db, pygaps.Material("blank"), db_path=db1)
    call("H3 mat duplicate db1", pgsql.material_to_db, mat, db_path=db1)
    call("H3 mat get db1", pgsql.materials_from_db, db_path=db1)
    call("H3 mat get db2", pgsql.materials_from_db, db2)
    call("H3 mat no autoinsert db2", pgsql.material_to_db, mat, db_path=db2, autoinsert_properties=False)
    dump(db2, "H3 db2 after refused")
    mat.properties["comment"] = "New comment"
    mat.properties["multi"] = ("a", "b", 3)
    call("H3 mat overwrite db1", pgsql.material_to_db, mat, overwrite=True, db_path=db1)
    call("H3 mat overwrite absent db2", pgsql.material_to_db, mat, overwrite=True, db_path=db2)
    call("H3 mat get db1 after overwrite", pgsql.materials_from_db, db_path=db1)
    bad = pygaps.Material("bad", weird={"a": 1})
    call("H3 mat unsupported value db1", pgsql.material_to_db, bad, db_path=db1)
    none = pygaps.Material("nonev", nothing=None)
    call("H3 mat None value db1", pgsql.material_to_db, none, db_path=db1)
    dump(db1, "H3 db1")
    call("H3 mat delete obj db1", pgsql.material_delete_db, mat, db_path=db1)
    call("H3 mat delete str db1", pgsql.material_delete_db, "blank", db_path=db1)
    call("H3 mat delete again db1", pgsql.material_delete_db, mat, db_path=db1)
    call("H3 mat delete absent db2", pgsql.material_delete_db, "TEST", db2, False)
    call("H3 mat re-upload db1", pgsql.material_to_db, mat, db_path=db1, verbose=False)
    lists("H3 end")
    dump(db1, "H3 db1 end")
    dump(db2, "H3 db2 end")

    # H4: isotherms of the three kinds with autoinsert into an empty database
    db1, db2 = fresh(EMPTY), fresh(EMPTY)
    isos = {
        "base":
        mk_base(comment="c", flag_t=True, flag_f=False, number=3, real=2.5, text_true="TRUE"),
        "point":
        mk_point(
            data=mk_data(
                8,
                enthalpy=[5.2, 5.1, 5.0, 5.0, 5.0, 5.0, 4.0, 4.0],
                text_data=list("abcdefgh"),
            ),
            material="MAT2",
            adsorbate="N2",
            temperature=77.0,
            user="TU",
            checked=True,
        ),
        "point_plain":
        mk_point(material="MAT2", adsorbate="CO2", temperature=303.15),
        "model":
        mk_model("Henry", material="TEST", adsorbate="TA", temperature=120, origin="fit"),
        "model2":
        mk_model("Langmuir", material="MAT3", adsorbate="methane", temperature=298.0),
    }
    for key, iso in isos.items():
        call(f"H4 upload {key} db1", pgsql.isotherm_to_db, iso, db_path=db1)
    for key, iso in isos.items():
        call(f"H4 duplicate {key} db1", pgsql.isotherm_to_db, iso, db_path=db1, verbose=False)
    dump(db1, "H4 db1 after uploads")
    call("H4 get all db2 (other file)", pgsql.isotherms_from_db, db_path=db2)
    got = call("H4 get all db1", pgsql.isotherms_from_db, db_path=db1)
    emit("  equal to stored:", canon([g in list(isos.values()) for g in got or []]))
    for crit in (
        None, {}, {
            "material": "MAT2"
        }, {
            "adsorbate": "TA",
            "material": "TEST"
        }, {
            "temperature": 77
        }, {
            "temperature": "77"
        }, {
            "iso_type": "modelisotherm"
        }, {
            "material": "absent"
        }, {
            "id": isos["model"].iso_id
        }, {
            "nonexistent_column": 1
        }
    ):
        call(f"H4 get criteria {canon(crit)}", pgsql.isotherms_from_db, crit, db1, False)
    call("H4 upload no autoinsert db2", pgsql.isotherm_to_db, isos["point"], db2, False, False)
    call("H4 upload autoinsert mat only db2", pgsql.isotherm_to_db, isos["point"], db2, True, False)
    call("H4 upload autoinsert ads only db2", pgsql.isotherm_to_db, isos["point"], db2, False, True)
    dump(db2, "H4 db2 after refused uploads")
    call("H4 ads delete referenced db1", pgsql.adsorbate_delete_db, "TA", db_path=db1)
    call("H4 mat delete referenced db1", pgsql.material_delete_db, "TEST", db_path=db1)
    call("H4 isotype delete referenced db1", pgsql.isotherm_type_delete_db, "isotherm", db_path=db1)
    # retrieval then delete through the retrieved object
    for g in got or []:
        if g.material == "MAT2":
            call(f"H4 delete retrieved {type(g).__name__}", pgsql.isotherm_delete_db, g, db_path=db1)
    call("H4 delete by id", pgsql.isotherm_delete_db, isos["model"].iso_id, db_path=db1)
    call("H4 delete again", pgsql.isotherm_delete_db, isos["model"], db_path=db1)
    call("H4 delete absent db2", pgsql.isotherm_delete_db, isos["base"], db2, False)
    call("H4 delete None", pgsql.isotherm_delete_db, None, db_path=db1)
    call("H4 get after deletes", pgsql.isotherms_from_db, db_path=db1)
    call("H4 re-upload after delete", pgsql.isotherm_to_db, isos["model"], db_path=db1)
    call("H4 mat delete unreferenced", pgsql.material_delete_db, "MAT2", db_path=db1)
    dump(db1, "H4 db1 end")
    dump(db2, "H4 db2 end")
    lists("H4 end")

    # H5: isotherm error paths
    db = fresh(EMPTY)
    call("H5 not an isotherm", pgsql.isotherm_to_db, "nope", db_path=db)
    call("H5 not an isotherm no autoinsert", pgsql.isotherm_to_db, 5, db, False, False)
    call("H5 None prop", pgsql.isotherm_to_db, mk_base(nothing=None), db_path=db)
    call("H5 list prop", pgsql.isotherm_to_db, mk_base(lst=[1, 2]), db_path=db)
    call("H5 dict prop", pgsql.isotherm_to_db, mk_point(dct={"a": 1}), db_path=db)
    odd = mk_point(data=mk_data(4, nothing=[None, None, None, None]))
    call("H5 unsupported other data", pgsql.isotherm_to_db, odd, db_path=db)
    odd = mk_point(data=mk_data(4, enthalpy=[1.0, 2.0, 3.0, 4.0], count=[1, 2, 3, 4]))
    call("H5 unsupported int64 other data", pgsql.isotherm_to_db, odd, db_path=db)
    odd = mk_point(data=mk_data(4, mask=[True, False, True, False]))
    call("H5 unsupported bool_ other data", pgsql.isotherm_to_db, odd, db_path=db)
    call("H5 cursor=None kwarg", pgsql.isotherm_to_db, mk_base(), db_path=db, cursor=None)
    call("H5 too many positionals", pgsql.isotherm_delete_db, "x", db, False, 1, 2)
    call("H5 bad path", pgsql.isotherms_from_db, db_path=os.path.join(WORK, "no", "such", "dir.db"))
    call("H5 get", pgsql.isotherms_from_db, db_path=db)
    dump(db, "H5 end (nothing may have changed)")

    # H6: full database (db_create): library adsorbates present, no autoinsert needed
    db = fresh(FULL)
    iso = mk_point(material="ZIF-8", adsorbate="nitrogen", temperature=77.355, t_flag=False)
    call("H6 upload full", pgsql.isotherm_to_db, iso, db_path=db)
    call("H6 get crit", pgsql.isotherms_from_db, {"adsorbate": "nitrogen"}, db_path=db)
    call("H6 n ads", lambda: len(pgsql.adsorbates_from_db(db_path=db, verbose=False)))
    call("H6 ads duplicate", pgsql.adsorbate_to_db, pygaps.Adsorbate("nitrogen"), db_path=db)
    call("H6 ads delete referenced", pgsql.adsorbate_delete_db, "nitrogen", db_path=db)
    call("H6 iso delete", pgsql.isotherm_delete_db, iso, db_path=db)
    call("H6 ads delete now", pgsql.adsorbate_delete_db, pygaps.Adsorbate("nitrogen"), db_path=db)
    call("H6 n ads after", lambda: len(pgsql.adsorbates_from_db(db_path=db, verbose=False)))
    dump(db, "H6 end")
    lists("H6 end")


# ---------------------------------------------------------------- specific to change 1: with_connection


def specific_1(EMPTY):
    import inspect
    import pathlib

    from pygaps.utilities.exceptions import ParsingError

    default_db = fresh(EMPTY)
    pgsql.DATABASE = default_db  # never touch the packaged default.db
    other_db = fresh(EMPTY)
    seen = {}

    def n_types(path):
        return [r[1] for r in _rows(path, "isotherm_type")]

    def body(tag, cursor, action):
        seen["conn"] = cursor.connection
        emit("   in body: row_factory is Row:", cursor.connection.row_factory is sqlite3.Row,
             "fk:", canon(cursor.execute("PRAGMA foreign_keys").fetchone()),
             "in_transaction(before):", cursor.connection.in_transaction)
        cursor.execute("INSERT INTO isotherm_type (type) VALUES (?)", (tag, ))
        if isinstance(action, BaseException):
            raise action
        return action

    @pgsql.with_connection
    def f_std(thing, db_path=None, verbose=True, **kwargs):
        """doc of f_std"""
        return body(thing, kwargs["cursor"], verbose)

    @pgsql.with_connection
    def f_first(db_path, thing="dflt", action=None, **kwargs):
        return body(thing, kwargs["cursor"], action)

    @pgsql.with_connection
    def f_third(a, b, db_path=None, action=None, **kwargs):
        return body(a, kwargs["cursor"], action)

    @pgsql.with_connection
    def f_nopath(thing, action=None, **kwargs):
        return body(thing, kwargs["cursor"], action)

    @pgsql.with_connection
    def f_kwonly(thing, *, db_path=None, action=None, cursor=None):
        return body(thing, cursor, action)

    @pgsql.with_connection
    def f_varargs(*things, db_path=None, **kwargs):
        return body(things[0], kwargs["cursor"], len(things))

    def closed():
        try:
            seen["conn"].execute("SELECT 1")
            return False
        except sqlite3.ProgrammingError as err:
            return str(err)

    def run(label, func, *args, **kwargs):
        seen.pop("conn", None)
        call(label, func, *args, **kwargs)
        emit("   closed:", closed() if "conn" in seen else "n/a", "| default:", canon(n_types(default_db)[3:]),
             "| other:", canon(n_types(other_db)[3:]))

    emit("WRAPS", f_std.__name__, repr(f_std.__doc__), f_std.__wrapped__.__name__,
         str(inspect.signature(f_std)))
    for name in sorted(n for n in dir(pgsql) if n.endswith(("_to_db", "_from_db", "_delete_db"))):
        fn = getattr(pgsql, name)
        emit("SIG", name, fn.__name__, fn.__qualname__, fn.__module__, str(inspect.signature(fn)),
             hasattr(fn, "__wrapped__"), len(fn.__doc__ or ""))

    run("w01 kw path", f_std, "w01", db_path=other_db)
    run("w02 positional path", f_std, "w02", other_db)
    run("w03 positional path + verbose result", f_std, "w03", other_db, "retval")
    run("w04 no path -> default", f_std, "w04")
    run("w05 kw None -> default", f_std, "w05", db_path=None)
    run("w06 positional None -> default", f_std, "w06", None, 7)
    run("w07 empty string -> default", f_std, "w07", db_path="")
    run("w08 positional empty string -> default", f_std, "w08", "")
    run("w09 pathlib kw", f_std, "w09", db_path=pathlib.Path(other_db))
    run("w10 pathlib positional", f_std, "w10", pathlib.Path(other_db))
    run("w11 path first positional", f_first, other_db, "w11")
    run("w12 path first kw", f_first, db_path=other_db, thing="w12")
    run("w13 path first missing", f_first, thing="w13")
    run("w14 path third positional", f_third, "w14", "b", other_db)
    run("w15 path third not reached", f_third, "w15", "b")
    run("w16 path third kw", f_third, "w16", b=1, db_path=other_db)
    run("w17 func without db_path param", f_nopath, "w17")
    run("w18 func without db_path param, extra kw db_path", f_nopath, "w18", db_path=other_db)
    run("w19 kw-only path", f_kwonly, "w19", db_path=other_db)
    run("w20 kw-only path given positionally", f_kwonly, "w20", other_db)
    run("w21 varargs", f_varargs, "w21", other_db, "x")
    run("w22 varargs kw", f_varargs, "w22", "y", db_path=other_db)
    run("w23 kw None but positional too", f_std, "w23", other_db, db_path=None)
    run("w24 both positional and kw path", f_std, "w24", other_db, db_path=default_db)
    run("w25 too many positionals", f_std, "w25", other_db, True, "extra")
    run("w26 missing required", f_std, db_path=other_db)
    run("w27 cursor=None", f_std, "w27", db_path=other_db, cursor=None)
    run("w28 cursor=0", f_std, "w28", other_db, cursor=0)
    run("w29 duplicate -> IntegrityError -> ParsingError", f_std, "w01", db_path=other_db)
    for i, exc in enumerate((
        sqlite3.IntegrityError("custom integrity"),
        sqlite3.InterfaceError("custom interface"),
        sqlite3.OperationalError("custom operational"),
        sqlite3.ProgrammingError("custom programming"),
        sqlite3.DataError("custom data"),
        sqlite3.DatabaseError("custom database"),
        sqlite3.Error("custom error"),
        sqlite3.Warning("custom warning"),
        ParsingError("custom parsing"),
        ValueError("custom value"),
        KeyError("custom key"),
        KeyboardInterrupt("custom interrupt"),
        StopIteration("custom stop"),
    )):
        run(f"w3{i:x} raising {type(exc).__name__} kw", f_first, db_path=other_db, thing=f"e{i}", action=exc)
        run(f"w4{i:x} raising {type(exc).__name__} positional", f_first, other_db, f"p{i}", exc)
        run(f"w5{i:x} raising {type(exc).__name__} default db", f_nopath, f"d{i}", exc)
    run("w60 bad directory", f_std, "w60", db_path=os.path.join(WORK, "no", "dir", "x.db"))
    run("w61 bad path type", f_std, "w61", db_path=5.5)
    run("w62 bad positional path type", f_std, "w62", ["a"])
    run("w63 directory as path", f_std, "w63", WORK)
    new_db = os.path.join(WORK, "created_on_connect.db")
    run("w64 new file no schema", f_std, "w64", new_db)
    emit("   created:", os.path.exists(new_db), os.path.getsize(new_db) if os.path.exists(new_db) else -1)

    # pass-through with an existing cursor: no commit, no close, caller's transaction
    con = sqlite3.connect(other_db)
    con.row_factory = sqlite3.Row
    cur = con.cursor()
    run("w70 existing cursor", f_std, "w70", cursor=cur)
    run("w71 existing cursor + ignored path", f_std, "w71", default_db, cursor=cur)
    run("w72 existing cursor raising IntegrityError (not converted)", f_first, None, "w70", cursor=cur)
    emit("   caller in_transaction:", con.in_transaction, "still open:", con.execute("SELECT 1").fetchone()[0])
    con.rollback()
    con.close()
    run("w73 after caller rollback", f_std, "w73", other_db)

    # nested library calls share one transaction: refused isotherm upload undoes auto-inserted material
    db = fresh(EMPTY)
    iso = mk_base(material="NESTMAT", adsorbate="NESTADS")
    con = sqlite3.connect(db)
    con.execute("DELETE FROM isotherm_type WHERE type = 'isotherm'")
    con.commit()
    con.close()
    call("w80 nested refused", pgsql.isotherm_to_db, iso, db)
    dump(db, "w80")
    lists("w80")
    dump(default_db, "default end")
    dump(other_db, "other end")


if __name__ == "__main__":
    EMPTY = make_empty_template()
    FULL = make_full_template()
    try:
        specific_1(EMPTY)
        pgsql.DATABASE = fresh(EMPTY)
        common_histories(EMPTY, FULL)
    finally:
        finish()
