"""Shared helpers of the differential scripts (canonical printing, fixtures, log capture)."""
import logging
import os
import warnings

import numpy
import pandas

warnings.filterwarnings("ignore")

import pygaps  # noqa: E402

assert pygaps.__file__.startswith("/tmp/eq2/C02/src/"), pygaps.__file__

# ---------------------------------------------------------------- log capture
LOG = []


class _Collect(logging.Handler):
    def emit(self, record):
        LOG.append(f"{record.levelname}:{record.getMessage()}")


_logger = logging.getLogger("pygaps")
for _h in list(_logger.handlers):
    _logger.removeHandler(_h)
_logger.addHandler(_Collect())


def take_log():
    out = list(LOG)
    LOG.clear()
    return out


# ---------------------------------------------------------------- canonical text
# EQ_EXACT=1 prints full float repr (used to double check bit-identity); default: 12 significant digits
EXACT = bool(os.environ.get("EQ_EXACT"))


def fmt(x):
    if x is None or isinstance(x, (str, bool)):
        return repr(x)
    if isinstance(x, (int, numpy.integer)):
        return f"int:{int(x)}"
    if isinstance(x, (float, numpy.floating)):
        return repr(float(x)) if EXACT else f"{float(x):.12g}"
    if isinstance(x, pandas.Series):
        return "Series[" + x.dtype.name + "](" + ", ".join(fmt(v) for v in x.tolist()) + ")"
    if isinstance(x, numpy.ndarray):
        return "array[" + x.dtype.name + "](" + ", ".join(fmt(v) for v in x.tolist()) + ")"
    if isinstance(x, (list, tuple)):
        return type(x).__name__ + "(" + ", ".join(fmt(v) for v in x) + ")"
    if isinstance(x, dict):
        return "{" + ", ".join(f"{k!r}: {fmt(v)}" for k, v in x.items()) + "}"
    return f"{type(x).__name__}:{x!r}"


def call(label, func, *args, **kwargs):
    """Run func, print canonical result or exception (+ log lines)."""
    try:
        res = func(*args, **kwargs)
        text = "-> " + fmt(res)
    except Exception as err:  # noqa: BLE001
        text = f"!! {type(err).__name__}: {err}"
        if err.__cause__ is not None:
            text += f" <- {type(err.__cause__).__name__}: {err.__cause__}"
    print(f"{label} {text}")
    for line in take_log():
        print(f"    log {line}")


# ---------------------------------------------------------------- fixtures
def setup_lists():
    mat = pygaps.Material(name="TEST", density=2.0, molar_mass=10.0, batch="TB")
    pygaps.MATERIAL_LIST.append(mat)
    nodens = pygaps.Material(name="NOPROP")
    pygaps.MATERIAL_LIST.append(nodens)
    ads = pygaps.Adsorbate(
        name="TA", alias=["ta"], formula="TA21", backend_name="NITROGEN", molar_mass=28.01348
    )
    pygaps.ADSORBATE_LIST.append(ads)
    take_log()
    return mat, ads


DATA = {
    "pressure": [0.01, 0.05, 0.2, 0.5, 0.9, 0.6, 0.3],
    "loading": [0.0, 1.5, 3.25, 4.0, 7.125, 6.5, 5.0],
    "enthalpy": [5.2, 5.1, 5.0, 5.0, 5.0, 4.0, 4.0],
    "text_data": ["a", "b", "c", "d", "e", "f", "g"],
}


def make_iso(**over):
    params = {
        "material": "TEST",
        "adsorbate": "TA",
        "temperature": 77.0,
        "material_basis": "mass",
        "material_unit": "g",
        "loading_basis": "molar",
        "loading_unit": "mmol",
        "pressure_mode": "absolute",
        "pressure_unit": "bar",
        "temperature_unit": "K",
        "comment": "meta",
        "DOI": "dx.doi/10.0000",
    }
    params.update(over)
    iso = pygaps.PointIsotherm(
        isotherm_data=pandas.DataFrame(DATA),
        pressure_key="pressure",
        loading_key="loading",
        **params,
    )
    take_log()
    return iso


def state(iso):
    """Canonical text of everything a conversion could touch."""
    parts = [fmt(iso.units)]
    try:
        parts.append("T=" + fmt(iso.temperature))
    except Exception as err:  # noqa: BLE001
        parts.append(f"T!!{type(err).__name__}: {err}")
    parts.append("_T=" + fmt(iso._temperature))
    parts.append("cols=" + repr(list(iso.data_raw.columns)))
    for col in iso.data_raw.columns:
        parts.append(f"{col}=" + fmt(iso.data_raw[col]))
    parts.append("index=" + repr(list(iso.data_raw.index)))
    parts.append("props=" + repr(iso.properties))
    parts.append(f"interp=({iso.l_interpolator!r},{iso.p_interpolator!r})")
    parts.append("attrs=" + repr(sorted(vars(iso))))
    return "\n      ".join(parts)


def step(iso, label, method, *args, **kwargs):
    """Apply one conversion call to iso and print outcome + full state."""
    try:
        res = getattr(iso, method)(*args, **kwargs)
        text = "-> " + fmt(res)
    except Exception as err:  # noqa: BLE001
        text = f"!! {type(err).__name__}: {err}"
        if err.__cause__ is not None:
            text += f" <- {type(err.__cause__).__name__}: {err.__cause__}"
    print(f"{label} {method}{args}{sorted(kwargs.items())} {text}")
    for line in take_log():
        print(f"    log {line}")
    print("      " + state(iso))
