"""Shared helpers for the C06 differential scripts: canonical printing, log capture, case builders."""
import copy
import logging
import math
import os
import sys
import tempfile

import numpy
import pandas

import pygaps
from pygaps import logger
from pygaps.core.baseisotherm import BaseIsotherm
from pygaps.core.material import Material
from pygaps.core.modelisotherm import ModelIsotherm
from pygaps.core.pointisotherm import PointIsotherm
from pygaps.modelling import _MODELS
from pygaps.modelling import get_isotherm_model

assert pygaps.__file__.startswith('/tmp/eq2/C06/src'), pygaps.__file__

TMPDIR = tempfile.mkdtemp(prefix='tmp_', dir=os.path.dirname(os.path.abspath(__file__)))
import atexit
import shutil
atexit.register(shutil.rmtree, TMPDIR, ignore_errors=True)


class _ListHandler(logging.Handler):
    def __init__(self):
        super().__init__(level=logging.DEBUG)
        self.records = []

    def emit(self, record):
        self.records.append(f"{record.levelname}:{record.getMessage()}")


LOG = _ListHandler()
logger.addHandler(LOG)
for _h in list(logger.handlers):
    if _h is not LOG:
        logger.removeHandler(_h)
logger.propagate = False


def fnum(x):
    """Number with 12 significant digits, type-tagged."""
    if isinstance(x, (bool, numpy.bool_)):
        return f"{type(x).__name__}:{bool(x)}"
    if isinstance(x, (int, numpy.integer)):
        return f"{type(x).__name__}:{int(x)}"
    x_f = float(x)
    if math.isnan(x_f) or math.isinf(x_f):
        return f"{type(x).__name__}:{x_f!r}"
    return f"{type(x).__name__}:{x_f:.12g}"


def canon(obj):
    """Canonical, type-revealing text of (nested) results."""
    if obj is None or isinstance(obj, str):
        return f"{type(obj).__name__}:{obj!r}"
    if isinstance(obj, (bool, numpy.bool_, int, float, numpy.integer, numpy.floating)):
        return fnum(obj)
    if isinstance(obj, dict):
        # keep the insertion order visible AND the content
        return type(obj).__name__ + "{" + ", ".join(f"{canon(k)}: {canon(v)}" for k, v in obj.items()) + "}"
    if isinstance(obj, (list, tuple)):
        return type(obj).__name__ + "[" + ", ".join(canon(v) for v in obj) + "]"
    if isinstance(obj, numpy.ndarray):
        return f"ndarray<{obj.dtype}>[" + ", ".join(canon(v) for v in obj.tolist()) + "]"
    if isinstance(obj, pandas.DataFrame):
        cols = []
        for col in obj.columns:
            ser = obj[col]
            cols.append(f"{col!r}<{ser.dtype}>[" + ", ".join(canon(v) for v in ser.tolist()) + "]")
        return f"DataFrame(index={list(obj.index)!r}; " + "; ".join(cols) + ")"
    if isinstance(obj, pandas.Series):
        return f"Series<{obj.dtype}>[" + ", ".join(canon(v) for v in obj.tolist()) + "]"
    if isinstance(obj, Material):
        return f"Material({obj.name!r}, {canon(obj.properties)})"
    if isinstance(obj, BaseIsotherm):
        return describe_iso(obj)
    return f"{type(obj).__name__}:{obj!r}"


PRED_P = [0.01, 0.1, 0.5, 1.0, 2.5]
PRED_L = [0.05, 0.2, 0.7]


def describe_iso(iso):
    parts = [type(iso).__name__, "id=" + iso.iso_id, "to_dict=" + canon(iso.to_dict())]
    parts.append("material=" + canon(iso.material))
    parts.append("adsorbate=" + repr(str(iso.adsorbate)))
    parts.append("T=" + fnum(iso.temperature))
    parts.append("units=" + canon(iso.units))
    parts.append("properties=" + canon(iso.properties))
    if isinstance(iso, PointIsotherm):
        parts.append("keys=" + canon([iso.pressure_key, iso.loading_key]))
        parts.append("data=" + canon(iso.data_raw))
    if isinstance(iso, ModelIsotherm):
        mod = iso.model
        parts.append("branch=" + canon(iso.branch))
        parts.append("model=" + type(mod).__name__ + canon(mod.to_dict()))
        parts.append("bounds=" + canon(mod.param_bounds))
        for name, fun, pts in (("L", mod.loading, PRED_P), ("P", mod.pressure, PRED_L)):
            vals = []
            for x in pts:
                try:
                    vals.append(fnum(fun(x)))
                except Exception as err:  # pylint: disable=broad-except
                    vals.append(f"{type(err).__name__}")
            parts.append(f"{name}=" + ",".join(vals))
    return "<" + " | ".join(parts) + ">"


def show_exc(err):
    chain = []
    while err is not None:
        chain.append(f"{type(err).__name__}: {err}")
        err = err.__cause__
    return " <- ".join(chain)


def run(label, func):
    """Run a case, print the canonical result or exception, plus captured log messages."""
    LOG.records.clear()
    try:
        res = func()
        text = "OK " + canon(res)
    except Exception as err:  # pylint: disable=broad-except
        text = "EXC " + show_exc(err)
    print(f"### {label}")
    print(text.replace(TMPDIR, '<TMP>'))
    for rec in LOG.records:
        print("   log> " + rec.replace(TMPDIR, '<TMP>'))
    sys.stdout.flush()


# ----------------------------------------------------------------------------
# case builders

UNITS = {
    'std': dict(pressure_mode='absolute', pressure_unit='bar', material_basis='mass', material_unit='g',
                loading_basis='molar', loading_unit='mmol', temperature_unit='K'),
    'rel': dict(pressure_mode='relative', pressure_unit='bar', material_basis='mass', material_unit='kg',
                loading_basis='mass', loading_unit='g', temperature_unit='K'),
    'relpc': dict(pressure_mode='relative%', pressure_unit=None, material_basis='volume', material_unit='cm3',
                  loading_basis='volume_gas', loading_unit='cm3', temperature_unit='°C'),
    'frac': dict(pressure_mode='absolute', pressure_unit='kPa', material_basis='mass', material_unit='g',
                 loading_basis='fraction', loading_unit=None, temperature_unit='K'),
    'pct': dict(pressure_mode='absolute', pressure_unit='torr', material_basis='molar', material_unit='mol',
                loading_basis='percent', loading_unit=None, temperature_unit='K'),
    'liq': dict(pressure_mode='absolute', pressure_unit='Pa', material_basis='mass', material_unit='mg',
                loading_basis='volume_liquid', loading_unit='cm3', temperature_unit='K'),
}

META = {
    'none': {},
    'text': {'comment': 'ünïcödé ✓ 测试', 'iso_type': 'Isotherme', 'user': "O'Neil \"q\" \\ /"},
    'looks': {'a_num': '12', 'a_float': '1e-3', 'a_bool': 'True', 'a_none': 'None', 'a_nan': 'nan', 'empty': ''},
    'nums': {'i': 3, 'f': 3.0, 'neg': -2.5e-7, 'big': 12345678901234567890, 'b_t': True, 'b_f': False, 'zero': 0},
    'lists': {'lst': [1, 2.5, 'x', True, None, [1, [2]]], 'empty_l': [], 'nested': {'k': {'kk': [1, 'a']}, 'z': None}},
    'nulls': {'nothing': None},
}

MATERIALS = {
    'name': 'TEST-mat',
    'props': {'name': 'MOF-ü', 'density': 2.0, 'molar_mass': 100, 'batch': 'X1', 'lst': [1, 2], 'flag': True},
    'nested': {'name': 'M2', 'sub': {'a': 1, 'b': [1.5, 'c']}, 'comment': '12'},
    'only_name': {'name': 'just-a-name'},
}


def base_kwargs(units='std', meta='none', material='name', adsorbate='N2', temperature=77.0):
    mat = copy.deepcopy(MATERIALS[material])
    kw = dict(material=mat, adsorbate=adsorbate, temperature=temperature)
    kw.update(copy.deepcopy(UNITS[units]))
    kw.update(copy.deepcopy(META[meta]))
    return kw


def base_cases():
    cases = {}
    combos = [
        ('std', 'none', 'name', 'N2', 77.0), ('rel', 'text', 'props', 'CO2', 303), ('relpc', 'looks', 'nested', 'water', 25),
        ('frac', 'nums', 'only_name', 'unknown-gas', 298.15), ('pct', 'lists', 'props', 'n-butane', 273.15),
        ('liq', 'nulls', 'name', 'Ar', '87.3'), ('std', 'lists', 'nested', 'N2', 77),
    ]
    for units, meta, mat, ads, temp in combos:
        cases[f"base/{units}/{meta}/{mat}"] = (lambda u=units, m=meta, ma=mat, a=ads, t=temp: BaseIsotherm(**base_kwargs(u, m, ma, a, t)))
    return cases


P5 = [0.1, 0.5, 1.0, 0.6, 0.2]
L5 = [1.0, 2.5, 3.0, 2.8, 1.5]


def point_cases():
    cases = {}

    def mk(name, units='std', meta='none', mat='name', **kw):
        cases["point/" + name] = lambda: PointIsotherm(**kw, **base_kwargs(units, meta, mat))

    mk('guess5', pressure=P5, loading=L5)
    mk('ads5', pressure=P5, loading=L5, branch='ads', meta='text', mat='props')
    mk('des5', pressure=P5, loading=L5, branch='des', units='rel', meta='looks')
    mk('user_bool', pressure=P5, loading=L5, branch=[True, False, True, False, False], units='frac', meta='nums')
    mk('user_int', pressure=P5, loading=L5, branch=[0, 1, 1, 0, 1], units='pct', meta='lists', mat='nested')
    mk('one_point', pressure=[0.3], loading=[1.1], units='relpc')
    mk('one_point_des', pressure=[0.3], loading=[1.1], branch='des', units='liq')
    mk('ints', pressure=[1, 2, 3, 2], loading=[1, 2, 3, 2], meta='nulls')
    mk('two_same', pressure=[1.0, 1.0], loading=[2.0, 2.0])
    cases['point/empty'] = lambda: PointIsotherm(pressure=[], loading=[], branch='ads', **base_kwargs())

    def df_extra():
        return pandas.DataFrame({
            'p': P5, 'n': L5, 'enthalpy': [5.5, 4.0, numpy.nan, 3.0, 2.0],
            'note': ['a', 'b', 'des', '1', ''], 'count': [1, 2, 3, 4, 5], 'Zed': [True, False, True, True, False],
        })
    cases['point/df_extra'] = lambda: PointIsotherm(
        isotherm_data=df_extra(), pressure_key='p', loading_key='n', **base_kwargs('std', 'text', 'props'))
    cases['point/df_extra_des'] = lambda: PointIsotherm(
        isotherm_data=df_extra(), pressure_key='p', loading_key='n', branch='des', **base_kwargs('rel', 'nums'))

    def df_branch():
        data = df_extra()
        data['branch'] = [0, 0, 1, 1, 0]
        return data
    cases['point/df_branchcol'] = lambda: PointIsotherm(
        isotherm_data=df_branch(), pressure_key='p', loading_key='n', **base_kwargs('frac', 'lists', 'nested'))

    def df_index():
        data = df_extra()
        data.index = [10, 20, 30, 40, 50]
        return data
    cases['point/df_index'] = lambda: PointIsotherm(
        isotherm_data=df_index(), pressure_key='p', loading_key='n', **base_kwargs())

    def df_dupindex():
        data = df_extra()
        data.index = [1, 1, 2, 2, 3]
        return data
    cases['point/df_dupindex'] = lambda: PointIsotherm(
        isotherm_data=df_dupindex(), pressure_key='p', loading_key='n', branch='ads', **base_kwargs())

    def nobranch():
        iso = PointIsotherm(pressure=P5, loading=L5, **base_kwargs())
        iso.data_raw = iso.data_raw.drop(columns='branch')
        return iso
    cases['point/nobranch_column'] = nobranch

    def nanbranch():
        iso = PointIsotherm(pressure=P5, loading=L5, **base_kwargs())
        iso.data_raw['branch'] = [0.0, numpy.nan, 1.0, 2.0, 0.0]
        return iso
    cases['point/odd_branch_values'] = nanbranch
    return cases


MODEL_PARAMS = {
    'Henry': {'K': 2.5},
    'Langmuir': {'K': 3.0, 'n_m': 4},
    'DSLangmuir': {'n_m1': 2.0, 'K1': 5.0, 'n_m2': 1.5, 'K2': 0.5},
    'TSLangmuir': {'n_m1': 2.0, 'n_m2': 1.0, 'n_m3': 0.5, 'K1': 5.0, 'K2': 1, 'K3': 0.1},
    'BET': {'n_m': 3.0, 'C': 50.0, 'N': 0.1},
    'GAB': {'n_m': 3.0, 'C': 20.0, 'K': 0.2},
    'Freundlich': {'K': 2.0, 'm': 2.5},
    'DA': {'n_m': 5.0, 'e': 8000.0, 'm': 2.2},
    'DR': {'n_m': 5.0, 'e': 9000.0},
    'Quadratic': {'n_m': 2.0, 'Ka': 1.5, 'Kb': 0.7},
    'TemkinApprox': {'n_m': 3.0, 'K': 2.0, 'tht': -0.1},
    'Virial': {'K': 3.0, 'A': 0.1, 'B': 0.01, 'C': 0.001},
    'Toth': {'n_m': 4.0, 'K': 2.0, 't': 0.8},
    'JensenSeaton': {'K': 10.0, 'a': 3.0, 'b': 0.1, 'c': 0.9},
    'FHVST': {'n_m': 4.0, 'K': 2.0, 'a1v': 0.3},
    'WVST': {'n_m': 4.0, 'K': 2.0, 'L1v': 0.8, 'Lv1': 1.1},
}
assert sorted(MODEL_PARAMS) == sorted(_MODELS)


def make_model(name, **kw):
    args = dict(
        parameters=dict({k.lower(): v for k, v in MODEL_PARAMS.items()}[name.lower()]), pressure_range=(0.01, 2.5), loading_range=(0.05, 3), rmse=0.0123456789012345
    )
    args.update(kw)
    return get_isotherm_model(name, **args)


def model_cases():
    cases = {}
    unit_keys = list(UNITS)
    meta_keys = list(META)
    mat_keys = list(MATERIALS)
    for i, name in enumerate(_MODELS):
        units = unit_keys[i % len(unit_keys)]
        if name in ('DA', 'DR', 'BET', 'GAB'):
            units = 'rel'
        meta = meta_keys[i % len(meta_keys)]
        mat = mat_keys[i % len(mat_keys)]
        branch = 'des' if i % 3 == 2 else 'ads'
        cases[f"model/{name}"] = (
            lambda n=name, u=units, m=meta, ma=mat, b=branch: ModelIsotherm(model=make_model(n), branch=b, **base_kwargs(u, m, ma))
        )
    cases['model/Henry_nan'] = lambda: ModelIsotherm(model=get_isotherm_model('Henry'), **base_kwargs())
    cases['model/Langmuir_fit'] = lambda: ModelIsotherm(
        pressure=[0.1, 0.2, 0.5, 1.0, 2.0], loading=[0.9, 1.5, 2.4, 3.0, 3.4], model='Langmuir', **base_kwargs('std', 'text', 'props'))
    cases['model/lower_case_name'] = lambda: ModelIsotherm(model=make_model('dslangmuir'), **base_kwargs())
    return cases


def all_cases():
    cases = {}
    cases.update(base_cases())
    cases.update(point_cases())
    cases.update(model_cases())
    return cases


def tmpfile(name):
    return os.path.join(TMPDIR, name)


def read_keys(iso):
    """Column keys to hand to the reader for this isotherm."""
    if isinstance(iso, PointIsotherm):
        return dict(pressure_key=iso.pressure_key, loading_key=iso.loading_key)
    return {}
