"""Differential script for C04-3 (spreading_pressure_at refactoring).

Run with PYTHONPATH=<tree>/src; prints a deterministic transcript.
"""
import logging
import warnings

import numpy

warnings.simplefilter("ignore")

import pygaps
from pygaps.utilities.isotherm_interpolator import IsothermInterpolator

logging.getLogger("pygaps").setLevel(logging.ERROR)


def fmt(val):
    """Exact, deterministic representation."""
    if isinstance(val, numpy.ndarray):
        return f"ndarray{val.shape}{val.dtype}" + repr([fmt(v) for v in val.ravel().tolist()])
    if isinstance(val, (float, numpy.floating)):
        return float(val).hex() if numpy.isfinite(val) else repr(float(val))
    if isinstance(val, (list, tuple)):
        return type(val).__name__ + repr([fmt(v) for v in val])
    if isinstance(val, dict):
        return repr({k: fmt(v) for k, v in val.items()})
    return repr(val)


def show(label, fn):
    with warnings.catch_warnings(record=True) as wlist:
        warnings.simplefilter("always")
        try:
            res = fn()
            print(label, "->", type(res).__name__, fmt(res))
        except Exception as err:  # noqa
            print(label, "!!", type(err).__name__, repr(str(err)))
    for w in wlist:
        print("    warning:", w.category.__name__, str(w.message)[:120])


def state(iso):
    """Observable state of an isotherm, including cache settings."""
    out = [fmt(iso.to_dict()), fmt(iso.data_raw.values), repr(list(iso.data_raw.columns))]
    for name in ("l_interpolator", "p_interpolator"):
        itp = getattr(iso, name)
        if itp is None:
            out.append(f"{name}=None")
        else:
            out.append(
                f"{name}=({itp.interp_branch!r},{itp.interp_kind!r},{fmt(itp.interp_fill)},"
                f"{hasattr(itp, 'interp_fun')},{sorted(vars(itp))})"
            )
    return " | ".join(out)



pres = [0.01, 0.05, 0.1, 0.2, 0.4, 0.6, 0.8, 0.95, 0.7, 0.5, 0.3, 0.1]
load = [0.5, 1.2, 1.8, 2.4, 3.0, 3.3, 3.6, 4.5, 3.9, 3.5, 3.0, 2.0]


def make(**over):
    args = dict(
        pressure=pres,
        loading=load,
        material='carbon-x',
        adsorbate='N2',
        temperature=77.355,
        pressure_mode='relative',
        loading_basis='molar',
        loading_unit='mmol',
        material_basis='mass',
        material_unit='g',
    )
    args.update(over)
    return pygaps.PointIsotherm(**args)


isos = {
    "rel": make,
    "abs-bar": lambda: make(pressure_mode='absolute', pressure_unit='bar'),
    "ints": lambda: make(pressure=[1, 2, 3, 4, 5], loading=[1, 2, 3, 4, 5], pressure_mode='absolute', pressure_unit='kPa'),
    "dup-p": lambda: make(pressure=[0.1, 0.2, 0.2, 0.4], loading=[1.0, 2.0, 2.5, 3.0]),
    "zero-p": lambda: make(pressure=[0.0, 0.2, 0.3, 0.4], loading=[0.0, 2.0, 2.5, 3.0]),
    "one-pt": lambda: make(pressure=[0.3], loading=[1.0]),
    "two-pt": lambda: make(pressure=[0.3, 0.5], loading=[1.0, 1.5]),
    "nan-pt": lambda: make(pressure=[0.1, 0.2, numpy.nan, 0.4], loading=[1.0, 2.0, 2.2, 3.0], branch='ads'),
    "unsorted": lambda: make(pressure=[0.1, 0.4, 0.2, 0.3], loading=[1.0, 3.0, 2.0, 2.5], branch='ads'),
    "des-only": lambda: make(pressure=[0.9, 0.5, 0.2, 0.1], loading=[4.0, 3.0, 2.0, 1.0], branch='des'),
}
p_queries = [
    0.001, 0.01, 0.03, 0.05, 0.1, 0.2, 0.25, 0.4, 0.77, 0.95, 0.96, 1.5, 3, 4.5, 5, 7, 0.0, -0.1,
    float("nan"), float("inf"), numpy.float64(0.33), numpy.array(0.33), numpy.array([0.33]), [0.3, 0.5], "0.3", None
]
fills = [None, 0.0, 4.5, (0.0, 4.5), "extrapolate"]

for name, mk in isos.items():
    try:
        iso = mk()
    except Exception as err:  # noqa
        print("ISO", name, "!!", type(err).__name__, err)
        continue
    before = state(iso)
    for branch in ("ads", "des"):
        for fill in fills:
            for q in p_queries:
                show(f"{name} {branch} fill={fill!r} p={q!r}", lambda: iso.spreading_pressure_at(q, branch=branch, interp_fill=fill))
    show(f"{name} branch=None", lambda: iso.spreading_pressure_at(0.3, branch=None))
    show(f"{name} branch=bad", lambda: iso.spreading_pressure_at(0.3, branch='zzz'))
    # public data still the same
    print(name, "data unchanged:", before.split(" | ")[:3] == state(iso).split(" | ")[:3])
    print(name, "state", state(iso))

# unit handling
iso = make()
for kw in [
    dict(pressure_mode='absolute', pressure_unit='bar'),
    dict(pressure_mode='absolute', pressure_unit='Pa'),
    dict(pressure_mode='absolute'),
    dict(pressure_unit='bar'),
    dict(pressure_mode='relative%'),
    dict(loading_unit='mol'),
    dict(loading_basis='mass', loading_unit='g'),
    dict(loading_basis='mass'),
    dict(material_unit='kg'),
    dict(material_basis='volume', material_unit='cm3'),
    dict(loading_basis='volume_gas', loading_unit='cm3(STP)', material_unit='kg', pressure_mode='absolute', pressure_unit='torr'),
    dict(pressure_mode='weird'),
    dict(loading_unit='weird'),
]:
    for q in (1e-4, 0.005, 0.3, 0.5, 30, 5e4, 1e6):
        for fill in (None, 4.5):
            show(f"units {kw} p={q!r} fill={fill!r}", lambda: iso.spreading_pressure_at(q, interp_fill=fill, **kw))
    print("   state", state(iso))

# order independence
qs = [
    lambda i: i.spreading_pressure_at(0.5),
    lambda i: i.spreading_pressure_at(0.99),
    lambda i: i.spreading_pressure_at(0.99, interp_fill=4.5),
    lambda i: i.spreading_pressure_at(0.5, branch='des', interp_fill='extrapolate'),
    lambda i: i.loading_at(0.5, interpolation_type='cubic'),
    lambda i: i.spreading_pressure_at(0.5, pressure_mode='absolute', pressure_unit='bar'),
    lambda i: i.spreading_pressure_at(0.004),
]
iso = make()
for n, q in enumerate(qs):
    show(f"fwd {n}", lambda: q(iso))
iso = make()
for n, q in reversed(list(enumerate(qs))):
    show(f"rev {n}", lambda: q(iso))
for n, q in enumerate(qs):
    fresh = make()
    show(f"fresh {n}", lambda: q(fresh))

# IAST built on point isotherms exercises spreading_pressure_at repeatedly
from pygaps.iast import pgiast  # noqa: E402

iso_a = make(adsorbate='N2', pressure_mode='absolute', pressure_unit='bar')
iso_b = make(adsorbate='CH4', loading=[l * 1.7 for l in load], pressure_mode='absolute', pressure_unit='bar')
st = (state(iso_a), state(iso_b))
show("iast point", lambda: pgiast.iast_point([iso_a, iso_b], [0.04, 0.06]))
show("iast point fraction", lambda: pgiast.iast_point_fraction([iso_a, iso_b], [0.4, 0.6], 0.2))
show("iast oob", lambda: pgiast.iast_point([iso_a, iso_b], [0.05, 0.9]))
show("reverse iast", lambda: pgiast.reverse_iast([iso_a, iso_b], [0.4, 0.6], 0.5))
print("iast left data unchanged:", [s.split(" | ")[:3] for s in st] == [s.split(" | ")[:3] for s in (state(iso_a), state(iso_b))])
