"""Differential script for C09-3 (sqlite_utilities: script runner and condition builder helpers).

Prints a deterministic transcript; run on the untouched and the patched tree.
"""
import logging
import os
import shutil
import sqlite3
import sys
import tempfile

import pygaps
from pygaps.parsing import sqlite as pgsql
from pygaps.utilities.exceptions import ParsingError
from pygaps.utilities.sqlite_db_pragmas import PRAGMAS
from pygaps.utilities.sqlite_utilities import db_execute_general

TMP = tempfile.mkdtemp(prefix='c09_3_')


def norm(text):
    return str(text).replace(TMP, '<TMP>')


class Capture(logging.Handler):
    def emit(self, record):
        print(f"    LOG {record.levelname}: {norm(record.getMessage())!r}")


pygaps.logger.handlers[:] = [Capture()]
pygaps.logger.setLevel(logging.DEBUG)


def dump(path):
    """Full content of a database, deterministic."""
    con = sqlite3.connect(path)
    try:
        tables = [
            r[0] for r in
            con.execute("SELECT name FROM sqlite_master WHERE type='table' ORDER BY name")
        ]
        for tb in tables:
            if tb == 'sqlite_sequence':
                continue
            rows = con.execute(f'SELECT * FROM "{tb}"').fetchall()
            if rows:
                print(f"    TABLE {tb}: {sorted(rows, key=repr)!r}")
    finally:
        con.close()


def new_db(name):
    path = os.path.join(TMP, name)
    for pragma in PRAGMAS:
        db_execute_general(pragma, path)
    for tp in ('isotherm', 'pointisotherm', 'modelisotherm'):
        pgsql.isotherm_type_to_db({'type': tp}, db_path=path, verbose=False)
    return path


def chain(err):
    out = []
    while err is not None:
        out.append(f"{type(err).__module__}.{type(err).__name__}: {norm(err)!r}")
        nxt = err.__cause__
        if nxt is None and not err.__suppress_context__:
            nxt = err.__context__
        err = nxt
    return ' <- '.join(out)


def run(label, fn, *args, **kwargs):
    print(f"CALL {label}")
    try:
        ret = fn(*args, **kwargs)
        print(f"    RET {norm(repr(ret))}")
    except BaseException as err:  # noqa
        print(f"    EXC {chain(err)}")



from pygaps.utilities import sqlite_utilities as su


class Odd:
    """Column-like object with its own formatting."""
    def __init__(self, name):
        self.name = name

    def __format__(self, spec):
        return f"<{self.name}|{spec}>"

    def __str__(self):
        return "str-" + self.name

    def __repr__(self):
        return f"Odd({self.name!r})"


class BadFormat:
    def __format__(self, spec):
        raise RuntimeError("no format")

    def __repr__(self):
        return "BadFormat()"


class Falsy(str):
    def __bool__(self):
        print("    (truth of Falsy asked)")
        return False


def gen(*items):
    for i in items:
        print(f"    (yield {i!r})")
        yield i


COLS = [
    ['a'], ['a', 'b'], ('x', 'y', 'z'), [], (), {'k1': 1, 'k2': 2}, {'k1': 1}.keys(), 'abc', '',
    [1, 2.5, None], [Odd('o'), 'p'], [BadFormat()], None, 5, ['with space', 'quo"te', "ap'os"],
]

print("== build_delete")
for where in COLS:
    run(f"delete {where!r}", su.build_delete, 'tb', where)
    run(f"delete kw {where!r}", su.build_delete, table='t"b', where=where)
run("delete gen", lambda: su.build_delete('tb', gen('g1', 'g2')))
run("delete odd table", su.build_delete, Odd('T'), ['a'])
run("delete bad table", su.build_delete, BadFormat(), ['a'])
run("delete bad table + bad where", su.build_delete, BadFormat(), None)
run("delete none table", su.build_delete, None, ['a'])
run("delete missing arg", su.build_delete, 'tb')

print("== build_select")
for where in COLS:
    for sel in (['id'], '*', ['a', 'b'], [], None, [Odd('s')]):
        run(f"select {sel!r} where {where!r}", su.build_select, 'tb', sel, where)
run("select no where", su.build_select, 'tb', ['a', 'b'])
run("select kw", su.build_select, table='tb', to_select=('a', ), where=('b', 'c'))
run("select gens", lambda: su.build_select('tb', gen('s1', 's2'), list(gen('w1', 'w2'))))
run("select gen where", lambda: su.build_select('tb', gen('s1'), gen('w1', 'w2')))
run("select bad table", su.build_select, BadFormat(), ['a'], ['b'])
run("select bad table, bad select", su.build_select, BadFormat(), None, ['b'])
run("select bad where elem, bad table", su.build_select, BadFormat(), ['a'], [BadFormat()])
run("select dict keys", su.build_select, 'isotherms', '*', {'material': 'm', 'adsorbate': 'a'}.keys())
run("select empty dict keys", su.build_select, 'isotherms', '*', {}.keys())

print("== build_update")
PREFIXES = [None, '', 'old_', 'x', 0, 7, Odd('P'), Falsy('ff'), Falsy(''), BadFormat(), ['l']]
for where in COLS:
    for to_set in (['a'], ['u', 'v'], [], None, [Odd('s')]):
        run(f"update set {to_set!r} where {where!r}", su.build_update, 'tb', to_set, where)
    for prefix in PREFIXES:
        run(f"update where {where!r} prefix {prefix!r}", su.build_update, 'tb', ['c'], where, prefix)
        run(f"update kw where {where!r} prefix {prefix!r}", su.build_update, table='tb', to_set=['c'],
            where=where, prefix=prefix)
run("update gens", lambda: su.build_update('tb', gen('s1', 's2'), gen('w1', 'w2'), 'p_'))
run("update bad table", su.build_update, BadFormat(), ['a'], ['b'])
run("update bad table, bad set", su.build_update, BadFormat(), None, ['b'])
run("update bad set, bad where", su.build_update, 'tb', None, None)
run("update bad set elem, bad where", su.build_update, 'tb', [BadFormat()], None, BadFormat())

print("== other builders (untouched, as control)")
run("insert", su.build_insert, 'tb', ['a', 'b'])
run("select unnamed", su.build_select_unnamed, 'tb', ['a'], ['b', 'c'], 'OR')

print("== db_execute_general")


def show_schema(path):
    if not os.path.exists(path):
        print("    (no file)")
        return
    con = sqlite3.connect(path)
    try:
        print("    SCHEMA", sorted(r[0] for r in con.execute("SELECT name FROM sqlite_master")))
        print("    FK pragma on fresh connection", con.execute("PRAGMA foreign_keys").fetchone())
    except sqlite3.Error as err:
        print("    SCHEMA error", type(err).__name__, err)
    finally:
        con.close()
    dump(path) if 'garbage' not in path else None


P = os.path.join(TMP, 'gen.db')
run("create", su.db_execute_general, "CREATE TABLE t (id INTEGER PRIMARY KEY, v TEXT UNIQUE);", P)
show_schema(P)
run("create again fails", su.db_execute_general, "CREATE TABLE t (id INTEGER);", P)
run("create again fails verbose", su.db_execute_general, "CREATE TABLE t (id INTEGER);", P, True)
run("insert two", su.db_execute_general, "INSERT INTO t (v) VALUES ('a'); INSERT INTO t (v) VALUES ('b');", P, verbose=True)
show_schema(P)
run("second statement rejected", su.db_execute_general,
    "INSERT INTO t (v) VALUES ('c'); INSERT INTO t (v) VALUES ('a'); INSERT INTO t (v) VALUES ('d');", P)
show_schema(P)
run("explicit transaction, rejected inside", su.db_execute_general,
    "BEGIN; INSERT INTO t (v) VALUES ('e'); INSERT INTO t (v) VALUES ('a'); COMMIT;", P)
show_schema(P)
run("after a failure the same works", su.db_execute_general, "INSERT INTO t (v) VALUES ('f');", P)
show_schema(P)
run("syntax error", su.db_execute_general, "SELEC 1;", P)
run("incomplete", su.db_execute_general, "SELECT", P)
run("empty", su.db_execute_general, "", P)
run("comment only", su.db_execute_general, "-- nothing", P)
run("fk script", su.db_execute_general, """
    CREATE TABLE parent (id INTEGER PRIMARY KEY);
    CREATE TABLE child (id INTEGER PRIMARY KEY, pid INTEGER REFERENCES parent(id));
    INSERT INTO parent VALUES (1);
    INSERT INTO child VALUES (1, 1);
""", P)
run("fk violation", su.db_execute_general, "INSERT INTO child VALUES (2, 99);", P)
run("fk violation delete", su.db_execute_general, "DELETE FROM parent;", P)
show_schema(P)
run("non-str statement", su.db_execute_general, 5, P)
run("None statement", su.db_execute_general, None, P)
run("bytes statement", su.db_execute_general, b"SELECT 1", P)
run("odd statement", su.db_execute_general, Odd('stmt'), P)
run("bad dir", su.db_execute_general, "SELECT 1;", os.path.join(TMP, 'nodir', 'x.db'))
run("bad dir odd statement", su.db_execute_general, Odd('stmt'), os.path.join(TMP, 'nodir', 'x.db'))
run("bad dir int statement", su.db_execute_general, 5, os.path.join(TMP, 'nodir', 'x.db'))
run("bad dir badformat statement", su.db_execute_general, BadFormat(), os.path.join(TMP, 'nodir', 'x.db'))
run("root dir", su.db_execute_general, "SELECT", "/")
run("path wrong type", su.db_execute_general, "SELECT 1;", 3.5)
run("path None", su.db_execute_general, "SELECT 1;", None)
G = os.path.join(TMP, 'garbage.db')
open(G, 'w').write('junk' * 500)
run("garbage file", su.db_execute_general, "CREATE TABLE t (id INTEGER);", G)
print("    garbage intact", open(G).read() == 'junk' * 500)
run("pathlib", su.db_execute_general, "CREATE TABLE pl (id INTEGER);", __import__('pathlib').Path(P))
run("memory", su.db_execute_general, "CREATE TABLE m (id INTEGER);", ":memory:")
run("missing args", su.db_execute_general, "SELECT 1;")
run("kw", lambda: su.db_execute_general(statement="CREATE TABLE kw (id INTEGER);", pth=P, verbose=False))
show_schema(P)
print("    _run_script is module private:", not hasattr(pygaps, '_run_script'))

print("== end to end through the parsing layer")
pygaps.logger.setLevel(logging.WARNING)
DB = new_db('main.db')
DEFAULT = new_db('default.db')
pgsql.DATABASE = DEFAULT
pygaps.logger.setLevel(logging.DEBUG)
run("type", pgsql.material_property_type_to_db, {'type': 'density', 'unit': 'g'}, DB)
run("type dup", pgsql.material_property_type_to_db, {'type': 'density', 'unit': 'g'}, DB)
run("type overwrite", pgsql.material_property_type_to_db, {'type': 'density', 'unit': 'kg', 'description': 'd'}, DB, True)
run("type overwrite missing", pgsql.material_property_type_to_db, {'type': 'nope', 'unit': 'kg'}, DB, True)
run("types", pgsql.material_property_types_from_db, DB)
mat = pygaps.Material('m1', density=2.5, tags=['a', 'b'])
run("material", pgsql.material_to_db, mat, DB)
run("material dup", pgsql.material_to_db, mat, DB)
mat.properties['density'] = 3.5
run("material overwrite", pgsql.material_to_db, mat, DB, True, True)
run("material overwrite missing", pgsql.material_to_db, pygaps.Material('zz'), DB, True, True)
run("materials", lambda: [(m.name, m.properties) for m in pgsql.materials_from_db(DB)])
iso = pygaps.PointIsotherm(
    pressure=[1, 2, 3], loading=[1.5, 2.5, 3.5], material='m1', adsorbate='myads', temperature=77,
    pressure_mode='absolute', pressure_unit='bar', material_basis='mass', material_unit='g',
    loading_basis='molar', loading_unit='mmol', temperature_unit='K', flag=False,
)
run("isotherm", pgsql.isotherm_to_db, iso, DB)
run("isotherm dup", pgsql.isotherm_to_db, iso, DB)
run("isotherms by criteria", lambda: [i.iso_id for i in pgsql.isotherms_from_db({'material': 'm1', 'temperature': 77}, DB)])
run("isotherms by bad criteria", lambda: [i.iso_id for i in pgsql.isotherms_from_db({'nocolumn': 'm1'}, DB)])
run("delete material in use", pgsql.material_delete_db, 'm1', DB)
run("delete isotherm", pgsql.isotherm_delete_db, iso, DB)
run("delete isotherm again", pgsql.isotherm_delete_db, iso, DB)
run("delete material", pgsql.material_delete_db, 'm1', DB)
run("delete adsorbate", pgsql.adsorbate_delete_db, 'myads', DB)
run("delete type", pgsql.material_property_type_delete_db, 'tags', DB)
run("delete type again", pgsql.material_property_type_delete_db, 'tags', DB)
print("-- main"); dump(DB)
print("-- default"); dump(DEFAULT)

shutil.rmtree(TMP, ignore_errors=True)
