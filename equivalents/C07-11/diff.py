"""Differential transcript for C07-3 (aif.py branch loops / unit check, string_utilities._to_string / _is_bool)."""
import os
import re
import shutil
import tempfile
import warnings

warnings.simplefilter("ignore")

import numpy
import pandas

import pygaps
from pygaps.core.baseisotherm import BaseIsotherm
from pygaps.modelling import model_from_dict
from pygaps.parsing.aif import isotherm_from_aif
from pygaps.parsing.aif import isotherm_to_aif
from pygaps.parsing.csv import isotherm_from_csv
from pygaps.parsing.csv import isotherm_to_csv
from pygaps.utilities import string_utilities as su

TMP = tempfile.mkdtemp()


def scrub(text):
    text = re.sub(r"0x[0-9a-fA-F]+", "0x?", text)
    return text.replace(TMP, "<TMP>")


def show(label, fn):
    try:
        res = fn()
        print(label, "->", scrub(repr(res)))
    except BaseException as err:  # noqa
        print(label, "!!", type(err).__name__, scrub(repr(str(err))))
        cause = err.__cause__
        if cause is not None:
            print("   cause:", type(cause).__name__, scrub(repr(str(cause))))


def describe(iso):
    out = [type(iso).__name__, repr(iso.to_dict())]
    out.append(repr([(k, type(v).__name__) for k, v in iso.to_dict().items()]))
    model = getattr(iso, "model", None)
    if model is not None:
        out.append(
            repr((
                model.name, model.rmse, model.pressure_range, model.loading_range,
                list(model.params.items())
            ))
        )
    if hasattr(iso, "data_raw"):
        out.append(iso.data_raw.to_csv())
    return "\n".join(out)


# --------------------------------------------------------------------------
print("=== string_utilities._to_string")


class Loud:
    def __init__(self, tag):
        self.tag = tag

    def __str__(self):
        print("    (str of", self.tag, "requested)")
        return f"<{self.tag}>"


class Broken:
    def __str__(self):
        raise RuntimeError("no string form")


class MyList(list):
    def __iter__(self):
        print("    (MyList iterated)")
        return iter(["from", "iter"])


class MyTuple(tuple):
    pass


VALUES = [
    [], [1], [1, 2, 3], [1.5, "a", None, True], [[1, 2], [3]], [(1, 2)], ["a b", "c"], [""], [" "],
    (), (1, ), (1, 2.5), ((1, 2), [3]), ("x", ),
    "text", "", "[1 2]", 1, 1.0, 1e-20, float("nan"), True, None, {"a": 1}, {1, }, b"bytes", range(3),
    numpy.float64(1.25), numpy.array([1, 2, 3]), numpy.array([1.5, 2.5]).tolist(), pandas.Series([1, 2]).tolist(),
    [numpy.float64(1.5), numpy.int64(2)], (numpy.float64(0.1), ),
    MyList([1, 2]), MyTuple((1, 2)),
    [Loud("a"), Loud("b"), Loud("c")], (Loud("t1"), Loud("t2")), Loud("alone"),
    [1, Broken(), Loud("never")], (Broken(), ), Broken(),
]
for i, val in enumerate(VALUES):
    show(f"_to_string #{i}", lambda val=val: su._to_string(val))
show("_to_string generator", lambda: su._to_string(x for x in [1, 2]))
show("_to_string round trip list", lambda: su._from_list(su._to_string([1, 2.5, 3])))
show("_to_string round trip tuple", lambda: su._from_list(su._to_string((0.1, 10))))

print("=== string_utilities._is_bool / cast_string")
STRINGS = [
    "true", "True", "TRUE", "tRuE", "false", "False", "FALSE", " true", "true ", "truefalse", "yes", "no", "0", "1",
    "", "none", "None", "NONE", "nan", "inf", "-1", "1.5", "1e5", "٣", "²", "[1 2 3]", "[1,2]", "[a b]", "[", "]", "[]",
    "(1 2)", "text", "Straße", "İ", "TRUE\n", "ﬁ", "True,False",
]
for text in STRINGS:
    show(f"_is_bool({text!r})", lambda text=text: su._is_bool(text))
    show(f"cast_string({text!r})", lambda text=text: su.cast_string(text))
for obj in [None, 0, 1, 1.5, True, False, b"true", ["true"], ("true", ), numpy.str_("True"), numpy.bool_(True)]:
    show(f"_is_bool({obj!r})", lambda obj=obj: su._is_bool(obj))
    show(f"cast_string({obj!r})", lambda obj=obj: su.cast_string(obj))
show("_is_bool result type", lambda: [type(su._is_bool(s)).__name__ for s in ("true", "x")])


class Lowerable:
    def __init__(self, low):
        self.low = low

    def lower(self):
        print("    (lower called)")
        return self.low


show("_is_bool duck true", lambda: su._is_bool(Lowerable("true")))
show("_is_bool duck other", lambda: su._is_bool(Lowerable("other")))
show("_is_bool duck unhashable", lambda: su._is_bool(Lowerable(["true"])))
show("_is_bool duck array", lambda: su._is_bool(Lowerable(numpy.array(["true", "x"]))))

# --------------------------------------------------------------------------
META = dict(
    material="mat",
    adsorbate="N2",
    temperature=77.0,
    pressure_mode="absolute",
    pressure_unit="bar",
    loading_basis="molar",
    loading_unit="mmol",
    material_basis="mass",
    material_unit="g",
    temperature_unit="K",
)

print("=== csv export of list/tuple metadata (uses _to_string)")


def csv_trip(iso):
    text = isotherm_to_csv(iso)
    print(text)
    back = isotherm_from_csv(text)
    print(describe(back))
    return back == iso


show("csv lists", lambda: csv_trip(BaseIsotherm(**META, alist=[1, 2, 3], atuple=(1.5, 2.5), empty=[], flag=True, word="False")))
show(
    "csv model ranges",
    lambda: csv_trip(
        pygaps.ModelIsotherm(
            model=model_from_dict(
                dict(
                    name="Langmuir",
                    rmse=0.1,
                    pressure_range=(0.1, 2.0),
                    loading_range=[0.5, 3.0],
                    parameters={
                        "K": 1.0,
                        "n_m": 2.0
                    }
                )
            ),
            **META
        )
    ),
)

print("=== aif export")
P = [0.1, 0.2, 0.3, 0.4, 0.3, 0.2]
L = [1.0, 2.0, 3.123456789123, 4.0, 3.5, 2.5]


def point(p=P, l=L, **kw):
    meta = {**META, **kw}
    return pygaps.PointIsotherm(pressure=p, loading=l, **meta)


def other_point(branch=None):
    data = pandas.DataFrame({
        "p": [1.0, 2.0, 3.0, 2.5, 1.5],
        "l": [0.5, 0.7, 0.9, 0.8, 0.6],
        "enthalpy": [10.0, 9.5, 9.000000001234, 9.2, 9.9],
        "count": [1, 2, 3, 4, 5],
    })
    kw = {} if branch is None else {"branch": branch}
    return pygaps.PointIsotherm(
        isotherm_data=data, pressure_key="p", loading_key="l", other_keys=["enthalpy", "count"], **META, **kw
    )


EXPORTS = {
    "both branches": lambda: point(),
    "ads only": lambda: point(P[:4], L[:4]),
    "des only": lambda: point(P[:4], L[:4], branch="des"),
    "explicit branch list": lambda: point(branch=[False, True, False, True, False, True]),
    "one point": lambda: point([0.5], [1.0]),
    "other keys": other_point,
    "other keys des": lambda: other_point("des"),
    "relative pressure": lambda: point(pressure_mode="relative", pressure_unit=None),
    "relative percent": lambda: point(pressure_mode="relative%", pressure_unit=None),
    "fraction loading": lambda: point(loading_basis="fraction", loading_unit=None),
    "percent loading": lambda: point(loading_basis="percent", loading_unit=None, material_basis="volume", material_unit="cm3"),
    "kPa / mg": lambda: point(pressure_unit="kPa", loading_basis="mass", loading_unit="mg"),
    "metadata": lambda: point(user="me", date="today", instrument="inst", material_mass=0.5, note="x y", flag=True, n=None),
    "material dict": lambda: point(material={
        "name": "mm",
        "density": 2.5,
        "batch": "b1"
    }),
    "quote in value": lambda: point(note="it's"),
    "base": lambda: BaseIsotherm(**META, extra=1.5),
    "model": lambda: pygaps.ModelIsotherm(
        model=model_from_dict(
            dict(
                name="DSLangmuir",
                rmse=1e-3,
                pressure_range=[0.1, 2.0],
                loading_range=[0.5, 3.0],
                parameters={
                    "n_m1": 1.0,
                    "K1": 2.0,
                    "n_m2": 3.0,
                    "K2": 4.0
                }
            )
        ),
        **META,
        extra="t"
    ),
}
for name, make in EXPORTS.items():

    def run(make=make):
        iso = make()
        text = isotherm_to_aif(iso)
        print(text)
        path = os.path.join(TMP, "out.whatever")
        print("  to path returned", repr(isotherm_to_aif(iso, path)), sorted(os.listdir(TMP)))
        with open(os.path.join(TMP, "out.aif"), encoding="utf-8") as f:
            print("  file equals string:", f.read().strip() == text.strip())
        os.remove(os.path.join(TMP, "out.aif"))
        try:
            back = isotherm_from_aif(text)
        except Exception as err:
            print("  import !!", type(err).__name__, scrub(repr(str(err))))
            return None
        print(describe(back))
        return back == iso

    show(name, run)

show("to_aif of a string", lambda: isotherm_to_aif("nope"))

print("=== aif import: unit handling")
FULL = isotherm_to_aif(BaseIsotherm(**META, extra=1.5))
UNIT_LINES = [line for line in FULL.splitlines() if line.startswith("_pygaps_") and ("_unit" in line or "_basis" in line or "_mode" in line)]
print(UNIT_LINES)
show("all backup units present", lambda: describe(isotherm_from_aif(FULL)))
for i, line in enumerate(UNIT_LINES):
    text = "\n".join(x for x in FULL.splitlines() if x != line)
    show(f"without {line.split()[0]}", lambda text=text: describe(isotherm_from_aif(text)))
NONE_LEFT = "\n".join(x for x in FULL.splitlines() if x not in UNIT_LINES)
show("without any backup unit", lambda: describe(isotherm_from_aif(NONE_LEFT)))
show("forced parse", lambda: describe(isotherm_from_aif(FULL, _parse_units=True)))
show("forced no parse", lambda: describe(isotherm_from_aif(FULL, _parse_units=False)))
show("kwargs without _parse_units", lambda: describe(isotherm_from_aif(FULL, temperature=100.0)))
show("kwargs with override", lambda: describe(isotherm_from_aif(FULL, _parse_units=False, temperature=100.0)))
show(
    "no units at all",
    lambda: describe(isotherm_from_aif("\n".join(x for x in NONE_LEFT.splitlines() if not x.startswith("_units_pressure"))))
)
show("other version", lambda: describe(isotherm_from_aif(FULL.replace("d546195", "abc1234"))))
show("boolean-like metadata", lambda: describe(isotherm_from_aif(FULL + "_pygaps_t1 'TRUE'\n_pygaps_t2 false\n_pygaps_t3 'truely'\n")))
show("garbage", lambda: isotherm_from_aif("this is not a cif ' file"))
show("path", lambda: (isotherm_to_aif(BaseIsotherm(**META), os.path.join(TMP, "b.aif")), describe(isotherm_from_aif(os.path.join(TMP, "b.aif"))))[1])

shutil.rmtree(TMP)
