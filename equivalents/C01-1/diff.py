"""Differential script for change 1: c_pressure restructuring."""
import itertools
import warnings

import numpy as np
import pandas as pd

import pygaps
from pygaps.core.adsorbate import Adsorbate
from pygaps.units.converter_mode import c_pressure

warnings.simplefilter("ignore")


def canon(x):
    if isinstance(x, pd.Series):
        return f"Series(index={list(x.index)!r}, values={[repr(float(v)) for v in x.values]}, name={x.name!r})"
    if isinstance(x, pd.DataFrame):
        return f"DataFrame({x.to_dict()!r})"
    if isinstance(x, np.ndarray):
        return f"ndarray(dtype={x.dtype}, shape={x.shape}, values={[repr(v) for v in x.ravel().tolist()]})"
    if isinstance(x, (float, np.floating)):
        return f"{type(x).__name__}:{float(x)!r}"
    return f"{type(x).__name__}:{x!r}"


def run(label, func, *args, **kwargs):
    try:
        res = func(*args, **kwargs)
        print(f"{label} -> {canon(res)}")
    except BaseException as err:  # noqa
        print(f"{label} !! {type(err).__name__}: {err}")


class FakeAdsorbate:
    """Records the calls made by the converter."""
    def __init__(self):
        self.calls = []

    def saturation_pressure(self, temp, unit=None):
        self.calls.append(("saturation_pressure", temp, unit))
        return {"Pa": 3.0e5, "kPa": 300.0, "MPa": 0.3, "mbar": 3000.0, "bar": 3.0, "atm": 2.9607698001480384,
                "mmHg": 2250.191266257632, "torr": 2250.191266257632, None: 7.0}.get(unit, 11.0)


n2 = Adsorbate.find("nitrogen")
co2 = Adsorbate.find("carbon dioxide")
water = Adsorbate.find("water")
nobackend = Adsorbate("eq_nobackend", saturation_pressure=123456.0)
nothing = Adsorbate("eq_nothing")
nobackend_bn = Adsorbate("eq_badbackend", backend_name="not_a_fluid", saturation_pressure=5e4)

ABS_UNITS = ["Pa", "kPa", "MPa", "mbar", "bar", "atm", "mmHg", "torr"]
REPRS = [("absolute", u) for u in ABS_UNITS] + [("relative", None), ("relative%", None)]

VALUES = [
    ("one", 1.0),
    ("int", 3),
    ("zero", 0.0),
    ("neg", -2.5),
    ("small", 1.2345678901234e-7),
    ("big", 9.87654321e8),
    ("inf", float("inf")),
    ("nan", float("nan")),
    ("np64", np.float64(0.3)),
    ("arr", np.array([0.0, 0.1, 1.0, 1e-5, 33.3, 1e6])),
    ("arr2d", np.array([[0.5, 1.5], [2.5, 1 / 3]])),
    ("intarr", np.array([1, 2, 300])),
    ("empty", np.array([])),
    ("series", pd.Series([0.01, 0.2, 3.0], index=[5, 6, 7], name="p")),
    ("list", [1.0, 2.0]),
]

ADS = [("n2", n2, 77.355), ("co2", co2, 250.0), ("water", water, 298.15), ("n2hot", n2, 120.0)]

print("# section 1: all ordered pairs of the 10 representations, 3 adsorbates, all values")
for (aname, ads, temp) in ADS:
    for (mf, uf), (mt, ut) in itertools.product(REPRS, REPRS):
        for vname, val in VALUES:
            run(f"S1 {aname}@{temp} {mf}/{uf}->{mt}/{ut} {vname}", c_pressure, val, mf, mt, uf, ut, ads, temp)

print("# section 2: unit given also for relative modes (ignored or not)")
for (mf, mt) in itertools.product(["absolute", "relative", "relative%"], repeat=2):
    for uf, ut in itertools.product(["bar", "torr", None, "", "bad", "kpa"], repeat=2):
        run(f"S2 {mf}/{uf!r}->{mt}/{ut!r}", c_pressure, 0.75, mf, mt, uf, ut, n2, 77.355)

print("# section 3: bad / missing modes")
for (mf, mt) in itertools.product(["absolute", "relative", "relative%", None, "", "bad", "Absolute", 0], repeat=2):
    run(f"S3 {mf!r}->{mt!r}", c_pressure, 2.0, mf, mt, "bar", "kPa", n2, 77.355)

print("# section 4: missing temperature / adsorbate")
for (mf, uf), (mt, ut) in itertools.product(REPRS[3:], REPRS[3:]):
    for temp in [None, 0, 0.0, 77.355]:
        for aname, ads in [("none", None), ("n2", n2)]:
            run(f"S4 {aname} T={temp!r} {mf}/{uf}->{mt}/{ut}", c_pressure, 1.5, mf, mt, uf, ut, ads, temp)
# default arguments
run("S4 defaults abs->abs", c_pressure, 1.5, "absolute", "absolute", "bar", "Pa")
run("S4 defaults rel->rel%", c_pressure, 1.5, "relative", "relative%", None, None)
run("S4 defaults rel%->rel", c_pressure, 1.5, "relative%", "relative", None, None)
run("S4 defaults abs->rel", c_pressure, 1.5, "absolute", "relative", "bar", None)
run("S4 kw", c_pressure, value=1.5, mode_from="absolute", mode_to="relative", unit_from="bar", unit_to=None,
    adsorbate=n2, temp=77.0)

print("# section 5: adsorbates without thermodynamic backend (fallback, warnings, calculation errors)")
for aname, ads in [("nobackend", nobackend), ("nothing", nothing), ("badbackend", nobackend_bn)]:
    for (mf, uf), (mt, ut) in itertools.product(REPRS[4:], REPRS[4:]):
        run(f"S5 {aname} {mf}/{uf}->{mt}/{ut}", c_pressure, 0.25, mf, mt, uf, ut, ads, 300.0)

print("# section 6: temperatures out of the saturation range, odd temperatures")
for temp in [10.0, 63.0, 63.151, 100.0, 126.19, 126.2, 500.0, -5.0, float("nan"), "77"]:
    for (mf, uf), (mt, ut) in [(("absolute", "bar"), ("relative", None)), (("relative%", None), ("absolute", "kPa"))]:
        run(f"S6 T={temp!r} {mf}/{uf}->{mt}/{ut}", c_pressure, 0.5, mf, mt, uf, ut, n2, temp)

print("# section 7: exact calls made on the adsorbate")
for (mf, uf), (mt, ut) in itertools.product(REPRS, REPRS):
    fake = FakeAdsorbate()
    run(f"S7 {mf}/{uf}->{mt}/{ut}", c_pressure, 0.4, mf, mt, uf, ut, fake, 99.0)
    print(f"   calls={fake.calls!r}")
fake = FakeAdsorbate()
run("S7 bad unit", c_pressure, 0.4, "absolute", "relative", "bad", None, fake, 99.0)
run("S7 no temp", c_pressure, 0.4, "absolute", "relative", "bar", None, fake, None)
print(f"   calls={fake.calls!r}")

print("# section 8: there-and-back and via-intermediate chains")
for (aname, ads, temp) in ADS[:2]:
    for a, b, c in itertools.permutations(REPRS, 3):
        x = c_pressure(0.37, a[0], b[0], a[1], b[1], ads, temp)
        y = c_pressure(x, b[0], c[0], b[1], c[1], ads, temp)
        z = c_pressure(y, c[0], a[0], c[1], a[1], ads, temp)
        print(f"S8 {aname} {a}->{b}->{c}->a {x!r} {y!r} {z!r}")

print("# section 9: through the isotherm API")
iso = pygaps.PointIsotherm(
    pressure=[0.1, 0.2, 0.5, 1.0],
    loading=[1.0, 2.0, 3.0, 3.5],
    material="eq_mat",
    adsorbate="nitrogen",
    temperature=77.355,
    pressure_mode="absolute",
    pressure_unit="bar",
)
for mode, unit in REPRS:
    run(f"S9 pressure({mode},{unit})", iso.pressure, pressure_mode=mode, pressure_unit=unit)
for mode, unit in [("relative", None), ("relative%", None), ("absolute", "torr"), ("absolute", "bar"),
                   ("relative", None), ("absolute", "Pa")]:
    run(f"S9 convert_pressure({mode},{unit})", iso.convert_pressure, mode_to=mode, unit_to=unit)
    run("S9   ->", iso.pressure)
    run("S9   mode", lambda: (iso.pressure_mode, iso.pressure_unit))
run("S9 convert bad mode", iso.convert_pressure, mode_to="bad")
run("S9 convert bad unit", iso.convert_pressure, mode_to="absolute", unit_to="bad")
