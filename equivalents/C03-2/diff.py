"""Differential script for change 2: PointIsotherm.pressure / loading / other_data (branch + limits selection)."""
import numpy
import pandas
from eqcommon import LOADING_REQ
from eqcommon import PRESSURE_REQ
from eqcommon import STORED
from eqcommon import COUNT
from eqcommon import kw
from eqcommon import point_iso
from eqcommon import point_iso_adsonly
from eqcommon import run

BRANCHES = [None, "ads", "des", "all", "all-nol", "bad", "", 3]
LIMITS = [
    None,
    (None, None),
    (0.2, None),
    (None, 0.5),
    (0.2, 0.6),
    [0.2, 0.6],
    (0.1, 0.1),
    (0.6, 0.2),
    (-numpy.inf, numpy.inf),
    (numpy.nan, 0.5),
    (0, None),
    (None, 0),
    (),
    (None, ),
    (0.2, ),
    (0.2, 0.6, 0.9),
    numpy.array([0.2, 0.6]),
    "ab",
    0.3,
    {0: 0.2, 1: 0.6},
]
LOAD_LIMITS = [None, (None, None), (2.0, None), (None, 4.2), (2.9, 4.8), [1.8, 1.8], (5.0, 1.0), (None, ), (3.0, ),
               numpy.array([2.0, 5.0])]

print("== pressure: stored x requested x branch")
for sname, stored in STORED.items():
    iso = point_iso(**stored)
    for req in PRESSURE_REQ:
        for branch in (None, "ads", "des"):
            run(f"P[{sname}|{kw(req)}|{branch}]", lambda: iso.pressure(branch=branch, **req))
    run(f"P[{sname}|indexed]", lambda: iso.pressure(branch="des", pressure_unit="Pa", indexed=True))

print("== loading: stored x requested x branch")
for sname, stored in STORED.items():
    iso = point_iso(**stored)
    for req in LOADING_REQ:
        for branch in (None, "ads", "des"):
            run(f"L[{sname}|{kw(req)}|{branch}]", lambda: iso.loading(branch=branch, **req))
    run(f"L[{sname}|indexed]", lambda: iso.loading(branch="des", material_unit="kg", indexed=True))

print("== branches and limits, native units")
iso = point_iso()
for branch in BRANCHES:
    run(f"data[{branch!r}]", lambda: iso.data(branch=branch))
    for lim in LIMITS:
        for indexed in (False, True):
            run(
                f"P[{branch!r}|lim={lim!r}|idx={indexed}]",
                lambda: iso.pressure(branch=branch, limits=lim, indexed=indexed)
            )
for branch in BRANCHES:
    for lim in LOAD_LIMITS:
        for indexed in (False, True):
            run(
                f"L[{branch!r}|lim={lim!r}|idx={indexed}]",
                lambda: iso.loading(branch=branch, limits=lim, indexed=indexed)
            )

print("== limits are applied in the requested representation")
for sname in ("bar|mmol/g", "rel%|g/cm3", "torr|wt%"):
    iso = point_iso(**STORED[sname])
    for req, lim in [
        (dict(pressure_unit="Pa"), (20000, 60000)),
        (dict(pressure_unit="Pa"), (None, 35000.0)),
        (dict(pressure_mode="relative"), (0.2, None)),
        (dict(pressure_mode="relative%"), (20, 70)),
        (dict(pressure_unit="torr"), (1e9, None)),
        (dict(pressure_unit="bad"), (1, 2)),
    ]:
        for branch in (None, "ads", "des"):
            run(
                f"Plim[{sname}|{kw(req)}|{lim}|{branch}]",
                lambda: iso.pressure(branch=branch, limits=lim, indexed=True, **req)
            )
    for req, lim in [
        (dict(loading_unit="mol"), (0.002, 0.005)),
        (dict(loading_basis="mass", loading_unit="mg"), (50, None)),
        (dict(loading_basis="percent"), (None, 12)),
        (dict(material_basis="volume", material_unit="cm3"), (4, 10)),
        (dict(loading_basis="fraction", material_basis="molar", material_unit="mol"), (0, 1)),
        (dict(loading_unit="bad"), (0, 1)),
    ]:
        for branch in (None, "ads", "des"):
            run(
                f"Llim[{sname}|{kw(req)}|{lim}|{branch}]",
                lambda: iso.loading(branch=branch, limits=lim, indexed=True, **req)
            )

print("== other_data")
iso = point_iso()
run("other_keys", lambda: iso.other_keys)
for key in ("enthalpy", "text", "pressure", "loading", "branch", "missing", None, 5):
    for branch in (None, "ads", "des", "all", "bad", 3):
        for lim in (None, (None, None), (6.5, None), (None, 8.0), (6.5, 8.0), (8.0, 6.5), [7.0, 7.0], (None, ), (7.0, ),
                    ("b", "e"), ("b", None), numpy.array([6.0, 8.0])):
            for indexed in (False, True):
                run(
                    f"O[{key!r}|{branch!r}|lim={lim!r}|idx={indexed}]",
                    lambda: iso.other_data(key, branch=branch, limits=lim, indexed=indexed)
                )

print("== isotherms with an empty branch / odd row labels")
iso = point_iso_adsonly()
for branch in (None, "ads", "des"):
    for lim in (None, (0.2, 0.6), (None, ), (0.2, )):
        run(f"adsonly.P[{branch}|{lim}]", lambda: iso.pressure(branch=branch, limits=lim, pressure_unit="Pa"))
        run(f"adsonly.Pbad[{branch}|{lim}]", lambda: iso.pressure(branch=branch, limits=lim, pressure_unit="bad"))
        run(
            f"adsonly.L[{branch}|{lim}]",
            lambda: iso.loading(branch=branch, limits=lim, loading_basis="mass", loading_unit="g", indexed=True)
        )
        run(f"adsonly.Lbad[{branch}|{lim}]", lambda: iso.loading(branch=branch, limits=lim, loading_unit="bad"))
for iname, index in {
    "strings": list("qrstuvwxyz"),
    "reversed": list(range(10))[::-1],
    "dups": [0, 0, 1, 1, 2, 2, 3, 3, 4, 4],
    "dates": pandas.date_range("2021-03-01", periods=10),
}.items():
    iso = point_iso(index=index, branch=[0, 0, 0, 0, 0, 0, 0, 1, 1, 1])
    for branch in (None, "ads", "des"):
        run(f"labels[{iname}|{branch}].P", lambda: iso.pressure(branch=branch, limits=(0.1, 0.6), indexed=True))
        run(
            f"labels[{iname}|{branch}].L",
            lambda: iso.loading(branch=branch, limits=(2, 5), loading_unit="mol", indexed=True)
        )
        run(f"labels[{iname}|{branch}].O", lambda: iso.other_data("enthalpy", branch=branch, limits=(None, 8), indexed=True))

print("== supercritical / unknown adsorbate")
for ads, temp in (("N2", 300.0), ("no-such-gas", 77.0)):
    iso = point_iso(adsorbate=ads, temperature=temp)
    for req in (dict(pressure_mode="relative"), dict(pressure_unit="Pa"), dict(pressure_mode="relative%")):
        run(f"P[{ads}@{temp}|{kw(req)}]", lambda: iso.pressure(branch="ads", limits=(0.1, 0.5), **req))
    for req in (dict(loading_basis="mass", loading_unit="g"), dict(loading_basis="volume_liquid", loading_unit="cm3"),
                dict(loading_unit="mol")):
        run(f"L[{ads}@{temp}|{kw(req)}]", lambda: iso.loading(branch="ads", limits=(2, 5), **req))

print("cases:", COUNT[0])
