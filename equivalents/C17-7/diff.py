import hashlib
import itertools
import math
import sys
import warnings

import numpy

import pygaps.characterisation.psd_micro as pmic
from pygaps.characterisation.models_hk import PROPERTIES_AlPh_OXIDE_ION
from pygaps.characterisation.models_hk import PROPERTIES_AlSi_OXIDE_ION
from pygaps.characterisation.models_hk import PROPERTIES_CARBON
from pygaps.characterisation.models_hk import get_hk_model

assert pmic.__file__.startswith('/tmp/eq2/C17/src/'), pmic.__file__

def emit(text):
    print(text)


def fmt(value):
    """Canonical text: 12 significant digits + digest of the exact bits."""
    if isinstance(value, dict):
        return '{' + ', '.join(f'{k!r}: {fmt(v)}' for k, v in value.items()) + '}'
    if isinstance(value, (tuple, list)) and not all(
        isinstance(v, (int, float, numpy.floating, numpy.integer)) for v in value
    ):
        return type(value).__name__ + '(' + ', '.join(fmt(v) for v in value) + ')'
    if isinstance(value, (tuple, list, numpy.ndarray)):
        arr = numpy.asarray(value, dtype=float)
        digest = hashlib.sha1(numpy.ascontiguousarray(arr).tobytes()).hexdigest()[:12]
        body = ' '.join('%.12g' % v for v in arr.ravel())
        return f'{type(value).__name__}{arr.shape}[{body}]#{digest}'
    if isinstance(value, (float, numpy.floating)):
        return f'{type(value).__name__}:{"%.12g" % value}:{float(value).hex()}'
    return f'{type(value).__name__}:{value!r}'


def call(label, fn, *args, **kwargs):
    """Run, print result or exception, and any warnings raised on the way."""
    with warnings.catch_warnings(record=True) as caught:
        warnings.simplefilter('always')
        try:
            res = fn(*args, **kwargs)
            text = fmt(res)
        except Exception as err:  # noqa
            res = None
            text = f'EXC {type(err).__name__}: {err}'
    emit(f'{label} -> {text}')
    for w in caught:
        emit(f'    WARN {w.category.__name__}: {w.message}')
    return res


# ---------------------------------------------------------------- parameter sets
N2_PROPS = {
    'molecular_diameter': 0.3,
    'polarizability': 0.0017403,
    'magnetic_susceptibility': 3.6e-08,
    'surface_density': 6.71e+18,
    'liquid_density': 0.8076937566133804,
    'adsorbate_molar_mass': 28.01348,
}
AR_PROPS = {
    'molecular_diameter': 0.34,
    'polarizability': 0.00163,
    'magnetic_susceptibility': 3.25e-08,
    'surface_density': 8.52e+18,
    'liquid_density': 1.3954,
    'adsorbate_molar_mass': 39.948,
}
CO2_PROPS = {
    'molecular_diameter': 0.323,
    'polarizability': 0.00265,
    'magnetic_susceptibility': 5.0e-08,
    'surface_density': 7.7e+18,
    'liquid_density': 1.023,
    'adsorbate_molar_mass': 44.0095,
}
SMALL_PROPS = {  # small, weakly interacting probe (He/H2-like)
    'molecular_diameter': 0.26,
    'polarizability': 0.0002,
    'magnetic_susceptibility': 3.1e-09,
    'surface_density': 1.2e+19,
    'liquid_density': 0.125,
    'adsorbate_molar_mass': 4.0026,
}
ADSORBATES = {'N2': (N2_PROPS, 77.355), 'Ar': (AR_PROPS, 87.3), 'CO2': (CO2_PROPS, 273.15), 'small': (SMALL_PROPS, 70.0)}

USER_MAT = {
    'molecular_diameter': 0.31,
    'polarizability': 0.0015,
    'magnetic_susceptibility': 6.0e-08,
    'surface_density': 2.2e+19,
    'unused_extra_key': 'ignored',
}
MATERIALS = {
    'carbon': PROPERTIES_CARBON,
    'alsi': PROPERTIES_AlSi_OXIDE_ION,
    'alph': PROPERTIES_AlPh_OXIDE_ION,
    'user': USER_MAT,
}

GEOMETRIES = ['slit', 'cylinder', 'sphere']
MODELS = {
    'HK': (pmic.psd_horvath_kawazoe, False),
    'HK-CY': (pmic.psd_horvath_kawazoe, True),
    'RY': (pmic.psd_horvath_kawazoe_ry, False),
    'RY-CY': (pmic.psd_horvath_kawazoe_ry, True),
}


def pressures(n, lo=-7, hi=-0.3):
    return numpy.logspace(lo, hi, n)


def loadings(pressure, kind='langmuir'):
    pressure = numpy.asarray(pressure)
    if kind == 'langmuir':
        return 12.0 * 4e3 * pressure / (1 + 4e3 * pressure) + 3 * pressure
    if kind == 'power':
        return 7.5 * pressure**0.31
    if kind == 'steps':
        return numpy.cumsum(numpy.abs(numpy.sin(numpy.arange(len(pressure)) * 1.7)) + 0.01)
    raise ValueError(kind)


# ---------------------------------------------------------------- potential capture
POTENTIAL_GRID_T = [
    1e-9, 1e-6, 1e-4, 1e-3, 3e-3, 0.01, 0.02, 0.035, 0.05, 0.08, 0.12, 0.2, 0.3, 0.45, 0.6, 0.8, 1.1, 1.5, 2.2, 3.3,
    5.0, 9.0, 17.0, 30.0, 49.0
]


def grid_for(bound):
    pts = [bound + t for t in POTENTIAL_GRID_T if bound + t <= 50.0]
    pts += [bound * f for f in (1.0, 1.5, 2.0, 2.5, 3.0)]
    pts += [numpy.float64(bound + 0.07), numpy.float64(bound + 0.9), numpy.float64(bound)]
    pts += [50.0]
    return pts


class capture_potentials:
    """
    Temporarily wraps the module-level solvers so that the potential closure
    built by the psd functions is evaluated on a fixed grid of pore sizes
    (results are printed) before the real solver runs.
    """
    def __init__(self, label, heavy=False):
        self.label = label
        self.heavy = heavy

    def _eval(self, hk_fun, bound):
        for l_pore in grid_for(bound):
            if self.heavy and l_pore > 12:
                continue
            call(f'  phi[{self.label}]({fmt(l_pore)})', hk_fun, l_pore)

    def __enter__(self):
        self.orig = (pmic._solve_hk, pmic._solve_hk_cy)
        orig_hk, orig_cy = self.orig

        def wrap_hk(pressure, hk_fun, bound, geo):
            emit(f'  solver[{self.label}] _solve_hk bound={fmt(bound)} geo={geo!r}')
            self._eval(hk_fun, bound)
            return orig_hk(pressure, hk_fun, bound, geo)

        def wrap_cy(pressure, loading, hk_fun, bound, geo):
            emit(f'  solver[{self.label}] _solve_hk_cy bound={fmt(bound)} geo={geo!r}')
            self._eval(hk_fun, bound)
            return orig_cy(pressure, loading, hk_fun, bound, geo)

        pmic._solve_hk, pmic._solve_hk_cy = wrap_hk, wrap_cy
        return self

    def __exit__(self, *exc):
        pmic._solve_hk, pmic._solve_hk_cy = self.orig
        return False


def full_matrix(n_points=9, capture=True, models=MODELS, geometries=GEOMETRIES, combos=None, heavy_cut=True, repeat=2):
    """All models x geometries over a rotating choice of adsorbate/material."""
    if combos is None:
        combos = list(itertools.product(ADSORBATES, MATERIALS))
    idx = 0
    for model, (func, use_cy) in models.items():
        for geometry in geometries:
            for _ in range(repeat):
                ads_name, mat_name = combos[idx % len(combos)]
                idx += 5
                ads, temp = ADSORBATES[ads_name]
                mat = MATERIALS[mat_name]
                heavy = geometry == 'cylinder'
                n = n_points if not (heavy and model.startswith('RY')) else max(4, n_points // 2)
                press = pressures(n)
                load = loadings(press, ('langmuir', 'power', 'steps')[idx % 3])
                label = f'{model}/{geometry}/{ads_name}/{mat_name}/T={temp}'
                if capture:
                    with capture_potentials(label, heavy=heavy and heavy_cut):
                        call(label, func, press, load, temp, geometry, ads, mat, use_cy=use_cy)
                else:
                    call(label, func, press, load, temp, geometry, ads, mat, use_cy=use_cy)


# ======================================================================
# Change 3: shared solver dispatch and distribution tail of the two psd functions
# ======================================================================
emit('## all models x geometries: which solver is called with which bound/geo, potentials, results')
full_matrix(n_points=8, capture=True, repeat=1)

emit('## all models x geometries x materials, results only')
p = pressures(7, -6.5, -0.5)
for model, (func, use_cy) in MODELS.items():
    for geometry in GEOMETRIES:
        for k, (mat_name, mat) in enumerate(MATERIALS.items()):
            if geometry == 'cylinder' and model.startswith('RY') and k > 1:
                continue
            ads_name = list(ADSORBATES)[(k + len(model)) % 4]
            ads, temp = ADSORBATES[ads_name]
            call(
                f'{model}/{geometry}/{ads_name}/{mat_name}', func, p, loadings(p, 'steps'), temp, geometry, ads, mat,
                use_cy=use_cy
            )

emit('## truncation: solver stops at unrealistic sizes, loading must be cut to the same length')
ph = numpy.array([1e-5, 1e-3, 0.05, 0.3, 0.7, 0.9, 0.97, 0.995, 0.9999, 0.99999])
lh = loadings(ph, 'langmuir')
for model, (func, use_cy) in MODELS.items():
    for geometry in ('slit', 'sphere'):
        res = call(f'{model}/{geometry}/high-p', func, ph, lh, 77.355, geometry, N2_PROPS, PROPERTIES_CARBON, use_cy=use_cy)
        if res is not None:
            emit(f'   lengths: {[len(r) for r in res]}')
call('HK/cylinder/high-p', pmic.psd_horvath_kawazoe, ph, lh, 77.355, 'cylinder', N2_PROPS, PROPERTIES_CARBON)

emit('## input container types, dtypes, non-monotonic loading')
p6 = pressures(6)
l6 = loadings(p6)
for model, (func, use_cy) in MODELS.items():
    call(f'{model}: lists', func, list(p6), list(l6), 77, 'slit', N2_PROPS, PROPERTIES_CARBON, use_cy=use_cy)
    call(f'{model}: tuples', func, tuple(p6), tuple(l6), 77, 'sphere', N2_PROPS, PROPERTIES_CARBON, use_cy=use_cy)
    call(f'{model}: int loading', func, p6, numpy.arange(1, 7), 77, 'slit', N2_PROPS, PROPERTIES_CARBON, use_cy=use_cy)
    call(f'{model}: float32', func, p6.astype('float32'), l6.astype('float32'), 77, 'slit', N2_PROPS, PROPERTIES_CARBON, use_cy=use_cy)
    call(f'{model}: decreasing loading', func, p6, l6[::-1], 77, 'slit', N2_PROPS, PROPERTIES_CARBON, use_cy=use_cy)
    call(f'{model}: repeated pressure', func, [1e-4, 1e-4, 1e-3, 1e-3], [1, 2, 3, 4.5], 77, 'slit', N2_PROPS, PROPERTIES_CARBON, use_cy=use_cy)
    call(f'{model}: two points', func, [1e-4, 1e-2], [1, 2], 77, 'slit', N2_PROPS, PROPERTIES_CARBON, use_cy=use_cy)
    call(f'{model}: one point', func, [1e-4], [1], 77, 'slit', N2_PROPS, PROPERTIES_CARBON, use_cy=use_cy)

emit('## error paths')
for model, (func, use_cy) in MODELS.items():
    call(f'{model}: empty', func, [], [], 77, 'slit', N2_PROPS, PROPERTIES_CARBON, use_cy=use_cy)
    call(f'{model}: len mismatch short loading', func, p6, l6[:4], 77, 'slit', N2_PROPS, PROPERTIES_CARBON, use_cy=use_cy)
    call(f'{model}: len mismatch long loading', func, p6[:4], l6, 77, 'slit', N2_PROPS, PROPERTIES_CARBON, use_cy=use_cy)
    call(f'{model}: bad geometry', func, p6, l6, 77, 'cube', N2_PROPS, PROPERTIES_CARBON, use_cy=use_cy)
    call(f'{model}: geometry None', func, list(p6), list(l6), 77, None, N2_PROPS, PROPERTIES_CARBON, use_cy=use_cy)
    call(f'{model}: bad geometry, scalar pressure', func, 0.5, l6, 77, 'cube', N2_PROPS, PROPERTIES_CARBON, use_cy=use_cy)
    call(f'{model}: scalar pressure', func, 0.5, 1.0, 77, 'slit', N2_PROPS, PROPERTIES_CARBON, use_cy=use_cy)
    call(f'{model}: missing mat', func, p6, l6, 77, 'slit', N2_PROPS, {'molecular_diameter': 0.3}, use_cy=use_cy)
    call(f'{model}: missing ads', func, p6, l6, 77, 'slit', PROPERTIES_CARBON, PROPERTIES_CARBON, use_cy=use_cy)
    call(f'{model}: missing both', func, p6, l6, 77, 'slit', {}, {}, use_cy=use_cy)
    call(f'{model}: zero liquid density', func, p6, l6, 77, 'slit', dict(N2_PROPS, liquid_density=0.0), PROPERTIES_CARBON, use_cy=use_cy)
    call(f'{model}: int molar mass', func, p6, l6, 77, 'slit', dict(N2_PROPS, adsorbate_molar_mass=28), PROPERTIES_CARBON, use_cy=use_cy)
    call(f'{model}: T=0', func, p6, l6, 0, 'slit', N2_PROPS, PROPERTIES_CARBON, use_cy=use_cy)
    call(f'{model}: use_cy truthy', func, p6, l6, 77, 'slit', N2_PROPS, PROPERTIES_CARBON, use_cy='yes')
    call(f'{model}: use_cy None', func, p6, l6, 77, 'slit', N2_PROPS, PROPERTIES_CARBON, use_cy=None)

emit('## user-facing function on example isotherms')
import pygaps.parsing as pgp
from pathlib import Path

DATA = Path('/tmp/eq2/C17/docs/examples/data/characterisation')
for fname in ('Takeda 5A N2 77.355.json', 'UiO-66(Zr) N2 77.355.json', 'MCM-41 N2 77.355.json'):
    iso = pgp.isotherm_from_json(DATA / fname)
    for model in MODELS:
        for geometry in GEOMETRIES:
            if geometry == 'cylinder' and model.startswith('RY'):
                kwargs = dict(p_limits=(0.001, 0.02))
            else:
                kwargs = {}
            call(f'psd_microporous[{fname[:8]},{model},{geometry}]', pmic.psd_microporous, iso, psd_model=model, pore_geometry=geometry, **kwargs)
    call(f'psd_microporous[{fname[:8]},des]', pmic.psd_microporous, iso, branch='des')
    call(f'psd_microporous[{fname[:8]},alsi]', pmic.psd_microporous, iso, material_model='AlSiOxideIon', p_limits=(1e-5, 0.1))
    call(f'psd_microporous[{fname[:8]},userdict]', pmic.psd_microporous, iso, material_model=USER_MAT, adsorbate_model=AR_PROPS)
    call(f'psd_microporous[{fname[:8]},few points]', pmic.psd_microporous, iso, p_limits=(0.5, 0.50001))
