"""Differential script for change 3: enthalpy_sorption_whittaker (loop, omission rule, adsorption potential)."""
import numpy as np
from eqfmt import fmt, model_iso, point_iso, run  # noqa: F401

import pygaps
from pygaps.characterisation.enth_sorp_whittaker import enthalpy_sorption_whittaker
from pygaps.core.baseisotherm import BaseIsotherm


def lang(T, ads, K=1e-4, n_m=5.0, **kw):
    return model_iso("Langmuir", {"n_m": n_m, "K": K}, T, adsorbate=ads, l_range=(0.0, 0.9 * n_m), **kw)


def toth(T, ads, K=1e-4, n_m=5.0, t=0.7, **kw):
    return model_iso("Toth", {"n_m": n_m, "K": K, "t": t}, T, adsorbate=ads, l_range=(0.0, 0.9 * n_m), **kw)


def sampled(iso, n=40, pmax=1e5, **kw):
    p = np.concatenate([[0.0], np.logspace(0, np.log10(pmax), n)])
    return point_iso(p, iso.loading_at(p), iso.temperature, adsorbate=str(iso.adsorbate), **kw)


# adsorbates unknown to the thermodynamic backend: dictionary fallbacks (warnings are captured)
dict_ads = pygaps.Adsorbate(
    "dictgas", store=True, p_critical=40.0, t_critical=300.0, p_triple=0.1, saturation_pressure=2.0e5,
    enthalpy_liquefaction=21.5
)
dict_ads_supercrit = pygaps.Adsorbate(
    "dictgas2", store=True, p_critical=40.0, t_critical=200.0, p_triple=0.1, enthalpy_liquefaction=12.0
)
dict_ads_nohvap = pygaps.Adsorbate("dictgas3", store=True, p_critical=40.0, t_critical=300.0, p_triple=0.1, saturation_pressure=2.0e5)
dict_ads_nothing = pygaps.Adsorbate("dictgas4", store=True)

loads = [0, 0.01, 0.5, 1.0, 2.5, 4.0, 4.9, 4.999999, 5.0, 5.5, -1.0, float("nan")]

cases = [
    # closed form, subcritical adsorbates
    ("lang-N2-77", lang(77.0, "nitrogen"), dict(loading=loads)),
    ("lang-N2-77-default", lang(77.0, "nitrogen"), {}),
    ("lang-N2-77-array", lang(77.0, "nitrogen"), dict(loading=np.array([0.0, 1.0, 2.0]))),
    ("lang-N2-77-tuple", lang(77.0, "nitrogen"), dict(loading=(1.0, 2.0))),
    ("lang-N2-77-int", lang(77.0, "nitrogen"), dict(loading=[0, 1, 2, 5, 6])),
    ("lang-N2-77-empty", lang(77.0, "nitrogen"), dict(loading=[])),
    ("lang-N2-77-scalar", lang(77.0, "nitrogen"), dict(loading=1.0)),
    ("lang-N2-100-strongK", lang(100.0, "nitrogen", K=1e-2), dict(loading=loads)),
    ("lang-N2-77-weakK", lang(77.0, "nitrogen", K=1e-6), dict(loading=loads)),
    ("toth-N2-77", toth(77.0, "nitrogen"), dict(loading=loads)),
    ("toth-N2-77-default", toth(77.0, "nitrogen"), {}),
    ("toth-N2-77-t1", toth(77.0, "nitrogen", t=1.0), dict(loading=loads)),
    ("toth-N2-77-t1.8", toth(77.0, "nitrogen", t=1.8), dict(loading=loads)),
    ("toth-N2-77-t0.3", toth(77.0, "nitrogen", t=0.3), dict(loading=loads)),
    ("toth-Ar-87", toth(87.0, "argon", K=3e-4, n_m=8.0, t=0.5), dict(loading=[0.1, 1, 4, 7.9, 8, 9])),
    ("lang-butane-298", lang(298.15, "butane", K=5e-4, n_m=3.0), dict(loading=[0, 0.1, 1, 2, 2.9, 2.999, 3, 4])),
    ("toth-butane-273", toth(273.15, "butane", K=5e-3, n_m=3.0, t=0.45), dict(loading=[0.1, 1, 2, 2.9])),
    # CO2: triple-point pressure (5.18 bar) above the pressures of the isotherm -> capped
    ("lang-CO2-250-capped", lang(250.0, "carbon dioxide", K=1e-5, n_m=6.0), dict(loading=[0.5, 2, 4, 5.5, 5.9, 5.99])),
    ("toth-CO2-298", toth(298.15, "carbon dioxide", K=2e-5, n_m=6.0, t=0.8), dict(loading=[0.5, 2, 4, 5.5, 5.95])),
    ("lang-water-298", lang(298.15, "water", K=1e-3, n_m=20.0), dict(loading=[0.5, 5, 10, 15, 19])),
    # supercritical: pseudo-saturation pressure (warning logged), omission above p_c
    ("lang-N2-298-supercrit", lang(298.15, "nitrogen", K=1e-6), dict(loading=loads)),
    ("toth-CH4-298-supercrit", toth(298.15, "methane", K=2e-6, t=0.6), dict(loading=loads)),
    ("toth-H2-77-supercrit", toth(77.0, "hydrogen", K=1e-6, t=0.9), dict(loading=[0.1, 1, 4])),
    # dictionary-only adsorbates
    ("lang-dict", lang(250.0, dict_ads.name), dict(loading=[0, 0.5, 2, 4.5, 4.99, 5])),
    ("toth-dict", toth(250.0, dict_ads.name), dict(loading=[0, 0.5, 2, 4.5, 4.99, 5])),
    ("lang-dict-supercrit", lang(250.0, dict_ads_supercrit.name), dict(loading=[0.5, 2, 4.99])),
    ("lang-dict-nohvap", lang(250.0, dict_ads_nohvap.name), dict(loading=[0.5, 2])),
    ("lang-dict-nohvap-all-skipped", lang(250.0, dict_ads_nohvap.name), dict(loading=[0, 5, 6])),
    ("lang-dict-nothing", lang(250.0, dict_ads_nothing.name), dict(loading=[0.5, 2])),
    # point isotherms, fitted inside
    ("pt-lang-N2", sampled(lang(77.0, "nitrogen")), dict(model="Langmuir", loading=[0, 0.5, 2, 4])),
    ("pt-lang-lower", sampled(lang(77.0, "nitrogen")), dict(model="langmuir", loading=[0.5, 2])),
    ("pt-toth-N2", sampled(toth(77.0, "nitrogen")), dict(model="Toth", loading=[0, 0.5, 2, 4])),
    ("pt-toth-default-model", sampled(toth(77.0, "nitrogen")), dict(loading=[0.5, 2])),
    ("pt-toth-default-loading", sampled(toth(77.0, "nitrogen")), {}),
    ("pt-lang-bar", sampled(lang(77.0, "nitrogen"), pmax=9e4), dict(model="Langmuir", loading=[0.5, 2])),
    ("pt-henry-rejected", sampled(lang(77.0, "nitrogen")), dict(model="Henry", loading=[0.5])),
    ("pt-unknown-model", sampled(lang(77.0, "nitrogen")), dict(model="NoSuchModel", loading=[0.5])),
    # guards
    ("err-model-bar", lang(77.0, "nitrogen", pressure_unit="bar"), dict(loading=[0.5])),
    ("err-model-kind", model_iso("Henry", {"K": 1e-4}, 77.0), dict(loading=[0.5])),
    (
        "err-model-dsl",
        model_iso("DSLangmuir", {"n_m1": 3.0, "K1": 1e-5, "n_m2": 1.5, "K2": 5e-4}, 77.0), dict(loading=[0.5])
    ),
    ("err-base-isotherm", BaseIsotherm(
        material="M", adsorbate="nitrogen", temperature=77, pressure_mode="absolute", pressure_unit="Pa",
        loading_basis="molar", loading_unit="mmol", material_basis="mass", material_unit="g", temperature_unit="K"
    ), dict(loading=[0.5])),
    ("err-none", None, dict(loading=[0.5])),
    ("lang-model-arg-ignored", lang(77.0, "nitrogen"), dict(model="Henry", loading=[0.5, 2])),
    ("lang-relative-Pa", lang(77.0, "nitrogen", K=5.0, pressure_mode="relative", pressure_unit="Pa"), dict(loading=[0.5, 2, 4.9])),
]

# converted point isotherm in bar
iso_bar = sampled(lang(77.0, "nitrogen"), pmax=9e4)
iso_bar.convert_pressure(unit_to="bar")
cases.append(("pt-lang-converted-bar", iso_bar, dict(model="Langmuir", loading=[0.5, 2])))
iso_rel = sampled(lang(77.0, "nitrogen"), pmax=9e4)
iso_rel.convert_pressure(mode_to="relative")
cases.append(("pt-lang-converted-relative", iso_rel, dict(model="Langmuir", loading=[0.5, 2])))

for label, iso, kw in cases:
    run(label, enthalpy_sorption_whittaker, iso, **kw)

print("caller-isotherm-units", iso_bar.units["pressure_unit"], iso_rel.units["pressure_mode"])

# independent closed form for one case: lambda + h_vap + RT
iso = toth(77.0, "nitrogen")
res = enthalpy_sorption_whittaker(iso, loading=[1.0, 2.0])
ads = iso.adsorbate
RT = 8.314462618 * 77.0
for n, h in zip(res["loading"], res["enthalpy_sorption"]):
    p = float(iso.pressure_at(n))
    th = (n / 5.0)**0.7
    lam = RT * np.log(ads.saturation_pressure(77.0) * 1e-4 * (th / (1 - th))**((0.7 - 1) / 0.7))
    print("closed-form", fmt(h), fmt((lam + 1000 * ads.enthalpy_vaporisation(press=max(p, ads.p_triple())) + RT) / 1000))
