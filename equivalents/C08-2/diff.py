"""Differential script for change 2: ``isotherms_from_db`` (row + properties + data reassembly)."""
import json
import sqlite3

from _harness import BaseIsotherm, canon, dump, finish, memory, new_db, pgsql, pygaps, run
from pygaps.modelling import model_from_dict

UNITS = dict(
    pressure_mode='absolute',
    pressure_unit='bar',
    material_basis='mass',
    material_unit='g',
    loading_basis='molar',
    loading_unit='mmol',
    temperature_unit='K',
)


def model(name='Henry', **params):
    return model_from_dict({
        'name': name,
        'rmse': 0.125,
        'parameters': params,
        'pressure_range': [0.5, 3.5],
        'loading_range': [1.0, 7.0],
    })


def show(label, func, *args, **kwargs):
    """Run a retrieval and print every isotherm on its own line."""
    isos = []
    ret = run(label, lambda: len(isos.extend(func(*args, **kwargs)) or isos))
    if ret is None:
        return None
    for n, iso in enumerate(isos):
        print(f"   {n:3d} {canon(iso)}")
    return isos


db = new_db('from1.db')
db_other = new_db('from2.db')

# ---------------------------------------------------------------- content
mats = [pygaps.Material('eqm_a', density=1.5), pygaps.Material('eqm_b'), pygaps.Material('eqm c')]
adss = [pygaps.Adsorbate('eq_x', formula='X'), pygaps.Adsorbate('eq_y')]
for m in mats:
    pgsql.material_to_db(m, db_path=db, verbose=False)
    pygaps.MATERIAL_LIST.remove(m)  # keep the in-memory list out of the way
for a in adss:
    pgsql.adsorbate_to_db(a, db_path=db, verbose=False)

stored = {}


def store(iso, path=db, **kwargs):
    run(f'store {type(iso).__name__} {iso.iso_id}', pgsql.isotherm_to_db, iso, db_path=path, verbose=False, **kwargs)
    stored[iso.iso_id] = iso


print("== empty database")
show('all (none yet)', pgsql.isotherms_from_db, db_path=db)
show('criteria (none yet)', pgsql.isotherms_from_db, {'material': 'eqm_a'}, db_path=db)

print("== uploads")
store(BaseIsotherm(material='eqm_a', adsorbate='eq_x', temperature=77, **UNITS))
store(BaseIsotherm(material='eqm_b', adsorbate='eq_x', temperature=77.5, flag_t=True, flag_f=False, **UNITS))
store(
    BaseIsotherm(
        material='eqm c',
        adsorbate='eq_y',
        temperature=298,
        iso_type='calorimetry',
        id='user id',
        comment='TRUE',
        note='FALSE',
        number=12,
        ratio=0.1 + 0.2,
        text_number='13',
        empty='',
        **UNITS
    )
)
store(
    pygaps.PointIsotherm(
        pressure=[1, 2, 3, 2, 1],
        loading=[4, 5, 6, 5.5, 4.5],
        material='eqm_a',
        adsorbate='eq_y',
        temperature=77,
        flagged=True,
        **UNITS
    )
)
store(
    pygaps.PointIsotherm(
        isotherm_data=__import__('pandas').DataFrame({
            'p': [0.1, 0.2, 0.30000000000000004],
            'l': [1, 2, 3],
            'enthalpy': [5.5, 4.5, 3.5],
            'label': ['a', 'b', 'c'],
        }),
        pressure_key='p',
        loading_key='l',
        material='eqm_b',
        adsorbate='eq_x',
        temperature=303.15,
        pressure_mode='absolute',
        pressure_unit='kPa',
        material_basis='volume',
        material_unit='cm3',
        loading_basis='mass',
        loading_unit='g',
        temperature_unit='K',
        user='me',
    )
)
store(
    pygaps.PointIsotherm(
        isotherm_data=__import__('pandas').DataFrame({
            'p': [0.1, 0.2, 0.30000000000000004],
            'l': [1, 2, 3],
            'enthalpy': [5.5, 4.5, 3.5],
            'count': [1, 2, 3],
            'label': ['a', 'b', 'c'],
            'ok': [True, False, True],
        }),
        pressure_key='p',
        loading_key='l',
        other_keys=['enthalpy', 'count', 'label', 'ok'],
        material='eqm_b',
        adsorbate='eq_x',
        temperature=303.15,
        pressure_mode='relative',
        pressure_unit=None,
        material_basis='volume',
        material_unit='cm3',
        loading_basis='mass',
        loading_unit='g',
        temperature_unit='K',
        user='relative pressure cannot be stored',
    )
)
store(pygaps.PointIsotherm(pressure=[1], loading=[2], material='eqm c', adsorbate='eq_x', temperature=10, **UNITS))
store(
    pygaps.ModelIsotherm(
        model=model('Henry', K=2.0), material='eqm_a', adsorbate='eq_x', temperature=77, fitted=False, **UNITS
    )
)
store(
    pygaps.ModelIsotherm(
        model=model('Langmuir', K=1.5, n_m=3.25),
        material='eqm_b',
        adsorbate='eq_y',
        temperature=120,
        branch='des',
        **UNITS
    )
)
# same content in another file: must not leak
store(BaseIsotherm(material='eqm_other', adsorbate='eq_other', temperature=1, only_other=True, **UNITS), db_other)
memory('after uploads')

print("== retrieval")
show('all kw', pgsql.isotherms_from_db, db_path=db)
show('all pos', pgsql.isotherms_from_db, None, db)
show('all empty criteria', pgsql.isotherms_from_db, {}, db)
show('other file', pgsql.isotherms_from_db, db_path=db_other)
for crit in [
    {'material': 'eqm_a'},
    {'material': 'eqm c'},
    {'material': 'absent'},
    {'adsorbate': 'eq_x'},
    {'adsorbate': 'EQ_X'},
    {'temperature': 77},
    {'temperature': 77.0},
    {'temperature': '77'},
    {'temperature': 77.5},
    {'iso_type': 'pointisotherm'},
    {'iso_type': 'modelisotherm'},
    {'iso_type': 'isotherm'},
    {'iso_type': 'calorimetry'},
    {'material': 'eqm_a', 'adsorbate': 'eq_x'},
    {'material': 'eqm_a', 'adsorbate': 'eq_x', 'temperature': 77, 'iso_type': 'modelisotherm'},
    {'material': 'eqm_b', 'temperature': 77},
    {'material': None},
    {'type': 'x'},
    {'flagged': True},
    {'id': list(stored)[3]},
    {'id': 'nope'},
    {'material': ['eqm_a']},
]:
    show(f'criteria {canon(crit)}', pgsql.isotherms_from_db, crit, db_path=db)
show('criteria positional with verbose', pgsql.isotherms_from_db, {'material': 'eqm_b'}, db, True)

print("== round trip against dictionary model")
got = {iso.iso_id: iso for iso in pgsql.isotherms_from_db(db_path=db, verbose=False)}
print('ids equal', sorted(got) == sorted(k for k, v in stored.items() if not v.to_dict().get('only_other')))
for key, iso in got.items():
    orig = stored.get(key)
    print(key, type(iso).__name__, orig is not None and iso == orig, iso in list(stored.values()), type(iso) is type(orig))

print("== deletion through retrieved objects")
for key, iso in list(got.items())[::2]:
    run(f'delete {key}', pgsql.isotherm_delete_db, iso, db_path=db, verbose=False)
    run(f'delete again {key}', pgsql.isotherm_delete_db, iso, db_path=db, verbose=False)
show('after deletions', pgsql.isotherms_from_db, db_path=db)
dump('after deletions', db, ['isotherms', 'isotherm_properties', 'isotherm_data'])

# ---------------------------------------------------------------- more than one chunk of 100
print("== chunking (100 per query)")
db_big = new_db('big.db')
pgsql.material_to_db(pygaps.Material('eqm_big'), db_path=db_big, verbose=False)
pgsql.adsorbate_to_db(adss[0], db_path=db_big, verbose=False)
for n_total in (99, 100, 101, 200, 231):
    present = len(pgsql.isotherms_from_db(db_path=db_big, verbose=False))
    for i in range(present, n_total):
        kind = i % 3
        common = dict(material='eqm_big', adsorbate='eq_x', temperature=100 + i, index=i, even=(i % 2 == 0), **UNITS)
        if kind == 0:
            iso = BaseIsotherm(**common)
        elif kind == 1:
            iso = pygaps.PointIsotherm(pressure=[1, 2 + i], loading=[i, i + 0.5], **common)
        else:
            iso = pygaps.ModelIsotherm(model=model('Henry', K=float(i)), **common)
        pgsql.isotherm_to_db(iso, db_path=db_big, verbose=False)
    isos = run(f'big {n_total}', pgsql.isotherms_from_db, db_path=db_big)
    digest = [(
        type(i).__name__, i.iso_id, i.temperature, i.to_dict().get('index'), i.to_dict().get('even'),
        i.model.params if hasattr(i, 'model') else None, i.data_raw.values.tolist() if hasattr(i, 'data_raw') else None
    ) for i in pgsql.isotherms_from_db(db_path=db_big, verbose=False)]
    print('   ', canon(digest))
    run(f'big {n_total} criteria', lambda: [
        i.temperature
        for i in pgsql.isotherms_from_db({'iso_type': 'pointisotherm'}, db_path=db_big, verbose=False)
    ])

# ---------------------------------------------------------------- hand-made / damaged content
print("== damaged or hand-written content")
db_raw = new_db('raw.db')
pgsql.material_to_db(pygaps.Material('eqm_raw'), db_path=db_raw, verbose=False)
pgsql.adsorbate_to_db(adss[1], db_path=db_raw, verbose=False)
con = sqlite3.connect(db_raw)


def raw_iso(iso_id, iso_type, temperature=1.0, props=(), data=()):
    con.execute('INSERT INTO isotherms VALUES (?,?,?,?,?)', (iso_id, iso_type, 'eqm_raw', 'eq_y', temperature))
    for typ, val in props:
        con.execute('INSERT INTO isotherm_properties (iso_id, type, value) VALUES (?,?,?)', (iso_id, typ, val))
    for typ, dtype, dat in data:
        con.execute('INSERT INTO isotherm_data (iso_id, type, dtype, data) VALUES (?,?,?,?)', (iso_id, typ, dtype, dat))
    con.commit()


units = [(k, v) for k, v in UNITS.items()]
raw_iso('base_with_data', 'isotherm', 1, units, [('pressure', 'float', 'not json'), ('model', 'dict', '{bad')])
raw_iso('dup_props', 'isotherm', 2, units + [('comment', 'first'), ('other', 1), ('comment', 'second'), ('comment', 'TRUE')])
raw_iso('prop_named_like_columns', 'isotherm', 3, units + [('temperature', 55), ('material', 'eqm_b2'), ('iso_type', 'x'), ('id', 'y')])
raw_iso('12345', 'isotherm', 4, units + [('numeric_id', 'yes')])
raw_iso('1e3', 'isotherm', 5, units + [('numeric_id', 'exp')])
raw_iso('0012', 'isotherm', 6, units + [('numeric_id', 'zeros')])
raw_iso('12', 'isotherm', 7, units + [('numeric_id', 'twelve')])
raw_iso(
    'point_dup_data', 'pointisotherm', 8, units, [
        ('pressure', 'float', '[1, 2]'),
        ('loading', 'float', '[3, 4]'),
        ('extra', 'float', '[5, 6]'),
        ('loading', 'float', '[7, 8]'),
    ]
)
raw_iso('model_two_rows', 'modelisotherm', 9, units, [
    ('model', 'dict', json.dumps(model('Henry', K=1.0).to_dict())),
    ('model', 'dict', json.dumps(model('Henry', K=2.0).to_dict())),
])
raw_iso('unknown_type_falls_back', 'isotherm', 10, units, [])
show('raw readable part', pgsql.isotherms_from_db, db_path=db_raw)

for bad_id, args in {
    'model_without_data': ('modelisotherm', 20, units, []),
    'model_bad_json': ('modelisotherm', 21, units, [('model', 'dict', '{bad')]),
    'model_unknown': ('modelisotherm', 22, units, [('model', 'dict', '{"name": "Nope"}')]),
    'point_without_data': ('pointisotherm', 23, units, []),
    'point_bad_json': ('pointisotherm', 24, units, [('pressure', 'float', '[1, 2'), ('loading', 'float', '[1, 2]')]),
    'point_ragged': ('pointisotherm', 25, units, [('pressure', 'float', '[1, 2, 3]'), ('loading', 'float', '[1, 2]')]),
    'point_missing_loading': ('pointisotherm', 26, units, [('pressure', 'float', '[1, 2, 3]')]),
    'no_units': ('isotherm', 27, [('pressure_mode', 'nonsense')], []),
    'bad_unit': ('isotherm', 28, units + [('pressure_unit', 'parsec')], []),
}.items():
    raw_iso(bad_id, *args)
    run(f'raw {bad_id} all', lambda: len(pgsql.isotherms_from_db(db_path=db_raw, verbose=False)))
    run(f'raw {bad_id} only', lambda: pgsql.isotherms_from_db({'id': bad_id}, db_path=db_raw, verbose=False))
    run(f'raw {bad_id} others', lambda: len(pgsql.isotherms_from_db({'temperature': 2}, db_path=db_raw, verbose=False)))
    con.execute('DELETE FROM isotherm_data WHERE iso_id = ?', (bad_id, ))
    con.execute('DELETE FROM isotherm_properties WHERE iso_id = ?', (bad_id, ))
    con.execute('DELETE FROM isotherms WHERE id = ?', (bad_id, ))
    con.commit()
con.close()
show('raw readable part again', pgsql.isotherms_from_db, db_path=db_raw)

# explicit cursor: the wrapper is bypassed, the function itself does the work
con = sqlite3.connect(db)
con.row_factory = sqlite3.Row
show('explicit cursor', pgsql.isotherms_from_db, {'adsorbate': 'eq_x'}, cursor=con.cursor())
con.row_factory = None
run('explicit cursor without Row factory', pgsql.isotherms_from_db, cursor=con.cursor())
con.close()
memory('end')
finish()
