"""Differential script for change 1 (_solve_hk / _solve_hk_cy common loop)."""
import math
import warnings

import numpy as np

import pygaps
import pygaps.characterisation.psd_micro as pmic
from pygaps.characterisation.models_hk import PROPERTIES_AlPh_OXIDE_ION
from pygaps.characterisation.models_hk import PROPERTIES_AlSi_OXIDE_ION
from pygaps.characterisation.models_hk import PROPERTIES_CARBON


def fmt(x):
    if isinstance(x, dict):
        return '{' + ', '.join(f'{k!r}: {fmt(v)}' for k, v in x.items()) + '}'
    if isinstance(x, (list, tuple)):
        return type(x).__name__ + '[' + ', '.join(fmt(v) for v in x) + ']'
    if isinstance(x, np.ndarray):
        return f'ndarray{x.shape}[' + ', '.join(fmt(v) for v in x.ravel().tolist()) + ']'
    if isinstance(x, (float, np.floating)):
        return f'{type(x).__name__}:{float(x):.12g}'
    return f'{type(x).__name__}:{x!r}'


CASE = [0]


def run(label, func, *args, **kwargs):
    CASE[0] += 1
    with warnings.catch_warnings(record=True) as rec:
        warnings.simplefilter('always')
        try:
            out = 'OK ' + fmt(func(*args, **kwargs))
        except Exception as err:  # noqa
            out = f'EXC {type(err).__name__}: {err.args!r}'
    wrn = sorted({f'{w.category.__name__}: {w.message}' for w in rec})
    print(f'[{CASE[0]:03d}] {label}\n    -> {out}')
    for w in wrn:
        print(f'    warn {w}')


N2 = {
    'molecular_diameter': 0.3,
    'polarizability': 0.0017403,
    'magnetic_susceptibility': 3.6e-08,
    'surface_density': 6.71e+18,
    'liquid_density': 0.8076937566133804,
    'adsorbate_molar_mass': 28.01348
}
AR = {
    'molecular_diameter': 0.34,
    'polarizability': 0.00163,
    'magnetic_susceptibility': 3.25e-08,
    'surface_density': 8.52e+18,
    'liquid_density': 1.3954,
    'adsorbate_molar_mass': 39.948
}
CO2 = {
    'molecular_diameter': 0.33,
    'polarizability': 0.002911,
    'magnetic_susceptibility': 5.0e-08,
    'surface_density': 5.45e+18,
    'liquid_density': 1.023,
    'adsorbate_molar_mass': 44.01
}
USER_MAT = {
    'molecular_diameter': 0.3,
    'polarizability': 1.5E-3,
    'magnetic_susceptibility': 8.0E-8,
    'surface_density': 2.5E19,
}


class Tracer:
    """Wrap a potential so that every evaluation point is recorded."""
    def __init__(self, fun):
        self.fun = fun
        self.calls = []

    def __call__(self, x):
        self.calls.append(float(x))
        return self.fun(x)


def traced(solver, *args):
    """Run a solver and return result plus the exact list of evaluated abscissae."""
    args = list(args)
    idx = [i for i, a in enumerate(args) if callable(a)][0]
    tr = Tracer(args[idx])
    args[idx] = tr
    res = solver(*args)
    return res, len(tr.calls), [repr(c) for c in tr.calls[:6]], repr(math.fsum(tr.calls))


def raising(x):
    raise RuntimeError(f'potential failed at {x!r}')


# ---------------------------------------------------------------- direct solver calls
p_log = [1e-3, 0.01, 0.1, 0.5, 1, 2, 5, 9.5, 10.5, 20, 30]
run('hk log geo1', traced, pmic._solve_hk, p_log, np.log, 0.5, 1)
run('hk log geo2 (early break)', traced, pmic._solve_hk, p_log, np.log, 0.5, 2)
run('hk log ndarray pressure', traced, pmic._solve_hk, np.array(p_log), np.log, 0.25, 1)
run('hk math.log tuple pressure', traced, pmic._solve_hk, tuple(p_log), math.log, 0.5, 1)
run('hk generator pressure', traced, pmic._solve_hk, (p for p in p_log), np.log, 0.5, 4)
run('hk empty', traced, pmic._solve_hk, [], np.log, 0.5, 1)
run('hk scalar pressure', traced, pmic._solve_hk, 0.5, np.log, 0.5, 1)
run('hk 0-d array pressure', traced, pmic._solve_hk, np.asarray(0.5), np.log, 0.5, 1)
run('hk None pressure', traced, pmic._solve_hk, None, np.log, 0.5, 1)
run('hk geo 0', traced, pmic._solve_hk, p_log, np.log, 0.5, 0)
run('hk geo 0 + scalar pressure', traced, pmic._solve_hk, 0.5, np.log, 0.5, 0)
run('hk geo str', traced, pmic._solve_hk, p_log, np.log, 0.5, 'a')
run('hk raising potential', traced, pmic._solve_hk, p_log, raising, 0.5, 1)
run('hk nan pressure', traced, pmic._solve_hk, [0.1, float('nan'), 0.3], np.log, 0.5, 1)
run('hk string element', traced, pmic._solve_hk, [0.1, 'x'], np.log, 0.5, 1)
run('hk bound above 50', traced, pmic._solve_hk, [0.1], np.log, 60, 1)
run('hk quadratic potential', traced, pmic._solve_hk, [0.2, 0.4, 0.8], lambda x: -1 / x**2, 0.1, 1)
run('hk test-suite case', pmic._solve_hk, [1], lambda x: np.log(x), 0.5, 1)

l_inc = np.array([0.1, 0.5, 1, 2, 3, 4, 5, 6, 7, 8, 9])
run('cy log geo1', traced, pmic._solve_hk_cy, p_log, l_inc, np.log, 0.5, 1)
run('cy log geo2 (early break)', traced, pmic._solve_hk_cy, p_log, l_inc, np.log, 0.5, 2)
run('cy ndarray pressure', traced, pmic._solve_hk_cy, np.array(p_log), l_inc * 3.3, np.log, 0.25, 1)
run('cy shorter loading', traced, pmic._solve_hk_cy, p_log, l_inc[:4], np.log, 0.5, 1)
run('cy shorter pressure', traced, pmic._solve_hk_cy, p_log[:3], l_inc, np.log, 0.5, 1)
run('cy zero loading point', traced, pmic._solve_hk_cy, p_log[:4], np.array([0., 1, 2, 3]), np.log, 0.5, 1)
run('cy negative loading', traced, pmic._solve_hk_cy, p_log[:4], np.array([-1., 1, 2, 3]), np.log, 0.5, 1)
run('cy non-monotonic loading', traced, pmic._solve_hk_cy, p_log[:5], np.array([1., 3, 2, 5, 4]), np.log, 0.5, 1)
run('cy all-zero loading', traced, pmic._solve_hk_cy, p_log[:3], np.array([0., 0, 0]), np.log, 0.5, 1)
run('cy int loading array', traced, pmic._solve_hk_cy, p_log[:4], np.array([1, 2, 3, 4]), np.log, 0.5, 1)
run('cy list loading', traced, pmic._solve_hk_cy, p_log[:4], [1., 2, 3, 4], np.log, 0.5, 1)
run('cy empty loading', traced, pmic._solve_hk_cy, [], np.array([]), np.log, 0.5, 1)
run('cy empty loading, geo 0', traced, pmic._solve_hk_cy, [], np.array([]), np.log, 0.5, 0)
run('cy geo 0', traced, pmic._solve_hk_cy, p_log, l_inc, np.log, 0.5, 0)
run('cy scalar pressure', traced, pmic._solve_hk_cy, 0.3, l_inc, np.log, 0.5, 1)
run('cy scalar loading', traced, pmic._solve_hk_cy, p_log, 3.0, np.log, 0.5, 1)
run('cy None loading', traced, pmic._solve_hk_cy, p_log, None, np.log, 0.5, 1)
run('cy raising potential', traced, pmic._solve_hk_cy, p_log, l_inc, raising, 0.5, 1)
run('cy nan loading', traced, pmic._solve_hk_cy, p_log[:3], np.array([1., np.nan, 3]), np.log, 0.5, 1)
run(
    'cy test-suite case', pmic._solve_hk_cy, [1.463017], np.array([0.5, 1]), lambda x: np.log(x),
    0.5, 1
)

# ---------------------------------------------------------------- through the HK / RY functions
pressure = np.array([1e-7, 1e-6, 1e-5, 1e-4, 1e-3, 5e-3, 0.02, 0.05, 0.1, 0.2])
loading = np.array([0.4, 1.1, 2.3, 3.9, 5.2, 6.0, 6.8, 7.3, 7.7, 8.1])
p_wide = np.array([1e-5, 1e-3, 0.05, 0.3, 0.6, 0.9, 0.95, 0.99])
l_wide = np.array([1., 2, 3, 4, 5, 6, 7, 8])

for geo in ['slit', 'cylinder', 'sphere']:
    for cy in [False, True]:
        for ads, mat, temp in [(N2, PROPERTIES_CARBON, 77.355), (AR, PROPERTIES_AlSi_OXIDE_ION, 87.3),
                               (CO2, USER_MAT, 273.15)]:
            run(
                f'HK {geo} cy={cy} T={temp}', pmic.psd_horvath_kawazoe, pressure, loading, temp,
                geo, ads, mat, use_cy=cy
            )
        run(
            f'HK {geo} cy={cy} wide (break)', pmic.psd_horvath_kawazoe, p_wide, l_wide, 120.,
            geo, N2, PROPERTIES_AlPh_OXIDE_ION, use_cy=cy
        )

for geo in ['slit', 'sphere', 'cylinder']:
    for cy in [False, True]:
        p_use, l_use = (pressure[::3], loading[::3]) if geo == 'cylinder' else (pressure, loading)
        run(
            f'RY {geo} cy={cy}', pmic.psd_horvath_kawazoe_ry, p_use, l_use, 77.355, geo, N2,
            PROPERTIES_CARBON, use_cy=cy
        )
        if geo != 'cylinder':
            run(
                f'RY {geo} cy={cy} Ar/oxide', pmic.psd_horvath_kawazoe_ry, pressure, loading, 87.3,
                geo, AR, PROPERTIES_AlSi_OXIDE_ION, use_cy=cy
            )
            run(
                f'RY {geo} cy={cy} wide (break)', pmic.psd_horvath_kawazoe_ry, p_wide, l_wide,
                300., geo, CO2, USER_MAT, use_cy=cy
            )

# list inputs, mismatched / empty inputs
run('HK list inputs cy', pmic.psd_horvath_kawazoe, list(pressure), list(loading), 77., 'slit', N2, PROPERTIES_CARBON, True)
run('HK empty', pmic.psd_horvath_kawazoe, [], [], 77., 'slit', N2, PROPERTIES_CARBON)
run('HK mismatch', pmic.psd_horvath_kawazoe, [0.1, 0.2], [1.], 77., 'slit', N2, PROPERTIES_CARBON)
run('RY empty', pmic.psd_horvath_kawazoe_ry, [], [], 77., 'slit', N2, PROPERTIES_CARBON)
run('RY empty cy', pmic.psd_horvath_kawazoe_ry, [], [], 77., 'slit', N2, PROPERTIES_CARBON, True)
run('RY mismatch', pmic.psd_horvath_kawazoe_ry, [0.01, 0.1, 0.2], [1., 2.], 77., 'slit', N2, PROPERTIES_CARBON)
run('RY mismatch cy', pmic.psd_horvath_kawazoe_ry, [0.01, 0.1, 0.2], [1., 2.], 77., 'slit', N2, PROPERTIES_CARBON, True)
run('HK single point', pmic.psd_horvath_kawazoe, [0.01], [1.], 77., 'slit', N2, PROPERTIES_CARBON)
run('HK single point cy', pmic.psd_horvath_kawazoe, [0.01], [1.], 77., 'sphere', N2, PROPERTIES_CARBON, True)
run('HK bad geometry', pmic.psd_horvath_kawazoe, [0.01, 0.02], [1., 2.], 77., 'cube', N2, PROPERTIES_CARBON)

# ---------------------------------------------------------------- through the isotherm front-end
iso = pygaps.PointIsotherm(
    pressure=list(pressure) + [0.4, 0.8],
    loading=list(loading) + [8.4, 9.0],
    material='TEST',
    adsorbate='N2',
    temperature=77.355,
    pressure_mode='relative',
    loading_basis='molar',
    loading_unit='mmol',
    material_basis='mass',
    material_unit='g',
)
for model in ['HK', 'HK-CY', 'RY', 'RY-CY']:
    for geo in ['slit', 'sphere']:
        run(
            f'psd_microporous {model} {geo}', pmic.psd_microporous, iso, psd_model=model,
            pore_geometry=geo, adsorbate_model=N2
        )
run('psd_microporous HK-CY limits', pmic.psd_microporous, iso, psd_model='HK-CY', adsorbate_model=N2, p_limits=(1e-5, 0.5))
run('psd_microporous db adsorbate', pmic.psd_microporous, iso, psd_model='RY-CY', material_model='AlSiOxideIon')
