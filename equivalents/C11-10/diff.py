"""Differential transcript for ModelIsotherm.spreading_pressure_at."""
import logging
import warnings

import numpy

import pygaps
from pygaps.modelling import get_isotherm_model
from pygaps.modelling.base_model import IsothermBaseModel

logging.getLogger("pygaps").setLevel(logging.ERROR)


def fmt(res):
    if isinstance(res, numpy.ndarray):
        return f"ndarray {res.dtype} {res.shape} {[float(x).hex() if isinstance(x, float) else x for x in numpy.ravel(res).tolist()]!r}"
    if isinstance(res, (float, numpy.floating)):
        return f"{type(res).__name__} {res!r} {float(res).hex()}"
    return f"{type(res).__name__} {res!r}"


def show(label, fn, *args, **kwargs):
    with warnings.catch_warnings(record=True) as wlist:
        warnings.simplefilter("always")
        try:
            out = fmt(fn(*args, **kwargs))
        except BaseException as exc:  # noqa
            out = f"EXC {type(exc).__name__}: {exc}"
    wtxt = sorted({f"{w.category.__name__}: {str(w.message).splitlines()[0]}" for w in wlist})
    print(f"{label} -> {out}" + (f"  WARN {wtxt}" if wtxt else ""))


PARAMS = {
    "Henry": {"K": 3.3},
    "Langmuir": {"K": 12.0, "n_m": 5.0},
    "DSLangmuir": {"n_m1": 3.0, "K1": 20.0, "n_m2": 2.5, "K2": 0.7},
    "TSLangmuir": {"n_m1": 3.0, "K1": 20.0, "n_m2": 2.5, "K2": 0.7, "n_m3": 1.1, "K3": 150.0},
    "BET": {"n_m": 4.0, "C": 80.0, "N": 0.9},
    "GAB": {"n_m": 4.0, "C": 80.0, "K": 0.85},
    "Freundlich": {"K": 2.2, "m": 1.7},
    "Quadratic": {"n_m": 3.0, "Ka": 5.0, "Kb": 11.0},
    "TemkinApprox": {"n_m": 5.0, "K": 8.0, "tht": -0.4},
    "Toth": {"n_m": 5.0, "K": 9.0, "t": 0.6},
    "JensenSeaton": {"K": 40.0, "a": 4.0, "b": 0.2, "c": 1.3},
    "Virial": {"K": 10.0, "A": 0.1, "B": 0.01, "C": 0.001},
    "DR": {"n_m": 5.0, "e": 9000.0},
}


class SpyModel(IsothermBaseModel):
    """Stand-in model which records what it is handed."""
    name = "Spy"
    calculates = "loading"
    param_names = ()

    def __init__(self):
        super().__init__()
        self.got = []

    def spreading_pressure(self, pressure):
        self.got.append((type(pressure).__name__, getattr(pressure, "dtype", None), getattr(pressure, "shape", None), numpy.asarray(pressure).tolist()))
        return ("spy", pressure if not isinstance(pressure, numpy.ndarray) else pressure.tolist())


def make(model, branch="ads", **kw):
    base = dict(
        material="mat", adsorbate="N2", temperature=77.355,
        pressure_mode="absolute", pressure_unit="bar",
        loading_basis="molar", loading_unit="mmol",
        material_basis="mass", material_unit="g", temperature_unit="K",
    )
    base.update(kw)
    if isinstance(model, str):
        model = get_isotherm_model(model, parameters=PARAMS[model], pressure_range=(0.001, 1.0), loading_range=(0.0, 5.0))
    return pygaps.ModelIsotherm(model=model, branch=branch, **base)


PRESSURES = [0.0, 1e-9, 0.001, 0.1, 0.5, 1.0, 3.0, -0.1, float("nan"), float("inf"), 1, True,
             numpy.float64(0.25), numpy.float32(0.25), numpy.array(0.3), numpy.array([0.3]),
             [0.1, 0.2, 0.9], numpy.array([0.0, 0.05, 0.5]), numpy.array([1, 2]), numpy.array([[0.1, 0.2], [0.3, 0.4]]),
             (0.1, 0.4), [], None, "0.5", [None], ["a"]]
CONV = [
    dict(),
    dict(pressure_unit="bar"), dict(pressure_unit="kPa"), dict(pressure_unit="torr"), dict(pressure_unit="Pa"),
    dict(pressure_unit="bad"), dict(pressure_unit=""), dict(pressure_unit=0),
    dict(pressure_mode="absolute"), dict(pressure_mode="relative"), dict(pressure_mode="relative%"), dict(pressure_mode="bad"), dict(pressure_mode=""),
    dict(pressure_mode="absolute", pressure_unit="atm"), dict(pressure_mode="relative", pressure_unit="atm"),
    dict(pressure_mode="relative%", pressure_unit="bad"), dict(pressure_mode="bad", pressure_unit="bad"),
    dict(pressure_mode="absolute", pressure_unit="bad"),
]
ISO_KW = {
    "abs-bar": dict(),
    "abs-kPa": dict(pressure_unit="kPa"),
    "rel": dict(pressure_mode="relative", pressure_unit=None),
    "rel%": dict(pressure_mode="relative%", pressure_unit=None),
    "rel-with-unit": dict(pressure_mode="relative", pressure_unit="bar"),
    "abs-CO2-300K": dict(adsorbate="CO2", temperature=300.0),
    "abs-supercritical": dict(adsorbate="N2", temperature=300.0),
    "abs-celsius": dict(temperature=-195.8, temperature_unit="°C"),
}

print("==== 1. spy model: what reaches model.spreading_pressure")
for iname, ikw in ISO_KW.items():
    for conv in CONV:
        for p in PRESSURES:
            spy = SpyModel()
            try:
                iso = make(spy, **ikw)
            except Exception as exc:
                print(f"spy[{iname}] creation EXC {type(exc).__name__}: {exc}")
                break
            show(f"spy[{iname}] {conv} p={p!r}", iso.spreading_pressure_at, p, **conv)
            print("    got:", repr(spy.got))

print("==== 2. branch argument")
for ibranch in ("ads", "des"):
    for branch in (None, "", "ads", "des", "all", "bad", 0, 1, ["ads"]):
        spy = SpyModel()
        iso = make(spy, branch=ibranch)
        show(f"iso-branch={ibranch} branch={branch!r}", iso.spreading_pressure_at, 0.5, branch)
        show(f"iso-branch={ibranch} branch={branch!r} kw+conv", iso.spreading_pressure_at, pressure=0.5, branch=branch, pressure_unit="kPa", pressure_mode="absolute")
        show(f"iso-branch={ibranch} branch={branch!r} badconv", iso.spreading_pressure_at, 0.5, branch, "bad", "bad")
        print("    got:", repr(spy.got))

print("==== 3. real models")
for mname in PARAMS:
    for iname in ("abs-bar", "abs-kPa", "rel", "rel%", "abs-CO2-300K"):
        try:
            iso = make(mname, **ISO_KW[iname])
        except Exception as exc:
            print(f"{mname}[{iname}] creation EXC {type(exc).__name__}: {exc}")
            continue
        for conv in (dict(), dict(pressure_unit="kPa"), dict(pressure_mode="relative"), dict(pressure_mode="relative%"),
                     dict(pressure_mode="absolute", pressure_unit="torr"), dict(pressure_mode="absolute")):
            for p in (0.0, 1e-6, 0.01, 0.3, 0.77, 1.0, 40.0, numpy.array([0.05, 0.5]), [0.2]):
                show(f"{mname}[{iname}] {conv} p={p!r}", iso.spreading_pressure_at, p, **conv)

print("==== 4. object state untouched")
iso = make("Langmuir")
before = repr(sorted(iso.to_dict().items()))
iso.spreading_pressure_at(45.0, pressure_unit="kPa")
iso.spreading_pressure_at(0.45, pressure_mode="relative")
print(before == repr(sorted(iso.to_dict().items())), before[:400])
print(iso.pressure_mode, iso.pressure_unit, iso.branch)
