"""Differential script for change 1: the ``with_connection`` transaction wrapper."""
import sqlite3

from _harness import BaseIsotherm, canon, dump, finish, memory, new_db, pgsql, pygaps, run
from pygaps.utilities.exceptions import ParsingError

wc = pgsql.with_connection

# ---------------------------------------------------------------- wrapper on toy functions
print("== toy functions")


@wc
def toy_full(first, db_path=None, flag=False, **kwargs):
    """Toy docstring."""
    cur = kwargs['cursor']
    fk = cur.execute('PRAGMA foreign_keys').fetchone()[0]
    dbfile = cur.execute('PRAGMA database_list').fetchone()[2]
    return (first, db_path, flag, sorted(kwargs), fk, dbfile.rsplit('/', 1)[-1], type(cur).__name__)


@wc
def toy_nodb(first=1, **kwargs):
    cur = kwargs['cursor']
    return (first, cur.execute('PRAGMA database_list').fetchone()[2].rsplit('/', 1)[-1])


@wc
def toy_kwonly(first=1, *, db_path=None, **kwargs):
    cur = kwargs['cursor']
    return (
        first, db_path, cur.execute('PRAGMA database_list').fetchone()[2].rsplit('/', 1)[-1],
        cur.connection.row_factory is sqlite3.Row
    )


@wc
def toy_write(what, db_path=None, fail=None, **kwargs):
    cur = kwargs['cursor']
    cur.execute('INSERT INTO materials (name) VALUES (?)', (what, ))
    if fail is not None:
        raise fail
    return cur.lastrowid


@wc
def toy_nocursor(first, db_path=None):
    return first


db_a = new_db('toy_a.db')
db_b = new_db('toy_b.db')

print(canon([toy_full.__name__, toy_full.__doc__, toy_full.__wrapped__.__name__, toy_full.__qualname__]))
run('toy kw', toy_full, 1, db_path=db_a)
run('toy pos', toy_full, 1, db_b)
run('toy pos+flag', toy_full, 1, db_b, True)
run('toy kw wins?', toy_full, 1, db_path=db_b, flag=3)
run('toy pos and kw', toy_full, 1, db_a, db_path=db_b)
run('toy none kw (default db)', toy_full, 1, db_path=None)
run('toy empty str (default db)', toy_full, 1, db_path='')
run('toy pos none (default db)', toy_full, 1, None)
run('toy no db (default db)', toy_full, 1)
run('toy no args', toy_full)
run('toy first kw, db kw', toy_full, first=2, db_path=db_a)
run('toy nodb', toy_nodb, 5)
run('toy nodb db_path kw', toy_nodb, 5, db_path=db_a)
run('toy kwonly', toy_kwonly, 5, db_path=db_a)
run('toy kwonly pos (error)', toy_kwonly, 5, db_a)
run('toy nocursor', toy_nocursor, 5, db_a)
run('toy bad path', toy_full, 1, db_path='/nonexistent_dir_eq/x.db')
run('toy path obj', toy_full, 1, db_path=__import__('pathlib').Path(db_a))

# explicit cursors
con = sqlite3.connect(db_a)
con.row_factory = sqlite3.Row
cur = con.cursor()
run('toy cursor given', toy_full, 1, db_path=db_b, cursor=cur)
run('toy cursor given, positional db', toy_full, 1, db_b, cursor=cur)
run('toy cursor None', toy_full, 1, db_path=db_b, cursor=None)
run('toy cursor 0', toy_full, 1, db_b, cursor=0)
run('toy write via cursor (not committed by wrapper)', toy_write, 'via_cursor', cursor=cur)
dump('before outer commit', db_a, ['materials'])
con.rollback()
run('toy write via cursor + IntegrityError passes through', toy_write, 'x', cursor=cur, fail=sqlite3.IntegrityError('boom'))
con.rollback()
con.close()
dump('after outer rollback', db_a, ['materials'])

# transaction behaviour for the exception classes
for i, exc in enumerate([
    None,
    sqlite3.IntegrityError('integrity'),
    sqlite3.InterfaceError('interface'),
    sqlite3.OperationalError('operational'),
    sqlite3.ProgrammingError('programming'),
    sqlite3.DatabaseError('database'),
    sqlite3.Error('plain'),
    ParsingError('parsing'),
    KeyError('key'),
    ValueError('value'),
    KeyboardInterrupt('kbd'),
    StopIteration('stop'),
]):
    run(f'toy write {i} kw', toy_write, f'w{i}', db_path=db_a, fail=exc)
    run(f'toy write {i} pos', toy_write, f'p{i}', db_b, exc)
    dump(f'a after {i}', db_a, ['materials'])
    dump(f'b after {i}', db_b, ['materials'])
run('toy write dup a', toy_write, 'w0', db_path=db_a)
run('toy write dup b', toy_write, 'p0', db_b)
run('toy write null', toy_write, None, db_b)
run('toy write unsupported', toy_write, {'a': 1}, db_b)
dump('a end', db_a, ['materials'])
dump('b end', db_b, ['materials'])

# ---------------------------------------------------------------- public API through the wrapper
print("== public API")
db1 = new_db('api1.db')
db2 = new_db('api2.db')
db_empty = new_db('empty.db', empty=True)

mat = pygaps.Material('eq_mat', density=2.5, comment='hello')
mat2 = pygaps.Material('eq_mat2')
ads = pygaps.Adsorbate('eq_ads', formula='X2', alias=['eqa'], molar_mass=12.5)

run('mat kw db1', pgsql.material_to_db, mat, db_path=db1)
run('mat pos db2', pgsql.material_to_db, mat, db2)
run('mat pos db2 dup', pgsql.material_to_db, mat, db2)
run('mat pos db2 no-autoinsert/overwrite positional', pgsql.material_to_db, mat, db2, False, True, False)
run('mat2 pos db2 only', pgsql.material_to_db, mat2, db2, verbose=False)
run('mats db1 pos', pgsql.materials_from_db, db1)
run('mats db2 pos quiet', pgsql.materials_from_db, db2, False)
run('mats empty file', pgsql.materials_from_db, db_path=db_empty)
run('mat to empty file', pgsql.material_to_db, mat, db_empty)
run('types db1', pgsql.material_property_types_from_db, db1)
run('types db2 kw', pgsql.material_property_types_from_db, db_path=db2)
run('ads db1', pgsql.adsorbate_to_db, ads, db1)
run('ads db1 dup', pgsql.adsorbate_to_db, ads, db_path=db1)
run('ads db1 count', lambda: len(pgsql.adsorbates_from_db(db1)))
run('ads db2 count', lambda: len(pgsql.adsorbates_from_db(db_path=db2)))
run('ads default count (read only)', lambda: len(pgsql.adsorbates_from_db(verbose=False)))
run('ads default count pos None (read only)', lambda: len(pgsql.adsorbates_from_db(None, False)))
run('mats default (read only)', pgsql.materials_from_db)
run('isotypes default (read only)', pgsql.isotherm_types_from_db, None)
memory('after uploads')

iso = pygaps.PointIsotherm(
    pressure=[1, 2, 3],
    loading=[4, 5, 6],
    material='eq_mat',
    adsorbate='eq_ads',
    temperature=77,
    pressure_mode='absolute',
    pressure_unit='bar',
    material_basis='mass',
    material_unit='g',
    loading_basis='molar',
    loading_unit='mmol',
    temperature_unit='K',
    flagged=True,
)
iso_nomat = BaseIsotherm(
    material='eq_absent',
    adsorbate='eq_ads_absent',
    temperature=100,
    pressure_mode='absolute',
    pressure_unit='bar',
    material_basis='mass',
    material_unit='g',
    loading_basis='molar',
    loading_unit='mmol',
    temperature_unit='K',
)
run('iso db1 pos', pgsql.isotherm_to_db, iso, db1)
run('iso db1 dup', pgsql.isotherm_to_db, iso, db_path=db1)
run('iso db2 (ads missing, no autoinsert) -> nothing stays', pgsql.isotherm_to_db, iso, db2, True, False)
dump('db2 after refused iso', db2)
run('iso_nomat db2 autoinsert material then refused adsorbate', pgsql.isotherm_to_db, iso_nomat, db2, autoinsert_adsorbate=False)
dump('db2 after refused iso_nomat', db2)
memory('after refused')
run('iso_nomat db2 autoinsert both', pgsql.isotherm_to_db, iso_nomat, db_path=db2)
run('isos db1 pos', pgsql.isotherms_from_db, None, db1)
run('isos db1 crit pos', pgsql.isotherms_from_db, {'material': 'eq_mat'}, db1, False)
run('isos db2 kw', pgsql.isotherms_from_db, db_path=db2, criteria={'temperature': 100})
run('isos db2 bad criteria', pgsql.isotherms_from_db, {'nocolumn': 1}, db2)
run('isos empty file', pgsql.isotherms_from_db, db_path=db_empty)
run('iso delete db2 (absent)', pgsql.isotherm_delete_db, iso, db2)
run('iso delete db1', pgsql.isotherm_delete_db, iso, db1)
run('iso delete db1 again', pgsql.isotherm_delete_db, iso.iso_id, db_path=db1)
run('mat delete db2 referenced', pgsql.material_delete_db, 'eq_absent', db2)
run('ads delete db2 referenced', pgsql.adsorbate_delete_db, 'eq_ads_absent', db2)
run('mat delete db1', pgsql.material_delete_db, mat, db1)
run('mat delete db1 again', pgsql.material_delete_db, mat, db_path=db1)
run('ads delete db1', pgsql.adsorbate_delete_db, ads, db1)
run('ads delete db1 again', pgsql.adsorbate_delete_db, 'eq_ads', db1)
run('type to db1', pgsql.isotherm_property_type_to_db, {'type': 'flagged', 'unit': 'u'}, db1)
run('type to db1 dup', pgsql.isotherm_property_type_to_db, {'type': 'flagged'}, db_path=db1)
run('type to db1 overwrite pos', pgsql.isotherm_property_type_to_db, {'type': 'flagged', 'description': 'd'}, db1, True)
run('type db1 missing key', pgsql.isotherm_property_type_to_db, {'unit': 'x'}, db1)
run('type db1 unsupported', pgsql.isotherm_property_type_to_db, {'type': ['x']}, db1)
run('types db1', pgsql.isotherm_property_types_from_db, db1)
run('type del db2 absent', pgsql.isotherm_property_type_delete_db, 'flagged', db2)
run('type del db1', pgsql.isotherm_property_type_delete_db, 'flagged', db1)
run('mtype to db1', pgsql.material_property_type_to_db, {'type': 'flagged', 'unit': 'u'}, db1)
run('mtype to db1 dup', pgsql.material_property_type_to_db, {'type': 'flagged'}, db_path=db1)
run('mtype to db1 overwrite pos', pgsql.material_property_type_to_db, {'type': 'flagged', 'description': 'd'}, db1, True)
run('mtype db1 missing key', pgsql.material_property_type_to_db, {'unit': 'x'}, db1)
run('mtype db1 unsupported', pgsql.material_property_type_to_db, {'type': ['x']}, db1)
run('mtypes db1', pgsql.material_property_types_from_db, db1)
run('mtype del db2 absent', pgsql.material_property_type_delete_db, 'flagged', db2)
run('mtype del db2 in use', pgsql.material_property_type_delete_db, 'density', db2)
run('mtype del db1', pgsql.material_property_type_delete_db, 'flagged', db1)
run('atype to db1', pgsql.adsorbate_property_type_to_db, {'type': 'flagged', 'unit': 'u'}, db1, False, False)
run('atype del db1', pgsql.adsorbate_property_type_delete_db, 'flagged', db1)
run('atype del db1 again', pgsql.adsorbate_property_type_delete_db, 'flagged', db1)
run('isotype add', pgsql.isotherm_type_to_db, {'type': 'special', 'description': 'sp'}, db2)
run('isotypes', pgsql.isotherm_types_from_db, db2)
run('isotype del', pgsql.isotherm_type_delete_db, 'special', db2)
run('isotype del again', pgsql.isotherm_type_delete_db, 'special', db_path=db2)
run('isotype del in use', pgsql.isotherm_type_delete_db, 'isotherm', db_path=db2)
dump('db1 end', db1)
dump('db2 end', db2)
dump('empty end', db_empty)
memory('end')
finish()
