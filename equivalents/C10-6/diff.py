"""Differential script for change 2: quadratic-formula inverses of BET / GAB / Quadratic / DSLangmuir."""
import numpy

from common import run

import pygaps
from pygaps.modelling import get_isotherm_model

MODELS = {
    "BET": [
        dict(n_m=2.0, C=50.0, N=0.9),
        dict(n_m=0.3, C=0.5, N=0.2),
        dict(n_m=10.0, C=1.0, N=1.0),
        dict(n_m=1.0, C=3.0, N=3.0),  # N == C: x == 0
        dict(n_m=1.0, C=1e6, N=1e-6),
        dict(n_m=0.0, C=0.0, N=0.0),
        dict(n_m=2, C=5, N=1),  # int parameters
    ],
    "GAB": [
        dict(n_m=2.0, C=50.0, K=0.9),
        dict(n_m=0.3, C=0.5, K=0.2),
        dict(n_m=5.0, C=1.0, K=0.5),  # C == 1: x == 0
        dict(n_m=1.0, C=2.0, K=1.0),  # C == 2
        dict(n_m=1.0, C=1e5, K=1e-4),
        dict(n_m=0.0, C=0.0, K=0.0),
        dict(n_m=2, C=5, K=1),
    ],
    "Quadratic": [
        dict(n_m=2.0, Ka=3.0, Kb=1.5),
        dict(n_m=0.5, Ka=0.01, Kb=40.0),
        dict(n_m=1.0, Ka=2.0, Kb=0.0),  # x == 0
        dict(n_m=1.0, Ka=-0.5, Kb=2.0),
        dict(n_m=1.0, Ka=1.0, Kb=-0.1),
        dict(n_m=0.0, Ka=0.0, Kb=0.0),
        dict(n_m=2, Ka=3, Kb=1),
    ],
    "DSLangmuir": [
        dict(n_m1=1.0, K1=0.3, n_m2=2.0, K2=25.0),
        dict(n_m1=4.0, K1=2.0, n_m2=0.0, K2=2.0),
        dict(n_m1=0.2, K1=1e3, n_m2=0.2, K2=1e-3),
        dict(n_m1=1.0, K1=1.0, n_m2=1.0, K2=0.0),  # x == 0
        dict(n_m1=1.0, K1=1.0, n_m2=1.0, K2=1.0),
        dict(n_m1=0.0, K1=0.0, n_m2=0.0, K2=0.0),
        dict(n_m1=1, K1=2, n_m2=3, K2=4),
    ],
}

PRESSURES = [0.0, 1e-12, 1e-6, 1e-3, 0.05, 0.3, 0.5, 0.8, 0.99, 1.0, 1.5, 20.0]

for name, plist in MODELS.items():
    for ip, params in enumerate(plist):
        model = get_isotherm_model(name, parameters=dict(params))
        tag = f"{name}[{ip}]"
        fwd = run(f"{tag}.loading(array)", model.loading, numpy.array(PRESSURES))
        for p in PRESSURES:
            run(f"{tag}.pressure(loading({p!r}))", lambda: model.pressure(model.loading(p)))
        if isinstance(fwd, numpy.ndarray):
            run(f"{tag}.pressure(1-d)", model.pressure, fwd)
            run(f"{tag}.pressure(1-d no zero)", model.pressure, fwd[1:8])
            run(f"{tag}.pressure(0-d)", model.pressure, numpy.asarray(fwd[5]))
            run(f"{tag}.pressure(0-d zero)", model.pressure, numpy.asarray(fwd[0]))
            run(f"{tag}.pressure(2-d)", model.pressure, fwd.reshape(3, 4))
            run(f"{tag}.pressure(float32)", model.pressure, fwd[:6].astype("float32"))
            run(f"{tag}.pressure(list)", model.pressure, fwd[:4].tolist())
        # direct: python float / int / numpy scalars, zero, at and beyond saturation, negative, nan, inf
        for val in (
            0, 0.0, -0.0, 1, 2, 3, 0.1, 0.75, 1.9999, 2.0, 2.5, 1e3, 1e300, -0.2, float("nan"),
            float("inf"), numpy.float64(0.0), numpy.float64(0.6), numpy.float32(0.6), numpy.int64(0),
            numpy.int64(1), True
        ):
            run(f"{tag}.pressure({val!r})", model.pressure, val)
        run(f"{tag}.pressure(int array)", model.pressure, numpy.array([0, 1, 2, 5]))
        run(f"{tag}.pressure(bool array)", model.pressure, numpy.array([True, False]))
        run(f"{tag}.pressure(empty)", model.pressure, numpy.array([]))
        run(f"{tag}.pressure(nan+inf mix)", model.pressure, numpy.array([0.0, 0.5, numpy.inf, 1e308]))
        run(f"{tag}.pressure(inf no nan)", model.pressure, numpy.array([0.5, 1e308]))
        run(f"{tag}.pressure(None)", model.pressure, None)
        run(f"{tag}.pressure('a')", model.pressure, "a")
        run(f"{tag}.pressure(complex)", model.pressure, 0.5 + 0j)
        # input must not be modified in place
        arr = numpy.array([0.0, 0.25, 0.5])
        run(f"{tag}.pressure(arr)", model.pressure, arr)
        run(f"{tag}.arr after", lambda: arr)
        run(f"{tag}.to_dict", model.to_dict)

# numpy-float parameters (as after a fit)
for name, plist in MODELS.items():
    params = {k: numpy.float64(v) for k, v in plist[0].items()}
    model = get_isotherm_model(name, parameters=params)
    for val in (0, 0.0, 0.4, numpy.array([0.0, 0.4])):
        run(f"{name}[np params].pressure({val!r})", model.pressure, val)

# through a ModelIsotherm with unit conversions
for name, plist in MODELS.items():
    iso = pygaps.ModelIsotherm(
        material="m",
        adsorbate="N2",
        temperature=77.0,
        model=get_isotherm_model(name, parameters=dict(plist[0])),
        pressure_mode="relative",
        loading_basis="molar",
        loading_unit="mmol",
        material_basis="mass",
        material_unit="g",
    )
    tag = f"iso:{name}"
    run(f"{tag}.pressure_at(0.3)", iso.pressure_at, 0.3)
    run(f"{tag}.pressure_at(0)", iso.pressure_at, 0)
    run(f"{tag}.pressure_at([..])", iso.pressure_at, [0.0, 0.1, 0.3])
    run(f"{tag}.pressure_at(abs bar)", iso.pressure_at, [0.1, 0.3], pressure_mode="absolute", pressure_unit="bar")
    run(f"{tag}.pressure_at(rel%)", iso.pressure_at, 0.2, pressure_mode="relative%")
    run(f"{tag}.pressure_at(mol)", iso.pressure_at, [1e-4, 2e-4], loading_unit="mol")
    run(f"{tag}.pressure_at(cm3 STP)", iso.pressure_at, [1.0, 5.0], loading_basis="volume_gas", loading_unit="cm3")
    run(f"{tag}.pressure_at(kg)", iso.pressure_at, [100.0, 200.0], material_unit="kg")
    run(f"{tag}.pressure_at(des)", iso.pressure_at, 0.3, branch="des")
    run(f"{tag}.loading_at", iso.loading_at, [0.0, 0.1, 0.5])
    run(f"{tag}.roundtrip", lambda: iso.pressure_at(iso.loading_at([0.0, 0.1, 0.5])))
