"""Differential script for change 4: limit search helper and fit closure in da_plot_raw."""
import logging
import warnings

import numpy

warnings.filterwarnings("ignore")

import pygaps
from scipy import constants

from pygaps.characterisation import dr_da_plots as dr
from pygaps.utilities import math_utilities as mu

LOGS = []


class _H(logging.Handler):
    def emit(self, record):
        LOGS.append(f"{record.levelname}:{record.getMessage()}")


_lg = logging.getLogger('pygaps')
for h in list(_lg.handlers):
    _lg.removeHandler(h)
_lg.addHandler(_H())


def fmt(x):
    if isinstance(x, bool):
        return f"bool:{x}"
    if isinstance(x, (float, numpy.floating)):
        return f"{type(x).__name__}:{float(x):.12g}"
    if isinstance(x, (int, numpy.integer)):
        return f"{type(x).__name__}:{int(x)}"
    if isinstance(x, numpy.ndarray):
        return f"array[{x.dtype}]({','.join(fmt(v) for v in x.tolist())})"
    if isinstance(x, dict):
        return "{" + ", ".join(f"{k}={fmt(v)}" for k, v in sorted(x.items())) + "}"
    if isinstance(x, (tuple, list)):
        return type(x).__name__ + "(" + ", ".join(fmt(v) for v in x) + ")"
    return repr(x)


def run(label, func, *args, **kwargs):
    del LOGS[:]
    try:
        with numpy.errstate(all='ignore'):
            res = func(*args, **kwargs)
        out = fmt(res)
    except Exception as e:  # noqa
        out = f"EXC {type(e).__name__}: {e}"
    print(f"{label}: {out}")
    for l in LOGS:
        print(f"    log {l}")



rng = numpy.random.default_rng(144)

M_N2, RHO_N2, T_N2 = 28.0134, 0.8076, 77.355


def da_iso(p, v0, energy, n, temp=T_N2, mm=M_N2, rho=RHO_N2):
    """Loading (mol/g) generated exactly from the DA equation; energy in kJ/mol."""
    d = (constants.gas_constant * temp / (energy * 1000))**n
    return v0 * numpy.exp(-d * (-numpy.log(p))**n) * rho / mm


grids = {
    "lin5": numpy.linspace(0.05, 0.5, 5),
    "lin20": numpy.linspace(0.01, 0.95, 20),
    "lin100": numpy.linspace(0.001, 0.99, 100),
    "log30": numpy.logspace(-6, -0.5, 30),
    "geom12": numpy.geomspace(1e-4, 0.1, 12),
    "rand40": numpy.sort(rng.uniform(1e-4, 0.98, 40)),
}
limit_sets = [
    None,
    (None, None),
    (0.01, 0.2),
    [1e-3, 0.1],
    numpy.array([0.05, 0.35]),
    (0, 0.3),
    (0.0, 0.0),
    (0.1, None),
    (None, 0.2),
    (0.2, 0.21),
    (0.5, 0.1),
    (2, 3),
    (0.1,),
    (),
    (0.1, 0.8, 0.9),
    ("a", 0.5),
    0.5,
]
exps = [None, 1, 1.5, 2, 2.7, 3, 0, 0.5, 5, -1, numpy.float64(2.0)]

cases = []
for gname, p in grids.items():
    for v0 in (0.05, 0.4, 1.2):
        for energy in (3., 8., 25.):
            for n in (1., 1.7, 2., 3.):
                cases.append((f"da[{gname},v0={v0},E={energy},n={n}]", p, da_iso(p, v0, energy, n)))

for i in range(10):
    n = int(rng.integers(5, 60))
    p = numpy.sort(rng.uniform(1e-4, 0.9, n))
    l = da_iso(p, 0.3, 6., 2.2) * (1 + 0.03 * rng.standard_normal(n))
    cases.append((f"noisy{i}", p, l))

p = numpy.linspace(0.05, 0.9, 10)
edge = [
    ("const-loading", p, numpy.full(10, 2.0)),
    ("decreasing-loading", p, numpy.linspace(5, 1, 10)),
    ("linear-loading", p, 3 * p),
    ("nan-inside", p, numpy.r_[1., 2., numpy.nan, 3., 4., 5., 5.5, 5.6, 5.7, 5.8]),
    ("zero-loading", p, numpy.zeros(10)),
    ("negative-loading", p, -numpy.linspace(1, 2, 10)),
    ("int-loading", p, numpy.arange(1, 11)),
    ("list-inputs", list(p), list(da_iso(p, 0.3, 6., 2.))),
    ("tuple-inputs", tuple(p), tuple(da_iso(p, 0.3, 6., 2.))),
    ("one-point", [0.1], [1.0]),
    ("two-points", [0.1, 0.2], [1.0, 2.0]),
    ("three-points", [0.1, 0.2, 0.3], [1.0, 1.2, 1.3]),
    ("four-points", [0.01, 0.2, 0.3, 0.4], [1.0, 1.2, 1.3, 1.35]),
    ("pressure-one", numpy.linspace(0.2, 1.0, 9), numpy.linspace(1, 2, 9)),
    ("pressure-over-one", numpy.linspace(0.2, 1.4, 9), numpy.linspace(1, 2, 9)),
    ("pressure-with-zero", numpy.linspace(0.0, 0.5, 12), numpy.linspace(0.1, 4, 12)),
    ("unsorted-pressure", numpy.array([0.3, 0.1, 0.2, 0.5, 0.4, 0.6, 0.05]),
     numpy.array([3., 1., 2., 5., 4., 6., 0.5])),
    ("empty", [], []),
    ("mismatch", [0.1, 0.2, 0.3], [1.0, 2.0]),
    ("float32", p.astype('float32'), da_iso(p, 0.3, 6., 2.).astype('float32')),
]
cases += edge

for label, p, l in cases:
    run(f"raw {label} exp=None", dr.da_plot_raw, p, l, T_N2, M_N2, RHO_N2)
    run(f"raw {label} exp=2", dr.da_plot_raw, p, l, T_N2, M_N2, RHO_N2, 2)
for label, p, l in cases[::9] + edge:
    for lim in limit_sets[1:]:
        run(f"raw {label} exp=2 lim={lim!r}", dr.da_plot_raw, p, l, T_N2, M_N2, RHO_N2, 2, lim)
    for lim in limit_sets[2:6]:
        run(f"raw {label} exp=None lim={lim!r}", dr.da_plot_raw, p, l, T_N2, M_N2, RHO_N2, None, lim)
for label, p, l in cases[::13] + edge[:6]:
    for e in exps:
        run(f"raw {label} exp={e!r}", dr.da_plot_raw, p, l, T_N2, M_N2, RHO_N2, e)

# other constants
p = grids["log30"]
for temp, mm, rho in ((77.355, 28.0134, 0.8076), (87.3, 39.948, 1.3954), (273.15, 44.01, 0.93), (0., 28., 0.8), (77., 0., 0.8), (77., 28., 0.), (77., 28., -1.)):
    l = da_iso(p, 0.3, 6., 2., T_N2, M_N2, RHO_N2)
    run(f"raw T={temp} M={mm} rho={rho}", dr.da_plot_raw, p, l, temp, mm, rho, 2)
    run(f"raw T={temp} M={mm} rho={rho} fit", dr.da_plot_raw, p, l, temp, mm, rho)

# shared limit helper, directly
arrays = {
    "lin20": grids["lin20"],
    "log30": grids["log30"],
    "list": [0.1, 0.2, 0.3, 0.4, 0.5, 0.6],
    "dups": numpy.array([0.1, 0.2, 0.2, 0.2, 0.3, 0.4, 0.4, 0.5]),
    "ints": numpy.arange(10),
    "one": [0.5],
    "empty": [],
    "unsorted": [0.3, 0.1, 0.5, 0.2],
    "nan": numpy.array([0.1, numpy.nan, 0.3, 0.4, 0.5]),
}
for aname, arr in arrays.items():
    for lim in limit_sets:
        for small in (3, 0, 1, 10):
            run(f"find_limit_indices {aname} lim={lim!r} small={small}", mu.find_limit_indices, arr, lim, small)
    run(f"find_limit_indices {aname} defaults", mu.find_limit_indices, arr)
    run(f"find_limit_indices {aname} exact-hit", mu.find_limit_indices, arr, (0.2, 0.4), 1)

run("log_v_adj", dr.log_v_adj, da_iso(p, 0.3, 6., 2.), M_N2, RHO_N2)
run("log_p_exp", dr.log_p_exp, p, 2.3)

# isotherm entry points
for adsorbate, temp in (("N2", 77.355), ("Ar", 87.3), ("CO2", 273.15)):
    for gname in ("lin20", "log30", "geom12", "rand40"):
        p = grids[gname]
        for v0, energy, n in ((0.3, 6., 2.), (0.8, 12., 1.4)):
            iso = pygaps.PointIsotherm(
                pressure=p,
                loading=da_iso(p, v0, energy, n, temp),
                material="syn",
                adsorbate=adsorbate,
                temperature=temp,
                pressure_mode="relative",
                loading_basis="molar",
                loading_unit="mol",
                material_basis="mass",
                material_unit="g",
            )
            for lim in (None, (0.01, 0.3), (None, 0.25), (0.3, 0.31), [0.02, None]):
                run(f"iso dr {adsorbate} {gname} v0={v0} E={energy} n={n} lim={lim}", dr.dr_plot, iso, p_limits=lim)
                for e in (None, 1.4, 2, 0, -2):
                    run(f"iso da {adsorbate} {gname} v0={v0} E={energy} n={n} lim={lim} exp={e}", dr.da_plot, iso, exp=e, p_limits=lim)
    p = grids["lin20"]
    pp = numpy.r_[p, p[::-1][1:]]
    ll = numpy.r_[da_iso(p, 0.3, 6., 2., temp), da_iso(p[::-1][1:], 0.35, 6., 2., temp)]
    iso = pygaps.PointIsotherm(
        pressure=pp,
        loading=ll,
        material="syn",
        adsorbate=adsorbate,
        temperature=temp,
        pressure_mode="relative",
        loading_basis="molar",
        loading_unit="mol",
        material_basis="mass",
        material_unit="g",
    )
    for br in ("ads", "des"):
        run(f"iso {adsorbate} loop dr branch={br}", dr.dr_plot, iso, branch=br)
        run(f"iso {adsorbate} loop da branch={br}", dr.da_plot, iso, branch=br)
