"""Differential script for change 2: _load_kernel (zero row, interpolator dictionary, cache)."""
import os
import warnings

for _var in ("OMP_NUM_THREADS", "OPENBLAS_NUM_THREADS", "MKL_NUM_THREADS"):
    os.environ[_var] = "1"

import numpy
import pandas

warnings.filterwarnings("ignore")

import pygaps.characterisation.psd_kernel as psdk
from pygaps.data import KERNELS

HERE = os.path.dirname(os.path.abspath(__file__))
KPATH = KERNELS['DFT-N2-77K-carbon-slit']


def arr(value):
    value = numpy.asarray(value)
    return (
        f"array(dtype={value.dtype}, shape={value.shape}, "
        f"[{', '.join('%.12g' % v for v in value.ravel())}])"
    )


def describe_kernel(label, kern, probes):
    print(f"{label}: type={type(kern).__name__} n={len(kern)}")
    print(f"{label}: keys={[(type(k).__name__, k) for k in kern]}")
    for key, interp in kern.items():
        print(f"{label}[{key!r}]: type={type(interp).__name__} kind={getattr(interp, '_kind', None)!r} "
              f"bounds_error={interp.bounds_error} fill={interp.fill_value!r} axis={interp.axis}")
        print(f"{label}[{key!r}]: x={arr(interp.x)}")
        print(f"{label}[{key!r}]: y={arr(interp.y)}")
        for pname, probe in probes.items():
            try:
                print(f"{label}[{key!r}]({pname})={arr(interp(probe))}")
            except Exception as err:  # noqa
                print(f"{label}[{key!r}]({pname}): EXC {type(err).__name__}: {err}")


def load(label, path, probes=None):
    probes = probes if probes is not None else PROBES
    try:
        kern = psdk._load_kernel(path)
    except Exception as err:  # noqa
        print(f"{label}: EXC {type(err).__name__}: {err}")
        print(f"{label}: cached={path in psdk._LOADED}")
        return None
    describe_kernel(label, kern, probes)
    again = psdk._load_kernel(path)
    print(f"{label}: cached={path in psdk._LOADED} same_object={again is kern} "
          f"cache_is={psdk._LOADED[path] is kern}")
    return kern


raw = pandas.read_csv(KPATH, index_col=0)
top = raw.index.max()
PROBES = {
    'zero': 0.0,
    'below_first': raw.index.min() / 2,
    'grid': numpy.logspace(-6, numpy.log10(0.99), 25),
    'lin': numpy.linspace(0, top, 17),
    'kernel_points': raw.index.values[::9],
    'top': top,
    'list': [1e-5, 1e-3, 0.1, 0.9],
    'empty': [],
    'above': [0.1, top * 1.0001],
    'negative': -1e-9,
    'nan': numpy.nan,
    '2d': numpy.array([[0.1, 0.2], [0.3, 0.4]]),
}

# shipped kernel: by Traversable/Path, by str and by name lookup
k1 = load("shipped", KPATH)
k2 = load("shipped_str", str(KPATH), probes={'grid': PROBES['grid']})
print("shipped vs shipped_str same object:", k1 is k2)
print("cache keys:", sorted(str(k) for k in psdk._LOADED))

tmpfiles = []


def write(name, text=None, frame=None, **kwargs):
    path = os.path.join(HERE, name)
    if frame is not None:
        frame.to_csv(path, **kwargs)
    else:
        with open(path, 'w', encoding='utf8') as fp:
            fp.write(text)
    tmpfiles.append(path)
    return path


small_probes = {k: PROBES[k] for k in ('zero', 'grid', 'top', 'above', 'negative', 'empty')}

try:
    load("cols_subset", write('tmp2_cols.csv', frame=raw.iloc[:, ::10]), small_probes)
    load("rows_subset", write('tmp2_rows.csv', frame=raw.iloc[::5, [0, 40, 76]]), small_probes)
    load("one_col", write('tmp2_one.csv', frame=raw.iloc[:, [33]]), small_probes)
    load("no_cols", write('tmp2_nocols.csv', frame=raw.iloc[:, []]), small_probes)
    # minimum number of rows for a cubic spline: 3 rows + zero row = 4 points
    load("three_rows", write('tmp2_3rows.csv', frame=raw.iloc[[0, 80, 170], :3]), small_probes)
    load("two_rows", write('tmp2_2rows.csv', frame=raw.iloc[[0, 170], :3]), small_probes)
    load("one_row", write('tmp2_1row.csv', frame=raw.iloc[[50], :3]), small_probes)
    load("no_rows", write('tmp2_0rows.csv', frame=raw.iloc[[], :3]), small_probes)
    # integer-valued loadings and integer pressures
    load(
        "ints",
        write('tmp2_ints.csv', text=",1,2,3\n1,1,2,3\n2,2,4,5\n3,3,8,6\n4,5,16,7\n6,8,32,7\n"),
        {'zero': 0, 'mid': [0.5, 1, 2.5, 5.9], 'top': 6, 'above': 6.5},
    )
    # pressure 0 already in the file -> duplicated abscissa
    load(
        "has_zero",
        write('tmp2_haszero.csv', text=",0.5,1.0\n0,0,0\n0.1,1,2\n0.2,2,3\n0.5,3,4\n0.9,4,5\n"),
        {'mid': [0.05, 0.3]},
    )
    # unsorted pressures
    load(
        "unsorted",
        write('tmp2_unsorted.csv', text=",0.5,1.0\n0.5,3,4\n0.1,1,2\n0.9,4,5\n0.2,2,3\n0.7,3.5,4.4\n"),
        {'mid': [0.0, 0.05, 0.3, 0.9], 'above': 0.95},
    )
    # negative pressures in file (zero row is then not the lowest)
    load(
        "negative_rows",
        write('tmp2_negative.csv', text=",0.5,1.0\n-0.5,3,4\n-0.1,1,2\n0.9,4,5\n0.2,2,3\n"),
        {'mid': [-0.5, -0.2, 0.0, 0.3, 0.9]},
    )
    # non numeric headers / duplicated headers / missing values / text cells
    load("text_header", write('tmp2_texthead.csv', text="p,a,b\n0.1,1,2\n0.2,2,3\n0.5,3,4\n0.9,4,5\n"),
         {'mid': [0.0, 0.3]})
    load("dup_header", write('tmp2_duphead.csv', text=",0.5,0.5,1.0\n0.1,1,2,3\n0.2,2,3,4\n0.5,3,4,5\n0.9,4,5,6\n"),
         {'mid': [0.0, 0.3]})
    load("missing_values", write('tmp2_nan.csv', text=",0.5,1.0\n0.1,1,\n0.2,2,3\n0.5,,4\n0.9,4,5\n"),
         {'mid': [0.0, 0.3]})
    load("text_cells", write('tmp2_textcell.csv', text=",0.5,1.0\n0.1,1,x\n0.2,2,3\n0.5,3,4\n0.9,4,5\n"),
         {'mid': [0.0, 0.3]})
    load("text_index", write('tmp2_textidx.csv', text=",0.5,1.0\na,1,2\nb,2,3\nc,3,4\nd,4,5\n"),
         {'mid': [0.0, 0.3]})
    load("empty_file", write('tmp2_empty.csv', text=""), {})
    load("header_only", write('tmp2_headonly.csv', text=",0.5,1.0\n"), {})
    load("scaled_pressure", write('tmp2_scaled.csv', frame=raw.iloc[::3, ::12].set_index(raw.index[::3] * 101.325)),
         {'mid': [0.0, 1.0, 50.0, 101.0], 'above': 102.0})
    load("semicolon", write('tmp2_semicolon.csv', frame=raw.iloc[::20, :3], sep=';'), {'mid': [0.0, 0.3]})
    load("missing_file", os.path.join(HERE, 'tmp2_does_not_exist.csv'))
    load("directory", HERE)
    for bad in (None, 12, 3.5, b'bytes-path', ['list']):
        load(f"bad_path[{bad!r}]", bad)

    # the cache is keyed by path: a changed file is NOT re-read
    path = write('tmp2_cache.csv', frame=raw.iloc[:, :2])
    ka = psdk._load_kernel(path)
    raw.iloc[:, 5:9].to_csv(path)
    kb = psdk._load_kernel(path)
    print("cache survives file change:", ka is kb, list(kb))
    del psdk._LOADED[path]
    kc = psdk._load_kernel(path)
    print("after cache removal:", kc is ka, list(kc))

    # end to end through the fit with user kernels loaded here
    for name in ('tmp2_cols.csv', 'tmp2_rows.csv', 'tmp2_one.csv', 'tmp2_3rows.csv', 'tmp2_ints.csv', 'tmp2_unsorted.csv'):
        path = os.path.join(HERE, name)
        kern = psdk._load_kernel(path)
        xmax = max(k.x.max() for k in kern.values())
        grid = numpy.linspace(xmax * 0.01, xmax * 0.98, 12)
        wv = numpy.linspace(0.01, 0.02, len(kern))
        loading = sum(w * kern[k](grid) for w, k in zip(wv, kern))
        for order in (0, 2):
            try:
                res = psdk.psd_dft_kernel_fit(grid, loading, path, order)
                print(f"fit[{name}|k={order}]:", " ".join(arr(r) for r in res))
            except Exception as err:  # noqa
                print(f"fit[{name}|k={order}]: EXC {type(err).__name__}: {err}")
finally:
    for path in tmpfiles:
        if os.path.exists(path):
            os.remove(path)

print("final cache keys:", sorted(os.path.basename(str(k)) for k in psdk._LOADED))
