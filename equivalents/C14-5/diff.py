"""Differential script for change 1: Rouquerol window selection in area_BET_raw."""
import logging
import warnings

import numpy

warnings.filterwarnings("ignore")

import pygaps
from pygaps.characterisation import area_bet as ab

LOGS = []


class _H(logging.Handler):
    def emit(self, record):
        LOGS.append(f"{record.levelname}:{record.getMessage()}")


_lg = logging.getLogger('pygaps')
for h in list(_lg.handlers):
    _lg.removeHandler(h)
_lg.addHandler(_H())


def fmt(x):
    if isinstance(x, bool):
        return f"bool:{x}"
    if isinstance(x, (float, numpy.floating)):
        return f"{type(x).__name__}:{float(x):.12g}"
    if isinstance(x, (int, numpy.integer)):
        return f"{type(x).__name__}:{int(x)}"
    if isinstance(x, numpy.ndarray):
        return f"array[{x.dtype}]({','.join(fmt(v) for v in x.tolist())})"
    if isinstance(x, dict):
        return "{" + ", ".join(f"{k}={fmt(v)}" for k, v in sorted(x.items())) + "}"
    if isinstance(x, (tuple, list)):
        return type(x).__name__ + "(" + ", ".join(fmt(v) for v in x) + ")"
    return repr(x)


def run(label, func, *args, **kwargs):
    del LOGS[:]
    try:
        with numpy.errstate(all='ignore'):
            res = func(*args, **kwargs)
        out = fmt(res)
    except Exception as e:  # noqa
        out = f"EXC {type(e).__name__}: {e}"
    print(f"{label}: {out}")
    for l in LOGS:
        print(f"    log {l}")


def bet_iso(p, nm, c):
    return ab.simple_bet(p, nm, c)


rng = numpy.random.default_rng(14)
cases = []

# synthetic BET isotherms, various grids
grids = {
    "lin5": numpy.linspace(0.05, 0.5, 5),
    "lin20": numpy.linspace(0.01, 0.95, 20),
    "lin100": numpy.linspace(0.001, 0.99, 100),
    "log30": numpy.logspace(-5, -0.01, 30),
    "geom12": numpy.geomspace(1e-3, 0.6, 12),
    "rand40": numpy.sort(rng.uniform(1e-4, 0.98, 40)),
}
for gname, p in grids.items():
    for nm in (1e-4, 3.3e-3, 1e-1):
        for c in (2, 50, 137.5, 2000):
            cases.append((f"bet[{gname},nm={nm},c={c}]", p, bet_iso(p, nm, c)))

# langmuir-like / saturating data (roq starts decreasing early)
for gname, p in grids.items():
    for k in (0.5, 20, 500):
        cases.append((f"lang[{gname},k={k}]", p, 0.01 * k * p / (1 + k * p)))

# noisy data - decreases can appear anywhere
for i in range(12):
    n = int(rng.integers(5, 60))
    p = numpy.sort(rng.uniform(1e-3, 0.99, n))
    l = bet_iso(p, 5e-3, 80) * (1 + 0.05 * rng.standard_normal(n))
    cases.append((f"noisy{i}", p, l))

# edge cases
p = numpy.linspace(0.05, 0.9, 10)
cases += [
    ("const-loading", p, numpy.full(10, 2.0)),
    ("decreasing-loading", p, numpy.linspace(5, 1, 10)),
    ("increasing-forever", p, 1 / (1 - p)**2),
    ("plateau-roq", p, 1 / (1 - p)),
    ("plateau-then-drop", p, numpy.r_[(1 / (1 - p))[:6], 0.5, 0.4, 0.3, 0.2]),
    ("nan-inside", p, numpy.r_[1., 2., numpy.nan, 3., 4., 5., 4.5, 4.4, 4.3, 4.2]),
    ("nan-first", p, numpy.r_[numpy.nan, 2., 2.5, 3., 4., 5., 4.5, 4.4, 4.3, 4.2]),
    ("inf-inside", p, numpy.r_[1., 2., numpy.inf, numpy.inf, 4., 5., 4.5, 4.4, 4.3, 4.2]),
    ("int-loading", p, numpy.arange(1, 11)),
    ("int-loading-drop", p, numpy.array([1, 2, 3, 4, 5, 6, 7, 3, 2, 1])),
    ("list-inputs", list(p), list(bet_iso(p, 1e-2, 100))),
    ("tuple-inputs", tuple(p), tuple(bet_iso(p, 1e-2, 100))),
    ("one-point", [0.1], [1.0]),
    ("two-points", [0.1, 0.2], [1.0, 2.0]),
    ("three-points", [0.1, 0.2, 0.3], [1.0, 1.2, 1.3]),
    ("three-points-drop", [0.1, 0.2, 0.3], [1.0, 0.5, 0.3]),
    ("drop-at-first", p, numpy.r_[5., 1., 2., 3., 4., 5., 6., 7., 8., 9.]),
    ("drop-at-last", p, numpy.r_[(1 / (1 - p)**2)[:-1], 0.1]),
    ("pressure-over-one", numpy.linspace(0.1, 1.5, 12), numpy.linspace(1, 4, 12)),
    ("pressure-with-zero", numpy.linspace(0.0, 0.5, 12), numpy.linspace(0, 4, 12)),
    ("unsorted-pressure", numpy.array([0.3, 0.1, 0.2, 0.5, 0.4, 0.6, 0.05]),
     numpy.array([3., 1., 2., 5., 4., 6., 0.5])),
    ("empty", [], []),
    ("mismatch", [0.1, 0.2, 0.3], [1.0, 2.0]),
    ("float32", p.astype('float32'), bet_iso(p, 1e-2, 100).astype('float32')),
]

limit_sets = [
    None,
    (None, None),
    (0.05, 0.35),
    [0.05, 0.35],
    (0, 0.3),
    (0.1, None),
    (None, 0.2),
    (0.2, 0.21),
    (0.5, 0.1),
    (2, 3),
]

for label, p, l in cases:
    run(f"raw {label} auto", ab.area_BET_raw, p, l, 0.162)
# manual limits on a subset (other branch of the changed if/else must still work)
for label, p, l in cases[::7] + cases[-24:]:
    for lim in limit_sets[1:]:
        run(f"raw {label} lim={lim}", ab.area_BET_raw, p, l, 0.162, lim)

# different cross sections
p = grids["lin20"]
for cs in (0.0, 0.142, 0.162, 0.21, 1.0, -1.0):
    run(f"raw cs={cs}", ab.area_BET_raw, p, bet_iso(p, 2e-3, 120), cs)

# helper functions
for label, p, l in cases[::5]:
    p = numpy.asarray(p)
    l = numpy.asarray(l)
    if len(p) and len(p) == len(l):
        run(f"roq_transform {label}", ab.roq_transform, p, l)
        run(f"bet_transform {label}", ab.bet_transform, p, l)

# isotherm entry points
for adsorbate, temp in (("N2", 77.355), ("Ar", 87.3), ("CO2", 273.15)):
    for gname in ("lin20", "log30", "geom12", "rand40"):
        p = grids[gname]
        for nm, c in ((1e-3, 100), (5e-2, 15)):
            iso = pygaps.PointIsotherm(
                pressure=p,
                loading=bet_iso(p, nm, c),
                material="syn",
                adsorbate=adsorbate,
                temperature=temp,
                pressure_mode="relative",
                loading_basis="molar",
                loading_unit="mol",
                material_basis="mass",
                material_unit="g",
            )
            for lim in (None, (0.05, 0.3), (None, 0.25), (0.3, 0.31)):
                run(f"iso {adsorbate} {gname} nm={nm} c={c} lim={lim}", ab.area_BET, iso, p_limits=lim)
            # desorption-style: same data given as an ads+des loop
    p = grids["lin20"]
    pp = numpy.r_[p, p[::-1][1:]]
    ll = numpy.r_[bet_iso(p, 1e-3, 100), bet_iso(p[::-1][1:], 1.2e-3, 100)]
    iso = pygaps.PointIsotherm(
        pressure=pp,
        loading=ll,
        material="syn",
        adsorbate=adsorbate,
        temperature=temp,
        pressure_mode="relative",
        loading_basis="molar",
        loading_unit="mol",
        material_basis="mass",
        material_unit="g",
    )
    for br in ("ads", "des"):
        run(f"iso {adsorbate} loop branch={br}", ab.area_BET, iso, branch=br)
