"""Change 1: material flatten/nest helpers shared by csv / excel / aif.

Round-trips the full corpus through the three formats (string and file targets)
and feeds hand-written inputs with awkward `_material_` / `sample_` keys to the readers.
"""
import _common as c
from pygaps.parsing import isotherm_from_aif
from pygaps.parsing import isotherm_from_csv
from pygaps.parsing import isotherm_from_xl
from pygaps.parsing import isotherm_to_aif
from pygaps.parsing import isotherm_to_csv
from pygaps.parsing import isotherm_to_xl

n = 0
for label, make in c.corpus():
    n += 1
    # CSV - string
    iso = make()
    text = c.run(f"{label} | csv write", isotherm_to_csv, iso)
    if isinstance(text, str):
        back = c.run(f"{label} | csv read", isotherm_from_csv, text)
        if not isinstance(back, BaseException):
            c.run(f"{label} | csv equal", lambda: back == make())
    # the exporter must not modify the isotherm
    c.run(f"{label} | csv iso after", lambda: iso)

    # Excel - file
    iso = make()
    path = c.tmp(f"x{n}.xls")
    res = c.run(f"{label} | xl write", isotherm_to_xl, iso, path)
    if not isinstance(res, BaseException):
        back = c.run(f"{label} | xl read", isotherm_from_xl, path)
        if not isinstance(back, BaseException):
            c.run(f"{label} | xl equal", lambda: back == make())
    c.run(f"{label} | xl iso after", lambda: iso)

    # AIF - string
    iso = make()
    text = c.run(f"{label} | aif write", isotherm_to_aif, iso)
    if isinstance(text, str):
        back = c.run(f"{label} | aif read", isotherm_from_aif, text)
        if not isinstance(back, BaseException):
            c.run(f"{label} | aif equal", lambda: back == make())
    c.run(f"{label} | aif iso after", lambda: iso)

# hand written CSV metadata
HEAD = "material,m\nadsorbate,N2\ntemperature,77\nfile_version,3.0\n"
CSVS = {
    "plain": HEAD,
    "one prop": HEAD + "_material_a,1\n",
    "prop before material": "_material_a,1\n" + HEAD,
    "empty prop name": HEAD + "_material_,1\n",
    "double prefix": HEAD + "_material__material_a,1\n",
    "double prefix + single": HEAD + "_material__material_a,1\n_material_a,2\n",
    "single + double prefix": HEAD + "_material_a,2\n_material__material_a,1\n",
    "inner prefix": HEAD + "_material_a_material_b,1\n",
    "inner prefix + both": HEAD + "_material_a_material_b,1\n_material_ab,7\n",
    "prop called name": HEAD + "_material_name,other\n",
    "props no material": "adsorbate,N2\ntemperature,77\nfile_version,3.0\n_material_a,1\n",
    "not a prefix": HEAD + "x_material_a,1\nmaterial_b,2\n",
    "None prop": HEAD + "_material_a,None\n_material_b,\n",
    "typed props": HEAD + "_material_i,3\n_material_f,2.5\n_material_b,True\n_material_l,[1 2]\n",
    "override material": HEAD + "_material_a,1\n",
}
for label, text in CSVS.items():
    kw = {"material": "user"} if label == "override material" else {}
    c.run(f"csv raw | {label}", isotherm_from_csv, text, **kw)

# hand written AIF metadata
AHEAD = (
    "data_x\n_audit_aif_version d546195\n_audit_creation_method pyGAPS\n"
    "_exptl_adsorptive 'N2'\n_exptl_temperature 77\n_adsnt_material_id 'm'\n"
    "_units_temperature 'K'\n_units_pressure bar\n_units_loading 'mmol/g'\n"
    "_pygaps_pressure_mode 'absolute'\n_pygaps_pressure_unit 'bar'\n"
    "_pygaps_material_basis 'mass'\n_pygaps_material_unit 'g'\n"
    "_pygaps_loading_basis 'molar'\n_pygaps_loading_unit 'mmol'\n"
    "_pygaps_temperature_unit 'K'\n"
)
AIFS = {
    "plain": AHEAD,
    "one prop": AHEAD + "_pygaps_sample_a '1'\n",
    "empty prop name": AHEAD + "_pygaps_sample_ '1'\n",
    "double prefix": AHEAD + "_pygaps_sample_sample_a '1'\n",
    "double + single": AHEAD + "_pygaps_sample_sample_a '1'\n_pygaps_sample_a '2'\n",
    "inner prefix": AHEAD + "_pygaps_sample_asample_b '1'\n",
    "inner + both": AHEAD + "_pygaps_sample_asample_b '1'\n_pygaps_sample_ab '3'\n",
    "name prop": AHEAD + "_pygaps_sample_name 'zz'\n",
    "no material": AHEAD.replace("_adsnt_material_id 'm'\n", "") + "_pygaps_sample_a '1'\n",
    "unprefixed sample key": AHEAD + "sample_q 5\n_sample_id 'old'\n",
    "old version sample id": AHEAD.replace("d546195", "old") + "_sample_id 'old'\n_sample_material_id 'mm'\n",
}
for label, text in AIFS.items():
    c.run(f"aif raw | {label}", isotherm_from_aif, text)

c.cleanup()
