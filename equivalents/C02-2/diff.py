"""Differential script for change 2: PointIsotherm.convert_material (and convert() driving it)."""
import itertools

import pygaps

from common import call
from common import case
from common import dump
from common import make
from common import revalidate
from common import warm
from common import MATERIAL_BARE

n = 0

MAT_DENS = pygaps.Material('EqDensOnly', density=1.7)
MAT_MM = pygaps.Material('EqMolarOnly', molar_mass=321.0)

L_STARTS = [
    dict(lb='molar', lu='mmol'),
    dict(lb='mass', lu='mg'),
    dict(lb='volume_gas', lu='cm3'),
    dict(lb='volume_liquid', lu='L'),
    dict(lb='fraction', lu=None),
    dict(lb='percent', lu=None),
]
M_STARTS = [
    dict(mb='mass', mu='g'),
    dict(mb='mass', mu='kg'),
    dict(mb='volume', mu='cm3'),
    dict(mb='molar', mu='mmol'),
]
TARGETS = [
    dict(),
    dict(basis_to='mass', unit_to='g'),
    dict(basis_to='mass', unit_to='mg'),
    dict(basis_to='volume', unit_to='cm3'),
    dict(basis_to='volume', unit_to='L'),
    dict(basis_to='molar', unit_to='mol'),
    dict(basis_to='molar', unit_to='mmol'),
    dict(basis_to='mass'),
    dict(basis_to='volume'),
    dict(basis_to='molar'),
    dict(unit_to='kg'),
    dict(unit_to='m3'),
    dict(unit_to='kmol'),
    dict(unit_to='nounit'),
    dict(basis_to='nobasis'),
    dict(basis_to='nobasis', unit_to='g'),
    dict(basis_to='mass', unit_to='nounit'),
    dict(basis_to='volume', unit_to='g'),
    dict(basis_to='', unit_to=''),
    dict(basis_to='percent', unit_to='g'),
]

# 1. full grid, quiet
for ls, ms, target in itertools.product(L_STARTS, M_STARTS, TARGETS):
    n += 1
    case(n, f"start={ {**ls, **ms} } target={target}")
    iso = make(**ls, **ms)
    warm(iso)
    call(iso, 'convert_material', **target)
    dump(iso)
    revalidate(iso)

# 2. verbose grid (smaller)
for ls, ms, target in itertools.product(
    [L_STARTS[0], L_STARTS[4], L_STARTS[5]], [M_STARTS[0], M_STARTS[2]],
    [TARGETS[0], TARGETS[3], TARGETS[5], TARGETS[10], TARGETS[11], TARGETS[13], TARGETS[14]]
):
    n += 1
    case(n, f"verbose start={ {**ls, **ms} } target={target}")
    iso = make(**ls, **ms)
    call(iso, 'convert_material', verbose=True, **target)
    dump(iso)

# 3. positional
for args in [('volume', 'cm3'), (None, 'kg'), ('molar', 'mol', True), ('mass', )]:
    n += 1
    case(n, f"positional {args}")
    iso = make()
    call(iso, 'convert_material', *args)
    dump(iso)

# 4. materials that lack the needed property / adsorbates lacking the backend (refusals)
for kw, target in itertools.product(
    [
        dict(mat=MATERIAL_BARE),
        dict(mat=MAT_DENS),
        dict(mat=MAT_MM),
        dict(mat=MATERIAL_BARE, lb='fraction', lu=None),
        dict(mat=MAT_DENS, lb='percent', lu=None),
        dict(mat=MAT_MM, lb='fraction', lu=None),
        dict(temp=300, lb='fraction', lu=None),
        dict(temp=300, lb='percent', lu=None, mb='volume', mu='cm3'),
        dict(ads='notAGas', lb='fraction', lu=None),
        dict(ads='notAGas', lb='percent', lu=None, mb='molar', mu='mol'),
        dict(ads='notAGas'),
        dict(temp=-196, tu='°C', lb='percent', lu=None),
    ],
    [
        dict(basis_to='volume', unit_to='cm3'),
        dict(basis_to='molar', unit_to='mol'),
        dict(basis_to='mass', unit_to='kg'),
        dict(unit_to='kg'),
    ],
):
    n += 1
    case(n, f"refusal/edge make={ {k: str(v) for k, v in kw.items()} } target={target}")
    iso = make(**kw)
    warm(iso)
    call(iso, 'convert_material', verbose=True, **target)
    dump(iso)
    revalidate(iso)

# 5. labels set by hand
for labels, target in [
    (dict(material_unit=None), dict(unit_to='kg')),
    (dict(material_unit=None), dict()),
    (dict(material_unit=None), dict(basis_to='volume', unit_to='cm3')),
    (dict(material_unit='nounit'), dict(unit_to='kg')),
    (dict(material_unit='nounit'), dict(basis_to='molar', unit_to='mol')),
    (dict(material_basis='nobasis'), dict(unit_to='kg')),
    (dict(material_basis='nobasis'), dict(basis_to='mass', unit_to='g')),
    (dict(material_basis=None), dict()),
    (dict(material_basis=None), dict(unit_to='g')),
    (dict(loading_basis='fraction', material_unit=None), dict(unit_to='kg')),
    (dict(loading_basis='fraction', material_unit=None), dict(unit_to='nounit')),
    (dict(loading_basis='fraction', material_unit=None), dict(basis_to='volume', unit_to='cm3')),
    (dict(loading_basis='fraction', material_basis='nobasis'), dict(unit_to='kg')),
    (dict(loading_basis='percent', loading_unit='mmol'), dict(basis_to='volume', unit_to='cm3')),
    (dict(loading_basis='percent', loading_unit='mmol'), dict(unit_to='mg')),
    (dict(loading_basis='nobasis'), dict(basis_to='volume', unit_to='cm3')),
    (dict(temperature_unit='F'), dict(basis_to='volume', unit_to='cm3')),
    (dict(temperature_unit='F', loading_basis='fraction'), dict(basis_to='volume', unit_to='cm3')),
    (dict(temperature_unit='F', loading_basis='fraction'), dict(unit_to='kg')),
]:
    n += 1
    case(n, f"hand-set {labels} target={target}")
    iso = make()
    for k, v in labels.items():
        setattr(iso, k, v)
    warm(iso)
    call(iso, 'convert_material', verbose=True, **target)
    dump(iso)
    revalidate(iso)

# 6. histories
CHAINS = [
    (dict(), [dict(unit_to='kg'), dict(basis_to='volume', unit_to='cm3'), dict(unit_to='L'),
              dict(basis_to='molar', unit_to='mmol'), dict(basis_to='mass', unit_to='g')]),
    (dict(lb='fraction', lu=None), [dict(basis_to='volume', unit_to='cm3'), dict(unit_to='m3'),
                                    dict(basis_to='molar', unit_to='mol'), dict(unit_to='nounit'),
                                    dict(basis_to='mass', unit_to='kg'), dict(unit_to='g')]),
    (dict(lb='percent', lu=None, mb='molar', mu='mol'), [dict(basis_to='mass', unit_to='g'), dict(),
                                                          dict(basis_to='volume', unit_to='L'), dict(basis_to='nobasis'),
                                                          dict(basis_to='molar', unit_to='mol')]),
    (dict(lb='mass', lu='g', mb='volume', mu='cm3'), [dict(basis_to='mass'), dict(basis_to='mass', unit_to='g'),
                                                       dict(basis_to='volume', unit_to='cm3')]),
]
for start, chain in CHAINS:
    n += 1
    case(n, f"chain start={start} steps={chain}")
    iso = make(**start)
    for i, step in enumerate(chain):
        warm(iso)
        call(iso, 'convert_material', **step)
        dump(iso, tag=f"step{i}")
    revalidate(iso)

# 7. convert() driving convert_material with the other steps
for start, kw in [
    (dict(), dict(material_basis='volume', material_unit='cm3')),
    (dict(), dict(material_unit='kg')),
    (dict(), dict(material_basis='molar', material_unit='mol', loading_basis='fraction')),
    (dict(), dict(material_basis='volume', material_unit='cm3', loading_basis='percent', pressure_mode='relative')),
    (dict(lb='fraction', lu=None), dict(material_basis='volume', material_unit='cm3', loading_basis='molar',
                                        loading_unit='mmol')),
    (dict(lb='fraction', lu=None), dict(material_unit='kg', loading_basis='mass', loading_unit='g')),
    (dict(), dict(material_basis='nobasis', loading_unit='mol', pressure_unit='kPa')),
    (dict(), dict(material_basis='volume', loading_unit='mol')),
    (dict(mat=MATERIAL_BARE), dict(pressure_mode='relative', material_basis='volume', material_unit='cm3',
                                   loading_unit='mol')),
    (dict(), dict(verbose=True, material_basis='molar', material_unit='mmol', loading_basis='percent')),
]:
    n += 1
    case(n, f"start={ {k: str(v) for k, v in start.items()} } convert({kw})")
    iso = make(**start)
    warm(iso)
    call(iso, 'convert', **kw)
    dump(iso)
    revalidate(iso)

print(f"total cases: {n}")
