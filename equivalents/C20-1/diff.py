"""Differential script for change 1: alias bookkeeping in Adsorbate.__init__."""
import json
import os
import sys

sys.path.insert(0, os.path.dirname(os.path.abspath(__file__)))
from eqcommon import call  # noqa: E402
from eqcommon import fmt  # noqa: E402

import pygaps  # noqa: E402
from pygaps import Adsorbate  # noqa: E402
from pygaps.data import ADSORBATE_LIST  # noqa: E402


class Weird:
    """Alias element with its own lower()."""
    def __init__(self, s):
        self.s = s

    def lower(self):
        return self.s.lower()


class StrSub(str):
    pass


def gen(*items):
    for i in items:
        yield i


def describe(name, store=False, probes=(), **props):
    """Create the adsorbate and report everything the alias logic influences."""
    before = len(ADSORBATE_LIST)
    ads = Adsorbate(name, store=store, **props) if store is not None else Adsorbate(name, **props)
    out = {
        'name': ads.name,
        'alias': ads.alias,
        'alias_type': type(ads.alias).__name__,
        'alias_elem_types': [type(a).__name__ for a in ads.alias],
        'properties': ads.properties,
        'to_dict': ads.to_dict(),
        'alias_is_to_dict_alias': ads.to_dict()['alias'] is ads.alias,
        'list_growth': len(ADSORBATE_LIST) - before,
        'str': str(ads),
        'repr': repr(ads),
        'hash_eq_name': hash(ads) == hash(ads.name),
    }
    eqs = {}
    for probe in list(probes) + [ads.name, ads.name.upper(), ads.name.lower(), ads.name.title(), '', ' ']:
        try:
            eqs[probe] = (ads == probe)
        except BaseException as err:  # noqa
            eqs[probe] = f"{type(err).__name__}: {err}"
    out['eq'] = eqs
    # clean up master list again
    while len(ADSORBATE_LIST) > before:
        ADSORBATE_LIST.pop()
    return out


shared_alias_list = ['Foo', 'BAR']
shared_alias_tuple = ('Foo', 'BAR')

CASES = [
    ("no alias", dict(name='Xenon9')),
    ("no alias, upper name", dict(name='XENON9')),
    ("alias None explicit", dict(name='Xenon9', alias=None)),
    ("alias str", dict(name='Xenon9', alias='Xe9', probes=['xe9', 'XE9'])),
    ("alias str equal to name other case", dict(name='Xenon9', alias='XENON9')),
    ("alias str equal to name lower", dict(name='Xenon9', alias='xenon9')),
    ("alias empty str", dict(name='Xenon9', alias='')),
    ("alias str subclass", dict(name='Xenon9', alias=StrSub('SubAlias'), probes=['subalias'])),
    ("alias empty list", dict(name='Xenon9', alias=[])),
    ("alias empty tuple", dict(name='Xenon9', alias=())),
    ("alias list without name", dict(name='Xenon9', alias=['Xe9', 'XENON-9'], probes=['xe9', 'Xenon-9'])),
    ("alias list with name first", dict(name='Xenon9', alias=['XENON9', 'xe9'])),
    ("alias list with name last", dict(name='Xenon9', alias=['xe9', 'Xenon9'])),
    ("alias list with name in middle", dict(name='Xenon9', alias=['a', 'xenon9', 'b'])),
    ("alias list with duplicates", dict(name='Xenon9', alias=['Xe', 'xe', 'XE', 'xenon9', 'XENON9'])),
    ("alias tuple", dict(name='Xenon9', alias=('T1', 'T2'), probes=['t1', 'T2'])),
    ("alias single set", dict(name='Xenon9', alias={'OnlyOne'}, probes=['onlyone'])),
    ("alias frozenset w/ name", dict(name='Xenon9', alias=frozenset(['XENON9']))),
    ("alias generator", dict(name='Xenon9', alias=gen('G1', 'G2', 'Xenon9'), probes=['g1'])),
    ("alias dict keys", dict(name='Xenon9', alias={'K1': 1, 'K2': 2}, probes=['k1'])),
    ("alias objects with lower()", dict(name='Xenon9', alias=[Weird('W1'), 'w2'], probes=['w1', 'W2'])),
    ("alias shared list not mutated", dict(name='Xenon9', alias=shared_alias_list)),
    ("alias shared tuple", dict(name='Xenon9', alias=shared_alias_tuple)),
    ("alias with unicode", dict(name='Äther', alias=['ÄTHER', 'ǅ', 'İ'], probes=['äther', 'ǆ'])),
    ("name with spaces/case", dict(name='  Mixed Case ', alias=['mixed case'])),
    ("empty name", dict(name='', alias=['x'])),
    ("empty name no alias", dict(name='')),
    ("extra properties kept", dict(name='Xenon9', alias=['a'], formula='Xe', backend_name='Xenon', molar_mass=1.5)),
    ("extra properties, no alias", dict(name='Xenon9', formula='Xe', saturation_pressure=3)),
    ("store=True new", dict(name='Xenon9', alias=['xe9'], store=True)),
    ("store=True existing by name", dict(name='nitrogen', alias=['zzz'], store=True)),
    ("store=True existing N2 name", dict(name='N2', store=True)),
    ("store default", dict(name='Xenon9', store=None)),
    # error paths
    ("name None", dict(name=None)),
    ("name None with alias", dict(name=None, alias=['a'])),
    ("name int", dict(name=5)),
    ("name int with bad alias", dict(name=5, alias=[1])),
    ("name bytes", dict(name=b'abc')),
    ("name bytes alias bytes list", dict(name=b'abc', alias=[b'ABC', b'Q'])),
    ("alias int", dict(name='Xenon9', alias=5)),
    ("alias list with int", dict(name='Xenon9', alias=['ok', 5])),
    ("alias list with None", dict(name='Xenon9', alias=[None])),
    ("alias bytes", dict(name='Xenon9', alias=b'xy')),
    ("alias list of bytes", dict(name='Xenon9', alias=[b'XY'])),
    ("alias False", dict(name='Xenon9', alias=False)),
    ("alias 0", dict(name='Xenon9', alias=0)),
]

for label, kwargs in CASES:
    call(f"case[{label}]", describe, **kwargs)

print("shared list after:", fmt(shared_alias_list), fmt(shared_alias_tuple))

# All shipped adsorbates (database): rebuild from their dictionary, both ways
print("== shipped, packaged database:", len(ADSORBATE_LIST))
for ads in list(ADSORBATE_LIST):
    d = ads.to_dict()
    d['alias'] = list(d['alias'])
    new = Adsorbate(**d)
    upper = Adsorbate(d['name'].upper(), alias=[a.upper() for a in d['alias']])
    noal = Adsorbate(d['name'])
    print(
        f"db[{ads.name}] alias={fmt(ads.alias)} rebuilt={fmt(new.alias)} same={new.alias == ads.alias} "
        f"upper={fmt(upper.alias)} noalias={fmt(noal.alias)}"
    )

# All shipped adsorbates (json source list)
src = os.path.join(os.path.dirname(pygaps.__file__), 'data', 'adsorbates.json')
with open(src, encoding='utf8') as f:
    ads_json = json.load(f)
print("== shipped, json source:", len(ads_json))
for entry in ads_json:
    e = dict(entry)
    call(f"json[{entry['name']}]", lambda e=e: (lambda a: (a.name, a.alias, sorted(a.properties)))(Adsorbate(**e)))
    for al in entry.get('alias', []) if not isinstance(entry.get('alias'), str) else [entry['alias']]:
        a = Adsorbate(**dict(entry))
        if not (a == al and a == al.upper() and a == al.lower() and a == al.swapcase()):
            print("   !! alias not matching", al)

# resolution through find and through the isotherm setter
print("== find / isotherm link")
for ads in list(ADSORBATE_LIST):
    for al in ads.alias:
        for variant in (al, al.upper(), al.title(), al.swapcase()):
            found = Adsorbate.find(variant)
            if found is not ads:
                print(f"   find('{variant}') -> {found.name} instead of {ads.name}")
iso = pygaps.PointIsotherm(
    pressure=[1, 2], loading=[1, 2], material='m', adsorbate='NITROGEN', temperature=77
)
print("iso link:", iso.adsorbate.name, iso.adsorbate is Adsorbate.find('n2'))
call("find unknown", Adsorbate.find, 'not-a-gas')
call("find int", Adsorbate.find, 5)
