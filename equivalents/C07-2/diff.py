# ---- common header (duplicated in every diffN.py so each script is self-contained) ----
import math
import os
import sys
import tempfile
import warnings

warnings.simplefilter("ignore")

import numpy
import pandas

import pygaps
import pygaps.parsing as pgp
from pygaps.core.baseisotherm import BaseIsotherm
from pygaps.core.modelisotherm import ModelIsotherm
from pygaps.core.pointisotherm import PointIsotherm
from pygaps.modelling import model_from_dict

assert pygaps.__file__.startswith("/tmp/eq/C07/src"), pygaps.__file__

# the pygaps logger writes INFO+ to stdout -> warnings become part of the canonical text
# (the stream was bound at import; make sure it is *our* stdout)
import re
import shutil

TMP = "/tmp/eq/C07/_eq/work"  # fixed location so that paths in messages are reproducible
shutil.rmtree(TMP, ignore_errors=True)
os.makedirs(TMP)


def canon(v):
    """Canonical text of a value: floats to 12 significant digits, recursive containers."""
    if isinstance(v, (bool, numpy.bool_)):
        return f"bool:{bool(v)}"
    if isinstance(v, (int, numpy.integer)):
        return f"int:{int(v)}"
    if isinstance(v, (float, numpy.floating)):
        v = float(v)
        if math.isnan(v):
            return "float:nan"
        return f"float:{v:.12g}"
    if isinstance(v, str):
        return f"str:{v!r}"
    if v is None:
        return "None"
    if isinstance(v, dict):
        return "{" + ", ".join(f"{canon(k)}: {canon(x)}" for k, x in v.items()) + "}"
    if isinstance(v, (list, tuple)):
        o, c = ("[", "]") if isinstance(v, list) else ("(", ")")
        return o + ", ".join(canon(x) for x in v) + c
    if isinstance(v, numpy.ndarray):
        return "nd" + canon(v.tolist())
    return f"{type(v).__name__}:{v!r}"


def canon_exc(e):
    msg = re.sub(r"0x[0-9a-fA-F]+", "0xADDR", str(e))
    return f"EXC {type(e).__module__}.{type(e).__name__}: {msg}"


def describe(iso):
    """Canonical multi-line text of everything observable on an isotherm."""
    out = [f"  class={type(iso).__name__} iso_id={iso.iso_id}"]
    d = iso.to_dict()
    for k in d:  # insertion order is observable as well
        out.append(f"  meta {k!r} = {canon(d[k])}")
    out.append(f"  material={iso.material!r} props={canon(iso.material.properties)}")
    out.append(f"  adsorbate={str(iso.adsorbate)!r} temperature={canon(iso.temperature)}")
    out.append(f"  units={canon(iso.units)}")
    if isinstance(iso, PointIsotherm):
        df = iso.data_raw
        out.append(f"  keys p={iso.pressure_key!r} l={iso.loading_key!r} other={iso.other_keys!r}")
        out.append(f"  columns={list(df.columns)!r} dtypes={[str(t) for t in df.dtypes]!r}")
        for row in df.itertuples(index=True):
            out.append("  row " + " | ".join(canon(x) for x in row))
    if isinstance(iso, ModelIsotherm):
        m = iso.model
        out.append(f"  model name={m.name!r} rmse={canon(m.rmse)}")
        out.append(f"  model params={canon(dict(m.params))}")
        out.append(f"  model prange={canon(m.pressure_range)} lrange={canon(m.loading_range)}")
    return "\n".join(out)


def run(label, func):
    """Run func, print canonical result or exception."""
    print(f"### {label}")
    sys.stdout.flush()
    try:
        res = func()
    except BaseException as e:  # noqa
        print(canon_exc(e))
        c = e.__cause__
        while c is not None:
            print("  cause " + canon_exc(c))
            c = c.__cause__
        return None
    if isinstance(res, BaseIsotherm):
        print(describe(res))
    elif isinstance(res, str):
        print("  text:")
        for ln in res.split("\n"):
            print("  |" + ln.replace("\r", "<CR>"))
    else:
        print("  " + canon(res))
    return res


UNITS = {
    "default": dict(
        pressure_mode="absolute", pressure_unit="bar", material_basis="mass", material_unit="g",
        loading_basis="molar", loading_unit="mmol", temperature_unit="K"
    ),
    "relative": dict(
        pressure_mode="relative", pressure_unit=None, material_basis="mass", material_unit="kg",
        loading_basis="mass", loading_unit="g", temperature_unit="K"
    ),
    "relpct": dict(
        pressure_mode="relative%", pressure_unit=None, material_basis="volume", material_unit="cm3",
        loading_basis="volume_gas", loading_unit="cm3", temperature_unit="°C"
    ),
    "stp": dict(
        pressure_mode="absolute", pressure_unit="mbar", material_basis="mass", material_unit="mg",
        loading_basis="molar", loading_unit="cm3(STP)", temperature_unit="K"
    ),
    "percent": dict(
        pressure_mode="absolute", pressure_unit="kPa", material_basis="mass", material_unit="g",
        loading_basis="percent", loading_unit=None, temperature_unit="K"
    ),
    "fraction": dict(
        pressure_mode="absolute", pressure_unit="torr", material_basis="molar", material_unit="mol",
        loading_basis="fraction", loading_unit=None, temperature_unit="K"
    ),
    "volliq": dict(
        pressure_mode="absolute", pressure_unit="Pa", material_basis="molar", material_unit="mmol",
        loading_basis="volume_liquid", loading_unit="cm3", temperature_unit="K"
    ),
}

META = {
    "none": {},
    "plain": dict(user="TU", comment="a plain text", iso_type="isotherm"),
    "numbers": dict(n=3, zero=0, neg=-7, x=1.5, tiny=1.2345678901234e-09, big=6.02e+23, negf=-0.25),
    "bools": dict(flag=True, other=False),
    "mixed": dict(
        user="TU", machine="M 1", date="2020-01-02", n=42, ratio=0.333333333333, ok=True,
        material_batch="b-1", activation_temperature=150.0, material_mass=0.0123, instrument="inst"
    ),
    "nonecarry": dict(nothing=None, empty=""),
    "lists": dict(lst=[1, 2, 3], lstf=[1.5, 2.5], tup=(1, 2)),
    "tricky": dict(t1="True", t2="none", t3="12", t4="1e5", t5="[1 2]", t6="  padded  ", t7="inf", t8="nan"),
    "unicode": dict(user="Müller", note="²", half="½", arabic="٣"),
    "sepkey": {"a b": "x", "tab\tkey": 1},
    "comma": dict(comment="a, b"),
    "quote": dict(comment="it's", dq='say "hi"'),
    "semi": dict(comment="a;b", hash="#x", under="_x", dollar="$y"),
    "nestedmat": dict(_material_foo=1, sample_bar=2),
}

MATERIALS = {
    "str": "MAT-1",
    "props": dict(name="MAT-2", density=1.25, formula="C6H6", batch="b7", molar_mass=100),
    "propbool": dict(name="MAT 3", porous=True, note="hello world", count=0),
    "recursive": dict(name="MAT4", a_material_b=1, sample_x="y"),
}

POINTS = {
    "basic": dict(
        pressure=[0.1, 0.2, 0.3, 0.4, 0.5, 0.4, 0.3],
        loading=[1.0, 2.0, 3.0, 3.5, 4.0, 3.8, 3.1],
        branch=[0, 0, 0, 0, 0, 1, 1],
    ),
    "single": dict(pressure=[1.0], loading=[2.0], branch=[0]),
    "adsonly": dict(pressure=[1e-6, 1e-3, 1.0, 1e3], loading=[0.0, 1 / 3, 2 / 3, 123456.123456789123]),
    "desonly": dict(pressure=[3.0, 2.0, 1.0], loading=[3.0, 2.5, 1.0], branch=[1, 1, 1]),
    "precision": dict(
        pressure=[0.123456789012, 0.2000000049, 0.2000000051, 1e-9, 5e-9],
        loading=[1.000000005, 2.999999995, 1e-12, 7.0, 8.0],
        branch=[0, 0, 0, 1, 1],
    ),
    "ints": dict(pressure=[1, 2, 3, 2], loading=[10, 20, 30, 25], branch=[0, 0, 0, 1]),
}


def make_point(points="basic", units="default", meta="none", material="str", extra=None, **kw):
    p = POINTS[points]
    data = {"pressure": p["pressure"], "loading": p["loading"]}
    other = []
    n = len(p["pressure"])
    if extra:
        for col in extra:
            if col == "enthalpy":
                data[col] = [5.0 + 0.123456789123 * i for i in range(n)]
            elif col == "count":
                data[col] = list(range(n))
            elif col == "label":
                data[col] = [f"p{i}" for i in range(n)]
            elif col == "flag":
                data[col] = [bool(i % 2) for i in range(n)]
            other.append(col)
    args = dict(
        isotherm_data=pandas.DataFrame(data), pressure_key="pressure", loading_key="loading",
        material=MATERIALS[material] if isinstance(MATERIALS[material], str) else dict(MATERIALS[material]),
        adsorbate=kw.pop("adsorbate", "N2"), temperature=kw.pop("temperature", 77.0),
    )
    if other:
        args["other_keys"] = other
    args["branch"] = p.get("branch", "guess")
    args.update(UNITS[units])
    args.update(META[meta])
    args.update(kw)
    return PointIsotherm(**args)


MODELS = {
    "henry": dict(name="Henry", rmse=0.01, parameters={"K": 2.5}, pressure_range=[0.1, 10.0],
                  loading_range=[0.25, 25.0]),
    "langmuir": dict(name="Langmuir", rmse=1.234567890123e-05, parameters={"K": 12.3456789, "n_m": 4.2},
                     pressure_range=[1e-05, 1.0], loading_range=[0.0, 4.1]),
    "dslangmuir": dict(name="DSLangmuir", rmse=0, parameters={"n_m1": 1.0, "K1": 2.0, "n_m2": 3.0, "K2": 0.5},
                       pressure_range=[0, 100], loading_range=[0, 4]),
    "toth": dict(name="Toth", rmse=0.5, parameters={"n_m": 10.0, "K": 1.0, "t": 0.7},
                 pressure_range=[0.001, 5.5], loading_range=[0.01, 8.25]),
}


def make_model(model="henry", units="default", meta="none", material="str", **kw):
    md = {k: (dict(v) if isinstance(v, dict) else (list(v) if isinstance(v, list) else v))
          for k, v in MODELS[model].items()}
    args = dict(
        model=model_from_dict(md),
        material=MATERIALS[material] if isinstance(MATERIALS[material], str) else dict(MATERIALS[material]),
        adsorbate=kw.pop("adsorbate", "CO2"), temperature=kw.pop("temperature", 298.15),
    )
    args.update(UNITS[units])
    args.update(META[meta])
    args.update(kw)
    return ModelIsotherm(**args)


def make_base(units="default", meta="none", material="str", **kw):
    args = dict(
        material=MATERIALS[material] if isinstance(MATERIALS[material], str) else dict(MATERIALS[material]),
        adsorbate=kw.pop("adsorbate", "CH4"), temperature=kw.pop("temperature", 303),
    )
    args.update(UNITS[units])
    args.update(META[meta])
    args.update(kw)
    return BaseIsotherm(**args)


def all_isotherms():
    """(label, factory) of a broad family of isotherms."""
    cases = []
    # point isotherms: every unit configuration x several data shapes
    for u in UNITS:
        cases.append((f"point/basic/{u}", lambda u=u: make_point("basic", u, "plain")))
    for pts in POINTS:
        cases.append((f"point/{pts}/default", lambda pts=pts: make_point(pts, "default", "numbers")))
    for m in META:
        cases.append((f"point/basic/meta-{m}", lambda m=m: make_point("basic", "default", m)))
    for mat in MATERIALS:
        cases.append((f"point/basic/mat-{mat}", lambda mat=mat: make_point("basic", "relative", "mixed", mat)))
    cases.append(("point/extra-enthalpy", lambda: make_point("basic", "default", "plain", extra=["enthalpy"])))
    cases.append(("point/extra-multi", lambda: make_point("precision", "percent", "bools", "props",
                                                          extra=["enthalpy", "count", "label"])))
    cases.append(("point/extra-flag", lambda: make_point("ints", "fraction", "none", extra=["flag", "count"])))
    cases.append(("point/otheradsorbate", lambda: make_point("adsonly", "volliq", "mixed", adsorbate="carbon dioxide",
                                                             temperature=0)))
    cases.append(("point/unknownadsorbate", lambda: make_point("single", "default", "none", adsorbate="mystery gas",
                                                               temperature=1e-3)))
    # model isotherms
    for mod in MODELS:
        cases.append((f"model/{mod}/default", lambda mod=mod: make_model(mod, "default", "plain")))
    for u in UNITS:
        cases.append((f"model/langmuir/{u}", lambda u=u: make_model("langmuir", u, "numbers", "props")))
    for m in META:
        cases.append((f"model/henry/meta-{m}", lambda m=m: make_model("henry", "default", m)))
    # base isotherms
    for u in UNITS:
        cases.append((f"base/{u}", lambda u=u: make_base(u, "mixed")))
    for m in META:
        cases.append((f"base/meta-{m}", lambda m=m: make_base("default", m, "propbool")))
    for mat in MATERIALS:
        cases.append((f"base/mat-{mat}", lambda mat=mat: make_base("relpct", "bools", mat)))
    return cases


def quiet(factory):
    """Build an isotherm with the pygaps logger silenced (constructor noise is not under test)."""
    import logging
    lg = logging.getLogger("pygaps")
    old = lg.level
    lg.setLevel(logging.CRITICAL)
    try:
        return factory()
    finally:
        lg.setLevel(old)

# ---- end of common header ----

# ===== diff2: string utilities (cast_string / _to_string and helpers) =====
import pygaps.utilities.string_utilities as su
from pygaps.parsing.csv import isotherm_from_csv, isotherm_to_csv
from pygaps.parsing.aif import isotherm_from_aif, isotherm_to_aif


class MyList(list):
    pass


class MyTuple(tuple):
    pass


class MyStr(str):
    pass


class Weird:
    def __bool__(self):
        return True

    def lower(self):
        return "true"

    def __repr__(self):
        return "Weird()"


class WeirdNone(Weird):
    def lower(self):
        return "none"


class Falsy:
    def __bool__(self):
        return False

    def __repr__(self):
        return "Falsy()"


STRINGS = [
    "", " ", "none", "None", "NONE", "nOnE", " none", "none ", "null", "nan", "NaN", "inf", "-inf", "Infinity",
    "true", "True", "TRUE", "tRuE", "false", "False", "FALSE", " true", "true ", "yes", "no", "t", "f", "truefalse",
    "0", "1", "30", "007", "-1", "+1", "1 ", " 1", "1_000", "1,5", "१२", "٣", "²", "½", "Ⅷ", "1²", "12345678901234567890123",
    "1.2", "-2.24", ".5", "5.", "1e5", "1E-3", "1e", "e1", "0x10", "1_0.5", "1.2.3", "--1", "1e400", "-0.0", "+.5e-2",
    "[1,2,3,4]", "[1 2 3 4]", "[]", "[ ]", "[1.5 2.5]", "['a' 'b']", "[a b]", "[1 [2 3]]", "[1", "1]", "[", "]", "[]]",
    "[1 +]", "[1  2]", "[True None]", "[{'a':1}]", "(1 2)", "()", "{1 2}", "[__import__('os')]", "[1]x]",
    "text", "Some Text", "a b c", "MAT-1", "2020-01-02", "1-2", "cm3(STP)", "°C", "Müller", "it's", 'say "hi"',
    "\t", "\n", "a\nb", "none\n", "[1]\n", "TrUe\n",
    MyStr("true"), MyStr("12"), MyStr("hello"), MyStr(""),
]
NONSTRINGS = [
    None, 0, 1, 5, -3, 1.5, 0.0, float("nan"), True, False, [], [1, 2], (), (1,), {}, {"a": 1}, b"", b"true", b"12",
    b"[1]", b"abc", bytearray(b"none"), set(), {1}, Weird(), WeirdNone(), Falsy(), numpy.float64(2.5), numpy.int64(0),
    numpy.str_("true"), numpy.str_("7"), numpy.array([1, 2]), numpy.array([]), object,
]

for name in ("_is_none", "_is_float", "_is_bool", "_from_bool", "_is_list", "_from_list", "cast_string"):
    func = getattr(su, name)
    for s in STRINGS:
        run(f"{name}({s!r}) [{type(s).__name__}]", lambda: func(s))
    for s in NONSTRINGS:
        lab = re.sub(r"0x[0-9a-fA-F]+", "0xADDR", repr(s))
        run(f"{name}({lab}) [{type(s).__name__}]", lambda: func(s))

# result *types* matter too (bool vs int vs float vs str subclasses)
for s in STRINGS:
    def typed(s=s):
        r = su.cast_string(s)
        return f"{type(r).__module__}.{type(r).__name__}"
    run(f"type(cast_string({s!r}))", typed)

VALUES = [
    None, True, False, 0, 1, -5, 1.5, 1e-9, 1e22, float("nan"), float("inf"), "", "text", "a b", "[x]",
    [], [1], [1, 2, 3], [1.5, "a", None, True], [[1, 2], [3]], [(1, 2)], ["a b"],
    (), (1,), (1, 2), ("a", 2.5), ((1, 2), [3]),
    MyList([1, 2]), MyTuple((1, 2)), MyList(), MyTuple(),
    {"a": 1}, {1, }, frozenset([2]), range(3), b"bytes", numpy.array([1, 2]), numpy.float64(0.1), numpy.int32(7),
    Weird(), Falsy(),
]
for v in VALUES:
    lab = re.sub(r"0x[0-9a-fA-F]+", "0xADDR", repr(v))

    def conv(v=v):
        r = su._to_string(v)
        print(f"  type={type(r).__name__}")
        return r

    run(f"_to_string({lab}) [{type(v).__name__}]", conv)

    def back(v=v):
        return su.cast_string(su._to_string(v))

    run(f"cast_string(_to_string({lab}))", back)

# the two latex helpers live in the same module: make sure they are untouched
for s in ("N2", "C4H10", "", "H2O2x", "12", "a1b22c"):
    run(f"convert_chemformula_ltx({s!r})", lambda: su.convert_chemformula_ltx(s))
for s in ("mmol", "g", "cm3", "cm3(STP)", "", "m2", "3"):
    for neg in (False, True):
        run(f"convert_unit_ltx({s!r},{neg})", lambda: su.convert_unit_ltx(s, neg))

# end-to-end through the CSV and AIF (metadata-only / model) paths that use the helpers
for label, factory in all_isotherms():
    def rt(factory=factory):
        iso = quiet(factory)
        text = isotherm_to_csv(iso)
        for ln in text.split("\n"):
            print("  |" + ln)
        new = isotherm_from_csv(text)
        print(f"  equal={new == iso}")
        return new

    run(f"csv {label}", rt)
    if not label.startswith("point"):
        def rt2(factory=factory):
            iso = quiet(factory)
            new = isotherm_from_aif(isotherm_to_aif(iso))
            print(f"  equal={new == iso}")
            return new

        run(f"aif {label}", rt2)
