"""Differential transcript for pygaps.iast.pgiast (iast_point, reverse_iast, iast_point_fraction,
iast_binary_vle, iast_binary_svp).

Run:  cd <worktree> && PYTHONPATH=<worktree>/src /venv/bin/python diff.py > transcript.txt
The transcript is deterministic; it must be byte-identical on the untouched and on the patched tree.
"""
import logging
import os
import sys
import warnings
from pathlib import Path

import matplotlib

matplotlib.use("Agg")

import numpy  # noqa: E402

import pygaps  # noqa: E402
import pygaps.iast.pgiast as pgi  # noqa: E402
import pygaps.parsing as pgp  # noqa: E402
from pygaps.modelling import get_isotherm_model  # noqa: E402

warnings.simplefilter("ignore")
numpy.seterr(all="ignore")

ROOT = Path(pygaps.__file__).parent.parent.parent
DATA = ROOT / "docs" / "examples" / "data" / "iast"


def out(*args):
    print(*args)


class _H(logging.Handler):
    def emit(self, record):
        out("    LOG", record.levelname, repr(record.getMessage()))


lg = logging.getLogger("pygaps")
for h in list(lg.handlers):
    lg.removeHandler(h)
hh = _H()
hh.setLevel(logging.INFO)
lg.addHandler(hh)


def show(v):
    if isinstance(v, dict):
        return "{" + ", ".join(f"{k!r}: {show(v[k])}" for k in v) + "}"
    if isinstance(v, tuple):
        return "(" + ", ".join(show(x) for x in v) + ")"
    if isinstance(v, list):
        return "[" + ", ".join(show(x) for x in v) + "]"
    if isinstance(v, numpy.ndarray):
        return f"ndarray{v.shape}{v.dtype}[" + ", ".join(float(x).hex() if v.dtype.kind == 'f' else repr(x) for x in v.ravel()) + "]"
    if isinstance(v, (float, numpy.floating)):
        return f"{type(v).__name__}:{float(v).hex()}"
    return f"{type(v).__name__}:{v!r}"


def run(label, fn, *args, **kwargs):
    out(f"--- {label}")
    try:
        res = fn(*args, **kwargs)
        out("    ->", show(res))
    except BaseException as err:  # noqa
        out("    !!", type(err).__name__, repr(str(err)))


def model_iso(name, params, prange=(0.0, 10.0), lrange=(0.0, 10.0), branch="ads", **props):
    model = get_isotherm_model(name, parameters=params, pressure_range=prange, loading_range=lrange)
    base = dict(
        material="M", adsorbate="N2", temperature=77.0, pressure_mode="absolute", pressure_unit="bar",
        loading_basis="molar", loading_unit="mmol", material_basis="mass", material_unit="g"
    )
    base.update(props)
    return pygaps.ModelIsotherm(model=model, branch=branch, **base)


ch4 = pgp.isotherm_from_json(DATA / "MOF-5(Zn) - IAST - CH4.json")
c2h6 = pgp.isotherm_from_json(DATA / "MOF-5(Zn) - IAST - C2H6.json")
ch4_m = pygaps.ModelIsotherm.from_pointisotherm(ch4, model="Langmuir")
c2h6_m = pygaps.ModelIsotherm.from_pointisotherm(c2h6, model="Langmuir")

h1 = model_iso("Henry", {"K": 2.0})
h2 = model_iso("Henry", {"K": 0.5})
h3 = model_iso("Henry", {"K": 7.25})
l1 = model_iso("Langmuir", {"K": 1.5, "n_m": 4.0})
l2 = model_iso("Langmuir", {"K": 0.3, "n_m": 4.0})
l3 = model_iso("Langmuir", {"K": 11.0, "n_m": 2.5})
dsl = model_iso("DSLangmuir", {"n_m1": 2.0, "K1": 1.0, "n_m2": 3.0, "K2": 0.1})
toth = model_iso("Toth", {"n_m": 5.0, "K": 0.8, "t": 0.7})
quad = model_iso("Quadratic", {"n_m": 3.0, "Ka": 0.4, "Kb": 0.2})
virial = model_iso("Virial", {"K": 1.0, "A": 0.1, "B": 0.01, "C": 0.001})
l_des = model_iso("Langmuir", {"K": 1.5, "n_m": 4.0}, branch="des")
l_rel = model_iso("Langmuir", {"K": 1.5, "n_m": 4.0}, pressure_mode="relative", pressure_unit=None)
l_relp = model_iso("Langmuir", {"K": 1.5, "n_m": 4.0}, pressure_mode="relative%", pressure_unit=None)

out("=== iast_point")
run("real points", pgi.iast_point, [ch4, c2h6], [0.5, 0.5])
run("real points tuple", pgi.iast_point, (ch4, c2h6), numpy.array([0.1, 0.9]))
run("real models", pgi.iast_point, [ch4_m, c2h6_m], [0.5, 0.5])
run("real models verbose", pgi.iast_point, [ch4_m, c2h6_m], [0.3, 0.7], verbose=True)
run("real mixed verbose", pgi.iast_point, [ch4, c2h6_m], [1.3, 0.7], verbose=True)
run("real points extrapolate", pgi.iast_point, [ch4, c2h6], [30.0, 1.0])
run("real points extrapolate warnoff", pgi.iast_point, [ch4, c2h6], [30.0, 1.0], warningoff=True)
run("real points extrapolate verbose", pgi.iast_point, [ch4, c2h6], [50.0, 0.01], verbose=True)
for pp in ([1.0, 1.0], [0.2, 3.0], [1e-3, 5.0], [9.0, 9.0], [1e-9, 1e-9], [100.0, 0.001]):
    run(f"henry2 {pp}", pgi.iast_point, [h1, h2], pp)
    run(f"langmuir2 {pp}", pgi.iast_point, [l1, l2], pp)
    run(f"langmuir-uneq {pp}", pgi.iast_point, [l1, l3], pp)
    run(f"mixed models {pp}", pgi.iast_point, [dsl, toth], pp)
for pp in ([1.0, 1.0, 1.0], [0.2, 3.0, 0.5], [5.0, 0.01, 2.0]):
    run(f"henry3 {pp}", pgi.iast_point, [h1, h2, h3], pp)
    run(f"langmuir3 {pp}", pgi.iast_point, [l1, l2, l3], pp, verbose=True)
    run(f"mixed3 {pp}", pgi.iast_point, [quad, l2, h3], pp)
run("four comps", pgi.iast_point, [h1, l1, l2, toth], [0.5, 1.0, 1.5, 2.0])
run("guess list", pgi.iast_point, [l1, l2], [1.0, 2.0], adsorbed_mole_fraction_guess=[0.6, 0.4])
run("guess array", pgi.iast_point, [l1, l2], [1.0, 2.0], adsorbed_mole_fraction_guess=numpy.array([0.1, 0.9]))
run("guess tuple 3", pgi.iast_point, [l1, l2, l3], [1.0, 2.0, 0.3], adsorbed_mole_fraction_guess=(0.2, 0.2, 0.6))
run("guess bad sum", pgi.iast_point, [l1, l2], [1.0, 2.0], adsorbed_mole_fraction_guess=[0.6, 0.6])
run("guess almost", pgi.iast_point, [l1, l2], [1.0, 2.0], adsorbed_mole_fraction_guess=[0.6, 0.40001])
run("guess extreme", pgi.iast_point, [l1, l2], [1.0, 2.0], adsorbed_mole_fraction_guess=[1.0, 0.0])
run("guess zero first", pgi.iast_point, [l1, l2], [1.0, 2.0], adsorbed_mole_fraction_guess=[0.0, 1.0])
run("negative pressures", pgi.iast_point, [l1, l2], [-1.0, 2.0])
run("zero pressures", pgi.iast_point, [l1, l2], [0.0, 0.0])
run("zero one pressure", pgi.iast_point, [l1, l2], [0.0, 1.0])
run("nan pressure", pgi.iast_point, [l1, l2], [numpy.nan, 1.0])
run("inf pressure", pgi.iast_point, [h1, h2], [numpy.inf, 1.0])
run("branch ads explicit", pgi.iast_point, [ch4, c2h6], [0.5, 0.5], branch="ads")
run("branch des on points (none)", pgi.iast_point, [ch4, c2h6], [0.5, 0.5], branch="des")
run("branch des on ads models", pgi.iast_point, [l1, l2], [0.5, 0.5], branch="des")
run("des models with branch des", pgi.iast_point, [l_des, l_des], [0.5, 0.5], branch="des")
run("des models with branch ads", pgi.iast_point, [l_des, l_des], [0.5, 0.5])
run("bad branch", pgi.iast_point, [ch4, c2h6], [0.5, 0.5], branch="xyz")
run("one isotherm", pgi.iast_point, [l1], [1.0])
run("one isotherm bad model", pgi.iast_point, [virial], [1.0])
run("one isotherm relative", pgi.iast_point, [l_rel], [1.0])
run("no isotherms", pgi.iast_point, [], [])
run("no isotherms scalar", pgi.iast_point, [], 1.0)
run("bad model first", pgi.iast_point, [virial, l1], [1.0, 1.0])
run("bad model second", pgi.iast_point, [l1, virial], [1.0, 1.0])
run("bad model and relative", pgi.iast_point, [l_rel, virial], [1.0, 1.0])
run("relative", pgi.iast_point, [l1, l_rel], [1.0, 1.0])
run("relative%", pgi.iast_point, [l_relp, l1], [1.0, 1.0])
run("wrong number pp", pgi.iast_point, [l1, l2], [1.0, 1.0, 1.0])
run("wrong number pp scalar", pgi.iast_point, [l1, l2], 1.0)
run("wrong number pp verbose", pgi.iast_point, [l1, l2], [1.0], verbose=True)
run("2d pp", pgi.iast_point, [l1, l2], [[1.0], [1.0]])
run("non isotherm objects", pgi.iast_point, [1, 2], [1.0, 1.0])
run("isotherms None", pgi.iast_point, None, [1.0, 1.0])
run("pp strings", pgi.iast_point, [l1, l2], ["a", "b"])
run("pp list with verbose", pgi.iast_point, [h1, l2], [2, 3], verbose=True)

out("=== iast_point_fraction")
run("fraction real", pgi.iast_point_fraction, [ch4, c2h6], [0.5, 0.5], 1.0)
run("fraction real verbose", pgi.iast_point_fraction, [ch4_m, c2h6_m], [0.25, 0.75], 2.0, verbose=True)
run("fraction tuple", pgi.iast_point_fraction, [l1, l2], (0.1, 0.9), 3.0)
run("fraction array guess", pgi.iast_point_fraction, [l1, l2], numpy.array([0.1, 0.9]), 3.0,
    adsorbed_mole_fraction_guess=[0.5, 0.5])
run("fraction branch des", pgi.iast_point_fraction, [l1, l2], [0.1, 0.9], 3.0, branch="des")
run("fraction warnoff extrap", pgi.iast_point_fraction, [ch4, c2h6], [0.99, 0.01], 40.0, warningoff=True)
run("fraction extrap", pgi.iast_point_fraction, [ch4, c2h6], [0.99, 0.01], 40.0)
run("fraction 3", pgi.iast_point_fraction, [l1, l2, h3], [0.2, 0.3, 0.5], 1.5)
run("fraction wrong n", pgi.iast_point_fraction, [l1, l2], [0.2, 0.3, 0.5], 1.5)
run("fraction int pressure", pgi.iast_point_fraction, [l1, l2], [0.2, 0.8], 2)
run("fraction None pressure", pgi.iast_point_fraction, [l1, l2], [0.2, 0.8], None)
run("fraction str", pgi.iast_point_fraction, [l1, l2], "ab", 1.0)
run("fraction kw", pgi.iast_point_fraction, isotherms=[l1, l2], gas_mole_fraction=[0.2, 0.8], total_pressure=2.5)

out("=== reverse_iast")
run("rev real points", pgi.reverse_iast, [ch4, c2h6], [0.5, 0.5], 1.0)
run("rev real models verbose", pgi.reverse_iast, [ch4_m, c2h6_m], [0.25, 0.75], 2.0, verbose=True)
run("rev real extrap", pgi.reverse_iast, [ch4, c2h6], [0.5, 0.5], 60.0)
run("rev real extrap warnoff", pgi.reverse_iast, [ch4, c2h6], [0.5, 0.5], 60.0, warningoff=True)
for xs in ([0.5, 0.5], [0.25, 0.75], [0.125, 0.875], [1.0, 0.0], [0.0, 1.0]):
    for tp in (0.5, 2.0, 25.0):
        run(f"rev henry {xs} {tp}", pgi.reverse_iast, [h1, h2], xs, tp)
        run(f"rev langmuir {xs} {tp}", pgi.reverse_iast, [l1, l2], xs, tp)
        run(f"rev mixed {xs} {tp}", pgi.reverse_iast, [toth, dsl], xs, tp)
run("rev 3", pgi.reverse_iast, [l1, l2, l3], [0.25, 0.25, 0.5], 1.0, verbose=True)
run("rev 3 henry", pgi.reverse_iast, [h1, h2, h3], [0.5, 0.25, 0.25], 4.0)
run("rev guess", pgi.reverse_iast, [l1, l2], [0.5, 0.5], 1.0, gas_mole_fraction_guess=[0.3, 0.7])
run("rev guess array", pgi.reverse_iast, [l1, l2], [0.5, 0.5], 1.0, gas_mole_fraction_guess=numpy.array([0.9, 0.1]))
run("rev guess bad", pgi.reverse_iast, [l1, l2], [0.5, 0.5], 1.0, gas_mole_fraction_guess=[0.3, 0.3])
run("rev sum not one", pgi.reverse_iast, [l1, l2], [0.5, 0.6], 1.0)
run("rev sum float not one", pgi.reverse_iast, [l1, l2, l3], [0.1, 0.2, 0.7000000000000001], 1.0)
run("rev wrong n", pgi.reverse_iast, [l1, l2], [0.5, 0.25, 0.25], 1.0)
run("rev wrong n verbose", pgi.reverse_iast, [l1, l2], [1.0], 1.0, verbose=True)
run("rev one", pgi.reverse_iast, [l1], [1.0], 1.0)
run("rev none", pgi.reverse_iast, [], [], 1.0)
run("rev bad model", pgi.reverse_iast, [l1, virial], [0.5, 0.5], 1.0)
run("rev bad model one", pgi.reverse_iast, [virial], [1.0], 1.0)
run("rev relative", pgi.reverse_iast, [l_rel, l1], [0.5, 0.5], 1.0)
run("rev relative and bad", pgi.reverse_iast, [l_rel, virial], [0.5, 0.5], 1.0)
run("rev branch des", pgi.reverse_iast, [l1, l2], [0.5, 0.5], 1.0, branch="des")
run("rev des models", pgi.reverse_iast, [l_des, l_des], [0.5, 0.5], 1.0, branch="des")
run("rev negative pressure", pgi.reverse_iast, [l1, l2], [0.5, 0.5], -1.0)
run("rev zero pressure", pgi.reverse_iast, [l1, l2], [0.5, 0.5], 0.0)
run("rev negative fractions", pgi.reverse_iast, [l1, l2], [1.5, -0.5], 1.0)
run("rev non isotherm", pgi.reverse_iast, [1, 2], [0.5, 0.5], 1.0)
run("rev string fractions", pgi.reverse_iast, [l1, l2], ["a", "b"], 1.0)

out("=== round trip")
for isos, pp in (([l1, l2], [1.0, 2.0]), ([ch4, c2h6], [0.4, 0.6]), ([h1, h2, h3], [1.0, 2.0, 0.5])):
    try:
        loads = pgi.iast_point(isos, pp, warningoff=True)
        xs = loads / numpy.sum(loads)
        out("    x", show(xs), "sum==1", bool(numpy.sum(xs) == 1.0))
        run(f"roundtrip {pp}", pgi.reverse_iast, isos, xs, float(numpy.sum(pp)), warningoff=True)
    except BaseException as err:  # noqa
        out("    !!", type(err).__name__, repr(str(err)))

out("=== iast_binary_vle")
run("vle real", pgi.iast_binary_vle, [ch4, c2h6], 1.0, npoints=5)
run("vle real models default npoints", pgi.iast_binary_vle, [ch4_m, c2h6_m], 2.0)
run("vle langmuir", pgi.iast_binary_vle, [l1, l2], 1.0, npoints=7)
run("vle henry positional", pgi.iast_binary_vle, [h1, h2], 3.0, "ads", 4)
run("vle guess", pgi.iast_binary_vle, [l1, l2], 1.0, npoints=3, adsorbed_mole_fraction_guess=[0.5, 0.5])
run("vle bad guess", pgi.iast_binary_vle, [l1, l2], 1.0, npoints=3, adsorbed_mole_fraction_guess=[0.5, 0.9])
run("vle extrap", pgi.iast_binary_vle, [ch4, c2h6], 45.0, npoints=3)
run("vle extrap warnoff", pgi.iast_binary_vle, [ch4, c2h6], 45.0, npoints=3, warningoff=True)
run("vle verbose", pgi.iast_binary_vle, [l1, l2], 1.0, npoints=4, verbose=True)
run("vle verbose real", pgi.iast_binary_vle, [ch4, c2h6], 1.0, npoints=3, verbose=True)
run("vle npoints 0", pgi.iast_binary_vle, [l1, l2], 1.0, npoints=0)
run("vle npoints 1", pgi.iast_binary_vle, [l1, l2], 1.0, npoints=1)
run("vle npoints float", pgi.iast_binary_vle, [l1, l2], 1.0, npoints=2.5)
run("vle npoints negative", pgi.iast_binary_vle, [l1, l2], 1.0, npoints=-2)
run("vle three", pgi.iast_binary_vle, [l1, l2, l3], 1.0)
run("vle one", pgi.iast_binary_vle, [l1], 1.0)
run("vle relative", pgi.iast_binary_vle, [l1, l_rel], 1.0)
run("vle bad model", pgi.iast_binary_vle, [l1, virial], 1.0, npoints=3)
run("vle branch des", pgi.iast_binary_vle, [l1, l2], 1.0, branch="des", npoints=3)
run("vle des models", pgi.iast_binary_vle, [l_des, l_des], 1.0, branch="des", npoints=3)
run("vle negative pressure", pgi.iast_binary_vle, [l1, l2], -1.0, npoints=3)
run("vle zero pressure", pgi.iast_binary_vle, [h1, h2], 0.0, npoints=3)
run("vle non isotherm", pgi.iast_binary_vle, [1, 2], 1.0)
run("vle None", pgi.iast_binary_vle, None, 1.0)

out("=== iast_binary_svp")
run("svp real", pgi.iast_binary_svp, [ch4, c2h6], [0.5, 0.5], [0.5, 1.0, 2.0])
run("svp real models", pgi.iast_binary_svp, [ch4_m, c2h6_m], [0.25, 0.75], numpy.linspace(0.1, 5, 6))
run("svp langmuir", pgi.iast_binary_svp, [l1, l2], [0.5, 0.5], [0.1, 1.0, 10.0])
run("svp henry tuple", pgi.iast_binary_svp, (h1, h2), (0.125, 0.875), (1.0, 2.0))
run("svp guess", pgi.iast_binary_svp, [l1, l2], [0.5, 0.5], [1.0], adsorbed_mole_fraction_guess=[0.3, 0.7])
run("svp positional", pgi.iast_binary_svp, [l1, l2], [0.5, 0.5], [1.0], "ads", True, [0.3, 0.7])
run("svp extrap", pgi.iast_binary_svp, [ch4, c2h6], [0.5, 0.5], [1.0, 80.0])
run("svp extrap warnoff", pgi.iast_binary_svp, [ch4, c2h6], [0.5, 0.5], [1.0, 80.0], warningoff=True)
run("svp verbose", pgi.iast_binary_svp, [l1, l2], [0.5, 0.5], [1.0, 2.0], verbose=True)
run("svp empty pressures", pgi.iast_binary_svp, [l1, l2], [0.5, 0.5], [])
run("svp scalar pressure", pgi.iast_binary_svp, [l1, l2], [0.5, 0.5], 1.0)
run("svp fractions not one", pgi.iast_binary_svp, [l1, l2], [0.5, 0.6], [1.0])
run("svp fractions float sum", pgi.iast_binary_svp, [l1, l2], [0.1, 0.9], [1.0])
run("svp fractions 0.7 0.3", pgi.iast_binary_svp, [l1, l2], [0.7, 0.3], [1.0])
run("svp fraction zero", pgi.iast_binary_svp, [l1, l2], [0.0, 1.0], [1.0])
run("svp three isos", pgi.iast_binary_svp, [l1, l2, l3], [0.5, 0.5], [1.0])
run("svp three fractions", pgi.iast_binary_svp, [l1, l2], [0.5, 0.25, 0.25], [1.0])
run("svp relative", pgi.iast_binary_svp, [l_rel, l2], [0.5, 0.5], [1.0])
run("svp relative bad fractions", pgi.iast_binary_svp, [l_rel, l2], [0.5, 0.7], [1.0])
run("svp bad model", pgi.iast_binary_svp, [virial, l2], [0.5, 0.5], [1.0])
run("svp branch des", pgi.iast_binary_svp, [l1, l2], [0.5, 0.5], [1.0], branch="des")
run("svp des models", pgi.iast_binary_svp, [l_des, l_des], [0.5, 0.5], [1.0], branch="des")
run("svp negative pressure", pgi.iast_binary_svp, [l1, l2], [0.5, 0.5], [-1.0])
run("svp string fractions", pgi.iast_binary_svp, [l1, l2], "ab", [1.0])
run("svp None fractions", pgi.iast_binary_svp, [l1, l2], None, [1.0])

out("=== module surface")
out(sorted(n for n in dir(pgi) if n.startswith("iast") or n == "reverse_iast"))
for fn in (pgi.iast_point, pgi.reverse_iast, pgi.iast_point_fraction, pgi.iast_binary_vle, pgi.iast_binary_svp):
    import inspect
    out(fn.__name__, str(inspect.signature(fn)))
