"""Change 2: isotherm_from_csv split into metadata/model readers.

Round-trips the corpus through CSV (string target with several separators, file target),
and feeds hand-written CSV texts that reach every branch / error path of the reader.
"""
import _common as c
from pygaps.parsing import isotherm_from_csv
from pygaps.parsing import isotherm_to_csv

n = 0
for label, make in c.corpus():
    n += 1
    for sep in (",", ";", "\t"):
        iso = make()
        text = c.run(f"{label} | sep={sep!r} write", isotherm_to_csv, iso, separator=sep)
        if isinstance(text, str):
            back = c.run(f"{label} | sep={sep!r} read", isotherm_from_csv, text, separator=sep)
            if not isinstance(back, BaseException):
                c.run(f"{label} | sep={sep!r} equal", lambda: back == make())
            if sep == ";":
                # wrong separator on the way back
                c.run(f"{label} | sep=';' read with ','", isotherm_from_csv, text)
    # file target
    iso = make()
    path = c.tmp(f"f{n}.csv")
    res = c.run(f"{label} | file write", isotherm_to_csv, iso, path)
    if not isinstance(res, BaseException):
        back = c.run(f"{label} | file read", isotherm_from_csv, path)
        if not isinstance(back, BaseException):
            c.run(f"{label} | file equal", lambda: back == make())
        c.run(f"{label} | file read + overrides", isotherm_from_csv, path, material="other",
              temperature=1, newkey="x")

HEAD = "material,m\nadsorbate,N2\ntemperature,77\nfile_version,3.0\n"
UNITS = (
    "pressure_mode,absolute\npressure_unit,bar\nmaterial_basis,mass\nmaterial_unit,g\n"
    "loading_basis,molar\nloading_unit,mmol\ntemperature_unit,K\n"
)
MODEL = "model:[name and parameters]\nname,Henry\nrmse,0.5\npressure range,(1.0 4.0)\nloading range,(1.0 4.0)\nK,2.0\n"
DATA = "data:[pressure,loading,branch,(otherdata)]\npressure,loading,branch\n1.0,1.0,ads\n2.0,2.0,ads\n1.5,1.8,des\n"
TEXTS = {
    "empty": "",
    "newline only": "\n",
    "spaces only": "   \n",
    "base": HEAD + UNITS,
    "base no trailing newline": (HEAD + UNITS).rstrip("\n"),
    "base no units": HEAD,
    "blank line stops metadata": HEAD + "\n" + UNITS + DATA,
    "no version": HEAD.replace("file_version,3.0\n", "") + UNITS,
    "old version": HEAD.replace("3.0", "2.0") + UNITS,
    "new version": HEAD.replace("3.0", "4.5") + UNITS,
    "bad version": HEAD.replace("3.0", "abc") + UNITS,
    "version zero": HEAD.replace("3.0", "0") + UNITS,
    "three values": HEAD + "a,b,c\n" + UNITS,
    "one value": HEAD + "justkey\n" + UNITS,
    "key starts with data": HEAD + UNITS + "database,x\nkey,v\n",
    "key starts with model": HEAD + UNITS + "modelled,x\nkey,v\n",
    "leading spaces": HEAD + UNITS + "  key,  val  \n",
    "trailing spaces": HEAD + UNITS + "key,val   \nk2,3  \n",
    "indented data header": HEAD + UNITS + " data:x\n",
    "typed values": HEAD + UNITS + "i,3\nf,2.5\nb,True\nb2,false\nn,None\ne,\nl,[1 2 3]\ntpl,(1 2)\nneg,-3\nexp,1e-3\nnan,nan\ninf,inf\ntxt,hello world\nnum2,١٢\n",
    "bad list": HEAD + UNITS + "l,[a b]\n",
    "bad list 2": HEAD + UNITS + "l,[1 2\nk,v]\n",
    "duplicate keys": HEAD + UNITS + "k,1\nk,2\n",
    "missing material": "adsorbate,N2\ntemperature,77\nfile_version,3.0\n" + UNITS,
    "model ok": HEAD + UNITS + MODEL,
    "model two params": HEAD + UNITS + MODEL.replace("Henry", "Langmuir") + "n_m,3.5\n",
    "model extra trailing": HEAD + UNITS + MODEL + "\nignored,1\n",
    "model missing param": HEAD + UNITS + MODEL.replace("Henry", "Langmuir"),
    "model unknown name": HEAD + UNITS + MODEL.replace("Henry", "Nope"),
    "model header only": HEAD + UNITS + "model:[name and parameters]\n",
    "model name only": HEAD + UNITS + "model:[name and parameters]\nname,Henry\n",
    "model name no value": HEAD + UNITS + "model:[name and parameters]\nname\n",
    "model bad rmse": HEAD + UNITS + MODEL.replace("rmse,0.5", "rmse,abc"),
    "model rmse nan": HEAD + UNITS + MODEL.replace("rmse,0.5", "rmse,nan"),
    "model bad range": HEAD + UNITS + MODEL.replace("(1.0 4.0)\nloading", "(a b)\nloading"),
    "model list range": HEAD + UNITS + MODEL.replace("(1.0 4.0)\nloading", "[0.5 9]\nloading"),
    "model nan range": HEAD + UNITS + MODEL.replace("(1.0 4.0)\nloading", "(nan nan)\nloading"),
    "model bad param": HEAD + UNITS + MODEL.replace("K,2.0", "K,two"),
    "model param no value": HEAD + UNITS + MODEL.replace("K,2.0", "K"),
    "model param 3 values": HEAD + UNITS + MODEL.replace("K,2.0", "K,2.0,3.0"),
    "model param spaces": HEAD + UNITS + MODEL.replace("K,2.0", "K, 2.0  "),
    "model shuffled lines": HEAD + UNITS + "model:x\nrmse,0.5\nname,Henry\npressure range,(1.0 4.0)\nloading range,(1.0 4.0)\nK,2.0\n",
    "model no trailing newline": HEAD + UNITS + MODEL.rstrip("\n"),
    "model branch des": HEAD + UNITS + "branch,des\n" + MODEL,
    "data ok": HEAD + UNITS + DATA,
    "data no branch col": HEAD + UNITS + "data:\npressure,loading\n1.0,1.0\n2.0,2.0\n1.5,1.8\n",
    "data other names": HEAD + UNITS + "data:\nP,L,branch,extra\n1.0,1.0,ads,a\n2.0,2.0,des,b\n",
    "data unknown branch label": HEAD + UNITS + "data:\npressure,loading,branch\n1.0,1.0,ads\n2.0,2.0,xyz\n",
    "data header only": HEAD + UNITS + "data:\npressure,loading,branch\n",
    "data nothing": HEAD + UNITS + "data:\n",
    "data one column": HEAD + UNITS + "data:\npressure\n1.0\n",
    "data short header word": HEAD + UNITS + "data\npressure,loading\n1,2\n",
    "windows newlines": (HEAD + UNITS + DATA).replace("\n", "\r\n"),
    "windows newlines model": (HEAD + UNITS + MODEL).replace("\n", "\r\n"),
}
for label, text in TEXTS.items():
    c.run(f"raw | {label}", isotherm_from_csv, text)

# separators
semi = (HEAD + UNITS + MODEL).replace(",", ";")
c.run("raw | semicolon model", isotherm_from_csv, semi, separator=";")
c.run("raw | semicolon model read with comma", isotherm_from_csv, semi)
c.run("raw | multi-char separator", isotherm_from_csv, (HEAD + UNITS + MODEL).replace(",", "::"), separator="::")
c.run("raw | empty separator", isotherm_from_csv, HEAD + UNITS, separator="")
c.run("raw | None separator", isotherm_from_csv, "material m\nadsorbate N2\ntemperature 77\n", separator=None)
c.run("raw | None separator model", isotherm_from_csv, (HEAD + UNITS).replace(",", " ") + "model\nname Henry\nrmse 1\npressure_range (1,2)\nloading_range (1,2)\nK 1\n", separator=None)

# odd targets
c.run("target | missing file name", isotherm_from_csv, c.tmp("does_not_exist.csv"))
c.run("target | directory", isotherm_from_csv, c.TMP)
c.run("target | None", isotherm_from_csv, None)
c.run("target | int", isotherm_from_csv, 12345)
c.run("target | bytes", isotherm_from_csv, b"material,m\n")
c.run("target | very long text", isotherm_from_csv, HEAD + UNITS + "".join(f"k{i},{i}\n" for i in range(400)))
c.run("target | nul char", isotherm_from_csv, HEAD + "k,\x00\n")
import pathlib
p = pathlib.Path(c.tmp("pl.csv"))
p.write_text(HEAD + UNITS + MODEL, encoding="utf-8")
c.run("target | pathlib", isotherm_from_csv, p)
p.write_bytes((HEAD + UNITS + DATA).encode("utf-8").replace(b"\n", b"\r\n"))
c.run("target | crlf file", isotherm_from_csv, str(p))
p.write_bytes(b"\xff\xfe\x00bad")
c.run("target | undecodable file", isotherm_from_csv, str(p))
# overrides
c.run("override | units", isotherm_from_csv, HEAD + UNITS + DATA, pressure_unit="Pa", extra=[1, 2])
c.run("override | branch on data w/o branch", isotherm_from_csv,
      HEAD + UNITS + "data:\npressure,loading\n1.0,1.0\n2.0,2.0\n1.5,1.8\n", branch="des")

c.cleanup()
