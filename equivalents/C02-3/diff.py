"""Differential script for change 3: pygaps.units.converter_mode.c_loading (+ convert_loading / convert_material on top)."""
import itertools

import numpy
import pandas

import pygaps
from pygaps.units.converter_mode import c_loading

from common import call
from common import case
from common import dump
from common import fmt
from common import fmt_exc
from common import make
from common import revalidate
from common import warm

n = 0


class Recorder:
    """Stand-in adsorbate: records every property request (name, args, kwargs) and answers with fixed numbers."""

    VALUES = {
        'gas_density': 0.0046,
        'liquid_density': 0.806,
        'molar_mass': 28.0134,
        'gas_molar_density': 0.000164,
        'liquid_molar_density': 0.02877,
    }

    def __init__(self, fail=None):
        self.log = []
        self.fail = fail

    def __getattr__(self, name):
        if name.startswith('__'):
            raise AttributeError(name)

        def prop(*args, **kwargs):
            self.log.append((name, args, tuple(sorted(kwargs.items()))))
            if name == self.fail:
                raise pygaps.utilities.exceptions.CalculationError(f"no {name}")
            return self.VALUES[name]

        return prop


def run(value, **kw):
    """Call c_loading and print result (or error) and the adsorbate requests it made."""
    ads = kw.get('adsorbate')
    try:
        res = c_loading(value, **kw)
        print(f"  <- {fmt(res)}")
    except Exception as err:  # noqa
        print(f"  <- raised {fmt_exc(err)}")
    if isinstance(ads, Recorder):
        print(f"  requests: {ads.log!r}")


BASES = {
    'mass': ['g', 'mg', 'kg', 'amu'],
    'molar': ['mmol', 'mol', 'cm3(STP)', 'L(STP)'],
    'volume_gas': ['cm3', 'L', 'm3'],
    'volume_liquid': ['mL', 'dm3'],
    'percent': [None, 'g'],
    'fraction': [None, ''],
}
MATERIALS = [('mass', 'g'), ('mass', 'kg'), ('volume', 'cm3'), ('volume', 'm3'), ('molar', 'mol'), ('molar', 'mmol'),
             (None, None)]

# 1. every basis pair x a rotating choice of units / material basis, recorder adsorbate, scalar value
k = 0
for bf, bt in itertools.product(BASES, BASES):
    for uf, ut in itertools.product(BASES[bf], BASES[bt]):
        k += 1
        mb, mu = MATERIALS[k % len(MATERIALS)]
        n += 1
        case(n, f"scalar {bf}/{uf} -> {bt}/{ut}  material {mb}/{mu}")
        run(
            1.2345678901234567,
            basis_from=bf,
            basis_to=bt,
            unit_from=uf,
            unit_to=ut,
            adsorbate=Recorder(),
            temp=77.35,
            basis_material=mb,
            unit_material=mu
        )

# 2. every basis pair with every material basis when a fractional basis is involved
for bf, bt in itertools.product(BASES, BASES):
    if not ({bf, bt} & {'percent', 'fraction'}):
        continue
    for mb, mu in MATERIALS:
        n += 1
        case(n, f"fractional {bf} -> {bt}  material {mb}/{mu}")
        run(
            numpy.array([0.0, 0.5, 1.0, 12.5, 100.0]),
            basis_from=bf,
            basis_to=bt,
            unit_from=BASES[bf][0],
            unit_to=BASES[bt][0],
            adsorbate=Recorder(),
            temp=77.35,
            basis_material=mb,
            unit_material=mu
        )

# 3. failing property requests: which one is asked first, and what is propagated
for bf, bt in itertools.permutations(['mass', 'molar', 'volume_gas', 'volume_liquid'], 2):
    for fail in Recorder.VALUES:
        n += 1
        case(n, f"{bf} -> {bt} with failing {fail}")
        run(
            2.0,
            basis_from=bf,
            basis_to=bt,
            unit_from=BASES[bf][0],
            unit_to=BASES[bt][0],
            adsorbate=Recorder(fail=fail),
            temp=300.0
        )

# 4. real adsorbates, several value types, temperatures (sub/supercritical), missing adsorbate / temperature
N2 = pygaps.Adsorbate.find('N2')
CO2 = pygaps.Adsorbate.find('CO2')
BARE = pygaps.Adsorbate('eqNotAGas')
VALUES = [
    3.3,
    0,
    -1.5,
    float('nan'),
    numpy.array([0.1, 1.0, 10.0]),
    pandas.Series([0.7, 1.3, 2.2], name='loading', index=[5, 6, 7]),
    [1.0, 2.0],
]
for (bf, bt), (ads, temp), value in itertools.product(
    [('molar', 'mass'), ('mass', 'volume_gas'), ('volume_gas', 'volume_liquid'), ('volume_liquid', 'molar'),
     ('molar', 'percent'), ('fraction', 'volume_gas'), ('molar', 'molar'), ('percent', 'percent')],
    [(N2, 77.35), (N2, 300.0), (CO2, 273.15), (BARE, 77.35), (None, 77.35), (N2, None), (N2, 0)],
    VALUES,
):
    n += 1
    case(n, f"real {bf}->{bt} ads={ads!s} temp={temp!r} value={type(value).__name__}")
    run(
        value,
        basis_from=bf,
        basis_to=bt,
        unit_from=BASES[bf][0],
        unit_to=BASES[bt][1],
        adsorbate=ads,
        temp=temp,
        basis_material='mass',
        unit_material='g'
    )

# 5. argument errors
for kw in [
    dict(basis_from=None, basis_to='mass', unit_from='mmol', unit_to='g'),
    dict(basis_from='molar', basis_to=None, unit_from='mmol', unit_to='g'),
    dict(basis_from='nobasis', basis_to='mass', unit_from='mmol', unit_to='g'),
    dict(basis_from='molar', basis_to='volume', unit_from='mmol', unit_to='cm3'),
    dict(basis_from='molar', basis_to='mass', unit_from='mmol', unit_to=None),
    dict(basis_from='molar', basis_to='mass', unit_from=None, unit_to='g'),
    dict(basis_from='molar', basis_to='mass', unit_from='g', unit_to='g'),
    dict(basis_from='molar', basis_to='mass', unit_from='mmol', unit_to='mmol'),
    dict(basis_from='molar', basis_to='molar', unit_from='mmol', unit_to='nounit'),
    dict(basis_from='molar', basis_to='molar', unit_from='nounit', unit_to='mol'),
    dict(basis_from='molar', basis_to='molar', unit_from='mmol', unit_to=None),
    dict(basis_from='molar', basis_to='molar', unit_from='mmol', unit_to='mmol'),
    dict(basis_from='percent', basis_to='percent', unit_from='a', unit_to='b'),
    dict(basis_from='molar', basis_to='percent', unit_from='mmol', unit_to=None),
    dict(basis_from='molar', basis_to='percent', unit_from='mmol', unit_to=None, basis_material='nobasis',
         unit_material='g'),
    dict(basis_from='molar', basis_to='percent', unit_from='mmol', unit_to=None, basis_material='mass',
         unit_material='cm3'),
    dict(basis_from='molar', basis_to='percent', unit_from='mmol', unit_to=None, basis_material='mass'),
    dict(basis_from='fraction', basis_to='mass', unit_from=None, unit_to=None, basis_material='mass',
         unit_material='g'),
    dict(basis_from='fraction', basis_to='mass', unit_from=None, unit_to='g', basis_material='volume',
         unit_material='g'),
    dict(basis_from='percent', basis_to='molar', unit_from='nounit', unit_to='mol', basis_material='molar',
         unit_material='mol'),
]:
    n += 1
    case(n, f"argument check {kw}")
    run(5.0, adsorbate=Recorder(), temp=77.35, **kw)

# 6. through the isotherm: convert_loading / convert_material / convert on real data
L_TARGETS = [
    dict(basis_to='mass', unit_to='g'),
    dict(basis_to='volume_gas', unit_to='cm3'),
    dict(basis_to='volume_liquid', unit_to='cm3'),
    dict(basis_to='molar', unit_to='cm3(STP)'),
    dict(basis_to='percent'),
    dict(basis_to='fraction'),
    dict(unit_to='mol'),
    dict(basis_to='mass'),
    dict(basis_to='nobasis'),
    dict(),
]
for start, target in itertools.product(
    [dict(), dict(lb='mass', lu='mg', mb='volume', mu='cm3'), dict(lb='volume_gas', lu='L', mb='molar', mu='mol'),
     dict(lb='percent', lu=None), dict(lb='fraction', lu=None, mb='volume', mu='cm3'), dict(temp=300)],
    L_TARGETS,
):
    n += 1
    case(n, f"isotherm start={start} convert_loading({target})")
    iso = make(**start)
    warm(iso)
    call(iso, 'convert_loading', verbose=True, **target)
    dump(iso)
    revalidate(iso)

for start, target in itertools.product(
    [dict(lb='percent', lu=None), dict(lb='fraction', lu=None, mb='volume', mu='cm3'),
     dict(lb='fraction', lu=None, mb='molar', mu='mmol'), dict(lb='fraction', lu=None, temp=300)],
    [dict(basis_to='volume', unit_to='cm3'), dict(basis_to='molar', unit_to='mol'), dict(basis_to='mass', unit_to='kg')],
):
    n += 1
    case(n, f"isotherm start={start} convert_material({target})")
    iso = make(**start)
    call(iso, 'convert_material', verbose=True, **target)
    dump(iso)
    revalidate(iso)

# 7. a history with the way back
n += 1
case(n, "history")
iso = make()
for i, step in enumerate([
    dict(basis_to='mass', unit_to='mg'), dict(basis_to='percent'), dict(basis_to='fraction'),
    dict(basis_to='volume_liquid', unit_to='mL'), dict(basis_to='volume_gas', unit_to='L'), dict(unit_to='cm3'),
    dict(basis_to='molar', unit_to='mmol')
]):
    call(iso, 'convert_loading', **step)
    dump(iso, tag=f"step{i}")
# non-permanent conversions use the same function
for kw in [dict(loading_unit='mol'), dict(loading_basis='mass', loading_unit='g'), dict(loading_basis='percent'),
           dict(loading_basis='volume_liquid', loading_unit='cm3', material_basis='volume', material_unit='cm3')]:
    call(iso, 'loading', **kw)
    call(iso, 'loading_at', 0.2, **kw)

print(f"total cases: {n}")
