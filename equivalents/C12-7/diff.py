"""Differential script for change 3: PointIsotherm.from_modelisotherm (model -> points)."""
import logging
import warnings

import numpy
import pandas

warnings.filterwarnings("ignore")
logging.disable(logging.CRITICAL)

import pygaps  # noqa: E402
from pygaps.core.modelisotherm import ModelIsotherm  # noqa: E402
from pygaps.core.pointisotherm import PointIsotherm  # noqa: E402
from pygaps.modelling import get_isotherm_model  # noqa: E402


def fmt(x):
    if isinstance(x, dict):
        return "{" + ", ".join(f"{k!r}: {fmt(x[k])}" for k in x) + "}"
    if isinstance(x, (list, tuple)):
        return "[" + ", ".join(fmt(v) for v in x) + "]"
    if isinstance(x, numpy.ndarray):
        return "arr" + str(x.shape) + str(x.dtype) + "[" + ", ".join(fmt(v) for v in x.ravel()) + "]"
    if isinstance(x, (bool, numpy.bool_)):
        return repr(bool(x))
    if isinstance(x, (float, numpy.floating)):
        return "%.12g" % float(x)
    if isinstance(x, (int, numpy.integer)):
        return "i%d" % int(x)
    return repr(x)


def point_state(iso):
    d = iso.to_dict()
    return " ".join([
        type(iso).__name__,
        "cols=" + repr(list(iso.data_raw.columns)),
        "dtypes=" + repr([str(t) for t in iso.data_raw.dtypes]),
        "index=" + repr(list(iso.data_raw.index)),
        "p=" + fmt(iso.data_raw[iso.pressure_key].values),
        "l=" + fmt(iso.data_raw[iso.loading_key].values),
        "branch=" + fmt(iso.data_raw["branch"].values),
        "keys=" + repr((iso.pressure_key, iso.loading_key)),
        "meta=" + fmt({k: (str(v) if k in ("material", "adsorbate") else v) for k, v in sorted(d.items())}),
    ])


def report(tag, fn):
    try:
        res = fn()
        print(tag, "->", res)
    except Exception as err:  # noqa: BLE001
        print(tag, "-> EXC", type(err).__name__, str(err).replace("\n", "\\n"))


base_kw = dict(material="m", adsorbate="N2", temperature=77.355)


def made(model, params, prange, lrange, branch="ads", **kw):
    m = get_isotherm_model(model, parameters=params, pressure_range=prange, loading_range=lrange)
    return ModelIsotherm(model=m, branch=branch, **{**base_kw, **kw})


models = {
    "langmuir": made("Langmuir", {"K": 0.8, "n_m": 5.0}, (0.05, 0.9), (0.19, 2.1)),
    "langmuir-des": made("Langmuir", {"K": 0.8, "n_m": 5.0}, (0.05, 0.9), (0.19, 2.1), branch="des"),
    "henry-units": made(
        "Henry", {"K": 2.5}, (1.0, 90.0), (2.5, 225.0), pressure_unit="kPa", loading_unit="mol",
        material_unit="kg", note="a note", iso_type="test"
    ),
    "toth-rel": made(
        "Toth", {"n_m": 7.0, "K": 20.0, "t": 0.7}, (0.001, 0.9), (0.1, 6.0), pressure_mode="relative"
    ),
    "dr": made("DR", {"n_m": 8.0, "e": 6000.0}, (0.001, 0.9), (0.1, 8.0), pressure_mode="relative"),
    "bet": made("BET", {"n_m": 3.0, "C": 40.0, "N": 0.9}, (0.01, 0.9), (0.5, 12.0), pressure_mode="relative"),
    "virial": made("Virial", {"K": 3.0, "A": 0.1, "B": -0.01, "C": 0.001}, (0.05, 2.0), (0.15, 4.0)),
    "fhvst": made("FHVST", {"n_m": 6.0, "K": 4.0, "a1v": 0.1}, (0.05, 2.0), (0.2, 3.5)),
    "fhvst-des": made("FHVST", {"n_m": 6.0, "K": 4.0, "a1v": 0.1}, (0.05, 2.0), (0.2, 3.5), branch="des"),
}

# a fitted one as well
p = numpy.linspace(0.05, 0.9, 15)
models["fitted-jensen"] = ModelIsotherm(
    pressure=p, loading=5 * 0.8 * p / (1 + 0.8 * p), model="JensenSeaton", loading_unit="cm3(STP)", **base_kw
)

# template point isotherms (two branches, extra column)
pp = numpy.r_[numpy.linspace(0.1, 0.8, 6), numpy.linspace(0.7, 0.2, 4)]
ll = numpy.r_[numpy.linspace(0.4, 1.9, 6), numpy.linspace(1.95, 0.9, 4)]
template = PointIsotherm(
    isotherm_data=pandas.DataFrame({"pressure": pp, "loading": ll, "extra": numpy.arange(10.0)}),
    pressure_key="pressure", loading_key="loading", **base_kw
)
template_ads = PointIsotherm(pressure=[0.1, 0.2, 0.5], loading=[0.3, 0.6, 1.2], **base_kw)
template_kpa = PointIsotherm(pressure=[10, 20, 50], loading=[0.3, 0.6, 1.2], pressure_unit="kPa", **base_kw)

point_args = {
    "default": {},
    "p-list": {"pressure_points": [0.1, 0.2, 0.35, 0.8]},
    "p-array": {"pressure_points": numpy.array([0.1, 0.2, 0.35, 0.8])},
    "p-tuple": {"pressure_points": (0.1, 0.5)},
    "p-int-list": {"pressure_points": [1, 2]},
    "p-unsorted": {"pressure_points": [0.8, 0.1, 0.4]},
    "p-outside-range": {"pressure_points": [1e-4, 5.0]},
    "p-single": {"pressure_points": [0.3]},
    "p-scalar": {"pressure_points": 0.3},
    "p-empty": {"pressure_points": []},
    "p-series": {"pressure_points": pandas.Series([0.1, 0.2, 0.3])},
    "p-iso": {"pressure_points": template},
    "p-iso-ads": {"pressure_points": template_ads},
    "p-iso-kpa": {"pressure_points": template_kpa},
    "p-model": {"pressure_points": models["langmuir"]},
    "l-list": {"loading_points": [0.3, 0.8, 1.5]},
    "l-array": {"loading_points": numpy.array([0.3, 0.8, 1.5])},
    "l-single": {"loading_points": [0.5]},
    "l-empty": {"loading_points": []},
    "l-iso": {"loading_points": template},
    "l-iso-ads": {"loading_points": template_ads},
    "l-too-high": {"loading_points": [100.0]},
    "both": {"pressure_points": [0.1], "loading_points": [0.3]},
    "both-iso": {"pressure_points": template, "loading_points": template},
    "p-none-l-none-explicit": {"pressure_points": None, "loading_points": None},
}

for mname, miso in models.items():
    for aname, kw in point_args.items():
        report(f"from_model[{mname}][{aname}]", lambda: point_state(PointIsotherm.from_modelisotherm(miso, **kw)))

# positional use and subclass dispatch
report("positional", lambda: point_state(PointIsotherm.from_modelisotherm(models["langmuir"], [0.1, 0.2])))
report("positional-2", lambda: point_state(PointIsotherm.from_modelisotherm(models["virial"], None, [0.2, 0.4])))


class MyPoint(PointIsotherm):
    pass


report("subclass", lambda: point_state(MyPoint.from_modelisotherm(models["langmuir"], [0.1, 0.2])))
report("not-a-model", lambda: point_state(PointIsotherm.from_modelisotherm(template)))
report("none", lambda: point_state(PointIsotherm.from_modelisotherm(None)))

# a model which calculates something else
odd = made("Langmuir", {"K": 0.8, "n_m": 5.0}, (0.05, 0.9), (0.19, 2.1))
odd.model.calculates = "nothing"
report("odd-calculates", lambda: point_state(PointIsotherm.from_modelisotherm(odd)))
report("odd-calculates-p", lambda: point_state(PointIsotherm.from_modelisotherm(odd, pressure_points=[0.1])))
report("odd-calculates-both", lambda: point_state(PointIsotherm.from_modelisotherm(odd, [0.1], [0.2])))

# round trip: points generated from the model are fitted again with the same model
for mname in ("langmuir", "henry-units", "toth-rel", "bet", "fitted-jensen"):
    def roundtrip(mname=mname):
        miso = models[mname]
        pts = PointIsotherm.from_modelisotherm(miso)
        again = ModelIsotherm.from_pointisotherm(pts, model=miso.model.name)
        grid = miso.pressure(7)
        return " ".join([
            "params=" + fmt(again.model.params), "rmse=" + fmt(again.model.rmse),
            "curve=" + fmt(again.loading_at(grid)), "orig=" + fmt(miso.loading_at(grid)),
            "model_from=" + repr(pts.to_dict().get("model_from")),
        ])
    report(f"roundtrip[{mname}]", roundtrip)
