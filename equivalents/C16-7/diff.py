import hashlib
import io
import logging
import sys
import warnings
from functools import partial

import numpy as np

import pygaps
import pygaps.characterisation.models_kelvin as km
import pygaps.characterisation.models_thickness as mt
import pygaps.characterisation.psd_meso as pm
import pygaps.parsing as pgp

assert pygaps.__file__.startswith("/tmp/eq2/C16/src/"), pygaps.__file__

OUT = []


def emit(*parts):
    OUT.append(" ".join(str(p) for p in parts))


# ---------------------------------------------------------------- canonical text
def fnum(x):
    """One number: 12 significant digits."""
    if isinstance(x, (bool, np.bool_)):
        return repr(bool(x))
    if isinstance(x, (int, np.integer)):
        return f"{type(x).__name__}:{int(x)}"
    if isinstance(x, (float, np.floating)):
        return format(float(x), ".12g")
    if isinstance(x, (complex, np.complexfloating)):
        return f"({format(x.real, '.12g')},{format(x.imag, '.12g')}j)"
    return f"{type(x).__name__}:{x!r}"


def canon(x):
    """Canonical text of a result (value, array, tuple, dict)."""
    if isinstance(x, dict):
        return "{" + ", ".join(f"{k!r}: {canon(v)}" for k, v in x.items()) + "}"
    if isinstance(x, tuple):
        return "tuple(" + ", ".join(canon(v) for v in x) + ")"
    if isinstance(x, list):
        return "list[" + ", ".join(canon(v) for v in x) + "]"
    if isinstance(x, np.ndarray):
        bits = hashlib.sha1(np.ascontiguousarray(x).tobytes()).hexdigest()[:12]
        flat = ", ".join(fnum(v) for v in x.ravel().tolist()) if x.dtype != object else repr(x.tolist())
        return f"ndarray<{x.dtype},{x.shape},bits={bits}>[{flat}]"
    if isinstance(x, np.generic):
        bits = hashlib.sha1(x.tobytes()).hexdigest()[:12]
        return f"{type(x).__name__}<bits={bits}>({fnum(x)})"
    if isinstance(x, float):
        return f"float<{x.hex()}>({fnum(x)})"
    if isinstance(x, (int, bool, str, type(None))):
        return f"{type(x).__name__}:{x!r}"
    if callable(x):
        return f"callable:{getattr(x, '__name__', type(x).__name__)}"
    return f"{type(x).__name__}:{x!r}"


class _LogGrab(logging.Handler):
    def __init__(self):
        super().__init__(level=logging.DEBUG)
        self.records = []

    def emit(self, record):
        self.records.append(f"{record.levelname}:{record.getMessage()}")


def run(label, func, *args, **kwargs):
    """Run one case; print result or exception, plus warnings and log records."""
    grab = _LogGrab()
    pygaps.logger.addHandler(grab)
    try:
        with warnings.catch_warnings(record=True) as caught:
            warnings.simplefilter("always")
            try:
                res = func(*args, **kwargs)
                text = "OK " + canon(res)
            except BaseException as err:  # noqa
                text = f"EXC {type(err).__module__}.{type(err).__name__} args={err.args!r} str={str(err)!r}" \
                       f" cause={type(err.__cause__).__name__} context={type(err.__context__).__name__}"
    finally:
        pygaps.logger.removeHandler(grab)
    wtxt = sorted({f"{w.category.__name__}:{w.message}" for w in caught})
    ltxt = [r for r in grab.records if "Thermodynamic backend failed" not in r]
    emit(f"[{label}] {text}")
    if wtxt:
        emit(f"    warnings={wtxt}")
    if ltxt:
        emit(f"    log={ltxt}")


# ---------------------------------------------------------------- inputs
def grids():
    """(name, relative pressure, liquid volume adsorbed) on increasing branches + edge cases."""
    rng = np.random.default_rng(20160)
    out = []
    p = np.linspace(0.05, 0.95, 19)
    out.append(("lin19", p, np.cumsum(np.linspace(0.01, 0.1, 19))))
    for n in (3, 4, 7, 12, 40, 120):
        p = np.sort(rng.uniform(0.001, 0.999, n))
        v = np.cumsum(rng.uniform(0.0, 0.05, n))
        out.append((f"rand{n}", p, v))
    # single condensation step
    p = np.linspace(0.1, 0.9, 17)
    v = np.where(p > 0.52, 0.61, 0.11)
    out.append(("step", p, v))
    # two steps + plateau
    v = np.where(p > 0.3, 0.3, 0.05) + np.where(p > 0.7, 0.4, 0.0)
    out.append(("twostep", p, v))
    # constant loading (all increments zero)
    out.append(("flat", p, np.full_like(p, 0.25)))
    # BET-like smooth curve, dense
    p = np.linspace(0.01, 0.995, 60)
    v = 0.1 * p / ((1 - p) * (1 + 49 * p)) * 50 / 10
    out.append(("bet60", p, v))
    # pressures very near 0 and 1
    p = np.array([1e-9, 1e-6, 1e-3, 0.1, 0.5, 0.9, 0.999, 1 - 1e-9])
    out.append(("extreme", p, np.cumsum(np.full(8, 0.02))))
    # p == 1 included (log -> 0, division by zero warning)
    out.append(("withone", np.array([0.2, 0.5, 0.8, 1.0]), np.array([0.1, 0.2, 0.4, 0.5])))
    # noisy, non monotonic loading
    p = np.linspace(0.1, 0.9, 9)
    out.append(("noisy", p, np.array([0.1, 0.12, 0.11, 0.2, 0.19, 0.4, 0.45, 0.44, 0.5])))
    # duplicate pressures
    out.append(("dupe", np.array([0.2, 0.4, 0.4, 0.6, 0.8]), np.array([0.1, 0.2, 0.25, 0.3, 0.5])))
    # tiny
    out.append(("len2", np.array([0.3, 0.6]), np.array([0.1, 0.4])))
    out.append(("len1", np.array([0.3]), np.array([0.1])))
    # integer volumes
    out.append(("intvol", np.array([0.2, 0.4, 0.6, 0.8]), np.array([1, 2, 4, 7])))
    # python lists
    out.append(("lists", [0.2, 0.4, 0.6, 0.8], [0.1, 0.2, 0.4, 0.7]))
    # float32
    out.append(("f32", np.array([0.2, 0.4, 0.6, 0.8], dtype="float32"), np.array([0.1, 0.2, 0.4, 0.7], dtype="float32")))
    return out


def bad_grids():
    return [
        ("empty", np.array([]), np.array([])),
        ("emptylists", [], []),
        ("mismatch", np.array([0.1, 0.2, 0.3]), np.array([0.1, 0.2])),
        ("emptyp", np.array([]), np.array([0.1])),
        ("nonep", None, np.array([0.1])),
        ("nonev", np.array([0.1]), None),
    ]


PROPS = {
    "N2@77": dict(temperature=77.355, liquid_density=0.806, adsorbate_molar_mass=28.0134, adsorbate_surface_tension=8.876),
    "Ar@87": dict(temperature=87.3, liquid_density=1.3954, adsorbate_molar_mass=39.948, adsorbate_surface_tension=12.5),
    "H2O@298": dict(temperature=298.15, liquid_density=0.997, adsorbate_molar_mass=18.01528, adsorbate_surface_tension=71.97),
    "odd": dict(temperature=300, liquid_density=2, adsorbate_molar_mass=100, adsorbate_surface_tension=1),
}
MENISCI = ["hemicylindrical", "cylindrical", "hemispherical"]


def kelvin_models():
    out = []
    for pname, props in PROPS.items():
        for men in MENISCI:
            out.append((f"Kelvin/{men}/{pname}", km.get_kelvin_model("Kelvin", meniscus_geometry=men, **props)))
    out.append(("KJS/cylindrical/N2@77", km.get_kelvin_model("Kelvin-KJS", meniscus_geometry="cylindrical", **PROPS["N2@77"])))
    out.append(("custom", lambda p: 1.0 / (1.0 - np.asarray(p, dtype=float))))
    return out


def _power_thickness(p):
    return 0.4 * np.asarray(p, dtype=float)**0.5


def _const_thickness(p):
    return np.full(np.shape(p), 0.35)


def thickness_models():
    names = ["Halsey", "Harkins/Jura", "zero thickness", "SiO2 Jaroniec/Kruk/Olivier", "carbon black Kruk/Jaroniec/Gadkaree"]
    out = [(n, mt.get_thickness_model(n)) for n in names]
    out.append(("power", _power_thickness))
    out.append(("const", _const_thickness))
    return out


def make_adsorbate(name, molar_mass, liquid_density, surface_tension):
    return pygaps.Adsorbate(
        name,
        molar_mass=molar_mass,
        liquid_density=liquid_density,
        liquid_molar_density=liquid_density / molar_mass,
        surface_tension=surface_tension,
        saturation_pressure=1.0,
        store=False,
    )


def make_isotherm(p_ads, l_ads, p_des=None, l_des=None, adsorbate=None, temperature=77.355):
    """PointIsotherm in relative pressure, loading in cm3 liquid / g."""
    pressure = list(p_ads)
    loading = list(l_ads)
    branch = [False] * len(pressure)
    if p_des is not None:
        pressure += list(p_des)
        loading += list(l_des)
        branch += [True] * len(p_des)
    logging.disable(logging.CRITICAL)
    try:
        iso = pygaps.PointIsotherm(
            pressure=pressure,
            loading=loading,
            branch=branch,
            material="synthetic",
            adsorbate="N2",
            temperature=temperature,
            temperature_unit="K",
            pressure_mode="relative",
            pressure_unit=None,
            loading_basis="volume_liquid",
            loading_unit="cm3",
            material_basis="mass",
            material_unit="g",
        )
    finally:
        logging.disable(logging.NOTSET)
    if adsorbate is not None:
        iso._adsorbate = adsorbate
    return iso


def finish():
    sys.stdout.write("\n".join(OUT) + "\n")


# ================================================================ change 3: psd_mesoporous (limits, dispatch, cumulative)
def custom_kelvin(pressure, meniscus_geometry, temperature, liquid_density, adsorbate_molar_mass, adsorbate_surface_tension):
    factor = {"cylindrical": 2.0, "hemispherical": 1.0, "hemicylindrical": 0.5}[meniscus_geometry]
    return 0.9 / (factor * -np.log(pressure)) + 0.1


LIMITS = [
    None, (None, None), (0, 0), (0.0, None), (None, 0.0), (0.1, None), (None, 0.9), (0.3, 0.9), (0.1, 0.99), [0.2, 0.8],
    (0.2, 0.8, 0.5), (np.float64(0.25), np.float32(0.75)), (0.4, 0.4), (0.5, 0.52), (0.99, 0.1), (2.0, 3.0), (-1.0, 0.5),
    (0.2, 5), (1e-12, 1 - 1e-12), (0.2, ), (), 0.5, "ab", ("0.1", "0.9"), (None, ), (True, False), (np.nan, 0.9),
    (0.2, np.nan), (np.array([0.1, 0.2]), 0.9), {0: 0.2, 1: 0.8},
]


def main():
    isos = {}
    for name in ("MCM-41", "SiO2", "NaY", "Takeda 5A", "UiO-66(Zr)"):
        isos[name] = pgp.isotherm_from_json(f"docs/examples/data/characterisation/{name} N2 77.355.json")

    ads = make_adsorbate("fluidX", 44.0, 1.1, 16.5)
    p = np.linspace(0.02, 0.98, 33)
    v = 0.05 + 0.6 / (1 + np.exp(-(p - 0.55) * 40)) + 0.05 * p
    isos["synthetic"] = make_isotherm(p, v, p[::-1], (v + 0.02 * np.sin(np.pi * p))[::-1], adsorbate=ads, temperature=195.0)
    # limits falling exactly on measured points
    pg = np.round(np.linspace(0.1, 0.9, 9), 1)
    isos["ongrid"] = make_isotherm(pg, np.cumsum(np.full(9, 0.05)), adsorbate=make_adsorbate("fluidY", 30.0, 0.9, 12.0), temperature=100)
    # adsorption only, few points
    isos["short"] = make_isotherm([0.2, 0.5, 0.8], [0.1, 0.3, 0.4])
    isos["two"] = make_isotherm([0.2, 0.5], [0.1, 0.3])
    # a large step: negative cumulative volumes expected for thick layers
    isos["sparse"] = make_isotherm([0.05, 0.3, 0.6, 0.9, 0.97], [0.001, 0.002, 0.003, 0.004, 0.0045])

    # 1. all models / geometries / branches, default arguments elsewhere
    for iname, iso in isos.items():
        for model in ("pygaps-DH", "BJH", "DH"):
            for geom in ("slit", "cylinder", "halfopen-cylinder", "sphere"):
                for branch in ("ads", "des"):
                    run(f"api|{iname}|{model}|{geom}|{branch}", pm.psd_mesoporous, iso, psd_model=model, pore_geometry=geom,
                        branch=branch)

    # 2. pressure limits of every kind
    for iname in ("MCM-41", "synthetic", "ongrid", "short"):
        for lim in LIMITS:
            for model, branch in (("pygaps-DH", "ads"), ("BJH", "des"), ("DH", "ads")):
                run(f"lim|{iname}|{model}|{branch}|{lim!r}", pm.psd_mesoporous, isos[iname], psd_model=model, branch=branch,
                    p_limits=lim)
    for lo in (0.1, 0.2, 0.3, 0.4, 0.5, 0.6, 0.7):
        for hi in (0.3, 0.5, 0.7, 0.9, 1.0):
            run(f"lim|ongrid|pygaps-DH|ads|({lo},{hi})", pm.psd_mesoporous, isos["ongrid"], branch="ads", p_limits=(lo, hi),
                thickness_model="zero thickness")

    # 3. thickness / Kelvin / meniscus options
    for iname in ("MCM-41", "synthetic"):
        for tname, tm in thickness_models():
            for model in ("pygaps-DH", "BJH", "DH"):
                run(f"thick|{iname}|{model}|{tname}", pm.psd_mesoporous, isos[iname], psd_model=model, thickness_model=tm,
                    p_limits=(None, None))
                run(f"thick-name|{iname}|{model}|{tname}", pm.psd_mesoporous, isos[iname], psd_model=model, thickness_model=tname,
                    branch="ads")
        for men in (None, "", "hemicylindrical", "cylindrical", "hemispherical", "flat", 1):
            for model in ("pygaps-DH", "BJH", "DH"):
                for branch in ("ads", "des"):
                    run(f"men|{iname}|{model}|{branch}|{men!r}", pm.psd_mesoporous, isos[iname], psd_model=model, branch=branch,
                        meniscus_geometry=men)
        for kmodel in ("Kelvin", "Kelvin-KJS", "Kelvin-XYZ", custom_kelvin, None, 3):
            for branch in ("ads", "des"):
                for geom in ("cylinder", "slit"):
                    run(f"kelvin|{iname}|{branch}|{geom}|{canon(kmodel)}", pm.psd_mesoporous, isos[iname], branch=branch,
                        pore_geometry=geom, kelvin_model=kmodel)

    # 4. argument checks
    iso = isos["MCM-41"]
    for model in (None, "test", "bjh", "", 0, ["BJH"], ("BJH", ), np.str_("DH"), b"DH"):
        run(f"arg|psd_model={model!r}", pm.psd_mesoporous, iso, psd_model=model)
    for geom in (None, "test", "Cylinder", 2, ["slit"]):
        run(f"arg|pore_geometry={geom!r}", pm.psd_mesoporous, iso, pore_geometry=geom)
        run(f"arg|pore_geometry={geom!r}|psd_model=None", pm.psd_mesoporous, iso, pore_geometry=geom, psd_model=None)
    for branch in (None, "test", "all", "ADS", 0):
        run(f"arg|branch={branch!r}", pm.psd_mesoporous, iso, branch=branch)
    run("arg|thickness=bad", pm.psd_mesoporous, iso, thickness_model="bad")
    run("arg|thickness=bad+limits-bad", pm.psd_mesoporous, iso, thickness_model="bad", p_limits=(0.5, 0.51))
    run("arg|no-des-branch", pm.psd_mesoporous, isos["short"], branch="des")
    run("arg|not-an-isotherm", pm.psd_mesoporous, "iso")
    run("arg|positional", pm.psd_mesoporous, iso, "DH", "cylinder", None, "ads", "Halsey", "Kelvin", (0.2, 0.9), False)

    # 5. the returned structure: key order, types
    res = pm.psd_mesoporous(iso, psd_model="DH", branch="ads", p_limits=(None, 0.9))
    emit("[struct] " + repr([(k, type(v).__name__) for k, v in res.items()]) + " " +
         repr([type(x).__name__ for x in res["limits"]]))
    res = pm.psd_mesoporous(iso, psd_model="DH", branch="ads", p_limits=(0.2, None))
    emit("[struct] " + repr([(k, type(v).__name__) for k, v in res.items()]) + " " +
         repr([type(x).__name__ for x in res["limits"]]))
    # the isotherm is not modified
    emit("[iso-untouched] " + canon(iso.pressure(branch="des")) + canon(iso.loading(branch="des")))
    finish()


main()
