"""Differential script for change 3: isosteric_enthalpy_raw fits + common loading range helper."""
import numpy

from eqcommon import load_isosteric, run

import pygaps
import pygaps.characterisation.isosteric_enth as ie

CONVERSIONS = [
    {},
    {"pressure_unit": "Pa"},
    {"pressure_unit": "torr"},
    {"pressure_mode": "relative"},
    {"pressure_mode": "relative%"},
    {"loading_unit": "mol"},
    {"loading_basis": "mass", "loading_unit": "g"},
    {"loading_basis": "volume_gas", "loading_unit": "cm3"},
    {"loading_basis": "volume_liquid", "loading_unit": "cm3"},
    {"material_unit": "kg"},
    {"temperature_unit": "°C"},
    {"pressure_unit": "kPa", "loading_basis": "mass", "loading_unit": "mg", "material_unit": "mg"},
]


def converted(convs):
    """Fresh isotherms, the i-th converted with convs[i] (a single dict applies to all)."""
    isos = load_isosteric()
    if isinstance(convs, dict):
        convs = [convs] * len(isos)
    for iso, conv in zip(isos, convs):
        conv = dict(conv)
        t_unit = conv.pop("temperature_unit", None)
        if t_unit:
            iso.convert_temperature(unit_to=t_unit)
        if conv:
            iso.convert(**conv)
    return isos


def scaled(k):
    isos = load_isosteric()
    out = []
    for iso in isos:
        out.append(
            pygaps.PointIsotherm(
                pressure=iso.pressure(),
                loading=iso.loading() * k,
                **iso.to_dict(),
            )
        )
    return out


def main():
    # 1. all isotherms in the same representation
    for conv in CONVERSIONS:
        run(f"isosteric all {conv}", lambda c=conv: ie.isosteric_enthalpy(converted(c)))

    # 2. mixed representations (the first one decides)
    mixed = [
        [{"pressure_unit": "Pa"}, {}, {"pressure_unit": "torr"}],
        [{}, {"pressure_mode": "relative"}, {"pressure_unit": "kPa"}],
        [{"pressure_mode": "relative"}, {}, {}],
        [{"loading_unit": "mol"}, {}, {"loading_unit": "kmol"}],
        [{}, {"material_unit": "kg"}, {"material_unit": "mg"}],
        [{"temperature_unit": "°C"}, {}, {}],
        [{}, {"loading_basis": "mass", "loading_unit": "g"}, {}],  # basis error
        [{}, {"material_basis": "volume", "material_unit": "cm3"}, {}],  # basis error / density
    ]
    for convs in mixed:
        run(f"isosteric mixed {convs}", lambda c=convs: ie.isosteric_enthalpy(converted(c)))

    # 3. options
    for kw in [
        {"loading_points": [1.0, 2.0, 3.0]},
        {"loading_points": numpy.linspace(0.5, 4, 7)},
        {"loading_points": [2.0]},
        {"loading_points": []},
        {"loading_points": [100.0]},
        {"loading_points": [-1.0, 0.0]},
        {"branch": "ads"},
        {"branch": "des"},
        {"branch": None},
        {"branch": "xyz"},
    ]:
        run(f"isosteric options {kw}", ie.isosteric_enthalpy, converted({}), **kw)

    # 4. subsets / order / errors
    isos = converted({})
    run("isosteric two", ie.isosteric_enthalpy, isos[:2])
    run("isosteric two far", ie.isosteric_enthalpy, [isos[0], isos[2]])
    run("isosteric reversed", ie.isosteric_enthalpy, isos[::-1])
    run("isosteric duplicated", ie.isosteric_enthalpy, [isos[0], isos[0], isos[1]])
    run("isosteric one", ie.isosteric_enthalpy, isos[:1])
    run("isosteric none", ie.isosteric_enthalpy, [])
    other = converted({})
    other[1].material = "other"
    run("isosteric other material", ie.isosteric_enthalpy, other)

    # 5. scaled loadings and model isotherms
    for k in (1e-3, 0.5, 3.0, 1e3):
        run(f"isosteric scaled k={k}", ie.isosteric_enthalpy, scaled(k))
    for model in ("Langmuir", "Toth", "Henry"):
        try:
            models = [pygaps.ModelIsotherm.from_pointisotherm(i, model=model) for i in converted({})]
        except Exception as err:  # noqa
            print(f"## model fit {model} !! {type(err).__name__}")
            continue
        run(f"isosteric models {model}", ie.isosteric_enthalpy, models)
        run(f"isosteric models {model} des", ie.isosteric_enthalpy, models, branch="des")
        run(f"isosteric mixed point+model {model}", ie.isosteric_enthalpy, [converted({})[0]] + models[1:])
        run(
            f"isosteric mixed point(des)+model {model}", ie.isosteric_enthalpy, [converted({})[0]] + models[1:],
            branch="des"
        )

    # 6. raw function
    rng = numpy.random.default_rng(3)
    for i in range(16):
        nt = int(rng.integers(2, 6))
        npts = int(rng.integers(1, 12))
        temps = numpy.sort(rng.uniform(70, 400, nt))
        dh = rng.uniform(5, 60)
        base = rng.uniform(1e-3, 5, npts)
        p = base[:, None] * numpy.exp(-dh * 1000 / 8.314 * (1 / temps[None, :] - 1 / temps[0]))
        p = p * (1 + rng.normal(0, 0.02, p.shape))
        for unit in (1.0, 1e5, 750.06):
            run(f"raw random {i} nt={nt} npts={npts} unit={unit}", ie.isosteric_enthalpy_raw, p * unit, temps)
        run(f"raw random lists {i}", ie.isosteric_enthalpy_raw, p.tolist(), temps.tolist())

    edge = {
        "zero pressure": ([[0.0, 1.0, 2.0], [1.0, 2.0, 3.0]], [300, 310, 320]),
        "negative pressure": ([[-1.0, 1.0, 2.0], [1.0, 2.0, 3.0]], [300, 310, 320]),
        "nan pressure": ([[numpy.nan, 1.0, 2.0], [1.0, 2.0, 3.0]], [300, 310, 320]),
        "constant pressure": ([[1.0, 1.0, 1.0]], [300, 310, 320]),
        "equal temperatures": ([[1.0, 2.0, 3.0]], [300, 300, 300]),
        "two temperatures": ([[1.0, 2.0], [2.0, 5.0]], [300, 320]),
        "one temperature": ([[1.0], [2.0]], [300]),
        "mismatch": ([[1.0, 2.0], [2.0, 5.0]], [300, 320, 340]),
        "empty rows": ([[]], []),
        "no rows": ([], [300, 320]),
        "celsius zero": ([[1.0, 2.0, 3.0]], [0, 10, 20]),
        "integers": ([[1, 2, 3], [2, 4, 9]], [300, 310, 320]),
        "ragged": ([[1.0, 2.0, 3.0], [2.0, 4.0]], [300, 310, 320]),
        "1d pressures": ([1.0, 2.0, 3.0], [300, 310, 320]),
    }
    for label, (p, temps) in edge.items():
        run(f"raw edge {label}", ie.isosteric_enthalpy_raw, p, temps)


if __name__ == "__main__":
    main()
