"""Differential script for change 1: alias bookkeeping in Adsorbate.__init__."""
import io
import json
import logging
import os

import pygaps
from pygaps import ADSORBATE_LIST
from pygaps.core.adsorbate import Adsorbate

LOG = io.StringIO()
_h = logging.StreamHandler(LOG)
_h.setLevel(logging.DEBUG)
logging.getLogger('pygaps').addHandler(_h)


def canon(v):
    if isinstance(v, float):
        return f"{v:.12g}"
    if isinstance(v, (list, tuple)):
        return "[" + ", ".join(canon(x) for x in v) + "]"
    if isinstance(v, dict):
        return "{" + ", ".join(f"{k!r}: {canon(x)}" for k, x in v.items()) + "}"
    return repr(v)


def run(label, func):
    LOG.seek(0)
    LOG.truncate()
    try:
        out = canon(func())
    except BaseException as err:  # noqa
        out = f"EXC {type(err).__name__}: {err}"
    log = LOG.getvalue().strip().replace("\n", " | ")
    print(f"{label} -> {out}" + (f"  [log: {log}]" if log else ""))


def describe(ads):
    return {
        'name': ads.name,
        'alias': list(ads.alias),
        'alias_type': type(ads.alias).__name__,
        'props': dict(ads.properties),
        'dict': ads.to_dict(),
        'state': (ads._state, ads._backend_mode),
    }


class Upper(str):
    """A str subclass, still a str."""


def gen(*items):
    yield from items


CASES = [
    ("none", dict(name="Foo")),
    ("none-explicit", dict(name="Foo", alias=None)),
    ("str", dict(name="Foo", alias="Bar")),
    ("str-same", dict(name="Foo", alias="FOO")),
    ("str-empty", dict(name="Foo", alias="")),
    ("str-subclass", dict(name="Foo", alias=Upper("BaZ"))),
    ("list", dict(name="Foo", alias=["Bar", "BAZ"])),
    ("list-with-name-first", dict(name="Foo", alias=["foo", "Bar"])),
    ("list-with-name-mid", dict(name="Foo", alias=["A", "FOO", "b"])),
    ("list-with-name-last", dict(name="Foo", alias=["A", "b", "fOO"])),
    ("list-duplicates", dict(name="Foo", alias=["a", "A", "a", "Foo", "foo"])),
    ("list-empty", dict(name="Foo", alias=[])),
    ("tuple", dict(name="Foo", alias=("X", "y"))),
    ("tuple-empty", dict(name="Foo", alias=())),
    ("set-one", dict(name="Foo", alias={"Only"})),
    ("frozenset-empty", dict(name="Foo", alias=frozenset())),
    ("generator", dict(name="Foo", alias=gen("G1", "g2", "FOO"))),
    ("generator-empty", dict(name="Foo", alias=gen())),
    ("dict-keys", dict(name="Foo", alias={"K1": 1, "k2": 2})),
    ("iter-of-str", dict(name="Foo", alias=iter("AbC"))),
    ("unicode", dict(name="Straße", alias=["ÄTHAN", "İx"])),
    ("empty-name", dict(name="", alias=["x"])),
    ("empty-name-none", dict(name="")),
    ("name-upper", dict(name="N2", alias=["Nitrogen", "n2"])),
    ("props-kept", dict(name="Foo", alias=["b"], formula="F_{2}", backend_name="Nitrogen", molar_mass=3.0)),
    ("props-no-alias", dict(name="Foo", formula="F_{2}", store=False)),
    # error paths
    ("name-None", dict(name=None, alias=["x"])),
    ("name-int", dict(name=5, alias=["x"])),
    ("name-int-no-alias", dict(name=5)),
    ("alias-int", dict(name="Foo", alias=5)),
    ("alias-float", dict(name="Foo", alias=1.5)),
    ("alias-list-int", dict(name="Foo", alias=["a", 5])),
    ("alias-list-None", dict(name="Foo", alias=[None])),
    ("alias-bytes", dict(name="Foo", alias=b"ab")),
    ("alias-list-bytes", dict(name="Foo", alias=[b"AB"])),
    ("alias-true", dict(name="Foo", alias=True)),
    ("alias-false", dict(name="Foo", alias=False)),
    ("alias-zero", dict(name="Foo", alias=0)),
]

print("# constructor cases")
for label, kw in CASES:
    run(label, lambda kw=kw: describe(Adsorbate(**kw)))

print("# properties dict is the same object holding the remaining kwargs")
run("alias-popped", lambda: sorted(Adsorbate("Foo", alias=["a"], zeta=1, alpha=2).properties))

print("# equality / lookup through the generated alias list")
probe = Adsorbate("MixedCase", alias=["One", "TWO", "mixedCASE"])
for s in ["mixedcase", "MIXEDCASE", "one", "ONE", "Two", "three", "", "MixedCase "]:
    run(f"eq {s!r}", lambda s=s: probe == s)
run("eq other ads", lambda: probe == Adsorbate("MixedCase"))
run("eq other ads2", lambda: probe == Adsorbate("one"))
run("eq int", lambda: probe == 5)

print("# store=True interplay with ADSORBATE_LIST")
n0 = len(ADSORBATE_LIST)
run("store-new", lambda: (describe(Adsorbate("ZZ-new", store=True, alias=["zz-Alias"])), len(ADSORBATE_LIST) - n0))
run("store-again", lambda: (describe(Adsorbate("ZZ-new", store=True)), len(ADSORBATE_LIST) - n0))
run("store-existing-alias", lambda: (describe(Adsorbate("zz-alias", store=True)), len(ADSORBATE_LIST) - n0))
run("store-shipped", lambda: (describe(Adsorbate("N2", store=True)), len(ADSORBATE_LIST) - n0))
run("find-new", lambda: Adsorbate.find("ZZ-ALIAS").name)
del ADSORBATE_LIST[n0:]

print("# shipped registry: alias lists as built by the constructor")
for ads in ADSORBATE_LIST:
    print(f"{ads.name!r}: {canon(ads.alias)}")

print("# shipped registry: every alias in case variants resolves to the same entry")
bad = 0
total = 0
for ads in ADSORBATE_LIST:
    for al in ads.alias + [ads.name]:
        for variant in (al, al.upper(), al.lower(), al.title(), al.swapcase()):
            total += 1
            found = Adsorbate.find(variant)
            if found is not ads:
                bad += 1
                print(f"MISMATCH {variant!r}: {found.name!r} vs {ads.name!r}")
print("lookups", total, "mismatches", bad)

print("# JSON source list rebuilt through the constructor")
path = os.path.join(os.path.dirname(pygaps.__file__), 'data', 'adsorbates.json')
with open(path, encoding='utf8') as f:
    source = json.load(f)
for entry in source:
    run(f"json {entry['name']!r}", lambda entry=entry: describe(Adsorbate(**dict(entry)))['alias'])

print("# isotherm linking")
for s in ["N2", "nitrogen", "NITROGEN", "Carbon Dioxide", "r744", "not-a-gas"]:
    def mk(s=s):
        iso = pygaps.PointIsotherm(
            pressure=[1, 2],
            loading=[1, 2],
            material="m",
            adsorbate=s,
            temperature=77,
            pressure_mode='absolute',
            pressure_unit='bar',
            material_basis='mass',
            material_unit='g',
            loading_basis='molar',
            loading_unit='mmol',
            temperature_unit='K',
        )
        return (iso.adsorbate.name, list(iso.adsorbate.alias), iso.adsorbate in ADSORBATE_LIST)
    run(f"iso {s!r}", mk)
