"""Differential script for change 4 (get_isotherm_model / IsothermBaseModel constructor)."""
import collections
import copy
import json

import numpy

import eqcommon as c
import pygaps.modelling as pgm
from pygaps.core.modelisotherm import ModelIsotherm
from pygaps.modelling import _MODELS
from pygaps.modelling import get_isotherm_model
from pygaps.modelling import model_from_dict
from pygaps.parsing.json import isotherm_from_json
from pygaps.parsing.json import isotherm_to_json


def safe(func):
    try:
        return func()
    except Exception as err:  # pylint: disable=broad-except
        return 'EXC ' + c.show_exc(err)


def describe(model):
    res = {
        'class': type(model).__name__, 'module': type(model).__module__, 'name': model.name,
        'params': model.params, 'bounds': model.param_bounds, 'prange': model.pressure_range,
        'lrange': model.loading_range, 'rmse': model.rmse, 'to_dict': model.to_dict(),
        'instance_attrs': sorted(vars(model)), 'str': safe(lambda: str(model)), 'repr': repr(model),
        'types': [type(model.params).__name__, type(model.param_bounds).__name__,
                  type(model.pressure_range).__name__, type(model.loading_range).__name__, type(model.rmse).__name__],
    }
    if 'minus_rt' not in vars(model) and model.name in ('DA', 'DR'):
        model.__init_parameters__({'temperature': 77.0})
    preds = []
    for fun, pts in ((model.loading, c.PRED_P), (model.pressure, c.PRED_L)):
        for x in pts:
            try:
                preds.append(c.fnum(fun(x)))
            except Exception as err:  # pylint: disable=broad-except
                preds.append(type(err).__name__)
    res['predictions'] = preds
    return res


# every model: defaults, full arguments, case-insensitive spellings
for name in _MODELS:
    c.run(f"default {name}", lambda n=name: describe(get_isotherm_model(n)))
    c.run(f"full {name}", lambda n=name: describe(c.make_model(n)))
    c.run(f"upper {name}", lambda n=name: describe(get_isotherm_model(n.upper(), parameters=dict(c.MODEL_PARAMS[n]))))
    c.run(f"lower {name}", lambda n=name: describe(get_isotherm_model(n.lower(), rmse=1)))

    def via_dict(n=name):
        source = c.make_model(n).to_dict()
        document = json.loads(json.dumps(source))
        given = copy.deepcopy(document)
        model = model_from_dict(given)
        return {'model': describe(model), 'dict_after': given, 'same_dict_again': model.to_dict() == source,
                'params_is_given': model.params is given['parameters']}
    c.run(f"from_dict {name}", via_dict)

    def isotherm_roundtrip(n=name):
        units = 'rel' if n in ('DA', 'DR', 'BET', 'GAB') else 'std'
        iso = ModelIsotherm(model=c.make_model(n), **c.base_kwargs(units, 'nums', 'props'))
        text = isotherm_to_json(iso)
        back = isotherm_from_json(text)
        return {'equal': back == iso, 'same_doc': isotherm_to_json(back) == text, 'back': back}
    c.run(f"isotherm roundtrip {name}", isotherm_roundtrip)

# names
for bad in ('Nope', '', ' henry', 'henry ', 'Henry2', 'ß', 'İ', b'henry', None, 5, ['Henry'], 'guess'):
    c.run(f"name {bad!r}", lambda b=bad: describe(get_isotherm_model(b)))
c.run("name str subclass", lambda: describe(get_isotherm_model(type('S', (str,), {})('toth'))))
c.run("model_from_dict no name", lambda: model_from_dict({'parameters': {'K': 1}}))
c.run("model_from_dict name only", lambda: describe(model_from_dict({'name': 'bet'})))
c.run("model_from_dict unknown key", lambda: describe(model_from_dict({'name': 'Henry', 'junk': 1, 'parameters': {'K': 1}})))
c.run("model_from_dict None", lambda: model_from_dict(None))
c.run("is_model family", lambda: [[f(n) for n in ('henry', 'HENRY', 'Virial', 'wvst', 'nope', '')]
                                  for f in (pgm.is_model, pgm.is_model_guess, pgm.is_model_iast)])


def custom_list():
    """A list of models changed at run time is honoured."""
    saved = list(pgm._MODELS)
    try:
        pgm._MODELS.insert(0, 'HENRY')  # shadows 'Henry': module henry has no attribute HENRY
        try:
            get_isotherm_model('henry')
            first = 'no error'
        except Exception as err:  # pylint: disable=broad-except
            first = c.show_exc(err)
        pgm._MODELS[:] = ['Langmuir']
        try:
            get_isotherm_model('henry')
            second = 'no error'
        except Exception as err:  # pylint: disable=broad-except
            second = c.show_exc(err)
        pgm._MODELS[:] = ['Ghost']
        try:
            get_isotherm_model('ghost')
            third = 'no error'
        except Exception as err:  # pylint: disable=broad-except
            third = c.show_exc(err)
        return [first, second, third]
    finally:
        pgm._MODELS[:] = saved


c.run("run-time model list", custom_list)

# parameters argument
L = 'Langmuir'
PARAM_CASES = {
    'exact': {'K': 1.5, 'n_m': 2},
    'extra ignored': {'K': 1.5, 'n_m': 2, 'zzz': 9},
    'missing second': {'K': 1.5},
    'missing first': {'n_m': 1.5},
    'missing both but truthy': {'zzz': 1},
    'empty dict': {},
    'None': None,
    'nan values': {'K': float('nan'), 'n_m': None},
    'strings': {'K': '1.5', 'n_m': 'x'},
    'ints bools': {'K': 1, 'n_m': True},
    'numpy': {'K': numpy.float64(1.5), 'n_m': numpy.int64(2)},
    'ordered reversed': collections.OrderedDict([('n_m', 2), ('K', 1.5)]),
    'defaultdict': collections.defaultdict(lambda: 7.0, {'K': 1.0}),
    'list': [1, 2],
    'string': 'Kn_m',
    'int': 5,
}
for label, value in PARAM_CASES.items():
    def with_params(v=value):
        given = copy.deepcopy(v)
        model = get_isotherm_model(L, parameters=given)
        return {'model': describe(model), 'given_after': given if not isinstance(given, collections.defaultdict) else dict(given)}
    c.run("parameters " + label, with_params)
c.run("parameters Henry string names", lambda: describe(get_isotherm_model('Henry', parameters={'K': 3, 'KK': 4})))
c.run("parameters Henry missing", lambda: describe(get_isotherm_model('Henry', parameters={'k': 3})))
c.run("parameters TSLangmuir missing", lambda: describe(get_isotherm_model('TSLangmuir', parameters={'n_m1': 1, 'n_m2': 1, 'K1': 1})))

# bounds argument
BOUND_CASES = {
    'one': {'K': (0, 10)},
    'both reversed': collections.OrderedDict([('n_m', (1, 2)), ('K', [0, 1])]),
    'invalid only': {'zzz': (0, 1)},
    'valid then invalid': collections.OrderedDict([('K', (0, 1)), ('bad1', (0, 1)), ('bad2', (0, 1))]),
    'invalid then valid': collections.OrderedDict([('bad2', (0, 1)), ('K', (0, 1)), ('bad1', (0, 1))]),
    'None key': {None: (0, 1)},
    'int key': {1: (0, 1)},
    'empty': {},
    'None': None,
    'odd bound values': {'K': None, 'n_m': 'wide'},
    'list': [('K', (0, 1))],
    'string': 'K',
}
for label, value in BOUND_CASES.items():
    def with_bounds(v=value):
        given = copy.deepcopy(v)
        model = get_isotherm_model(L, param_bounds=given)
        return {'model': describe(model), 'given_after': given, 'is_given': model.param_bounds is given}
    c.run("bounds " + label, with_bounds)
c.run("bounds Henry substring", lambda: describe(get_isotherm_model('Henry', param_bounds={'': (0, 1), 'K': (0, 2)})))
c.run("bounds Henry int key after invalid", lambda: describe(get_isotherm_model(
    'Henry', param_bounds=collections.OrderedDict([('bad', (0, 1)), (1, (0, 2))]))))
c.run("bounds Henry int key", lambda: describe(get_isotherm_model('Henry', param_bounds={1: (0, 2)})))
c.run("bounds + params invalid both", lambda: get_isotherm_model(L, parameters={'K': 1}, param_bounds={'bad': 1}))

# ranges and rmse
RANGE_CASES = {
    'lists': dict(pressure_range=[0, 1], loading_range=[0.5, 2]),
    'tuples': dict(pressure_range=(0.0, 1.0), loading_range=(1, 2), rmse=0.5),
    'None': dict(pressure_range=None, loading_range=None, rmse=None),
    'only rmse': dict(rmse=0),
    'only loading': dict(loading_range=(1, 2)),
    'odd': dict(pressure_range='ab', rmse='r'),
    'unknown kwargs': dict(foo=1, name='other', temperature=5),
}
for label, value in RANGE_CASES.items():
    c.run("ranges " + label, lambda v=value: describe(get_isotherm_model('Toth', **copy.deepcopy(v))))


def default_identity():
    one = get_isotherm_model('Henry')
    two = get_isotherm_model('Henry')
    return [one.pressure_range is one.loading_range, one.params is two.params, one.param_bounds is two.param_bounds,
            one.params['K'] is numpy.nan, isinstance(one.pressure_range, tuple)]


c.run("default object identities", default_identity)


def fitted():
    iso = ModelIsotherm(pressure=[0.1, 0.2, 0.5, 1.0, 2.0], loading=[0.9, 1.5, 2.4, 3.0, 3.4], model='langmuir',
                        param_bounds={'K': (0, 100), 'n_m': (0, 50)}, **c.base_kwargs())
    return [describe(iso.model), isotherm_from_json(iso.to_json()) == iso]


c.run("fitted langmuir with bounds", fitted)
c.run("fit bad bounds", lambda: ModelIsotherm(pressure=[0.1, 0.2, 0.5], loading=[0.9, 1.5, 2.4], model='Langmuir',
                                              param_bounds={'zz': (0, 100)}, **c.base_kwargs()))
c.run("fit unknown model", lambda: ModelIsotherm(pressure=[0.1, 0.2, 0.5], loading=[0.9, 1.5, 2.4], model='Nope', **c.base_kwargs()))
c.run("fit model list", lambda: ModelIsotherm(pressure=[0.1, 0.2, 0.5], loading=[0.9, 1.5, 2.4], model=['Henry'], **c.base_kwargs()))
