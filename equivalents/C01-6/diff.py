"""Differential script for change 2 (c_loading): prints canonical text of results."""
import itertools
import warnings

import numpy as np
import pandas as pd

warnings.simplefilter("ignore")

import pygaps
from pygaps.units.converter_mode import _LOADING_MODE
from pygaps.units.converter_mode import _MATERIAL_MODE
from pygaps.units.converter_mode import c_loading


def fmt(v):
    if isinstance(v, pd.Series):
        return "Series[" + ",".join(fmt(x) for x in v.tolist()) + "]idx" + repr(list(v.index))
    if isinstance(v, np.ndarray):
        return f"ndarray{v.shape}{v.dtype}[" + ",".join(fmt(x) for x in v.ravel().tolist()) + "]"
    if isinstance(v, (list, tuple)):
        return type(v).__name__ + "[" + ",".join(fmt(x) for x in v) + "]"
    if isinstance(v, (float, np.floating)):
        return type(v).__name__ + ":" + repr(float(v))
    return type(v).__name__ + ":" + repr(v)


def run(label, *args, **kwargs):
    try:
        res = c_loading(*args, **kwargs)
        print(label, "->", fmt(res))
    except BaseException as e:  # noqa
        print(label, "-> EXC", type(e).__name__, str(e))


class Recorder:
    """Adsorbate-like object which logs the calls made to it."""
    def __init__(self):
        self.log = []

    def _rec(self, name, val, *args, **kwargs):
        self.log.append((name, args, tuple(sorted(kwargs.items()))))
        return val

    def gas_density(self, *a, **k):
        return self._rec("gas_density", 0.0046, *a, **k)

    def liquid_density(self, *a, **k):
        return self._rec("liquid_density", 0.807, *a, **k)

    def molar_mass(self, *a, **k):
        return self._rec("molar_mass", 28.0134, *a, **k)

    def gas_molar_density(self, *a, **k):
        return self._rec("gas_molar_density", 0.000164, *a, **k)

    def liquid_molar_density(self, *a, **k):
        return self._rec("liquid_molar_density", 0.0288, *a, **k)


phys = [(b, u) for b, units in _LOADING_MODE.items() if units for u in units]
assert len(phys) == 25
frac = [("fraction", None), ("percent", None)]
mats = [(b, u) for b, units in _MATERIAL_MODE.items() for u in units]
assert len(mats) == 19

n2 = pygaps.Adsorbate.find("nitrogen")
co2 = pygaps.Adsorbate.find("carbon dioxide")
custom = pygaps.Adsorbate(
    "custom_fluid", gas_density=0.0031, liquid_density=1.21, molar_mass=44.2, gas_molar_density=7.0e-5,
    liquid_molar_density=0.0274
)
partial = pygaps.Adsorbate("partial_fluid", molar_mass=10.0)
ints = pygaps.Adsorbate(
    "int_fluid", gas_density=2, liquid_density=5, molar_mass=44, gas_molar_density=3, liquid_molar_density=7
)

values = [
    1, 1.0, 0.0, -2.5, 3.3e-30, float("inf"), float("nan"), np.float64(12.125),
    np.array([0.0, 1.0, 2.5, -4.0, 1e-12]), np.array([[1, 2], [3, 4]]),
    pd.Series([0.1, 0.2, 5.0], index=[3, 1, 2]), np.array([]),
]

# 1. every ordered pair of physical representations, real fluids / temperatures
for ads, temp in [(n2, 77.344), (n2, 100.0), (co2, 250.0), (co2, 303.15)]:
    for (bf, uf), (bt, ut) in itertools.product(phys, phys):
        run(f"P[{ads.name}@{temp}] {bf}/{uf}->{bt}/{ut}", 1.25, bf, bt, uf, ut, adsorbate=ads, temp=temp)

# 2. values (scalars/arrays) on one unit per basis pair
sel = [("mass", "mg"), ("volume_gas", "L"), ("volume_liquid", "cm3"), ("molar", "cm3(STP)"), ("molar", "mmol")]
for (bf, uf), (bt, ut) in itertools.product(sel, sel):
    for i, val in enumerate(values):
        run(f"V {bf}/{uf}->{bt}/{ut} v{i}", val, bf, bt, uf, ut, adsorbate=n2, temp=77.344)

# 3. fraction / percent with every material representation
for (bf, uf), (bt, ut) in itertools.chain(itertools.product(phys, frac), itertools.product(frac, phys)):
    for (bm, um) in mats:
        run(
            f"F {bf}/{uf}->{bt}/{ut} mat {bm}/{um}", 0.75, bf, bt, uf, ut, adsorbate=n2, temp=77.344,
            basis_material=bm, unit_material=um
        )
for (bf, uf), (bt, ut) in itertools.product(frac, frac):
    for val in (1, 2.5, np.array([1.0, 50.0])):
        run(f"FF {bf}->{bt}", val, bf, bt, uf, ut)
        run(f"FFm {bf}->{bt}", val, bf, bt, uf, ut, basis_material="mass", unit_material="g")

# 4. dictionary-only, partial, int-valued, missing and wrong adsorbates (fallback + error paths)
for name, ads in [("custom", custom), ("partial", partial), ("ints", ints), ("None", None), ("str", "nitrogen")]:
    for (bf, uf), (bt, ut) in itertools.product(sel, sel):
        run(f"A[{name}] {bf}/{uf}->{bt}/{ut}", 2.0, bf, bt, uf, ut, adsorbate=ads, temp=77.344)
        run(f"A0[{name}] {bf}/{uf}->{bt}/{ut}", 2, bf, bt, uf, ut, adsorbate=ads)
    for (bf, uf), (bt, ut) in itertools.chain(itertools.product(sel, frac), itertools.product(frac, sel)):
        for (bm, um) in [("mass", "kg"), ("volume", "L"), ("molar", "mmol")]:
            run(
                f"AF[{name}] {bf}/{uf}->{bt}/{ut} mat {bm}/{um}", 2.0, bf, bt, uf, ut, adsorbate=ads, temp=300,
                basis_material=bm, unit_material=um
            )

# 5. temperature outside validity / missing for real fluid
for temp in [None, 0, -5.0, 20.0, 126.0, 126.5, 500.0, "77"]:
    for (bf, uf), (bt, ut) in itertools.product(sel, sel):
        run(f"T[{temp!r}] {bf}/{uf}->{bt}/{ut}", 1.0, bf, bt, uf, ut, adsorbate=n2, temp=temp)

# 6. call order / arguments passed to the adsorbate
for (bf, uf), (bt, ut) in itertools.product(sel + frac, sel + frac):
    for (bm, um) in [("mass", "g"), ("volume", "cm3"), ("molar", "mol"), (None, None)]:
        rec = Recorder()
        run(
            f"R {bf}/{uf}->{bt}/{ut} mat {bm}/{um}", 3.0, bf, bt, uf, ut, adsorbate=rec, temp=91.5, basis_material=bm,
            unit_material=um
        )
        print("   calls", rec.log)

# 7. bad / missing bases and units
bad_bases = [None, "", "volume", "Mass", "relative", 0]
good_bases = list(_LOADING_MODE)
bad_units = [None, "", "Pa", "g", "mol", "cm3", "cm3(STP)", 0]
for bf, bt in itertools.product(bad_bases + good_bases, repeat=2):
    if bf in good_bases and bt in good_bases:
        continue
    run(f"B {bf!r}->{bt!r}", 1.0, bf, bt, "g", "mol", adsorbate=n2, temp=77.344)
for bf, bt in itertools.product(good_bases, repeat=2):
    for uf, ut in itertools.product(bad_units, repeat=2):
        run(f"U {bf}/{uf!r}->{bt}/{ut!r}", 1.0, bf, bt, uf, ut, adsorbate=n2, temp=77.344)
        run(
            f"Um {bf}/{uf!r}->{bt}/{ut!r}", 1.0, bf, bt, uf, ut, adsorbate=n2, temp=77.344, basis_material="mass",
            unit_material="g"
        )
for bm, um in itertools.product([None, "", "mass", "volume", "molar", "volume_liquid", "percent"],
                                [None, "", "g", "cm3", "mol", "L(STP)", "Pa"]):
    run(f"MB {bm!r}/{um!r} to", 1.0, "mass", "percent", "g", None, n2, 77.344, bm, um)
    run(f"MB {bm!r}/{um!r} from", 1.0, "fraction", "molar", None, "mmol", n2, 77.344, bm, um)

# 8. there-and-back / via intermediate
for (bf, uf), (bt, ut) in itertools.product(phys, phys):
    there = c_loading(0.37, bf, bt, uf, ut, adsorbate=co2, temp=260.0)
    back = c_loading(there, bt, bf, ut, uf, adsorbate=co2, temp=260.0)
    via = c_loading(c_loading(0.37, bf, "molar", uf, "mol", co2, 260.0), "molar", bt, "mol", ut, co2, 260.0)
    print(f"RT {bf}/{uf}->{bt}/{ut}", fmt(there), fmt(back), fmt(via))
