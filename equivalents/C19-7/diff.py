"""Differential script for change 2: isosteric_enthalpy (checks, common loading grid, pressure matrix)."""
import numpy as np
from eqfmt import fmt, model_iso, point_iso, run, vant_hoff_K  # noqa: F401

from pygaps.characterisation.isosteric_enth import isosteric_enthalpy


def lang(T, dH=20.0, K0=1e-4, n_m=5.0, **kw):
    return model_iso("Langmuir", {"n_m": n_m, "K": vant_hoff_K(K0, dH, T)}, T, l_range=(0.0, 4.0), **kw)


def toth(T, dH=35.0, K0=2e-4, n_m=4.0, t=0.6, **kw):
    return model_iso("Toth", {"n_m": n_m, "K": vant_hoff_K(K0, dH, T), "t": t}, T, l_range=(0.0, 3.0), **kw)


def dsl(T, dH1=15.0, dH2=40.0, **kw):
    return model_iso(
        "DSLangmuir", {
            "n_m1": 3.0, "K1": vant_hoff_K(1e-5, dH1, T), "n_m2": 1.5, "K2": vant_hoff_K(5e-4, dH2, T)
        }, T, l_range=(0.0, 3.5), **kw
    )


def sampled(gen, T, n=60, pmax=1e5, des=False, **kw):
    """Dense point isotherm sampled from a model generator (optionally with a desorption branch)."""
    iso = gen(T)
    p = np.concatenate([[0.0], np.logspace(0, np.log10(pmax), n)])
    load = iso.loading_at(p)
    if des:
        p = np.concatenate([p, p[::-1][1:]])
        load = np.concatenate([load, 1.05 * load[::-1][1:]])
    return point_iso(p, load, T, **kw)


def conv(iso, **kw):
    """Convert a point isotherm in place and return it."""
    if "pressure_unit" in kw or "pressure_mode" in kw:
        iso.convert_pressure(unit_to=kw.get("pressure_unit"), mode_to=kw.get("pressure_mode"))
    if "loading_unit" in kw or "loading_basis" in kw:
        iso.convert_loading(basis_to=kw.get("loading_basis", "molar"), unit_to=kw["loading_unit"])
    if "material_unit" in kw or "material_basis" in kw:
        iso.convert_material(basis_to=kw.get("material_basis", "mass"), unit_to=kw["material_unit"])
    return iso


lp = [0.5, 1.0, 2.0, 2.9]
cases = [
    # model isotherms (exact)
    ("lang-2T", [lang(200), lang(400)], dict(loading_points=lp)),
    ("lang-3T", [lang(298), lang(308), lang(318)], dict(loading_points=lp)),
    ("lang-3T-reversed", [lang(318), lang(308), lang(298)], dict(loading_points=lp)),
    ("lang-5T-unordered", [lang(T) for T in (250, 400, 200, 350, 300)], dict(loading_points=np.array(lp))),
    ("lang-dH5", [lang(T, dH=5) for T in (280, 300)], dict(loading_points=lp)),
    ("lang-dH60", [lang(T, dH=60) for T in (280, 300, 390)], dict(loading_points=lp)),
    ("toth-4T", [toth(T) for T in (273, 283, 293, 303)], dict(loading_points=lp)),
    ("dsl-3T", [dsl(T) for T in (260, 300, 340)], dict(loading_points=[0.2, 1.0, 3.0])),
    ("lang-default-grid", [lang(T) for T in (290, 300, 310)], {}),
    ("toth-default-grid", [toth(T) for T in (290, 310)], {}),
    ("lang-scalar-loading", [lang(T) for T in (290, 300, 310)], dict(loading_points=1.5)),
    ("lang-one-loading", [lang(T) for T in (290, 300, 310)], dict(loading_points=[1.5])),
    ("lang-empty-loading", [lang(T) for T in (290, 300, 310)], dict(loading_points=[])),
    ("lang-tuple-input", tuple(lang(T) for T in (290, 300, 310)), dict(loading_points=lp)),
    ("lang-branch-ads-kw", [lang(T) for T in (290, 300)], dict(loading_points=lp, branch="ads")),
    ("lang-branch-none", [lang(T) for T in (290, 300)], dict(loading_points=lp, branch=None)),
    ("lang-branch-des-error", [lang(T) for T in (290, 300)], dict(loading_points=lp, branch="des")),
    ("lang-loading-over-capacity", [lang(T) for T in (290, 300)], dict(loading_points=[1.0, 5.0, 6.0])),
    ("lang-loading-zero", [lang(T) for T in (290, 300)], dict(loading_points=[0.0, 1.0])),
    # units of the model isotherms
    (
        "lang-bar", [lang(T, K0=10.0, pressure_unit="bar", p_range=(0, 1)) for T in (290, 300, 310)],
        dict(loading_points=lp)
    ),
    (
        "lang-mol-kg", [lang(T, loading_unit="mol", material_unit="kg") for T in (290, 300, 310)],
        dict(loading_points=lp)
    ),
    ("lang-mixed-pressure-units", [lang(290), lang(300, K0=10.0, pressure_unit="bar")], dict(loading_points=lp)),
    # point isotherms (interpolation accuracy)
    ("pt-lang-3T", [sampled(lang, T) for T in (290, 300, 310)], dict(loading_points=lp)),
    ("pt-lang-default", [sampled(lang, T) for T in (290, 300, 310)], {}),
    ("pt-toth-default", [sampled(toth, T) for T in (350, 300, 250, 400)], {}),
    ("pt-dsl-2T", [sampled(dsl, T) for T in (300, 330)], dict(loading_points=[0.5, 1.5, 2.5])),
    ("pt-des-branch", [sampled(lang, T, des=True) for T in (290, 300, 310)], dict(loading_points=lp, branch="des")),
    ("pt-des-default", [sampled(lang, T, des=True) for T in (290, 300, 310)], dict(branch="des")),
    ("pt-ads-of-hysteresis", [sampled(lang, T, des=True) for T in (290, 300, 310)], dict(branch="ads")),
    ("pt-no-des-branch", [sampled(lang, T) for T in (290, 300)], dict(branch="des")),
    ("pt-bad-branch", [sampled(lang, T) for T in (290, 300)], dict(branch="sideways")),
    ("pt-bar", [conv(sampled(lang, T), pressure_unit="bar") for T in (290, 300, 310)], dict(loading_points=lp)),
    ("pt-torr-default", [conv(sampled(lang, T), pressure_unit="torr") for T in (290, 300, 310)], {}),
    (
        "pt-relative", [conv(sampled(lang, T, adsorbate="butane"), pressure_mode="relative") for T in (280, 300)],
        dict(loading_points=lp)
    ),
    (
        "pt-cm3stp-kg", [
            conv(sampled(lang, T), loading_unit="cm3(STP)", material_unit="kg")
            for T in (290, 300, 310)
        ], {}
    ),
    (
        "pt-volume-gas", [
            conv(sampled(lang, T, adsorbate="butane"), loading_unit="cm3", loading_basis="volume_gas")
            for T in (290, 300, 310)
        ], {}
    ),
    (
        "pt-mass-volume", [
            sampled(lang, T, loading_unit="mg", loading_basis="mass", material_unit="cm3",
                    material_basis="volume") for T in (290, 300, 310)
        ], {}
    ),
    ("pt-mol-default", [conv(sampled(lang, T), loading_unit="mol") for T in (290, 300, 310)], {}),
    ("pt-first-unit-wins", [conv(sampled(lang, 290), pressure_unit="bar", loading_unit="mol"),
                            sampled(lang, 300), sampled(lang, 310)], {}),
    ("pt-out-of-range", [sampled(lang, T) for T in (290, 300)], dict(loading_points=[1.0, 4.9])),
    ("mixed-model-point", [lang(290), sampled(lang, 300), lang(310)], dict(loading_points=lp)),
    ("mixed-default", [sampled(lang, 290), lang(300)], {}),
    # guards
    ("err-empty", [], {}),
    ("err-one", [lang(300)], {}),
    ("err-none", None, {}),
    ("err-material", [lang(290), lang(300, material="Other")], {}),
    ("err-material-last", [lang(290), lang(300), lang(310, material="Other")], {}),
    ("err-loading-basis", [lang(290), lang(300, loading_basis="mass", loading_unit="g")], {}),
    ("err-material-basis", [lang(290), lang(300, material_basis="volume", material_unit="cm3")], {}),
    (
        "err-both-bases", [
            lang(290),
            lang(300, loading_basis="mass", loading_unit="g", material_basis="volume", material_unit="cm3")
        ], {}
    ),
    (
        "err-material-and-basis",
        [lang(290), lang(300, material="Other", loading_basis="mass", loading_unit="g")], {}
    ),
    ("same-temperature", [lang(300), lang(300)], dict(loading_points=lp)),
]

for label, isos, kw in cases:
    run(label, isosteric_enthalpy, isos, **kw)

# the isotherms passed in must not be modified
isos = [conv(sampled(lang, 290), pressure_unit="bar"), sampled(lang, 300)]
before = [(i.units, i.data_raw.copy()) for i in isos]
isosteric_enthalpy(isos)
print("unchanged", all(i.units == u and i.data_raw.equals(d) for i, (u, d) in zip(isos, before)))
