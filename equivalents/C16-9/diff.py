"""Differential transcript for C16-1 (psd_mesoporous: reading data, dispatch, cumulative curve)."""
import glob
import itertools
import os
import warnings

warnings.simplefilter("ignore")

import numpy

import pygaps
from pygaps.characterisation import psd_meso
from pygaps.characterisation.psd_meso import psd_mesoporous
from pygaps.parsing.json import isotherm_from_json

ROOT = os.path.dirname(os.path.dirname(os.path.dirname(os.path.abspath(pygaps.__file__))))


def fmt(val):
    if isinstance(val, numpy.ndarray):
        return f"ndarray[{val.dtype},{val.shape}]{val.tolist()!r}"
    if isinstance(val, numpy.generic):
        return f"{type(val).__name__}({val.item()!r})"
    if isinstance(val, dict):
        return "{" + ", ".join(f"{k!r}: {fmt(v)}" for k, v in val.items()) + "}"
    if isinstance(val, tuple):
        return "(" + ", ".join(fmt(v) for v in val) + ")"
    return repr(val)


def show(label, fn):
    try:
        res = fn()
        print(f"[{label}] OK {fmt(res)}")
        return res
    except BaseException as err:  # noqa
        print(f"[{label}] EXC {type(err).__name__}: {err!s} | args={err.args!r}")
        return None


UNITS = dict(
    pressure_mode='relative',
    pressure_unit=None,
    material_basis='mass',
    material_unit='g',
    loading_basis='molar',
    loading_unit='mmol',
    temperature_unit='K',
)


def synthetic():
    isos = {}
    p = numpy.linspace(0.02, 0.98, 40)
    # type IV like: langmuir part + condensation step at p=0.5
    load = 5 * 20 * p / (1 + 20 * p) + 10 / (1 + numpy.exp(-(p - 0.5) * 60))
    isos['step ads only'] = pygaps.PointIsotherm(
        pressure=p, loading=load, material='syn', adsorbate='N2', temperature=77.355, **UNITS)
    pd = p[::-1][1:]
    load_d = 5 * 20 * pd / (1 + 20 * pd) + 10 / (1 + numpy.exp(-(pd - 0.4) * 60))
    isos['step ads+des'] = pygaps.PointIsotherm(
        pressure=numpy.concatenate([p, pd]), loading=numpy.concatenate([load, load_d]),
        material='syn', adsorbate='N2', temperature=77.355, **UNITS)
    # decreasing then increasing (gives negative volumes)
    wav = 5 + numpy.sin(p * 12)
    isos['wavy'] = pygaps.PointIsotherm(
        pressure=p, loading=wav, material='syn', adsorbate='N2', temperature=77.355, **UNITS)
    isos['few points'] = pygaps.PointIsotherm(
        pressure=[0.2, 0.5, 0.8], loading=[1.0, 2.0, 3.0], material='syn', adsorbate='N2', temperature=77.355, **UNITS)
    isos['four points'] = pygaps.PointIsotherm(
        pressure=[0.2, 0.4, 0.6, 0.8], loading=[1.0, 2.0, 4.0, 4.5], material='syn', adsorbate='argon',
        temperature=87.3, **UNITS)
    isos['absolute bar'] = pygaps.PointIsotherm(
        pressure=p, loading=load, material='syn', adsorbate='N2', temperature=77.355,
        **{**UNITS, 'pressure_mode': 'absolute', 'pressure_unit': 'bar'})
    isos['celsius'] = pygaps.PointIsotherm(
        pressure=p, loading=load, material='syn', adsorbate='N2', temperature=-195.8,
        **{**UNITS, 'temperature_unit': '°C'})
    isos['model langmuir'] = pygaps.ModelIsotherm(
        pressure=p, loading=5 * 20 * p / (1 + 20 * p), model='Langmuir', material='syn', adsorbate='N2',
        temperature=77.355, **UNITS)
    isos['unknown adsorbate'] = pygaps.PointIsotherm(
        pressure=p, loading=load, material='syn', adsorbate='unobtainium', temperature=77.355, **UNITS)
    return isos


def main():
    isos = synthetic()
    for path in sorted(glob.glob(os.path.join(ROOT, 'docs', 'examples', 'data', 'characterisation', '*.json'))):
        isos['file ' + os.path.basename(path)] = isotherm_from_json(path)

    print("=" * 20, "all model / geometry / branch combinations on every isotherm")
    for name, iso in isos.items():
        for model, geom, branch in itertools.product(
            ['pygaps-DH', 'BJH', 'DH'], ['slit', 'cylinder', 'halfopen-cylinder', 'sphere'], ['ads', 'des']):
            res = show(f"{name} | {model} {geom} {branch}", lambda: psd_mesoporous(
                iso, psd_model=model, pore_geometry=geom, branch=branch))
            if res is not None:
                print("   keys:", list(res))

    print("=" * 20, "limits, thickness, kelvin and meniscus options")
    some = [isos['step ads+des'], isos['file MCM-41 N2 77.355.json'], isos['wavy']]
    limits = [None, (0.1, 0.99), (0.3, 0.7), (None, None), (0, 0), (0.5, None), (None, 0.5), (0.0, 1.0),
              (0.45, 0.55), (0.9, 0.1), [0.2, 0.9], (0.2, 0.9, 0.5), (2, 3), (-1, 0.5), (0.3,), (), 'ab', 5,
              (numpy.float64(0.2), numpy.float64(0.8)), ('a', 0.5), (0.5, 'a')]
    for i, iso in enumerate(some):
        for lim in limits:
            for model in ('pygaps-DH', 'DH'):
                show(f"iso{i} {model} p_limits={lim!r}", lambda: psd_mesoporous(
                    iso, psd_model=model, branch='ads', p_limits=lim))
        for thick in ['Halsey', 'Harkins/Jura', 'zero thickness', 'SiO2 Jaroniec/Kruk/Olivier',
                      'carbon black Kruk/Jaroniec/Gadkaree', 'nope', None, 3, lambda p: 0.1 * p,
                      lambda p: numpy.full_like(p, 0.3)]:
            for model in ('pygaps-DH', 'BJH', 'DH'):
                show(f"iso{i} {model} thickness={thick if not callable(thick) else 'callable'!r}",
                     lambda: psd_mesoporous(iso, psd_model=model, branch='ads', thickness_model=thick))
        for kel in ['Kelvin', 'Kelvin-KJS', 'nope', None, lambda p, **kw: 1.0 / (1.001 - p),
                    lambda p: p]:
            for geom, branch in (('cylinder', 'ads'), ('cylinder', 'des'), ('slit', 'ads')):
                show(f"iso{i} kelvin={kel if not callable(kel) else 'callable'!r} {geom} {branch}",
                     lambda: psd_mesoporous(iso, psd_model='pygaps-DH', pore_geometry=geom, branch=branch,
                                            kelvin_model=kel))
        for men in ['hemicylindrical', 'cylindrical', 'hemispherical', 'flat', '', None, 0]:
            for model in ('pygaps-DH', 'BJH'):
                show(f"iso{i} {model} meniscus={men!r}", lambda: psd_mesoporous(
                    iso, psd_model=model, branch='des', meniscus_geometry=men))

    print("=" * 20, "parameter errors")
    iso = isos['step ads+des']
    for kw in [dict(psd_model=None), dict(psd_model='bjh'), dict(psd_model='Nope'), dict(psd_model=3),
               dict(pore_geometry='cube'), dict(pore_geometry=None), dict(branch='all'), dict(branch=None),
               dict(branch='ADS'), dict(psd_model='BJH', pore_geometry='slit'),
               dict(psd_model='DH', pore_geometry='sphere'), dict(psd_model='pygaps-DH', pore_geometry='halfopen-cylinder')]:
        show(f"error {kw!r}", lambda: psd_mesoporous(iso, **kw))
    show("positional", lambda: psd_mesoporous(iso, 'DH', 'cylinder', None, 'ads', 'Halsey', 'Kelvin', (0.2, 0.9), False))
    show("not an isotherm", lambda: psd_mesoporous("abc"))
    show("None isotherm", lambda: psd_mesoporous(None))
    show("ads-only isotherm, des", lambda: psd_mesoporous(isos['step ads only'], branch='des'))

    print("=" * 20, "dispatch table of the module is used at call time")
    calls = []
    orig = psd_meso.psd_bjh

    def spy(*args):
        calls.append([fmt(a) if not callable(a) else 'callable' for a in args])
        return orig(*args)

    psd_meso.psd_bjh = spy
    try:
        show("spied BJH", lambda: psd_mesoporous(iso, psd_model='BJH', branch='ads', p_limits=(0.3, 0.6)))
        show("spied DH", lambda: psd_mesoporous(iso, psd_model='DH', branch='ads', p_limits=(0.3, 0.6)))
    finally:
        psd_meso.psd_bjh = orig
    print("   calls:", calls)

    print("=" * 20, "result independence and input preservation")
    before = (iso.data_raw.to_dict(orient='list'), iso.to_dict())
    r1 = psd_mesoporous(iso, branch='ads')
    r2 = psd_mesoporous(iso, branch='ads')
    print("   distinct results:", r1 is not r2, all(r1[k] is not r2[k] for k in r1 if isinstance(r1[k], numpy.ndarray)))
    print("   types:", {k: type(v).__name__ for k, v in r1.items()})
    print("   limits types:", [type(v).__name__ for v in r1['limits']])
    print("   isotherm unchanged:", before == (iso.data_raw.to_dict(orient='list'), iso.to_dict()))
    print("   cumulative ends at:", fmt(r1['pore_volume_cumulative'][-1]))


if __name__ == '__main__':
    main()
