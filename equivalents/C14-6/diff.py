"""Differential script for change 2: limit selection in area_langmuir_raw and langmuir_fit."""
import logging
import warnings

import numpy

warnings.filterwarnings("ignore")

import pygaps
from pygaps.characterisation import area_lang as al

LOGS = []


class _H(logging.Handler):
    def emit(self, record):
        LOGS.append(f"{record.levelname}:{record.getMessage()}")


_lg = logging.getLogger('pygaps')
for h in list(_lg.handlers):
    _lg.removeHandler(h)
_lg.addHandler(_H())


def fmt(x):
    if isinstance(x, bool):
        return f"bool:{x}"
    if isinstance(x, (float, numpy.floating)):
        return f"{type(x).__name__}:{float(x):.12g}"
    if isinstance(x, (int, numpy.integer)):
        return f"{type(x).__name__}:{int(x)}"
    if isinstance(x, numpy.ndarray):
        return f"array[{x.dtype}]({','.join(fmt(v) for v in x.tolist())})"
    if isinstance(x, dict):
        return "{" + ", ".join(f"{k}={fmt(v)}" for k, v in sorted(x.items())) + "}"
    if isinstance(x, (tuple, list)):
        return type(x).__name__ + "(" + ", ".join(fmt(v) for v in x) + ")"
    return repr(x)


def run(label, func, *args, **kwargs):
    del LOGS[:]
    try:
        with numpy.errstate(all='ignore'):
            res = func(*args, **kwargs)
        out = fmt(res)
    except Exception as e:  # noqa
        out = f"EXC {type(e).__name__}: {e}"
    print(f"{label}: {out}")
    for l in LOGS:
        print(f"    log {l}")



rng = numpy.random.default_rng(142)
cases = []

grids = {
    "lin5": numpy.linspace(0.05, 0.5, 5),
    "lin20": numpy.linspace(0.01, 0.95, 20),
    "lin100": numpy.linspace(0.001, 0.99, 100),
    "log30": numpy.logspace(-5, -0.01, 30),
    "geom12": numpy.geomspace(1e-3, 0.6, 12),
    "rand40": numpy.sort(rng.uniform(1e-4, 0.98, 40)),
    "abs-kPa": numpy.linspace(1, 120, 25),
}
for gname, p in grids.items():
    for nm in (1e-4, 3.3e-3, 1e-1):
        for k in (0.5, 7.25, 60, 500):
            cases.append((f"lang[{gname},nm={nm},k={k}]", p, al.simple_lang(p, nm, k)))

for i in range(12):
    n = int(rng.integers(5, 60))
    p = numpy.sort(rng.uniform(1e-3, 0.99, n))
    l = al.simple_lang(p, 5e-3, 30) * (1 + 0.05 * rng.standard_normal(n))
    cases.append((f"noisy{i}", p, l))

p = numpy.linspace(0.05, 0.9, 10)
edge = [
    ("const-loading", p, numpy.full(10, 2.0)),
    ("decreasing-loading", p, numpy.linspace(5, 1, 10)),
    ("linear-loading", p, 3 * p),
    ("nan-inside", p, numpy.r_[1., 2., numpy.nan, 3., 4., 5., 5.5, 5.6, 5.7, 5.8]),
    ("zero-loading", p, numpy.zeros(10)),
    ("int-loading", p, numpy.arange(1, 11)),
    ("list-inputs", list(p), list(al.simple_lang(p, 1e-2, 100))),
    ("tuple-inputs", tuple(p), tuple(al.simple_lang(p, 1e-2, 100))),
    ("one-point", [0.1], [1.0]),
    ("two-points", [0.1, 0.2], [1.0, 2.0]),
    ("three-points", [0.1, 0.2, 0.3], [1.0, 1.2, 1.3]),
    ("four-points", [0.01, 0.2, 0.3, 0.4], [1.0, 1.2, 1.3, 1.35]),
    ("last-pressure-zero", numpy.array([-0.3, -0.2, -0.1, 0.0]), numpy.array([1., 2., 3., 4.])),
    ("all-zero-pressure", numpy.zeros(6), numpy.linspace(1, 2, 6)),
    ("negative-pressure", -p[::-1], numpy.linspace(1, 2, 10)),
    ("pressure-with-zero", numpy.linspace(0.0, 0.5, 12), numpy.linspace(0.1, 4, 12)),
    ("unsorted-pressure", numpy.array([0.3, 0.1, 0.2, 0.5, 0.4, 0.6, 0.05]),
     numpy.array([3., 1., 2., 5., 4., 6., 0.5])),
    ("last-nan-pressure", numpy.r_[p[:-1], numpy.nan], numpy.linspace(1, 2, 10)),
    ("empty", [], []),
    ("mismatch", [0.1, 0.2, 0.3], [1.0, 2.0]),
    ("float32", p.astype('float32'), al.simple_lang(p, 1e-2, 100).astype('float32')),
    ("int-pressure", numpy.arange(1, 21), al.simple_lang(numpy.arange(1, 21), 2., 0.3)),
]
cases += edge

limit_sets = [
    None,
    (None, None),
    (0.05, 0.35),
    [0.05, 0.35],
    numpy.array([0.05, 0.35]),
    (0, 0.3),
    (0.0, 0.0),
    (0.1, None),
    (None, 0.2),
    (0.2, 0.21),
    (0.5, 0.1),
    (2, 3),
    (False, True),
    (numpy.float64(0.1), numpy.float64(0.8)),
    (0.1,),
    (),
    (0.1, 0.8, 0.9),
    ("a", 0.5),
    {0: 0.1, 1: 0.8},
    0.5,
]

for label, p, l in cases:
    run(f"raw {label} auto", al.area_langmuir_raw, p, l, 0.162)
for label, p, l in cases[::6] + edge:
    for lim in limit_sets[1:]:
        run(f"raw {label} lim={lim!r}", al.area_langmuir_raw, p, l, 0.162, lim)

p = grids["lin20"]
for cs in (0.0, 0.142, 0.162, 0.21, 1.0, -1.0):
    run(f"raw cs={cs}", al.area_langmuir_raw, p, al.simple_lang(p, 2e-3, 120), cs)

# the fit helper on its own
for label, p, l in cases[::5]:
    p = numpy.asarray(p)
    l = numpy.asarray(l)
    if len(p) and len(p) == len(l):
        run(f"langmuir_fit {label}", al.langmuir_fit, p, al.langmuir_transform(p, l))
run("langmuir_fit identical-x", al.langmuir_fit, [1., 1., 1.], [1., 2., 3.])
run("langmuir_fit one-point", al.langmuir_fit, [1.], [1.])
run("langmuir_fit empty", al.langmuir_fit, [], [])
run("langmuir_fit mismatch", al.langmuir_fit, [1., 2.], [1.])
run("langmuir_fit lists", al.langmuir_fit, [1, 2, 3, 4], [2, 4.1, 5.9, 8])
run("langmuir_parameters", al.langmuir_parameters, 250., 3., 0.162)

for adsorbate, temp in (("N2", 77.355), ("Ar", 87.3), ("CO2", 273.15)):
    for gname in ("lin20", "log30", "geom12", "rand40"):
        p = grids[gname]
        for nm, k in ((1e-3, 100), (5e-2, 15)):
            iso = pygaps.PointIsotherm(
                pressure=p,
                loading=al.simple_lang(p, nm, k),
                material="syn",
                adsorbate=adsorbate,
                temperature=temp,
                pressure_mode="relative",
                loading_basis="molar",
                loading_unit="mol",
                material_basis="mass",
                material_unit="g",
            )
            for lim in (None, (0.05, 0.3), (None, 0.25), (0.3, 0.31), [0.2, None]):
                run(f"iso {adsorbate} {gname} nm={nm} k={k} lim={lim}", al.area_langmuir, iso, p_limits=lim)
    p = grids["lin20"]
    pp = numpy.r_[p, p[::-1][1:]]
    ll = numpy.r_[al.simple_lang(p, 1e-3, 100), al.simple_lang(p[::-1][1:], 1.2e-3, 100)]
    iso = pygaps.PointIsotherm(
        pressure=pp,
        loading=ll,
        material="syn",
        adsorbate=adsorbate,
        temperature=temp,
        pressure_mode="relative",
        loading_basis="molar",
        loading_unit="mol",
        material_basis="mass",
        material_unit="g",
    )
    for br in ("ads", "des"):
        run(f"iso {adsorbate} loop branch={br}", al.area_langmuir, iso, branch=br)

# model isotherm entry point
for k in (3., 40.):
    from pygaps.modelling import get_isotherm_model
    miso = pygaps.ModelIsotherm(
        model=get_isotherm_model(
            "Langmuir",
            parameters={"K": k, "n_m": 0.004},
            pressure_range=(0.01, 0.9),
            loading_range=(0, 0.004),
        ),
        material="syn",
        adsorbate="N2",
        temperature=77.355,
        pressure_mode="relative",
        loading_basis="molar",
        loading_unit="mol",
        material_basis="mass",
        material_unit="g",
    )
    for lim in (None, (0.1, 0.6)):
        run(f"model-iso K={k} lim={lim}", al.area_langmuir, miso, p_limits=lim)
