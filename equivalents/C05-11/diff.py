"""Differential transcript for C05-3 (PointIsotherm.__init__ column / branch handling)."""
import logging
import warnings

import numpy
import pandas

import pygaps

warnings.simplefilter("ignore")
LOG = logging.getLogger('pygaps')
for h in list(LOG.handlers):
    LOG.removeHandler(h)


class _H(logging.Handler):
    def emit(self, record):
        if record.levelno >= logging.WARNING:
            print("  LOG", record.levelname, record.getMessage())


LOG.addHandler(_H())


def show(label, fn):
    try:
        print(label, "->", repr(fn()))
    except BaseException as e:  # noqa
        print(label, "!!", type(e).__name__, str(e))


BASE = dict(
    material='carbon', adsorbate='N2', temperature=77, pressure_mode='absolute', pressure_unit='bar',
    material_basis='mass', material_unit='g', loading_basis='molar', loading_unit='mmol', temperature_unit='K'
)
P = [0.1, 0.2, 0.3, 0.5, 0.4, 0.25]
L = [1.0, 2.0, 3.0, 4.0, 3.5, 2.5]


def describe(iso):
    d = iso.data_raw
    return (
        list(vars(iso).keys()), iso.pressure_key, iso.loading_key, list(d.columns), list(map(str, d.dtypes)),
        list(d.index), d.values.tolist(), iso.iso_id, iso.other_keys if hasattr(iso, 'other_keys') else None,
        iso.l_interpolator, iso.p_interpolator, list(iso.to_dict().items())
    )


def mk(frame=None, check_frame=True, **kw):
    args = {**BASE, **kw}
    if frame is not None:
        before = frame.copy(deep=True)
        cols_before = list(frame.columns)
        args['isotherm_data'] = frame
    iso = pygaps.PointIsotherm(**args)
    out = describe(iso)
    if frame is not None and check_frame:
        # the caller's frame must be left alone
        out = out + (frame.equals(before), list(frame.columns) == cols_before, iso.data_raw is frame)
    return out


def df(**cols):
    return pandas.DataFrame(cols)


cases = {}
# --- DataFrame route
cases['df_basic'] = lambda: mk(df(p=P, l=L), pressure_key='p', loading_key='l')
cases['df_swapped_order'] = lambda: mk(df(l=L, p=P), pressure_key='p', loading_key='l')
cases['df_index'] = lambda: mk(pandas.DataFrame({'p': P, 'l': L}, index=list('abcdef')), pressure_key='p', loading_key='l')
cases['df_others'] = lambda: mk(df(z=[1] * 6, p=P, a=list('uvwxyz'), l=L, M=[0.5] * 6), pressure_key='p', loading_key='l')
cases['df_branch_first'] = lambda: mk(df(branch=[0, 0, 0, 0, 1, 1], z=[1] * 6, p=P, l=L), pressure_key='p', loading_key='l')
cases['df_branch_last'] = lambda: mk(df(p=P, l=L, z=[1] * 6, branch=[False] * 4 + [True] * 2), pressure_key='p', loading_key='l')
cases['df_branch_ignored_arg'] = lambda: mk(df(p=P, l=L, branch=[0] * 6), pressure_key='p', loading_key='l', branch='des')
cases['df_branch_bad_arg_ignored'] = lambda: mk(df(p=P, l=L, branch=[0] * 6), pressure_key='p', loading_key='l', branch='zzz')
cases['df_branch_str'] = lambda: mk(df(p=P, l=L, branch=list('aaaadd')), pressure_key='p', loading_key='l')
cases['df_branch_strnum'] = lambda: mk(df(p=P, l=L, branch=list('000011')), pressure_key='p', loading_key='l')
cases['df_branch_float'] = lambda: mk(df(p=P, l=L, branch=[0., 0, 0, 0, 1, 1]), pressure_key='p', loading_key='l')
cases['df_branch_nan'] = lambda: mk(df(p=P, l=L, branch=[0., 0, 0, None, 1, 1]), pressure_key='p', loading_key='l')
cases['df_branch_big'] = lambda: mk(df(p=P, l=L, branch=[0, 0, 0, 0, 1, 300]), pressure_key='p', loading_key='l')
cases['df_branch_none'] = lambda: mk(df(p=P, l=L, branch=[None] * 6), pressure_key='p', loading_key='l')
cases['df_ads'] = lambda: mk(df(p=P, l=L), pressure_key='p', loading_key='l', branch='ads')
cases['df_des'] = lambda: mk(df(p=P, l=L), pressure_key='p', loading_key='l', branch='des')
cases['df_list'] = lambda: mk(df(p=P, l=L), pressure_key='p', loading_key='l', branch=[True, False] * 3)
cases['df_no_keys'] = lambda: mk(df(p=P, l=L))
cases['df_no_pkey'] = lambda: mk(df(p=P, l=L), loading_key='l')
cases['df_no_lkey'] = lambda: mk(df(p=P, l=L), pressure_key='p')
cases['df_missing_p'] = lambda: mk(df(p=P, l=L), pressure_key='pp', loading_key='l')
cases['df_missing_l'] = lambda: mk(df(p=P, l=L), pressure_key='p', loading_key='ll')
cases['df_missing_both'] = lambda: mk(df(p=P, l=L), pressure_key='pp', loading_key='ll')
cases['df_missing_same'] = lambda: mk(df(p=P, l=L), pressure_key='q', loading_key='q')
cases['df_samekey'] = lambda: mk(df(p=P, l=L), pressure_key='p', loading_key='p')
cases['df_key_branch'] = lambda: mk(df(p=P, branch=L), pressure_key='p', loading_key='branch')
cases['df_key_int'] = lambda: mk(pandas.DataFrame({0: P, 1: L, 2: L}), pressure_key=0, loading_key=1)
cases['df_key_int_missing'] = lambda: mk(pandas.DataFrame({0: P, 1: L}), pressure_key=0, loading_key=7)
cases['df_key_mixed_sort'] = lambda: mk(pandas.DataFrame({'p': P, 'l': L, 3: L, 'x': L}), pressure_key='p', loading_key='l')
cases['df_key_unhashable'] = lambda: mk(df(p=P, l=L), pressure_key='p', loading_key=['l'])
cases['df_key_unhashable_first_missing'] = lambda: mk(df(p=P, l=L), pressure_key='zz', loading_key=['l'])
cases['df_key_unhashable_first'] = lambda: mk(df(p=P, l=L), pressure_key=['p'], loading_key='zz')
cases['df_key_tuple'] = lambda: mk(pandas.DataFrame({('a', 1): P, ('a', 2): L}), pressure_key=('a', 1), loading_key=('a', 2))
cases['df_key_nan'] = lambda: mk(pandas.DataFrame({numpy.nan: P, 'l': L}), pressure_key=numpy.nan, loading_key='l')
cases['df_dupcols'] = lambda: mk(pandas.DataFrame([[1, 2, 3], [2, 3, 4]], columns=['p', 'l', 'l']), pressure_key='p', loading_key='l')
cases['df_dupother'] = lambda: mk(pandas.DataFrame([[1, 2, 3, 5], [2, 3, 4, 5]], columns=['p', 'l', 'x', 'x']), pressure_key='p', loading_key='l')
cases['df_empty'] = lambda: mk(df(p=[], l=[]), pressure_key='p', loading_key='l')
cases['df_empty_nocols'] = lambda: mk(pandas.DataFrame(), pressure_key='p', loading_key='l')
cases['df_one'] = lambda: mk(df(p=[1], l=[2]), pressure_key='p', loading_key='l')
cases['df_ints'] = lambda: mk(df(p=[1, 2, 3], l=[4, 5, 6]), pressure_key='p', loading_key='l')
cases['df_strs'] = lambda: mk(df(p=['1', '2', '3'], l=[4, 5, 6]), pressure_key='p', loading_key='l')
cases['df_series'] = lambda: mk(pandas.Series(P, name='p'), check_frame=False, pressure_key='p', loading_key='l')
cases['df_dict'] = lambda: pygaps.PointIsotherm(isotherm_data={'p': P, 'l': L}, pressure_key='p', loading_key='l', **BASE)
cases['df_ndarray'] = lambda: pygaps.PointIsotherm(isotherm_data=numpy.array([P, L]), pressure_key='p', loading_key='l', **BASE)
cases['df_and_arrays'] = lambda: mk(df(p=P, l=L), pressure_key='p', loading_key='l', pressure=[9, 9], loading=[8])
cases['df_multiindex'] = lambda: mk(
    pandas.DataFrame([[1, 2, 3], [2, 3, 4]], columns=pandas.MultiIndex.from_tuples([('p', ''), ('l', ''), ('x', 'y')])),
    pressure_key=('p', ''), loading_key=('l', '')
)
# --- arrays route
cases['arr_lists'] = lambda: mk(pressure=P, loading=L)
cases['arr_numpy'] = lambda: mk(pressure=numpy.array(P), loading=numpy.array(L))
cases['arr_series'] = lambda: mk(pressure=pandas.Series(P, index=list('abcdef')), loading=pandas.Series(L, index=list('abcdef')))
cases['arr_series_misaligned'] = lambda: mk(pressure=pandas.Series(P), loading=pandas.Series(L, index=range(3, 9)))
cases['arr_tuple'] = lambda: mk(pressure=tuple(P), loading=tuple(L))
cases['arr_only_p'] = lambda: mk(pressure=P)
cases['arr_only_l'] = lambda: mk(loading=L)
cases['arr_len'] = lambda: mk(pressure=P, loading=L[:-1])
cases['arr_empty'] = lambda: mk(pressure=[], loading=[])
cases['arr_scalar'] = lambda: mk(pressure=1.0, loading=2.0)
cases['arr_keys_ignored'] = lambda: mk(pressure=P, loading=L, pressure_key='pp', loading_key='ll')
cases['arr_2d'] = lambda: mk(pressure=[[1, 2], [3, 4]], loading=[[1, 2], [3, 4]])
cases['nothing'] = lambda: mk()
cases['nothing_keys'] = lambda: mk(pressure_key='p', loading_key='l')
# --- branch argument
for b in ['guess', 'ads', 'des', 'adsorption', '', 'ADS', None, 0, 1, True, [0, 0, 0, 0, 1, 1], [False] * 6, (1, ) * 6,
          numpy.array([0, 1, 0, 1, 0, 1]), [0, 1], ['a'] * 6, [0.5] * 6, [2] * 6, ['0', '1'] * 3, [None] * 6, 'a' * 6,
          pandas.Series([1, 0, 1, 0, 1, 0]), pandas.Series([1, 0, 1, 0, 1, 0], index=list('abcdef')), {'a': 1}, 3.7, -1, 200]:
    cases[f'branch={b!r}'] = lambda b=b: mk(pressure=P, loading=L, branch=b)


class MyStr(str):
    pass


cases['branch=MyStr(des)'] = lambda: mk(pressure=P, loading=L, branch=MyStr('des'))
cases['branch=MyStr(ads)'] = lambda: mk(pressure=P, loading=L, branch=MyStr('ads'))
cases['branch=MyStr(guess)'] = lambda: mk(pressure=P, loading=L, branch=MyStr('guess'))
cases['branch=numpy.str_(des)'] = lambda: mk(pressure=P, loading=L, branch=numpy.str_('des'))

for name, fn in cases.items():
    show(f"case[{name}]", fn)

# --- same content by different routes has the same identity; from_isotherm / to_dict round trip
a = pygaps.PointIsotherm(pressure=P, loading=L, **BASE)
b = pygaps.PointIsotherm(isotherm_data=df(z=[1] * 6, l=L, p=P).drop(columns='z'), pressure_key='p', loading_key='l', **BASE)
c = pygaps.PointIsotherm(isotherm_data=a.data_raw, pressure_key='pressure', loading_key='loading', **BASE)
d = pygaps.PointIsotherm.from_isotherm(a, isotherm_data=a.data_raw, pressure_key='pressure', loading_key='loading')
e = pygaps.PointIsotherm.from_isotherm(a, pressure=P, loading=L)
print("routes", a.iso_id, a == b, a == c, a == d, a == e, c.data_raw is a.data_raw, list(c.data_raw.columns))
e1 = pygaps.PointIsotherm(isotherm_data=df(p=P, l=L, e=L, b=P), pressure_key='p', loading_key='l', **BASE)
e2 = pygaps.PointIsotherm(isotherm_data=df(b=P, e=L, l=L, p=P), pressure_key='p', loading_key='l', **BASE)
print("others", e1.iso_id, e1 == e2, list(e1.data_raw.columns), list(e2.data_raw.columns), e1.other_keys)
