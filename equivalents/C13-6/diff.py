"""Differential script for change 2: shared guard / ideal-mixing helpers, reverse_iast range check."""
import numpy

import _fixtures as fx
import pygaps.iast.pgiast as pgi

M = fx.models()
P = fx.points()
ch4, c2h6 = fx.real()
run = fx.run

mixes = [
    ("H1", "H2"), ("H1", "H2", "H3"), ("L1", "L2"), ("L1", "L2", "L3"), ("L1", "L2", "L3", "L4"),
    ("DS", "L2"), ("TS", "Q"), ("BET", "L1"), ("TA", "TO"), ("TO", "JS", "L3"), ("JS", "DS", "Q", "H1"),
    ("H1", "L2", "TO"),
]
xs = [
    [0.25, 0.25, 0.25, 0.25], [0.5, 0.25, 0.125, 0.125], [0.125, 0.125, 0.25, 0.5], [0.75, 0.125, 0.0625, 0.0625]
]


def cut(x, n):
    """First n-1 entries + remainder (binary fractions -> sums exactly to 1)."""
    x = list(x[:n - 1])
    return x + [1.0 - sum(x)]


for mix in mixes:
    isos = [M[k] for k in mix]
    n = len(isos)
    for x in xs:
        x = cut(x, n)
        for pt in (0.05, 1.0, 12.0):
            run(f"reverse {mix} {x} {pt}", pgi.reverse_iast, isos, x, pt)
    # forward on the same mixtures (helper shared)
    run(f"forward {mix}", pgi.iast_point, isos, [0.3, 1.5, 0.7, 2.0][:n])
    run(f"forward-v {mix}", pgi.iast_point, isos, [3.0, 0.1, 0.7, 0.01][:n], verbose=True)

# round trip forward -> reverse
for mix in (("L1", "L2"), ("DS", "TS", "Q"), ("L1", "L2", "L3", "L4")):
    isos = [M[k] for k in mix]
    n = len(isos)
    y = numpy.array(cut([0.5, 0.25, 0.125, 0.125], n))
    for pt in (0.5, 8.0):
        fx.LOG.records.clear()
        try:
            q = pgi.iast_point_fraction(isos, y, pt, warningoff=True)
            x = q / numpy.sum(q)
            x[-1] = 1.0 - numpy.sum(x[:-1])
            run(f"roundtrip {mix} {pt} x={fx.fmt(x)}", pgi.reverse_iast, isos, x, pt)
        except Exception as e:  # noqa
            print(f"roundtrip {mix} {pt} EXC {type(e).__name__} {e}")

# reverse with guesses, verbose, warnings
for g in ([0.5, 0.5], [0.9, 0.1], [0.01, 0.99], (0.3, 0.7), numpy.array([0.25, 0.75]), [1, 0], [0, 1], [0.5, 0.6],
          [0.3, 0.3, 0.4], [1.0], [], [[0.5, 0.5]], [1.5, -0.5], [-0.2, 1.2]):
    run(f"rguess {g!r}", pgi.reverse_iast, [M["L1"], M["L2"]], [0.25, 0.75], 2.0, gas_mole_fraction_guess=g)
    run(f"rguess pt {g!r}", pgi.reverse_iast, [P["P1"], P["P2"]], [0.25, 0.75], 2.0, gas_mole_fraction_guess=g)
run("reverse verbose", pgi.reverse_iast, [M["L1"], M["L2"], M["TO"]], [0.25, 0.25, 0.5], 2.0, verbose=True)
run("reverse narrow", pgi.reverse_iast, [M["LN"], M["L1"]], [0.5, 0.5], 5.0)
run("reverse narrow off", pgi.reverse_iast, [M["LN"], M["L1"]], [0.5, 0.5], 5.0, warningoff=True)
run("reverse narrow v", pgi.reverse_iast, [M["LN"], M["LN"]], [0.5, 0.5], 5.0, verbose=True)
run("reverse tuple", pgi.reverse_iast, (M["L1"], M["L2"]), (0.5, 0.5), 1)

# point isotherms
for x in ([0.5, 0.5], [0.125, 0.875], [0.9375, 0.0625]):
    for pt in (0.1, 2.0, 40.0, 400.0):
        run(f"reverse pts {x} {pt}", pgi.reverse_iast, [P["P1"], P["P2"]], x, pt)
        run(f"reverse real {x} {pt}", pgi.reverse_iast, [ch4, c2h6], x, pt)
        run(f"reverse ptmix {x} {pt}", pgi.reverse_iast, [M["L1"], P["P2"]], x, pt)
run("reverse pts3", pgi.reverse_iast, [P["P1"], P["P2"], P["P3"]], [0.5, 0.25, 0.25], 3.0, verbose=True)
run("reverse short", pgi.reverse_iast, [P["PS"], P["P2"]], [0.5, 0.5], 6.0)
run("reverse des", pgi.reverse_iast, [P["PD"], P["PD"]], [0.5, 0.5], 2.0, branch="des")
run("reverse des mix", pgi.reverse_iast, [P["PD"], P["P2"]], [0.5, 0.5], 2.0, branch="des")
run("reverse des model", pgi.reverse_iast, [M["LDES"], M["LDES"]], [0.5, 0.5], 2.0, branch="des")
run("reverse ads on des", pgi.reverse_iast, [M["LDES"], M["L1"]], [0.5, 0.5], 2.0)
run("forward des", pgi.iast_point, [P["PD"], P["PD"]], [1.0, 2.0], branch="des")
run("forward pts", pgi.iast_point, [P["P1"], P["P2"], P["P3"]], [1.0, 0.5, 3.0])
run("forward real", pgi.iast_point, [ch4, c2h6], [2.0, 3.0], verbose=True)

# guards, for both functions
for name, f, extra in (("fwd", pgi.iast_point, ()), ("rev", pgi.reverse_iast, (1.0, ))):
    run(f"{name} one iso", f, [M["L1"]], [1.0], *extra)
    run(f"{name} no iso", f, [], [], *extra)
    run(f"{name} size mismatch", f, [M["L1"], M["L2"]], [1.0], *extra)
    run(f"{name} size mismatch 3", f, [M["L1"], M["L2"]], [0.25, 0.25, 0.5], *extra)
    run(f"{name} virial", f, [M["VIR"], M["L2"]], [0.5, 0.5], *extra)
    run(f"{name} virial single", f, [M["VIR"]], [1.0], *extra)
    run(f"{name} freundlich", f, [M["L1"], M["FR"]], [0.5, 0.5], *extra)
    run(f"{name} freundlich+relative", f, [M["LREL"], M["FR"]], [0.5, 0.5], *extra)
    run(f"{name} relative", f, [M["L1"], M["LREL"]], [0.5, 0.5], *extra)
    run(f"{name} relative single", f, [M["LREL"]], [0.5], *extra)
    run(f"{name} generator", f, (m for m in [M["L1"], M["L2"]]), [0.5, 0.5], *extra)
    run(f"{name} not isotherms", f, [1, 2], [0.5, 0.5], *extra)
    run(f"{name} None", f, None, [0.5, 0.5], *extra)
    run(f"{name} 2d", f, [M["L1"], M["L2"]], [[0.5, 0.5]], *extra)
    run(f"{name} nan", f, [M["L1"], M["L2"]], [numpy.nan, 0.5], *extra)
    run(f"{name} zero", f, [M["L1"], M["L2"]], [0.0, 1.0], *extra)
    run(f"{name} negative", f, [M["L1"], M["L2"]], [-0.5, 1.5], *extra)
run("rev not unity", pgi.reverse_iast, [M["L1"], M["L2"]], [0.5, 0.6], 1.0)
run("rev 0.1*3+0.7", pgi.reverse_iast, [M["L1"], M["L2"], M["L3"], M["L4"]], [0.1, 0.1, 0.1, 0.7], 1.0)
run("rev zero pressure", pgi.reverse_iast, [M["L1"], M["L2"]], [0.5, 0.5], 0.0)
run("rev negative pressure", pgi.reverse_iast, [M["L1"], M["L2"]], [0.5, 0.5], -1.0)
run("rev nan pressure", pgi.reverse_iast, [M["L1"], M["L2"]], [0.5, 0.5], numpy.nan)
